package main

// C04 — every call gets exactly one answer — its own — and runs its method exactly once.
// A real bus server (harness-owned listener, bus.Yes authenticator) carrying generated stubs:
// service 1 and 3 = examples/pong PingPong (Hello(string) string: action 100, Ping(string): 101),
// service 2 = examples/clock Timestamp (Nanoseconds() int64: action 100, no parameters).
// The implementations count executions per argument and can be held inside a call.
//  (i)   raw frames of all eight types aimed at every kind of target on a harness connection
//  (ii)  N goroutines x M calls through real bus clients over 1-3 connections, payload = (client,
//        goroutine, index), result = "re:" arg "#" exec-count, with Posts and cancellations mixed in
//  (iii) crossing replies: the implementation holds call A while call B (other object) is answered;
//        the harness relay holds reply A while reply B overtakes it
//  (vii) mixed sizes: the runs of (ii) with argument and result payloads from a few bytes to several
//        hundred KiB in the same run, over a byte relay (the real readers see the very bytes the real
//        writers produced; a tap gives the trace) and over net.Pipe, a unix socket and a TCP socket
//  (viii) calls issued while the connection is being torn down (c04teardown.go)
//  (ix)  calls pipelined to one object whose method adds/removes objects of its own service (c04factory.go)
//  (x)   statistics and traces of the objects switched on and off while several connections call them
//        in turn and at once, with the same message ids (c04features.go)

import (
	"bytes"
	"crypto/sha256"
	"encoding/binary"
	"errors"
	"fmt"
	"io"
	"log"
	gonet "net"
	"os"
	"path/filepath"
	"strings"
	"sync"
	"time"

	"github.com/lugu/qiloop/bus"
	"github.com/lugu/qiloop/bus/net"
	"github.com/lugu/qiloop/examples/clock"
	"github.com/lugu/qiloop/examples/pong"
	"github.com/lugu/qiloop/type/value"
	"qv/internal/hx"
)

func init() { props["C04"] = runC04 }

const c04Deadline = 5 * time.Second

// ---------- service implementations ----------

type c04Counters struct {
	mu    sync.Mutex
	execs map[string]int
	// hold: the first execution for this key blocks until release is closed
	holdKey string
	held    chan struct{}
	release chan struct{}
}

func (c *c04Counters) run(key string) int {
	c.mu.Lock()
	c.execs[key]++
	n := c.execs[key]
	var rel chan struct{}
	if c.holdKey != "" && c.holdKey == key && n == 1 {
		rel = c.release
		close(c.held)
	}
	c.mu.Unlock()
	if rel != nil {
		select {
		case <-rel:
		case <-time.After(20 * time.Second):
		}
	}
	return n
}
func (c *c04Counters) get(key string) int { c.mu.Lock(); defer c.mu.Unlock(); return c.execs[key] }
func (c *c04Counters) hold(key string) (held <-chan struct{}, release func()) {
	c.mu.Lock()
	c.holdKey, c.held, c.release = key, make(chan struct{}), make(chan struct{})
	h, r := c.held, c.release
	c.mu.Unlock()
	var once sync.Once
	return h, func() { once.Do(func() { close(r) }) }
}

// c04Key: the execution counter of a method for an argument; long arguments (the mixed-size runs)
// are represented by their first bytes, length and digest
func c04Key(svc int, method, a string) string {
	if len(a) <= 1024 {
		return fmt.Sprintf("s%d:%s:%s", svc, method, a)
	}
	return fmt.Sprintf("s%d:%s:%s...%d:%x", svc, method, a[:48], len(a), sha256.Sum256([]byte(a)))
}

type c04Pong struct {
	svc int
	cnt *c04Counters
}

func (p *c04Pong) Activate(a bus.Activation, h pong.PingPongSignalHelper) error { return nil }
func (p *c04Pong) OnTerminate()                                                 {}
func (p *c04Pong) Hello(a string) (string, error) {
	n := p.cnt.run(c04Key(p.svc, "hello", a))
	if strings.HasPrefix(a, "ERR") {
		return "", errors.New("refused by the method")
	}
	return fmt.Sprintf("re:%s#%d", a, n), nil
}
func (p *c04Pong) Ping(a string) error {
	p.cnt.run(c04Key(p.svc, "ping", a))
	return nil
}

type c04Clock struct{ cnt *c04Counters }

func (c *c04Clock) Activate(a bus.Activation, h clock.TimestampSignalHelper) error { return nil }
func (c *c04Clock) OnTerminate()                                                   {}
func (c *c04Clock) Nanoseconds() (int64, error) {
	c.cnt.run("s2:nanoseconds")
	return 42, nil
}

// ---------- harness ----------

type c04Harness struct {
	srv   bus.Server
	lis   *ahListener
	cnt   *c04Counters
	local bus.Client
	nconn int
	notes []string
}

func newC04Harness() (*c04Harness, error) {
	h := &c04Harness{lis: newAhListener(), cnt: &c04Counters{execs: map[string]int{}}}
	srv, err := bus.StandAloneServer(h.lis, bus.Yes{}, bus.PrivateNamespace())
	if err != nil {
		return nil, err
	}
	h.srv = srv
	objs := []bus.Actor{pong.PingPongObject(&c04Pong{1, h.cnt}), clock.TimestampObject(&c04Clock{h.cnt}), pong.PingPongObject(&c04Pong{3, h.cnt})}
	for i, o := range objs {
		s, err := srv.NewService(fmt.Sprintf("c04svc%d", i+1), o)
		if err != nil {
			return nil, err
		}
		if s.ServiceID() != uint32(i+1) {
			return nil, fmt.Errorf("service id %d, want %d", s.ServiceID(), i+1)
		}
	}
	h.local = srv.Client()
	return h, nil
}

func (h *c04Harness) note(s string) {
	if len(h.notes) < 20 {
		h.notes = append(h.notes, s)
	}
}

func c04Str(s string) []byte {
	b := make([]byte, 4, 4+len(s))
	binary.LittleEndian.PutUint32(b, uint32(len(s)))
	return append(b, s...)
}

// flush the mailboxes of the three probe objects (calls through the server's own local client)
func (h *c04Harness) flushMailboxes() (nanosSyncs int) {
	done := make(chan struct{}, 3)
	go func() { h.local.Call(nil, 1, 1, 101, c04Str("sync")); done <- struct{}{} }()
	go func() { h.local.Call(nil, 2, 1, 100, nil); done <- struct{}{} }()
	go func() { h.local.Call(nil, 3, 1, 101, c04Str("sync")); done <- struct{}{} }()
	for i := 0; i < 3; i++ {
		select {
		case <-done:
		case <-time.After(c04Deadline):
			h.note("mailbox flush timed out")
		}
	}
	return 1
}

// a raw harness connection, already authenticated
type c04Raw struct {
	s    *ahStream
	mu   sync.Mutex
	got  []*net.Message
	sig  chan struct{}
	shut bool
}

func (h *c04Harness) newRaw() (*c04Raw, error) {
	h.nconn++
	r := &c04Raw{s: newAhStream(fmt.Sprintf("c04raw%d", h.nconn)), sig: make(chan struct{}, 1)}
	r.s.onFrame = func(m *net.Message) {
		r.mu.Lock()
		r.got = append(r.got, m)
		r.mu.Unlock()
		select {
		case r.sig <- struct{}{}:
		default:
		}
	}
	r.s.onClose = func() { r.mu.Lock(); r.shut = true; r.mu.Unlock() }
	if err := h.lis.Offer(r.s, c04Deadline); err != nil {
		return nil, err
	}
	r.s.Inject(ahEncode(net.Call, 0, 0, 8, 1, []byte{0, 0, 0, 0}))
	if !r.wait(func(ms []*net.Message) bool { return len(ms) > 0 }) {
		return nil, errors.New("raw connection: no answer to authenticate")
	}
	r.take()
	return r, nil
}
func (r *c04Raw) wait(p func([]*net.Message) bool) bool {
	deadline := time.Now().Add(c04Deadline)
	for {
		r.mu.Lock()
		ok := p(r.got) || r.shut
		r.mu.Unlock()
		if ok {
			return true
		}
		if time.Now().After(deadline) {
			return false
		}
		select {
		case <-r.sig:
		case <-time.After(200 * time.Microsecond):
		}
	}
}
func (r *c04Raw) take() []*net.Message {
	r.mu.Lock()
	defer r.mu.Unlock()
	g := r.got
	r.got = nil
	return g
}

// barrier: a Call to service 0 / object 0x7777 is answered by the connection goroutine itself
func (r *c04Raw) barrier(id uint32) bool {
	r.s.Inject(ahEncode(net.Call, 0, c06BarrierObj, 0, id, nil))
	return r.wait(func(ms []*net.Message) bool {
		for _, m := range ms {
			if m.Header.Service == 0 && m.Header.Object == c06BarrierObj && m.Header.ID == id {
				return true
			}
		}
		return false
	})
}

type c04RawCase struct {
	ty                uint8
	svc, obj, act, id uint32
	payload           []byte
	countKey          string // key of the execution counter this frame would bump
	desc              string
}

type c04RawObs struct {
	exec int
	back []*net.Message
}

func (h *c04Harness) runRaw(r *c04Raw, c c04RawCase) c04RawObs {
	before := h.cnt.get(c.countKey)
	r.take()
	r.s.Inject(ahEncode(c.ty, c.svc, c.obj, c.act, c.id, c.payload))
	if !r.barrier(0x70000000 | c.id) {
		h.note("raw barrier timed out: " + c.desc)
	}
	sync := 0
	h.flushMailboxes()
	if c.countKey == "s2:nanoseconds" {
		sync = 1
	}
	var back []*net.Message
	for _, m := range r.take() {
		if m.Header.Service == 0 && m.Header.Object == c06BarrierObj {
			continue
		}
		back = append(back, m)
	}
	return c04RawObs{exec: h.cnt.get(c.countKey) - before - sync, back: back}
}

func c04HdrList(ty uint8, svc, obj, act, id uint32) string {
	return hx.NList([]uint64{uint64(ty), uint64(svc), uint64(obj), uint64(act), uint64(id)})
}

func c04RawTerm(c c04RawCase, o c04RawObs) string {
	var back []string
	for _, m := range o.back {
		p := []byte(nil)
		if m.Header.Type == net.Reply {
			p = m.Payload
		}
		back = append(back, fmt.Sprintf("(%s, %s)", c04HdrList(m.Header.Type, m.Header.Service, m.Header.Object, m.Header.Action, m.Header.ID), hx.Hex(p)))
	}
	return fmt.Sprintf("{| rc_hdr := %s; rc_payload := %s; rc_exec := %s; rc_back := %s |}",
		c04HdrList(c.ty, c.svc, c.obj, c.act, c.id), hx.Hex(c.payload), hx.N(uint64(o.exec)), hx.List(back))
}

var c04TypeNames = []string{"?", "Call", "Reply", "Error", "Post", "Event", "Capability", "Cancel", "Cancelled"}

func c04RawDesc(c c04RawCase) string {
	return fmt.Sprintf("%s frame (type %d) to service %d object %d action %d id %d payload %x [%s]", c04TypeNames[c.ty], c.ty, c.svc, c.obj, c.act, c.id, c.payload, c.desc)
}

// the C04 oracle for one raw frame, on what the implementation did
func c04RawOracle(c c04RawCase, o c04RawObs) (kind, detail, known string) {
	d := c04RawDesc(c)
	isMethod := (c.svc == 1 || c.svc == 3 || c.svc == 2) && c.obj == 1
	switch c.ty {
	case net.Call:
		if o.exec > 1 {
			return "call-ran-more-than-once", fmt.Sprintf("%s: the method body ran %d times", d, o.exec), ""
		}
		answers := 0
		for _, m := range o.back {
			if m.Header.ID == c.id && m.Header.Service == c.svc && m.Header.Object == c.obj && m.Header.Action == c.act {
				answers++
			}
		}
		if answers != 1 {
			return "call-answer-count", fmt.Sprintf("%s: %d answers", d, answers), ""
		}
	case net.Post:
		if o.exec > 1 {
			return "post-ran-more-than-once", fmt.Sprintf("%s: the method body ran %d times", d, o.exec), ""
		}
		if len(o.back) != 0 {
			// the known defect: a Post that cannot be served (no such service/object/action, or
			// arguments that cannot be decoded) gets an Error frame.  Anything else sent back for a
			// Post is not that defect.
			servable := c.countKey != "none" && !strings.Contains(c.desc, "undecodable")
			known := ""
			if !servable && len(o.back) == 1 && o.back[0].Header.Type == net.Error {
				known = "post_answered"
			}
			return "post-answered", fmt.Sprintf("%s: the server sent %d frame(s) back (first: type %d)", d, len(o.back), o.back[0].Header.Type), known
		}
	default:
		if o.exec != 0 && isMethod {
			return "noncall-ran-method", fmt.Sprintf("%s: the method body ran %d time(s) and %d frame(s) came back", d, o.exec, len(o.back)), "noncall_runs"
		}
	}
	return "", "", ""
}

func c04GenRaw(rng *hx.Rng, k int) c04RawCase {
	ty := uint8(1 + rng.Intn(8))
	if rng.Chance(0.35) {
		ty = []uint8{net.Call, net.Post}[rng.Intn(2)]
	}
	id := uint32(0x1000 + 2*k)
	arg := fmt.Sprintf("r%d", k)
	c := c04RawCase{ty: ty, id: id, obj: 1}
	switch rng.Intn(12) {
	case 0, 1, 2:
		c.svc, c.act, c.payload, c.desc = uint32(rng.Pick(1, 3)), 100, c04Str(arg), "Hello, valid argument"
		c.countKey = fmt.Sprintf("s%d:hello:%s", c.svc, arg)
	case 3:
		c.svc, c.act, c.desc = uint32(rng.Pick(1, 3)), 100, "Hello, undecodable argument"
		c.payload = [][]byte{nil, {1}, {5, 0, 0, 0, 'a'}, {0xff, 0xff, 0xff, 0xff}}[rng.Intn(4)]
		c.countKey = fmt.Sprintf("s%d:hello:", c.svc)
	case 4:
		c.svc, c.act, c.payload, c.desc = uint32(rng.Pick(1, 3)), 100, append(c04Str(arg), rng.Bytes(1+rng.Intn(4))...), "Hello, trailing bytes"
		c.countKey = fmt.Sprintf("s%d:hello:%s", c.svc, arg)
	case 5:
		arg = "ERR" + arg
		c.svc, c.act, c.payload, c.desc = uint32(rng.Pick(1, 3)), 100, c04Str(arg), "Hello, method returns an error"
		c.countKey = fmt.Sprintf("s%d:hello:%s", c.svc, arg)
	case 6:
		c.svc, c.act, c.payload, c.desc = uint32(rng.Pick(1, 3)), 101, c04Str(arg), "Ping"
		c.countKey = fmt.Sprintf("s%d:ping:%s", c.svc, arg)
	case 7:
		c.svc, c.act, c.desc = 2, 100, "Nanoseconds (no parameters)"
		if rng.Bool() {
			c.payload = rng.Bytes(rng.Intn(5))
		}
		c.countKey = "s2:nanoseconds"
	case 8:
		c.svc, c.act, c.payload, c.desc = uint32(rng.Pick(1, 2, 3)), uint32(rng.Pick(99, 102, 999, 0x7fffffff)), c04Str(arg), "unknown action"
		c.countKey = "none"
	case 9:
		c.svc, c.obj, c.act, c.payload, c.desc = uint32(rng.Pick(1, 2, 3)), uint32(rng.Pick(0, 2, 77)), 100, c04Str(arg), "unknown object"
		c.countKey = "none"
	case 10:
		c.svc, c.act, c.payload, c.desc = uint32(rng.Pick(4, 9, 0xffffffff)), 100, c04Str(arg), "unknown service"
		c.countKey = "none"
	default:
		arg = strings.Repeat("z", 1+rng.Intn(300)) + arg
		c.svc, c.act, c.payload, c.desc = 1, 100, c04Str(arg), "Hello, long argument"
		c.countKey = "s1:hello:" + arg
	}
	return c
}

// ---------- real clients over a relay ----------

type c04Frame struct {
	ty                uint8
	svc, obj, act, id uint32
	payload           []byte
}

type c04Link struct {
	name     string
	cs, ss   *ahStream
	mu       sync.Mutex
	c2s, s2c []c04Frame
	// holdID: the server's answer with this id is kept back until release
	holdID  uint32
	holdSvc uint32 // 0: any service
	holdAct uint32 // 0: any action
	holdOn  bool
	heldMsg []byte
	heldSig chan struct{}
	ep      net.EndPoint
	client  bus.Client
	// kind: "frames" (frame relay, can hold an answer back), "bytes" (byte relay with a tap),
	// "pipe" / "unix" / "tcp" (a connection of the Go runtime or the kernel; of the frames coming
	// back only the headers are seen, through a filter that matches nothing)
	kind       string
	tapC, tapS []byte
	tapBroken  bool
	closers    []func()
}

func c04Bytes(m *net.Message) []byte {
	var b bytes.Buffer
	m.Write(&b)
	return b.Bytes()
}

func (h *c04Harness) newLink() (*c04Link, error) {
	h.nconn++
	l := &c04Link{name: fmt.Sprintf("c04link%d", h.nconn), heldSig: make(chan struct{}, 1)}
	l.cs, l.ss = newAhStream(l.name+"-client"), newAhStream(l.name+"-server")
	l.cs.onFrame = func(m *net.Message) {
		l.mu.Lock()
		l.c2s = append(l.c2s, c04Frame{m.Header.Type, m.Header.Service, m.Header.Object, m.Header.Action, m.Header.ID, m.Payload})
		l.mu.Unlock()
		l.ss.Inject(c04Bytes(m))
	}
	l.ss.onFrame = func(m *net.Message) {
		l.mu.Lock()
		l.s2c = append(l.s2c, c04Frame{m.Header.Type, m.Header.Service, m.Header.Object, m.Header.Action, m.Header.ID, m.Payload})
		if l.holdOn && m.Header.ID == l.holdID && l.heldMsg == nil &&
			(l.holdSvc == 0 || m.Header.Service == l.holdSvc) && (l.holdAct == 0 || m.Header.Action == l.holdAct) {
			l.heldMsg = c04Bytes(m)
			l.mu.Unlock()
			select {
			case l.heldSig <- struct{}{}:
			default:
			}
			return
		}
		l.mu.Unlock()
		l.cs.Inject(c04Bytes(m))
	}
	l.cs.onClose = func() { l.ss.PeerClose() }
	l.ss.onClose = func() { l.cs.PeerClose() }
	if err := h.lis.Offer(l.ss, c04Deadline); err != nil {
		return nil, err
	}
	l.ep = net.NewEndPoint(l.cs)
	if err := bus.AuthenticateUser(l.ep, "", ""); err != nil {
		return nil, fmt.Errorf("authenticate over the relay: %v", err)
	}
	l.client = bus.NewClient(bus.NewChannel(l.ep, bus.DefaultCap()))
	l.mu.Lock()
	l.c2s, l.s2c = nil, nil // the authentication exchange is not part of the trace
	l.mu.Unlock()
	return l, nil
}

func (l *c04Link) releaseHeld() {
	l.mu.Lock()
	b := l.heldMsg
	l.heldMsg, l.holdOn, l.holdSvc, l.holdAct = nil, false, 0, 0
	l.mu.Unlock()
	if b != nil {
		l.cs.Inject(b)
	}
}

func c04DecodeStr(p []byte) (string, bool) {
	if len(p) < 4 {
		return "", false
	}
	n := int(binary.LittleEndian.Uint32(p))
	if len(p) < 4+n {
		return "", false
	}
	return string(p[4 : 4+n]), true
}

func c04TraceTerm(l *c04Link) string {
	l.mu.Lock()
	defer l.mu.Unlock()
	f := func(fs []c04Frame) string {
		var it []string
		for _, x := range fs {
			p := x.payload
			if x.ty == net.Error || x.ty == net.Event || (x.ty == net.Reply && x.act == 82) {
				p = nil // not compared: error texts, trace events (part x), the statistics map
			}
			it = append(it, fmt.Sprintf("(%s, %s)", c04HdrList(x.ty, x.svc, x.obj, x.act, x.id), c04Z(p)))
		}
		return hx.List(it)
	}
	return fmt.Sprintf("{| tc_c2s := %s; tc_s2c := %s |}", f(l.c2s), f(l.s2c))
}

// c04Z: a payload as the run-length compressed term of C04Run.zpay: segments (hex text, byte,
// count) = the bytes of the hex text followed by count copies of byte.
func c04Z(p []byte) string {
	const minRun = 48
	var segs []string
	lit := 0
	for i := 0; i < len(p); {
		j := i
		for j < len(p) && p[j] == p[i] {
			j++
		}
		if j-i >= minRun {
			segs = append(segs, fmt.Sprintf("(%s, %s, %s)", hx.Hex(p[lit:i]), hx.N(uint64(p[i])), hx.N(uint64(j-i))))
			lit = j
		}
		i = j
	}
	if lit < len(p) || len(segs) == 0 {
		segs = append(segs, fmt.Sprintf("(%s, %s, %s)", hx.Hex(p[lit:]), hx.N(0), hx.N(0)))
	}
	return hx.List(segs)
}

// c04Abbrev: a long argument in a description: runs of one character are written <'z' x 300000>
func c04Abbrev(a string) string {
	if len(a) < 64 {
		return a
	}
	var b strings.Builder
	for i := 0; i < len(a); {
		j := i
		for j < len(a) && a[j] == a[i] {
			j++
		}
		if j-i >= 32 {
			fmt.Fprintf(&b, "<%q x %d>", a[i], j-i)
		} else {
			b.WriteString(a[i:j])
		}
		i = j
	}
	if b.Len() > 300 {
		return fmt.Sprintf("%s...(%d bytes)", b.String()[:300], len(a))
	}
	return b.String()
}

// tap: frames parsed from a copy of the bytes one side wrote (l.mu held)
func (l *c04Link) tap(buf *[]byte, b []byte, dst *[]c04Frame) {
	if l.tapBroken {
		return
	}
	*buf = append(*buf, b...)
	for len(*buf) >= net.HeaderSize {
		size := int(binary.LittleEndian.Uint32((*buf)[8:12]))
		if binary.BigEndian.Uint32((*buf)[0:4]) != net.Magic || uint32(size) > net.MaxPayloadSize {
			l.tapBroken = true // not a frame boundary: the byte stream lost its framing
			return
		}
		if len(*buf) < net.HeaderSize+size {
			return
		}
		m := new(net.Message)
		if err := m.Read(bytes.NewReader((*buf)[:net.HeaderSize+size])); err != nil {
			l.tapBroken = true
			return
		}
		*dst = append(*dst, c04Frame{m.Header.Type, m.Header.Service, m.Header.Object, m.Header.Action, m.Header.ID, m.Payload})
		*buf = append([]byte(nil), (*buf)[net.HeaderSize+size:]...)
	}
}

// newByteLink: client and server joined by a byte relay: every Write of either side is handed, as
// it is and in the order the writes happened, to the reader of the other side, so the real
// readers parse what the real writers produced (a frame sent in several writes stays in several
// pieces, with whatever another goroutine wrote in between).  The trace is parsed from a copy.
func (h *c04Harness) newByteLink() (*c04Link, error) {
	h.nconn++
	l := &c04Link{name: fmt.Sprintf("c04bytes%d", h.nconn), kind: "bytes", heldSig: make(chan struct{}, 1)}
	l.cs, l.ss = newAhStream(l.name+"-client"), newAhStream(l.name+"-server")
	l.cs.onBytes = func(b []byte) {
		l.mu.Lock()
		l.tap(&l.tapC, b, &l.c2s)
		l.ss.Inject(b)
		l.mu.Unlock()
	}
	l.ss.onBytes = func(b []byte) {
		l.mu.Lock()
		l.tap(&l.tapS, b, &l.s2c)
		l.cs.Inject(b)
		l.mu.Unlock()
	}
	l.cs.onClose = func() { l.ss.PeerClose() }
	l.ss.onClose = func() { l.cs.PeerClose() }
	if err := h.lis.Offer(l.ss, c04Deadline); err != nil {
		return nil, err
	}
	l.ep = net.NewEndPoint(l.cs)
	if err := bus.AuthenticateUser(l.ep, "", ""); err != nil {
		return nil, fmt.Errorf("authenticate over the byte relay: %v", err)
	}
	l.client = bus.NewClient(bus.NewChannel(l.ep, bus.DefaultCap()))
	l.mu.Lock()
	l.c2s, l.s2c = nil, nil
	l.mu.Unlock()
	return l, nil
}

// c04Paced: a stream whose writer pauses after every Write (any other goroutine may run between
// two Writes of one goroutine; on a socket the gap is otherwise a few hundred nanoseconds wide)
type c04Paced struct{ net.Stream }

func (y c04Paced) Write(p []byte) (int, error) {
	n, err := y.Stream.Write(p)
	time.Sleep(30 * time.Microsecond)
	return n, err
}

// newConnLink: client and server joined by net.Pipe of the Go runtime ("pipe"), a unix socket
// ("unix") or a TCP socket on the loopback interface ("tcp"); the server side is handed to the
// server through the harness listener.  No relay: of the frames coming back the harness sees the
// headers only (a filter on the client endpoint that records and matches nothing).
func (h *c04Harness) newConnLink(kind, dir string) (*c04Link, error) {
	h.nconn++
	l := &c04Link{name: fmt.Sprintf("c04%s%d", kind, h.nconn), kind: kind, heldSig: make(chan struct{}, 1)}
	var cconn, sconn gonet.Conn
	switch kind {
	case "pipe":
		cconn, sconn = gonet.Pipe()
	case "unix", "tcp":
		network, addr := "tcp", "127.0.0.1:0"
		if kind == "unix" {
			network, addr = "unix", sockPath(dir, l.name+".sock")
		}
		lis, err := gonet.Listen(network, addr)
		if err != nil {
			return nil, err
		}
		defer lis.Close()
		type acc struct {
			c   gonet.Conn
			err error
		}
		ch := make(chan acc, 1)
		go func() { c, e := lis.Accept(); ch <- acc{c, e} }()
		c, err := gonet.DialTimeout(network, lis.Addr().String(), c04Deadline)
		if err != nil {
			return nil, err
		}
		select {
		case a := <-ch:
			if a.err != nil {
				c.Close()
				return nil, a.err
			}
			cconn, sconn = c, a.c
		case <-time.After(c04Deadline):
			c.Close()
			return nil, errors.New("accept timed out")
		}
		if kind == "unix" {
			p := addr
			l.closers = append(l.closers, func() { os.Remove(p); os.Remove(filepath.Dir(p)) })
		}
	default:
		return nil, errors.New("unknown transport " + kind)
	}
	if err := h.lis.Offer(c04Paced{net.ConnStream(sconn)}, c04Deadline); err != nil {
		cconn.Close()
		sconn.Close()
		return nil, err
	}
	sink := make(chan *net.Message, 1)
	l.ep = net.EndPointFinalizer(c04Paced{net.ConnStream(cconn)}, func(e net.EndPoint) {
		e.MakeHandler(func(hdr *net.Header) (bool, bool) {
			l.mu.Lock()
			l.s2c = append(l.s2c, c04Frame{hdr.Type, hdr.Service, hdr.Object, hdr.Action, hdr.ID, nil})
			l.mu.Unlock()
			return false, true
		}, sink, nil)
	})
	if err := bus.AuthenticateUser(l.ep, "", ""); err != nil {
		l.ep.Close()
		return nil, fmt.Errorf("authenticate over %s: %v", kind, err)
	}
	l.client = bus.NewClient(bus.NewChannel(l.ep, bus.DefaultCap()))
	l.mu.Lock()
	l.s2c = nil
	l.mu.Unlock()
	return l, nil
}

// drain: everything this connection's client wrote has been handled by the connection goroutine
// of the server, and everything the server wrote so far has been dispatched by the client
func (l *c04Link) drain() {
	if l.cs != nil {
		l.cs.WaitIdle(c04Deadline)
		l.ss.WaitIdle(c04Deadline)
		return
	}
	// no relay to ask: a call to each probe object travels behind everything written before
	for _, svc := range []uint32{1, 3} {
		done := make(chan struct{})
		go func(svc uint32) { l.client.Call(nil, svc, 1, 101, c04Str("sync")); close(done) }(svc)
		select {
		case <-done:
		case <-time.After(c04Deadline):
		}
	}
}

func (l *c04Link) close() {
	l.ep.Close()
	for _, f := range l.closers {
		f()
	}
}

// c04PadSize: how many bytes an argument is padded with in the mixed-size runs: a few bytes,
// log-uniform up to 64 KiB, a few bytes around a power of two between 4 KiB and 256 KiB (where a
// size-dependent path would switch), or large (64 KiB to several hundred KiB)
func c04PadSize(r *hx.Rng) int {
	switch x := r.Intn(100); {
	case x < 30:
		return r.Intn(40)
	case x < 50:
		return 1 << uint(r.Intn(17)) + r.Intn(64)
	case x < 62:
		return (1 << uint(12+r.Intn(7))) - 60 + r.Intn(80)
	case x < 95:
		return 64*1024 + r.Intn(192*1024)
	default:
		return 256*1024 + r.Intn(384*1024)
	}
}

type c04CallResult struct {
	arg     string
	svc     uint32
	act     uint32
	out     string
	err     error
	cancel  bool
	returns int
	li      int    // index of the connection
	raw     []byte // the returned payload when it is not an encoded string
}

func c04Result(li int, arg string, svc uint32, out []byte, err error, cancel bool) c04CallResult {
	s, ok := c04DecodeStr(out)
	r := c04CallResult{arg: arg, svc: svc, act: 100, out: s, err: err, cancel: cancel, returns: 1, li: li}
	if err == nil && !ok {
		r.raw = append([]byte{}, out...)
	}
	return r
}

// stress: goroutines x calls over the links; returns oracle failures
// pad (nil: none): how many bytes the argument of each call and Post is padded with
// Returns false when some call did not return within the deadline.
func (h *c04Harness) stress(res *hx.Result, rng *hx.Rng, links []*c04Link, ngor, ncalls int, tag string, pad func(*hx.Rng) int) (allReturned bool) {
	var wg sync.WaitGroup
	var mu sync.Mutex
	var results []c04CallResult
	posted := map[string]uint32{}
	seed := rng.U64()
	for li, l := range links {
		for g := 0; g < ngor; g++ {
			wg.Add(1)
			go func(li int, l *c04Link, g int) {
				defer wg.Done()
				r := hx.NewRng(seed + uint64(li*1000+g))
				for i := 0; i < ncalls; i++ {
					arg := fmt.Sprintf("%s-c%dg%di%d", tag, li, g, i)
					if pad != nil {
						arg += "~" + strings.Repeat(string(rune('a'+(g*5+i)%26)), pad(r))
					}
					svc := uint32(r.Pick(1, 3))
					switch x := r.Intn(20); {
					case x < 2: // a Post, written by this goroutine on the shared endpoint
						id := uint32(0x40000000 + li*1000000 + g*10000 + i*2)
						mu.Lock()
						posted[c04Key(int(svc), "ping", arg)] = id
						mu.Unlock()
						l.ep.Send(net.NewMessage(net.NewHeader(net.Post, svc, 1, 101, id), c04Str(arg)))
					case x < 4: // a call that is cancelled at some point
						cancel := make(chan struct{})
						go func(d time.Duration) { time.Sleep(d); close(cancel) }(time.Duration(r.Intn(300)) * time.Microsecond)
						out, err := l.client.Call(cancel, svc, 1, 100, c04Str(arg))
						mu.Lock()
						results = append(results, c04Result(li, arg, svc, out, err, true))
						mu.Unlock()
					case x < 5: // the method returns an error
						arg = "ERR" + arg
						out, err := l.client.Call(nil, svc, 1, 100, c04Str(arg))
						mu.Lock()
						results = append(results, c04Result(li, arg, svc, out, err, false))
						mu.Unlock()
					default:
						out, err := l.client.Call(nil, svc, 1, 100, c04Str(arg))
						mu.Lock()
						results = append(results, c04Result(li, arg, svc, out, err, false))
						mu.Unlock()
					}
				}
			}(li, l, g)
		}
	}
	done := make(chan struct{})
	go func() { wg.Wait(); close(done) }()
	select {
	case <-done:
	case <-time.After(30 * time.Second):
		res.Fail("call-without-outcome", fmt.Sprintf("stress %s: %d goroutines x %d calls over %d connection(s): some call did not return within 30 s", tag, ngor, ncalls, len(links)))
		return false
	}
	// let cancelled calls' frames drain, then flush the mailboxes
	for _, l := range links {
		l.drain()
	}
	h.flushMailboxes()
	time.Sleep(2 * time.Millisecond)
	h.flushMailboxes()
	failedFirst, failedMore, failedOrder := map[int]string{}, map[int]int{}, []int{}
	defer func() {
		for _, li := range failedOrder {
			d := failedFirst[li]
			if n := failedMore[li]; n > 0 {
				d += fmt.Sprintf(" (and %d call(s) that returned later on the same connection ended with an error too)", n)
			}
			res.Fail("call-failed-unexpectedly", d)
		}
	}()
	over := ""
	if pad != nil {
		over = ", " + links[0].kind + " transport, payload sizes mixed"
	}
	for _, r := range results {
		key := c04Key(int(r.svc), "hello", r.arg)
		n := h.cnt.get(key)
		desc := fmt.Sprintf("stress %s (%d goroutines x %d calls, %d connection(s)%s): call Hello(%q) to service %d", tag, ngor, ncalls, len(links), over, c04Abbrev(r.arg), r.svc)
		switch {
		case r.err == nil:
			want := fmt.Sprintf("re:%s#1", r.arg)
			if r.raw != nil {
				head := r.raw
				if len(head) > 48 {
					head = head[:48]
				}
				res.Fail("wrong-or-foreign-result", fmt.Sprintf("%s returned a payload of %d bytes that is not an encoded string (it starts with %x), its own result is %q", desc, len(r.raw), head, c04Abbrev(want)))
			} else if r.out != want {
				res.Fail("wrong-or-foreign-result", fmt.Sprintf("%s returned %s, its own result is %q", desc, c04Differ(r.out, want), c04Abbrev(want)))
			}
			if n != 1 {
				res.Fail("successful-call-exec-count", fmt.Sprintf("%s succeeded but its method body ran %d times", desc, n))
			}
		default:
			if n > 1 {
				res.Fail("failed-call-ran-more-than-once", fmt.Sprintf("%s ended with %v and its method body ran %d times", desc, r.err, n))
			}
			// an error outcome is a legitimate single outcome: cancelled, refused by the method, or
			// dropped by the server's full consumer queue (endPoint.dispatch answers such a Call
			// with an error; the body must then not have run)
			blocked := r.err.Error() == net.ErrConsumerBlocked.Error()
			if blocked {
				res.Dist("outcome:consumer-blocked")
				if n != 0 {
					res.Fail("dropped-call-ran", fmt.Sprintf("%s was refused with %q but its method body ran %d time(s)", desc, r.err, n))
				}
			} else if !r.cancel && !strings.HasPrefix(r.arg, "ERR") {
				// results are in the order the calls returned: the first such call of a connection
				// is reported, the later ones of that connection (usually its consequences: the
				// connection is gone) are counted
				if _, seen := failedFirst[r.li]; !seen {
					failedFirst[r.li] = fmt.Sprintf("%s ended with %v", desc, r.err)
					failedOrder = append(failedOrder, r.li)
				} else {
					failedMore[r.li]++
				}
			}
		}
		res.Count(desc, len(links)*ngor >= 2)
		if pad != nil {
			res.Dist(c04SizeClass(len(r.arg)))
		}
	}
	for key, id := range posted {
		if n := h.cnt.get(key); n > 1 {
			res.Fail("post-ran-more-than-once", fmt.Sprintf("stress %s: Post %s (id %d) ran %d times", tag, c04Abbrev(key), id, n))
		}
	}
	for _, l := range links {
		l.mu.Lock()
		for _, f := range l.s2c {
			for _, id := range posted {
				if f.id == id {
					res.Fail("post-answered", fmt.Sprintf("stress %s: a frame of type %d came back for the Post with id %d", tag, f.ty, id))
				}
			}
		}
		l.mu.Unlock()
	}
	if pad != nil {
		res.Dist("mixed-sizes:" + links[0].kind)
	}
	res.Dist(fmt.Sprintf("stress:%dconn-%dgor", len(links), ngor))
	return true
}

func c04SizeClass(n int) string {
	switch {
	case n < 64:
		return "arg-size:<64B"
	case n < 4096:
		return "arg-size:64B-4KiB"
	case n < 64*1024-64:
		return "arg-size:4KiB-64KiB"
	case n < 64*1024+64:
		return "arg-size:64KiB+-64B"
	case n < 256*1024:
		return "arg-size:64KiB-256KiB"
	default:
		return "arg-size:>=256KiB"
	}
}

// c04Differ: a returned value that is not the expected one, shortened around the first difference
func c04Differ(got, want string) string {
	if len(got) < 200 {
		return fmt.Sprintf("%q", got)
	}
	i := 0
	for i < len(got) && i < len(want) && got[i] == want[i] {
		i++
	}
	j := i + 60
	if j > len(got) {
		j = len(got)
	}
	return fmt.Sprintf("a value of %d bytes (its own result has %d) that differs from it at offset %d: ...%q...", len(got), len(want), i, got[i:j])
}

// mixedSizes: the stress of (ii) - goroutines sharing one client (every third run: two
// connections), calls to two objects (two mailbox goroutines answering on the same connection),
// Posts, cancellations, method errors - with arguments, hence results, of mixed sizes.  Over the
// byte relay the trace of each connection is compared in Coq as in (ii) (payloads run-length
// compressed); over pipe/unix/tcp the per-call oracles only.
func (h *c04Harness) mixedSizes(res *hx.Result, rng *hx.Rng, cases *hx.Cases, tier, outdir string) {
	kinds := []string{"bytes", "pipe", "bytes", "unix", "bytes", "tcp", "bytes", "bytes"}
	rounds := 1
	if tier == "thorough" {
		rounds = 12
	}
	hung := 0
	for run := 0; run < rounds*len(kinds); run++ {
		kind := kinds[run%len(kinds)]
		nl := 1
		if run%3 == 2 {
			nl = 2
		}
		var links []*c04Link
		for i := 0; i < nl; i++ {
			var l *c04Link
			var err error
			if kind == "bytes" {
				l, err = h.newByteLink()
			} else {
				l, err = h.newConnLink(kind, outdir)
			}
			if err != nil {
				res.Fail("harness", fmt.Sprintf("mixed sizes: %s connection: %v", kind, err))
				return
			}
			links = append(links, l)
		}
		ngor := 3 + rng.Intn(4)
		ncalls := 12 + rng.Intn(12)
		if !h.stress(res, rng, links, ngor, ncalls, fmt.Sprintf("mix%d", run), c04PadSize) {
			// calls that never return have been reported; each further run would wait for its
			// deadline again
			if hung++; hung >= 2 {
				h.note(fmt.Sprintf("mixed sizes: stopped after run %d, calls did not return in two runs", run))
				for _, l := range links {
					l.close()
				}
				return
			}
		}
		for li, l := range links {
			l.drain()
			if kind == "bytes" {
				l.mu.Lock()
				broken := l.tapBroken
				l.mu.Unlock()
				if broken {
					h.note(fmt.Sprintf("mixed sizes run %d connection %d: the bytes written on the connection stopped being a sequence of frames", run, li))
				}
				cases.Flush() // one shard per large trace: they are evaluated in parallel
				cases.Add("ts", c04TraceTerm(l), fmt.Sprintf("mixed sizes run %d connection %d (byte relay): frames written by the client and by the server", run, li))
				cases.Flush()
			}
			l.close()
		}
	}
}

// crossing replies by holding the implementation: call A (service 1) is inside its method while
// call B (service 3, same connection) is issued and answered
func (h *c04Harness) crossingByImpl(res *hx.Result, l *c04Link, k int) {
	argA, argB := fmt.Sprintf("xa%d", k), fmt.Sprintf("xb%d", k)
	held, release := h.cnt.hold("s1:hello:" + argA)
	type out struct {
		s   string
		err error
	}
	ra, rb := make(chan out, 1), make(chan out, 1)
	go func() { o, e := l.client.Call(nil, 1, 1, 100, c04Str(argA)); s, _ := c04DecodeStr(o); ra <- out{s, e} }()
	select {
	case <-held:
	case <-time.After(c04Deadline):
		h.note("crossing: call A never reached its method")
	}
	go func() { o, e := l.client.Call(nil, 3, 1, 100, c04Str(argB)); s, _ := c04DecodeStr(o); rb <- out{s, e} }()
	var b out
	select {
	case b = <-rb:
	case <-time.After(c04Deadline):
		res.Fail("call-without-outcome", "crossing replies: call B (service 3) did not return while call A (service 1) was inside its method")
	}
	release()
	var a out
	select {
	case a = <-ra:
	case <-time.After(c04Deadline):
		res.Fail("call-without-outcome", "crossing replies: call A did not return after its method was released")
	}
	desc := fmt.Sprintf("crossing replies (B answered while A is inside its method): A=Hello(%q)@1 -> %q %v, B=Hello(%q)@3 -> %q %v", argA, a.s, a.err, argB, b.s, b.err)
	if a.s != "re:"+argA+"#1" || b.s != "re:"+argB+"#1" {
		res.Fail("wrong-or-foreign-result", desc)
	}
	res.Count(desc, true)
	res.Dist("crossing:impl-held")
}

// crossing replies by holding the frame: the relay keeps reply A back until reply B has been delivered
func (h *c04Harness) crossingByRelay(res *hx.Result, l *c04Link, k int) {
	argA, argB := fmt.Sprintf("ya%d", k), fmt.Sprintf("yb%d", k)
	// the next id the client will draw: observe it from the last frame it wrote
	l.mu.Lock()
	var last uint32 = 1
	for _, f := range l.c2s {
		if f.ty == net.Call && f.id > last && f.id < 0x40000000 {
			last = f.id
		}
	}
	l.holdID, l.holdOn, l.heldMsg = last+2, true, nil
	l.mu.Unlock()
	type out struct {
		s   string
		err error
	}
	ra, rb := make(chan out, 1), make(chan out, 1)
	go func() { o, e := l.client.Call(nil, 1, 1, 100, c04Str(argA)); s, _ := c04DecodeStr(o); ra <- out{s, e} }()
	select {
	case <-l.heldSig:
	case <-time.After(c04Deadline):
		h.note("crossing: reply A was not seen by the relay")
	}
	go func() { o, e := l.client.Call(nil, 1, 1, 100, c04Str(argB)); s, _ := c04DecodeStr(o); rb <- out{s, e} }()
	var b out
	select {
	case b = <-rb:
	case <-time.After(c04Deadline):
		res.Fail("call-without-outcome", "crossing replies: call B did not return while reply A was held by the relay")
	}
	l.releaseHeld()
	var a out
	select {
	case a = <-ra:
	case <-time.After(c04Deadline):
		res.Fail("call-without-outcome", "crossing replies: call A did not return after its reply was released")
	}
	desc := fmt.Sprintf("crossing replies (reply A held on the wire while reply B overtakes): A=Hello(%q) -> %q %v, B=Hello(%q) -> %q %v", argA, a.s, a.err, argB, b.s, b.err)
	if a.s != "re:"+argA+"#1" || b.s != "re:"+argB+"#1" {
		res.Fail("wrong-or-foreign-result", desc)
	}
	res.Count(desc, true)
	res.Dist("crossing:reply-held")
}

// sharedEndpoint: two bus clients on ONE endpoint (what bus.Cache / NewCachedSession proxies and
// Client.Channel()+NewClient give): message ids are unique per client only, so the first call of
// each client carries the same id.  Client A's answer is held by the relay while client B's
// same-numbered call to another service or action is answered: each must return its own result.
// Oracle only: the model of Call.v has one client per connection.
func (h *c04Harness) sharedEndpoint(res *hx.Result, k int, variant int) {
	l, err := h.newLink()
	if err != nil {
		h.note("shared endpoint: " + err.Error())
		return
	}
	defer l.ep.Close()
	ca := bus.NewClient(bus.NewChannel(l.ep, bus.DefaultCap()))
	cb := bus.NewClient(bus.NewChannel(l.ep, bus.DefaultCap()))
	argA, argB := fmt.Sprintf("sha%d", k), fmt.Sprintf("shb%d", k)
	type out struct {
		s   string
		raw []byte
		err error
	}
	// B's call: another service (same action), or another action of the same object
	svcB, actB, wantB := uint32(3), uint32(100), "re:"+argB+"#1"
	if variant == 1 {
		svcB, actB, wantB = 1, 101, ""
	}
	l.mu.Lock()
	l.holdID, l.holdSvc, l.holdAct, l.holdOn, l.heldMsg = 3, 1, 100, true, nil // both clients draw id 3 first
	l.mu.Unlock()
	ra, rb := make(chan out, 1), make(chan out, 1)
	go func() {
		o, e := ca.Call(nil, 1, 1, 100, c04Str(argA))
		s, _ := c04DecodeStr(o)
		ra <- out{s, o, e}
	}()
	select {
	case <-l.heldSig:
	case <-time.After(c04Deadline):
		h.note("shared endpoint: the answer to client A's call was not seen by the relay")
	}
	go func() {
		o, e := cb.Call(nil, svcB, 1, actB, c04Str(argB))
		s, _ := c04DecodeStr(o)
		rb <- out{s, o, e}
	}()
	var a, b out
	var aEarly bool
	select {
	case b = <-rb:
	case <-time.After(c04Deadline):
		res.Fail("call-without-outcome", "two clients on one endpoint: client B's call did not return while the answer to client A's same-numbered call was held on the wire")
	}
	// A's own answer is still held: A must not have returned yet
	select {
	case a = <-ra:
		aEarly = true
	case <-time.After(20 * time.Millisecond):
	}
	l.releaseHeld()
	if !aEarly {
		select {
		case a = <-ra:
		case <-time.After(c04Deadline):
			res.Fail("call-without-outcome", "two clients on one endpoint: client A's call did not return after its answer was released")
		}
	}
	// the ids actually used, from the relay's record
	l.mu.Lock()
	var ids []uint32
	for _, f := range l.c2s {
		if f.ty == net.Call {
			ids = append(ids, f.id)
		}
	}
	l.mu.Unlock()
	desc := fmt.Sprintf("two bus clients sharing one endpoint, first call of each (message ids on the wire %v): client A Hello(%q) to service 1 action 100, its Reply held by the relay; client B call to service %d action %d with %q answered first; then A's Reply released. A returned %q (err %v, before its own answer was delivered: %v), B returned %q (err %v)",
		ids, argA, svcB, actB, argB, a.s, a.err, aEarly, b.s, b.err)
	if a.err != nil || a.s != "re:"+argA+"#1" || aEarly {
		res.Fail("wrong-or-foreign-result", desc+" -- A's own result is "+fmt.Sprintf("%q", "re:"+argA+"#1"))
	} else if b.err != nil || b.s != wantB {
		res.Fail("wrong-or-foreign-result", desc+" -- B's own result is "+fmt.Sprintf("%q", wantB))
	}
	if n := h.cnt.get("s1:hello:" + argA); n != 1 {
		res.Fail("successful-call-exec-count", fmt.Sprintf("%s -- A's method body ran %d times", desc, n))
	}
	res.Count(desc, true)
	res.Dist("shared-endpoint:same-id-calls")
}

// directPath: an object reached through bus.DirectClient (the local proxy every generated
// CreateXxx() returns) is not behind server.handle's filter.  The six frame types that are not
// Call/Post, aimed at a method with a valid argument, and a real client Call cancelled while its
// method runs (method without parameters: the client's Cancel frame has an empty payload) must not
// run the method (again) and must not be answered with a Reply.  Oracle only.
func (h *c04Harness) directPath(res *hx.Result, noncallKnown bool) {
	fail := func(kind, detail string) {
		if noncallKnown {
			res.FailKnown(kind, detail, "noncall_runs")
		} else {
			res.Fail(kind, detail)
		}
	}
	cnt := &c04Counters{execs: map[string]int{}}
	dc := bus.DirectClient(pong.PingPongObject(&c04Pong{7, cnt}))
	ep := dc.Channel().EndPoint()
	var mu sync.Mutex
	var got []c04Frame
	q := make(chan *net.Message, 64)
	go func() {
		for m := range q {
			mu.Lock()
			got = append(got, c04Frame{m.Header.Type, m.Header.Service, m.Header.Object, m.Header.Action, m.Header.ID, m.Payload})
			mu.Unlock()
		}
	}()
	ep.MakeHandler(func(hdr *net.Header) (bool, bool) { return true, true }, q, nil)
	callT := func(c bus.Client, svc, act uint32, p []byte) ([]byte, error) {
		type r struct {
			o []byte
			e error
		}
		ch := make(chan r, 1)
		go func() { o, e := c.Call(nil, svc, 1, act, p); ch <- r{o, e} }()
		select {
		case x := <-ch:
			return x.o, x.e
		case <-time.After(c04Deadline):
			return nil, errors.New("no outcome within the deadline")
		}
	}
	if o, e := callT(dc, 7, 100, c04Str("dcsanity")); e != nil || string(o) != string(c04Str("re:dcsanity#1")) {
		res.Fail("wrong-or-foreign-result", fmt.Sprintf("DirectClient: Hello(\"dcsanity\") returned %x, %v", o, e))
	}
	for _, ty := range []uint8{net.Reply, net.Error, net.Event, net.Capability, net.Cancel, net.Cancelled} {
		arg := fmt.Sprintf("dc%d", ty)
		id := uint32(0x5000 + 2*uint32(ty))
		ep.Send(net.NewMessage(net.NewHeader(ty, 7, 1, 100, id), c04Str(arg)))
		callT(dc, 7, 101, c04Str("sync")) // same mailbox: everything before it has been handled
		time.Sleep(time.Millisecond)
		n := cnt.get("s7:hello:" + arg)
		replies := 0
		mu.Lock()
		for _, f := range got {
			if f.id == id && f.ty == net.Reply {
				replies++
			}
		}
		mu.Unlock()
		desc := fmt.Sprintf("%s frame (type %d) with payload %x sent through a bus.DirectClient endpoint to PingPong.Hello (service 7 object 1 action 100 id %d): the method body ran %d time(s), %d Reply frame(s) came back",
			c04TypeNames[ty], ty, c04Str(arg), id, n, replies)
		if n != 0 || replies != 0 {
			fail("noncall-ran-method", desc)
		}
		res.Count(desc, true)
		res.Dist("direct-path:" + c04TypeNames[ty])
	}
	// a real call, cancelled while its method runs
	ccnt := &c04Counters{execs: map[string]int{}}
	dclk := bus.DirectClient(clock.TimestampObject(&c04Clock{ccnt}))
	held, release := ccnt.hold("s2:nanoseconds")
	cancel := make(chan struct{})
	ret := make(chan error, 1)
	go func() { _, e := dclk.Call(cancel, 8, 1, 100, nil); ret <- e }()
	select {
	case <-held:
	case <-time.After(c04Deadline):
		h.note("direct path: Nanoseconds was not reached")
	}
	close(cancel)
	var callErr error
	select {
	case callErr = <-ret:
	case <-time.After(c04Deadline):
		res.Fail("call-without-outcome", "DirectClient: a cancelled call of Timestamp.Nanoseconds did not return")
	}
	time.Sleep(2 * time.Millisecond) // the Cancel frame is on its way to the object's mailbox
	release()
	callT(dclk, 8, 100, nil) // barrier through the same mailbox; one execution of its own
	time.Sleep(time.Millisecond)
	ran := ccnt.get("s2:nanoseconds") - 1
	desc := fmt.Sprintf("Client.Call(cancel, 8, 1, 100, nil) on a bus.DirectClient of clock.TimestampObject, cancel closed while Nanoseconds() runs: the call returned %v and the method body ran %d time(s) for it", callErr, ran)
	if ran != 1 {
		fail("cancelled-call-ran-again", desc)
	}
	res.Count(desc, true)
	res.Dist("direct-path:cancelled-call")
}

// oversizedCall: a call whose arguments serialise to more than net.MaxPayloadSize bytes, through
// the real client against the real server (byte relay: such a frame cannot be parsed by the
// harness either).  "Each call returns exactly one outcome": it must return (an error) within the
// deadline, and calls on a fresh connection still work afterwards.  Oracle only.
func (h *c04Harness) oversizedCall(res *hx.Result) {
	h.nconn++
	name := fmt.Sprintf("c04big%d", h.nconn)
	cs, ss := newAhStream(name+"-client"), newAhStream(name+"-server")
	cs.onBytes = func(b []byte) { ss.Inject(b) }
	ss.onBytes = func(b []byte) { cs.Inject(b) }
	cs.onClose = func() { ss.PeerClose() }
	ss.onClose = func() { cs.PeerClose() }
	if err := h.lis.Offer(ss, c04Deadline); err != nil {
		h.note("oversized call: " + err.Error())
		return
	}
	ep := net.NewEndPoint(cs)
	defer ep.Close()
	if err := bus.AuthenticateUser(ep, "", ""); err != nil {
		h.note("oversized call: authenticate: " + err.Error())
		return
	}
	client := bus.NewClient(bus.NewChannel(ep, bus.DefaultCap()))
	if o, e := client.Call(nil, 1, 1, 100, c04Str("big-before")); e != nil || string(o) != string(c04Str("re:big-before#1")) {
		res.Fail("wrong-or-foreign-result", fmt.Sprintf("byte-relayed connection: Hello(\"big-before\") returned %x, %v", o, e))
	}
	size := int(net.MaxPayloadSize) + 1
	payload := make([]byte, size)
	binary.LittleEndian.PutUint32(payload, uint32(size-4)) // one string argument filling the payload
	ret := make(chan error, 1)
	go func() { _, e := client.Call(nil, 1, 1, 100, payload); ret <- e }()
	deadline := 3 * time.Second
	desc := fmt.Sprintf("Client.Call(nil, 1, 1, 100, payload of %d bytes = net.MaxPayloadSize+1) through a real client and server", size)
	select {
	case e := <-ret:
		if e == nil {
			res.Fail("oversized-call-succeeded", desc+": returned without error")
		}
		res.Dist("oversized-call:returned-error")
	case <-time.After(deadline):
		res.Fail("call-without-outcome", fmt.Sprintf("%s: the call is still pending after %v (no reply, no error, connection not closed): zero outcomes instead of exactly one", desc, deadline))
	}
	res.Count(desc, true)
	// a fresh connection is served as usual
	l, err := h.newLink()
	if err != nil {
		res.Fail("call-without-outcome", "after the oversized call a fresh connection cannot be set up: "+err.Error())
		return
	}
	defer l.ep.Close()
	type r struct {
		o []byte
		e error
	}
	ch := make(chan r, 1)
	go func() { o, e := l.client.Call(nil, 1, 1, 100, c04Str("big-after")); ch <- r{o, e} }()
	select {
	case x := <-ch:
		if x.e != nil || string(x.o) != string(c04Str("re:big-after#1")) {
			res.Fail("wrong-or-foreign-result", fmt.Sprintf("after the oversized call, Hello(\"big-after\") on a fresh connection returned %x, %v", x.o, x.e))
		}
	case <-time.After(c04Deadline):
		res.Fail("call-without-outcome", "after the oversized call, a call on a fresh connection did not return")
	}
}

// ---------- defect probes (the witnesses of C04_refuted_*) ----------

func (h *c04Harness) probeSwitches(res *hx.Result) (noncall, postAnswered bool) {
	// ex_cancel: a call of a method without parameters is cancelled while the method runs
	l, err := h.newLink()
	if err != nil {
		h.note("probe: " + err.Error())
		return
	}
	before := h.cnt.get("s2:nanoseconds")
	held, release := h.cnt.hold("s2:nanoseconds")
	h.cnt.mu.Lock()
	h.cnt.execs["s2:nanoseconds"] = 0 // the hold applies to the first execution counted from here
	h.cnt.mu.Unlock()
	cancel := make(chan struct{})
	ret := make(chan error, 1)
	go func() { _, e := l.client.Call(cancel, 2, 1, 100, nil); ret <- e }()
	select {
	case <-held:
	case <-time.After(c04Deadline):
		h.note("probe: Nanoseconds was not reached")
	}
	close(cancel)
	var callErr error
	select {
	case callErr = <-ret:
	case <-time.After(c04Deadline):
		h.note("probe: cancelled call did not return")
	}
	l.cs.WaitIdle(c04Deadline)
	l.ss.WaitIdle(c04Deadline)
	release()
	h.flushMailboxes() // adds one execution of Nanoseconds by the harness itself
	ran := h.cnt.get("s2:nanoseconds") - 1
	h.cnt.mu.Lock()
	h.cnt.execs["s2:nanoseconds"] += before
	h.cnt.holdKey = ""
	h.cnt.mu.Unlock()
	// ex_raw Capability / Cancel
	r, err := h.newRaw()
	if err != nil {
		h.note("probe: " + err.Error())
		return
	}
	oc := h.runRaw(r, c04RawCase{ty: net.Capability, svc: 1, obj: 1, act: 100, id: 7, payload: c04Str("probe-cap"), countKey: "s1:hello:probe-cap"})
	ok := h.runRaw(r, c04RawCase{ty: net.Cancel, svc: 1, obj: 1, act: 100, id: 9, payload: c04Str("probe-cancel"), countKey: "s1:hello:probe-cancel"})
	noncall = ran >= 2 || oc.exec > 0 || ok.exec > 0
	replyTypes := func(ms []*net.Message) []uint8 {
		var t []uint8
		for _, m := range ms {
			t = append(t, m.Header.Type)
		}
		return t
	}
	res.Switch("noncall_runs", noncall, fmt.Sprintf("a call of Nanoseconds() (service 2, no parameters) cancelled while its method runs: the client returned %v and the method body ran %d time(s); "+
		"a Capability frame with a valid Hello payload: body ran %d time(s), frames back %v; a Cancel frame with a valid Hello payload: body ran %d time(s), frames back %v",
		callErr, ran, oc.exec, replyTypes(oc.back), ok.exec, replyTypes(ok.back)))
	// ex_post_noact
	op := h.runRaw(r, c04RawCase{ty: net.Post, svc: 1, obj: 1, act: 999, id: 11, payload: c04Str("probe-post"), countKey: "none"})
	op2 := h.runRaw(r, c04RawCase{ty: net.Post, svc: 1, obj: 1, act: 100, id: 13, payload: nil, countKey: "s1:hello:"})
	postAnswered = len(op.back) > 0 || len(op2.back) > 0
	res.Switch("post_answered", postAnswered, fmt.Sprintf("a Post to action 999 of service 1 (no such action): frames back %v; a Post to Hello with an empty payload (argument cannot be decoded): frames back %v",
		replyTypes(op.back), replyTypes(op2.back)))
	return
}

func runC04(res *hx.Result, rng *hx.Rng, tier string, outdir string) {
	log.SetOutput(io.Discard)
	res.Rule = ">= 2 calls in flight at once, or a frame that is not a Call aimed at a method"
	h, err := newC04Harness()
	if err != nil {
		res.Fail("harness", "cannot start a bus server on the harness listener: "+err.Error())
		return
	}
	_ = value.String
	noncall, postAnswered := h.probeSwitches(res)
	cases := hx.NewCases(outdir, "C04cases", "From QV Require Import Call C04Run.", "mismatches cfg_obs rs ts ds", res, "rs", "rcase", "ts", "tcase", "ds", "dcase")
	cases.Extra = append(cases.Extra, fmt.Sprintf("Definition cfg_obs : cfg := {| noncall_runs := %s; post_answered := %s |}.", hx.Bool(noncall), hx.Bool(postAnswered)))

	if only := os.Getenv("QV_C04_ONLY"); only != "" { // campaigns of part (x), (xi) or (xii) alone
		switch only {
		case "features":
			h.features(res, rng, cases, tier)
		case "subscriptions":
			h.collidingSubscriptions(res, rng, cases, tier)
		case "hosted":
			h.srv.NewService("c04pad", &c04Child{h.cnt}) // service 4 is the factory's in a full run
			h.hostedObjects(res, rng, cases, tier)
		}
		cases.Flush()
		res.Notes = append(res.Notes, h.notes...)
		return
	}
	// (i) raw frames: the full matrix first, then random ones
	raw, err := h.newRaw()
	if err != nil {
		res.Fail("harness", err.Error())
		return
	}
	k := 0
	runRaw := func(c c04RawCase) {
		o := h.runRaw(raw, c)
		if kind, detail, known := c04RawOracle(c, o); kind != "" {
			if known != "" {
				res.FailKnown(kind, detail, known)
			} else {
				res.Fail(kind, detail)
			}
		}
		nontrivial := c.ty != net.Call && (c.svc >= 1 && c.svc <= 3) && c.obj == 1
		res.Count(c04RawDesc(c), nontrivial)
		res.Dist("raw:" + c04TypeNames[c.ty])
		res.Dist("raw-target:" + c.desc)
		res.Sample(c04RawDesc(c))
		cases.Add("rs", c04RawTerm(c, o), c04RawDesc(c))
	}
	for ty := uint8(1); ty <= 8; ty++ {
		for tgt := 0; tgt < 8; tgt++ {
			k++
			arg := fmt.Sprintf("m%d", k)
			c := c04RawCase{ty: ty, id: uint32(0x100 + 2*k), obj: 1}
			switch tgt {
			case 0:
				c.svc, c.act, c.payload, c.desc, c.countKey = 1, 100, c04Str(arg), "Hello, valid argument", "s1:hello:"+arg
			case 1:
				c.svc, c.act, c.payload, c.desc, c.countKey = 1, 100, nil, "Hello, undecodable argument", "s1:hello:"
			case 2:
				c.svc, c.act, c.payload, c.desc, c.countKey = 3, 101, c04Str(arg), "Ping", "s3:ping:"+arg
			case 3:
				c.svc, c.act, c.payload, c.desc, c.countKey = 2, 100, nil, "Nanoseconds (no parameters)", "s2:nanoseconds"
			case 4:
				c.svc, c.act, c.payload, c.desc, c.countKey = 1, 999, c04Str(arg), "unknown action", "none"
			case 5:
				c.svc, c.obj, c.act, c.payload, c.desc, c.countKey = 1, 5, 100, c04Str(arg), "unknown object", "none"
			case 6:
				c.svc, c.act, c.payload, c.desc, c.countKey = 9, 100, c04Str(arg), "unknown service", "none"
			case 7:
				c.svc, c.act, c.payload, c.desc, c.countKey = 1, 100, c04Str("ERR"+arg), "Hello, method returns an error", "s1:hello:ERR"+arg
			}
			runRaw(c)
		}
	}
	nraw := 150
	if tier == "thorough" {
		nraw = 6000
	}
	for i := 0; i < nraw; i++ {
		k++
		runRaw(c04GenRaw(rng, k))
	}

	// (vi) a call above the payload limit still has exactly one outcome
	h.oversizedCall(res)
	// (iv) objects that are not behind the server's connection filter
	h.directPath(res, noncall)
	// (v) two clients on one endpoint, same-numbered calls, answers crossing
	for i := 0; i < 6; i++ {
		h.sharedEndpoint(res, i, i%2)
	}

	// (x) statistics and traces switched on and off while several connections call the objects
	h.features(res, rng, cases, tier)

	// (xi) calls mixed with registerEvent / unregisterEvent calls whose user ids collide across connections
	h.collidingSubscriptions(res, rng, cases, tier)

	// (ii) concurrent callers over 1..3 connections, (iii) crossing replies
	runs := 20
	if tier == "thorough" {
		runs = 400
	}
	hungRuns := 0
	for run := 0; run < runs; run++ {
		nl := 1 + run%3
		var links []*c04Link
		for i := 0; i < nl; i++ {
			l, err := h.newLink()
			if err != nil {
				res.Fail("harness", err.Error())
				return
			}
			links = append(links, l)
		}
		ngor := 2 + rng.Intn(5)
		ncalls := 10 + rng.Intn(20)
		if !h.stress(res, rng, links, ngor, ncalls, fmt.Sprintf("run%d", run), nil) {
			// reported; every further run would wait for its deadlines again
			if hungRuns++; hungRuns >= 4 {
				h.note(fmt.Sprintf("concurrent runs: stopped after run %d, calls did not return in four runs", run))
				for _, l := range links {
					l.ep.Close()
				}
				break
			}
		}
		h.crossingByImpl(res, links[0], run)
		h.crossingByRelay(res, links[0], run)
		for li, l := range links {
			l.cs.WaitIdle(c04Deadline)
			l.ss.WaitIdle(c04Deadline)
			cases.Add("ts", c04TraceTerm(l), fmt.Sprintf("run %d connection %d: frames written by the client and by the server", run, li))
			l.ep.Close()
		}
	}

	// (vii) the same concurrent callers with payload sizes from a few bytes to several hundred KiB
	// mixed in one run, over every transport
	h.mixedSizes(res, rng, cases, tier, outdir)
	// (viii) calls issued while the connection is being torn down
	h.tearDown(res, rng, cases, tier, outdir)
	// (ix) calls pipelined to one object whose method adds / removes objects of its own service
	h.factory(res, rng, cases, tier)
	// (xii) objects hosted by a client (NewClientObject + Service.Add) called by several callers at once
	h.hostedObjects(res, rng, cases, tier)
	cases.Flush()
	res.Notes = append(res.Notes, h.notes...)
	res.Notes = append(res.Notes, "goroutine scheduling inside one process cannot be forced between two lock acquisitions: part (ii) is stress with per-call oracles and a trace check; the theorems cover all schedules of the model")
	term := make(chan struct{})
	go func() { h.srv.Terminate(); close(term) }()
	c04WaitCh(term, 2*time.Second)
}
