package main

// C13 — subscribers get each emitted event exactly once, in order, only while subscribed.
//
// The harness owns every stream (internal/rig): frames travel only when the driver releases
// them, every write of the object (answers and events) blocks until the driver lets it go, so a
// run is a sequence of the model's labels (coq/theories/Signals.v) chosen by the driver.  The
// real bus.StandAloneServer, bus.NewBasicObject (signalHandler), bus.NewClient, bus.NewProxy
// and Proxy.SubscribeID execute them.  What is observed — per subscriber the payloads read and
// the state of its channel, per connection the frames in both directions — goes into case files
// (the model replays the same labels in Coq) and into oracles evaluated here on the
// implementation's own behaviour.

import (
	"bytes"
	"encoding/binary"
	"fmt"
	"math/rand"
	"os"
	"strings"
	"sync"
	"time"

	"github.com/lugu/qiloop/bus"
	"github.com/lugu/qiloop/bus/directory"
	"github.com/lugu/qiloop/bus/net"
	"github.com/lugu/qiloop/type/object"
	"qv/internal/hx"
	"qv/internal/rig"
)

func init() { props["C13"] = runC13 }

const (
	c13Wait  = 2 * time.Second        // something that must happen
	c13Block = 500 * time.Millisecond // something that happens unless the implementation is blocked
)

type c13nop struct{}

func (c13nop) Receive(m *net.Message, from bus.Channel) error {
	return from.SendError(m, bus.ErrActionNotFound)
}
func (c13nop) Activate(a bus.Activation) error { return nil }
func (c13nop) OnTerminate()                    {}

func c13meta() object.MetaObject {
	return object.MetaObject{
		Description: "qv-signals",
		Methods:     map[uint32]object.MetaMethod{},
		Signals: map[uint32]object.MetaSignal{
			// 106/107 carry the names and signatures the generated proxy of bus/directory looks up, so that
			// its generated SubscribeServiceAdded/Removed (template meta/idl/proxy.go) run on top of SubscribeID
			106: {Uid: 106, Name: "serviceAdded", Signature: "(Is)<serviceAdded,serviceID,name>"},
			107: {Uid: 107, Name: "serviceRemoved", Signature: "(Is)<serviceRemoved,serviceID,name>"},
			200: {Uid: 200, Name: "a", Signature: "(i)"},
			201: {Uid: 201, Name: "b", Signature: "(i)"},
		},
		Properties: map[uint32]object.MetaProperty{
			300: {Uid: 300, Name: "p", Signature: "i"},
		},
	}
}

var c13sigs = []uint32{200, 106, 201, 107, 300}

// c13sizes: payload size classes.  The class of emission number p is p>>24 (class 0 = the 4 bytes of p alone),
// so that readers can tell from the first four bytes of a payload what the whole of it must be.
var c13sizes = []int{4, 1000, 4095, 4096, 4097, 8195, 32768, 65535, 65536, 100000, 262144, 400000}

func c13size(p uint32) int {
	if k := int(p >> 24); k < len(c13sizes) {
		return c13sizes[k]
	}
	return 4
}

// c13big: emission number n with a payload of size class k.
func c13big(k int, n uint32) uint32 { return uint32(k%len(c13sizes))<<24 | n }

// c13fill: n bytes that depend on p and on their position (a shifted or spliced copy differs).
func c13fill(p uint32, n int) []byte {
	b := make([]byte, n)
	for i := range b {
		b[i] = 'a' + byte((uint32(i)*2654435761>>24+uint32(i>>8)+p)%26)
	}
	return b
}

// c13name: the string of the (Is) payload of emission p.
func c13name(p uint32) string {
	name := fmt.Sprintf("e%d", p)
	if n := c13size(p) - 8 - len(name); n > 0 {
		name += string(c13fill(p, n))
	}
	return name
}

// c13payload: the event payload for emission number p of signal sig: c13size(p) bytes that start with p.
func c13payload(sig, p uint32) []byte {
	b := c13le(p)
	if sig == 106 || sig == 107 { // (Is): uint32, string
		name := c13name(p)
		b = append(b, c13le(uint32(len(name)))...)
		return append(b, name...)
	}
	return append(b, c13fill(p, c13size(p)-4)...)
}

type c13sub struct {
	idx       int
	conn      int
	sig       uint32
	h         int
	mu        sync.Mutex
	got       []uint32
	corrupt   []string // per payload read: "" or in what it differs from what was emitted under that number
	closed    bool
	cancel    func()
	err       error
	done      chan struct{} // SubscribeID returned
	cdone     chan struct{} // cancel returned
	returned  bool          // driver has seen SubscribeID return
	acked     bool
	failed    bool
	regMid    uint32
	unregMid  uint32
	waitReg   bool
	waitUnreg bool
	pending   bool // SubscribeID has neither returned nor sent its call yet (blocked behind another call of this client)
	upBefore  int  // frames on the up link when SubscribeID started
	cancelled bool // cancel requested
	finished  bool // channel closed seen
	queued    int  // events dispatched to the handler, not yet read
	delivered int
	ackPos    int
	cancelPos int
	startPos  int
}

func (s *c13sub) count() int { s.mu.Lock(); defer s.mu.Unlock(); return len(s.got) }
func (s *c13sub) isClosed() bool {
	s.mu.Lock()
	defer s.mu.Unlock()
	return s.closed
}
func (s *c13sub) installed() bool { return !s.finished && !s.failed }

type c13client struct {
	c     *rig.Conn
	ep    net.EndPoint
	cl    bus.Client
	proxy bus.Proxy
}

type c13emission struct {
	sig     uint32
	p       uint32
	pos     int
	sentTo  map[int]int // connection -> label position of the dispatch at the client (0: written, never dispatched)
	written map[int]bool
}

type c13world struct {
	n        *rig.Net
	srv      bus.Server
	obj      bus.BasicObject
	sid      uint32
	clients  []*c13client
	subs     []*c13sub
	labels   []string
	emits    []*c13emission
	emitBusy bool
	emitDone chan struct{}
	dead     bool
	driven   bool
	notes    []string
	trig     map[string]bool
	trig17   map[[2]int]bool // (connection, signal) keys on which a counter transition overlapped a remote call
	trig16   map[[2]int]bool // (emission index, connection): a request of that connection was processed during that emission
	uidOf    map[uint64]int
	bad      []string // harness-level surprises (an expected effect did not happen)
	mode     int      // c13mode at creation
	mayBlock bool     // a SubscribeID that neither returns nor sends is waiting for another one's remote call (repaired code)
	split    []string // frames that went out between two Write calls of another frame
	mid      *c13mid  // what it takes to stop the mailbox goroutine inside a request (c13mid.go), made on first use
}

// c13serialised: SubscribeID / cancel wait for a remote call of the same client that is in flight
// (observed by the probe of switch sub_unserialised); the interleaved generator then does not
// start one on a client that has a call in flight.
var c13serialised = false

func (w *c13world) busy(c int) bool {
	for _, o := range w.subs {
		if o.conn == c && (o.waitReg || o.waitUnreg || o.pending) {
			return true
		}
	}
	return false
}

// c13mode: how the object is set up before a schedule starts (by an extra client that is not part of
// the schedule): bit 0 = enableStats(true), bit 1 = enableTrace(true).  With either one
// stubObject.Receive wraps the caller's Channel per message (statChannel / tracedChannel): the
// registration table then holds wrapped channels.  The protocol, and therefore the model, is the same.
var c13mode = 0

func c13modeName(m int) string {
	return []string{"plain", "statistics enabled (enableStats(true) before the schedule)", "tracing enabled (enableTrace(true) before the schedule)",
		"statistics and tracing enabled (enableStats(true), enableTrace(true) before the schedule)"}[m&3]
}

func c13new(nclients int) *c13world {
	w := &c13world{n: rig.NewNet(), trig: map[string]bool{}, uidOf: map[uint64]int{}, trig17: map[[2]int]bool{}, trig16: map[[2]int]bool{}}
	srv, err := bus.StandAloneServer(w.n, bus.Yes{}, bus.PrivateNamespace())
	if err != nil {
		panic(err)
	}
	w.srv = srv
	w.obj = bus.NewBasicObject(c13nop{}, c13meta(), func(string, []byte) error { return nil })
	svc, err := srv.NewService("qv-signals", w.obj)
	if err != nil {
		panic(err)
	}
	w.sid = svc.ServiceID()
	for i := 0; i < nclients; i++ {
		c, s := w.n.Dial()
		ep := net.NewEndPoint(s)
		ch := bus.NewChannel(ep, bus.ClientCap("", ""))
		if err := ch.Authenticate(); err != nil {
			panic(err)
		}
		cl := bus.NewClient(ch)
		w.clients = append(w.clients, &c13client{c: c, ep: ep, cl: cl, proxy: bus.NewProxy(cl, object.FullMetaObject(c13meta()), w.sid, 1)})
	}
	w.mode = c13mode
	if w.mode != 0 {
		_, s := w.n.Dial()
		ch := bus.NewChannel(net.NewEndPoint(s), bus.ClientCap("", ""))
		if err := ch.Authenticate(); err != nil {
			panic(err)
		}
		admin := bus.NewProxy(bus.NewClient(ch), object.FullMetaObject(c13meta()), w.sid, 1)
		if w.mode&1 != 0 {
			if _, err := admin.CallID(81, []byte{1}); err != nil {
				w.surprise("enableStats(true): %v", err)
			}
		}
		if w.mode&2 != 0 {
			if _, err := admin.CallID(85, []byte{1}); err != nil {
				w.surprise("enableTrace(true): %v", err)
			}
		}
	}
	return w
}

// drive: from now on nothing moves unless the driver releases it.
func (w *c13world) drive() {
	w.driven = true
	for _, c := range w.clients {
		c.c.Up.Pause()
		c.c.Down.Pause()
		sid := w.sid
		c.c.Down.BlockIf = func(f rig.Frame) bool { return f.Head && f.Hdr.Service == sid }
		c.c.Down.BlockFrag = true // a frame written with several Write calls: the driver decides what goes between them
	}
}

func (w *c13world) close() {
	for _, c := range w.clients {
		c.c.Close()
	}
	w.n.Close()
}

func (w *c13world) lab(format string, a ...interface{}) {
	w.labels = append(w.labels, fmt.Sprintf(format, a...))
}
func (w *c13world) pos() int { return len(w.labels) }
func (w *c13world) surprise(format string, a ...interface{}) {
	w.bad = append(w.bad, fmt.Sprintf(format, a...))
}

func c13min(a, b int) int {
	if a < b {
		return a
	}
	return b
}
func c13le(p uint32) []byte { b := make([]byte, 4); binary.LittleEndian.PutUint32(b, p); return b }
func c13val(b []byte) uint32 {
	if len(b) < 4 {
		return 0xffffffff
	}
	return binary.LittleEndian.Uint32(b)
}

// ---- macros: each performs one or more labels of the model on the implementation ----

// startSub: SubscribeID on connection c.  Labels: LInstall, LCount and, when the call registers
// remotely, LSendReg (seen as the registerEvent frame on the up link).
func (w *c13world) startSub(c int, sig uint32, h int) *c13sub {
	s := &c13sub{idx: len(w.subs), conn: c, sig: sig, h: h, done: make(chan struct{}), cdone: make(chan struct{}), startPos: w.pos()}
	for _, o := range w.subs {
		if o.conn == c && o.sig == sig && (o.waitReg || o.waitUnreg) {
			w.trig["sub_unserialised"] = true
			w.trig17[[2]int{c, int(sig)}] = true
		}
		if o.conn != c && o.h == h && !o.finished {
			w.trig["uid_global"] = true
		}
	}
	w.subs = append(w.subs, s)
	cl := w.clients[c]
	before := len(cl.c.Up.Frames())
	rand.Seed(int64(1000 + h))
	record := func(v uint32, bad string) {
		s.mu.Lock()
		s.got = append(s.got, v)
		s.corrupt = append(s.corrupt, bad)
		s.mu.Unlock()
	}
	named := func(id uint32, name string) string {
		if want := c13name(id); name != want {
			return fmt.Sprintf("event %d came with a string of %d bytes that differs from the %d bytes emitted", id, len(name), len(want))
		}
		return ""
	}
	go func() {
		var cancel func()
		var err error
		var raw chan []byte
		var added chan directory.ServiceAdded
		var removed chan directory.ServiceRemoved
		switch sig {
		case 106:
			cancel, added, err = directory.MakeServiceDirectory(nil, cl.proxy).SubscribeServiceAdded()
		case 107:
			cancel, removed, err = directory.MakeServiceDirectory(nil, cl.proxy).SubscribeServiceRemoved()
		default:
			cancel, raw, err = cl.proxy.SubscribeID(sig)
		}
		s.mu.Lock()
		s.cancel, s.err = cancel, err
		s.mu.Unlock()
		close(s.done)
		if err != nil {
			return
		}
		switch sig {
		case 106:
			for e := range added {
				record(e.ServiceID, named(e.ServiceID, e.Name))
			}
		case 107:
			for e := range removed {
				record(e.ServiceID, named(e.ServiceID, e.Name))
			}
		default:
			for p := range raw {
				bad := ""
				if want := c13payload(sig, c13val(p)); !bytes.Equal(p, want) {
					bad = fmt.Sprintf("read a payload of %d bytes starting with %x, which is not the %d bytes emitted as event %d", len(p), p[:c13min(len(p), 12)], len(want), c13val(p))
				}
				record(c13val(p), bad)
			}
		}
		s.mu.Lock()
		s.closed = true
		s.mu.Unlock()
	}()
	w.lab("LInstall %d %d", c, sig)
	isDone := func() bool {
		select {
		case <-s.done:
			return true
		default:
			return false
		}
	}
	s.upBefore = before
	wait := c13Wait
	if w.mayBlock {
		wait = c13Block
	}
	if !w.n.WaitFor(wait, func() bool { return isDone() || len(cl.c.Up.Frames()) > before }) {
		if w.mayBlock {
			s.pending = true // it goes on when the call it waits for has been answered: poll
		} else {
			w.surprise("SubscribeID(%d) on connection %d neither returned nor sent a frame", sig, c)
		}
		return s
	}
	w.started(s)
	return s
}

// started: SubscribeID of s has got past its counter: it has returned, or its registerEvent call is on the up link.
func (w *c13world) started(s *c13sub) {
	cl := w.clients[s.conn]
	select {
	case <-s.done:
		w.lab("LCount %d", s.idx)
		w.afterReturn(s)
		return
	default:
	}
	f := cl.c.Up.Frames()[s.upBefore]
	if f.Hdr.Action != 0 || len(f.Payload) < 16 {
		w.surprise("expected a registerEvent call, saw %v", f)
	}
	if len(f.Payload) >= 16 {
		w.uidOf[binary.LittleEndian.Uint64(f.Payload[8:16])] = s.h
	}
	s.regMid, s.waitReg = f.Hdr.ID, true
	w.lab("LCount %d", s.idx)
	w.lab("LSendReg %d %d", s.idx, s.h)
}

// poll: subscribers whose SubscribeID was blocked and has moved on in the meantime.
func (w *c13world) poll() bool {
	moved := false
	for _, s := range w.subs {
		if !s.pending {
			continue
		}
		cl := w.clients[s.conn]
		n := len(cl.c.Up.Frames())
		progressed := n > s.upBefore
		select {
		case <-s.done:
			progressed = true
		default:
		}
		if progressed {
			s.pending = false
			w.started(s)
			moved = true
		}
	}
	return moved
}

// afterReturn: SubscribeID has returned.
func (w *c13world) afterReturn(s *c13sub) {
	s.returned, s.waitReg = true, false
	s.mu.Lock()
	err := s.err
	s.mu.Unlock()
	if err != nil {
		s.failed = true
		return
	}
	s.acked, s.ackPos = true, w.pos()
	// the reader exists from now on: what was queued is read
	for s.queued > 0 {
		w.deliver(s)
	}
}

func (w *c13world) deliver(s *c13sub) {
	want := s.delivered + 1
	if w.n.WaitFor(c13Wait, func() bool { return s.count() >= want }) {
		w.lab("LDeliver %d", s.idx)
		s.delivered++
		s.queued--
	} else {
		w.surprise("subscriber %d: an event dispatched to its handler was not read", s.idx)
		s.queued = 0
	}
}

// mbox: the next request of connection c reaches the object.  Label LMbox c (the answer is
// blocked in its Write until reply()).
func (w *c13world) mbox(c int) {
	cl := w.clients[c]
	if _, busy := w.pendingReply(); busy {
		w.surprise("mbox(%d): the mailbox goroutine is still writing an answer", c)
		return
	}
	f, ok := cl.c.Up.ReleaseOne()
	if !ok {
		w.surprise("mbox(%d): nothing to release", c)
		return
	}
	if w.emitBusy {
		w.trig["snapshot_send"] = true
		w.trig16[[2]int{len(w.emits) - 1, c}] = true
	}
	w.lab("LMbox %d", c)
	answered := w.n.WaitFor(c13Block, func() bool {
		for _, b := range cl.c.Down.Blocked() {
			if b.Head && b.Hdr.ID == f.Hdr.ID && (b.Hdr.Type == net.Reply || b.Hdr.Type == net.Error) {
				return true
			}
		}
		return false
	})
	if !answered {
		w.dead = true
		w.notes = append(w.notes, fmt.Sprintf("request %v got no answer", f))
	}
}

func (w *c13world) pendingReply() (int, bool) {
	for i, cl := range w.clients {
		for _, b := range cl.c.Down.Blocked() {
			if b.Head && b.Hdr.Service == w.sid && (b.Hdr.Type == net.Reply || b.Hdr.Type == net.Error) {
				return i, true
			}
		}
	}
	return 0, false
}

// ---- frames written with more than one Write call ----
//
// Message.Write of the pinned tree hands a frame to the stream with one Write call, and nothing but
// that keeps the frames of two goroutines that send on one connection (the emitter and the object's
// mailbox goroutine here) apart.  The driver does not assume it: a Write call whose buffer does not
// start with a header is the rest of a frame; it blocks like every other write of the object, and
// when another goroutine has a frame waiting for the same connection that frame goes first (the
// scheduler is free to do that).  What the client then makes of the stream is observed as always.

// blockedRest: a writer of connection c is blocked with the rest of a frame whose beginning has been written.
func (w *c13world) blockedRest() (int, bool) {
	for i, cl := range w.clients {
		for _, b := range cl.c.Down.Blocked() {
			if !b.Head {
				return i, true
			}
		}
	}
	return 0, false
}

func (w *c13world) restOn(c int) bool {
	for _, b := range w.clients[c].c.Down.Blocked() {
		if !b.Head {
			return true
		}
	}
	return false
}

func (w *c13world) headOn(c int) bool {
	for _, b := range w.clients[c].c.Down.Blocked() {
		if b.Head {
			return true
		}
	}
	return false
}

// released: a blocked writer of connection c has just been let go (nw, nf: Write calls and frames of the
// link before that).  Waits until its Write call is through and either the frame is complete or the
// writer is back with the rest of it; the rest is let through at once unless a frame of another
// goroutine is waiting for this connection (then it stays blocked: true).
func (w *c13world) released(c, nw, nf int, what string) bool {
	l := w.clients[c].c.Down
	if !w.n.WaitFor(c13Wait, func() bool { return l.Writes() > nw || l.Closed() }) {
		w.surprise("%s: the released write on connection %d did not go through", what, c)
		return false
	}
	for i := 0; i < 64; i++ {
		w.n.WaitFor(c13Block, func() bool { return len(l.Frames()) > nf || w.restOn(c) || l.Desync() || l.Closed() })
		if !w.restOn(c) {
			return false
		}
		if w.headOn(c) {
			return true
		}
		l.Release(func(f rig.Frame) bool { return !f.Head })
	}
	return false
}

// interleaved: a frame goes out on connection c while the rest of another frame is still to be written.
func (w *c13world) noteSplit(c int, f rig.Frame) {
	if w.restOn(c) {
		w.split = append(w.split, fmt.Sprintf("on connection %d the object wrote %v between two Write calls of one frame of another goroutine", c, f))
	}
}

// restSend: the rest of a frame that was held back goes out.
func (w *c13world) restSend() {
	c, ok := w.blockedRest()
	if !ok {
		w.surprise("restSend: nothing is held")
		return
	}
	l := w.clients[c].c.Down
	nw, nf := l.Writes(), len(l.Frames())
	l.Release(func(f rig.Frame) bool { return !f.Head })
	w.released(c, nw, nf, "restSend")
	w.settle()
}

// settle: where the emitter is after a write that may have been its own went through.
func (w *c13world) settle() {
	if !w.emitBusy {
		return
	}
	w.n.WaitFor(c13Block, func() bool {
		_, b := w.blockedEvent()
		_, r := w.blockedRest()
		return b || r || w.emitReturned()
	})
	_, b := w.blockedEvent()
	_, r := w.blockedRest()
	w.emitBusy = b || r
}

// reply: the object's answer is written.  Label LReply.
func (w *c13world) reply() {
	c, ok := w.pendingReply()
	if !ok {
		w.surprise("reply: no answer pending")
		return
	}
	cl := w.clients[c]
	nw, nf := cl.c.Down.Writes(), len(cl.c.Down.Frames())
	sid := w.sid
	for _, b := range cl.c.Down.Blocked() {
		if b.Head && b.Hdr.Service == sid && (b.Hdr.Type == net.Reply || b.Hdr.Type == net.Error) {
			w.noteSplit(c, b)
			break
		}
	}
	cl.c.Down.Release(func(f rig.Frame) bool {
		return f.Head && f.Hdr.Service == sid && (f.Hdr.Type == net.Reply || f.Hdr.Type == net.Error)
	})
	w.released(c, nw, nf, "reply")
	w.lab("LReply")
	w.settle()
}

func (w *c13world) blockedEvent() (int, bool) {
	for i, cl := range w.clients {
		for _, b := range cl.c.Down.Blocked() {
			if b.Head && b.Hdr.Type == net.Event {
				return i, true
			}
		}
	}
	return 0, false
}

func (w *c13world) emitReturned() bool {
	select {
	case <-w.emitDone:
		return true
	default:
		return false
	}
}

// emitSnap: UpdateSignal is called; it takes its snapshot and blocks in its first send (or
// returns when nobody is registered).  Label LEmitSnap.
func (w *c13world) emitSnap(sig uint32, p uint32) {
	if w.emitBusy {
		w.surprise("emitSnap while an emission is in progress")
		return
	}
	e := &c13emission{sig: sig, p: p, pos: w.pos(), sentTo: map[int]int{}, written: map[int]bool{}}
	w.emits = append(w.emits, e)
	w.emitDone = make(chan struct{})
	done := w.emitDone
	go func() {
		if sig >= 300 {
			w.obj.UpdateProperty(sig, "i", c13payload(sig, p))
		} else {
			w.obj.UpdateSignal(sig, c13payload(sig, p))
		}
		close(done)
	}()
	w.lab("LEmitSnap %d %d", sig, p)
	w.n.WaitFor(c13Wait, func() bool { _, b := w.blockedEvent(); return b || w.emitReturned() })
	_, b := w.blockedEvent()
	w.emitBusy = b
}

// emitSend: the emitter's pending send goes out.  Label LEmitSend.
func (w *c13world) emitSend() {
	c, ok := w.blockedEvent()
	if !ok {
		if _, rest := w.blockedRest(); rest { // the emitter is in the middle of a frame
			w.restSend()
			return
		}
		w.surprise("emitSend: the emitter is not blocked")
		return
	}
	cl := w.clients[c]
	nw, nf := cl.c.Down.Writes(), len(cl.c.Down.Frames())
	for _, b := range cl.c.Down.Blocked() {
		if b.Head && b.Hdr.Type == net.Event {
			w.noteSplit(c, b)
			break
		}
	}
	cl.c.Down.Release(func(f rig.Frame) bool { return f.Head && f.Hdr.Type == net.Event })
	held := w.released(c, nw, nf, "emitSend")
	if len(w.emits) == 0 {
		w.surprise("the object wrote an Event frame to connection %d although the schedule has not emitted anything yet", c)
		return
	}
	w.emits[len(w.emits)-1].written[c] = true
	w.lab("LEmitSend")
	if held {
		w.emitBusy = true
		return
	}
	w.n.WaitFor(c13Wait, func() bool { _, b := w.blockedEvent(); return b || w.emitReturned() })
	_, b := w.blockedEvent()
	w.emitBusy = b
}

// cliRecv: the client endpoint of connection c reads and dispatches the next frame.  Label
// LCliRecv c, followed by what it causes: LDeliver for every reader that receives the event,
// the return of SubscribeID, or the end of a cancel (LFanClose).
func (w *c13world) cliRecv(c int) {
	cl := w.clients[c]
	w.skipFillers(c)
	before := cl.c.Down.Read()
	f, ok := cl.c.Down.ReleaseOne()
	if !ok {
		w.surprise("cliRecv(%d): nothing to release", c)
		return
	}
	if !f.Head { // bytes that do not start with a header: the client gives the connection up
		w.n.WaitFor(c13Block, cl.c.Down.Closed)
		w.split = append(w.split, fmt.Sprintf("the client of connection %d was handed %v", c, f))
		return
	}
	if !w.n.WaitFor(c13Wait, func() bool { return cl.c.Down.Read() > before }) {
		w.surprise("cliRecv(%d): the client did not read %v", c, f)
	}
	w.lab("LCliRecv %d", c)
	w.dispatched(c, f)
}

func (w *c13world) dispatched(c int, f rig.Frame) {
	switch {
	case f.Hdr.Type == net.Event:
		for _, e := range w.emits {
			if e.sig == f.Hdr.Action && e.p == c13val(f.Payload) && e.sentTo[c] == 0 {
				e.sentTo[c] = w.pos()
			}
		}
		for _, s := range w.subs {
			if s.conn == c && s.sig == f.Hdr.Action && s.installed() {
				s.queued++
				if s.acked {
					w.deliver(s)
				}
			}
		}
	case f.Hdr.Action == 0:
		for _, s := range w.subs {
			if s.conn == c && s.waitReg && s.regMid == f.Hdr.ID {
				if !w.n.WaitFor(c13Wait, func() bool {
					select {
					case <-s.done:
						return true
					default:
						return false
					}
				}) {
					w.surprise("subscriber %d: SubscribeID did not return after the answer %v", s.idx, f)
					return
				}
				w.afterReturn(s)
			}
		}
	case f.Hdr.Action == 1:
		for _, s := range w.subs {
			if s.conn == c && s.waitUnreg && s.unregMid == f.Hdr.ID {
				s.waitUnreg = false
				w.finishCancel(s)
			}
		}
	}
}

// burst: every parked frame of connection c is handed to the client at once; the endpoint
// dispatches them while the fan-out goroutines and readers run freely.  Labels: all the LCliRecv,
// then the LDeliver of each reader (any real interleaving of the two stays within the queue
// capacity for bursts of at most 100 events and has the same outcome).
func (w *c13world) burst(c int) {
	cl := w.clients[c]
	w.skipFillers(c)
	var frames []rig.Frame
	before := cl.c.Down.Read()
	for {
		f, ok := cl.c.Down.ReleaseOne()
		if !ok {
			break
		}
		frames = append(frames, f)
	}
	if !w.n.WaitFor(c13Wait, func() bool { return cl.c.Down.Read() >= before+len(frames) }) {
		w.surprise("burst(%d): the client did not read %d frames", c, len(frames))
	}
	for _, f := range frames {
		w.lab("LCliRecv %d", c)
		if f.Hdr.Type != net.Event {
			w.surprise("burst(%d): only events expected, saw %v", c, f)
			continue
		}
		for _, e := range w.emits {
			if e.sig == f.Hdr.Action && e.p == c13val(f.Payload) && e.sentTo[c] == 0 {
				e.sentTo[c] = w.pos()
			}
		}
		for _, s := range w.subs {
			if s.conn == c && s.sig == f.Hdr.Action && s.installed() {
				s.queued++
			}
		}
	}
	for _, s := range w.subs {
		for s.conn == c && s.acked && s.queued > 0 {
			w.deliver(s)
		}
	}
}

// finishCancel: the cancel function returns and the fan-out goroutine closes the channel.
func (w *c13world) finishCancel(s *c13sub) {
	ret := w.n.WaitFor(c13Wait, func() bool {
		select {
		case <-s.cdone:
			return true
		default:
			return false
		}
	})
	if !ret {
		w.surprise("subscriber %d: cancel did not return", s.idx)
		return
	}
	if w.n.WaitFor(c13Wait, s.isClosed) {
		// events read between the abort and the close (the select of the fan-out goroutine is free to take them)
		for s.count() > s.delivered {
			w.lab("LDeliver %d", s.idx)
			s.delivered++
		}
		w.lab("LFanClose %d", s.idx)
		s.finished = true
	} else {
		w.surprise("subscriber %d: channel not closed after cancel returned", s.idx)
	}
}

// startCancel: the cancel function of subscriber s is called.  Labels LCancel and either
// LSendUnreg (unregisterEvent frame seen) or the close of the channel.
func (w *c13world) startCancel(s *c13sub) {
	cl := w.clients[s.conn]
	s.mu.Lock()
	cancel := s.cancel
	s.mu.Unlock()
	if cancel == nil {
		w.surprise("cancel of subscriber %d: its SubscribeID has not returned a cancel function", s.idx)
		return
	}
	for _, o := range w.subs {
		if o != s && o.conn == s.conn && o.sig == s.sig && (o.waitReg || o.waitUnreg) {
			w.trig["sub_unserialised"] = true
			w.trig17[[2]int{s.conn, int(s.sig)}] = true
		}
	}
	s.cancelled, s.cancelPos = true, w.pos()
	before := len(cl.c.Up.Frames())
	go func() { cancel(); close(s.cdone) }()
	w.lab("LCancel %d", s.idx)
	isDone := func() bool {
		select {
		case <-s.cdone:
			return true
		default:
			return false
		}
	}
	ok := w.n.WaitFor(c13Wait, func() bool { return isDone() || len(cl.c.Up.Frames()) > before })
	switch {
	case !ok:
		w.surprise("cancel of subscriber %d neither returned nor sent a frame", s.idx)
	case len(cl.c.Up.Frames()) > before:
		f := cl.c.Up.Frames()[before]
		if f.Hdr.Action != 1 {
			w.surprise("expected an unregisterEvent call, saw %v", f)
		}
		s.unregMid, s.waitUnreg = f.Hdr.ID, true
		w.lab("LSendUnreg %d", s.idx)
	default:
		w.finishCancel(s)
	}
}

// drain: everything that can still happen without a new request.
func (w *c13world) drain() {
	for i := 0; i < 10000; i++ {
		if w.poll() {
			continue
		}
		if _, ok := w.pendingReply(); ok {
			w.reply()
			continue
		}
		if _, ok := w.blockedEvent(); ok {
			w.emitSend()
			continue
		}
		if _, ok := w.blockedRest(); ok {
			w.restSend()
			continue
		}
		moved := false
		if !w.dead {
			for c, cl := range w.clients {
				if len(cl.c.Up.Parked()) > 0 {
					w.mbox(c)
					moved = true
					break
				}
			}
		}
		if moved {
			continue
		}
		for c := range w.clients {
			if w.parkedDown(c) > 0 {
				w.cliRecv(c)
				moved = true
				break
			}
		}
		if !moved {
			return
		}
	}
}

// ---- observation ----

func (s *c13sub) pcCode() int {
	switch {
	case s.finished:
		return 2
	case s.failed:
		return 3
	case s.cancelled:
		return 4
	case s.acked:
		return 1
	}
	return 0
}

func (w *c13world) caseTerm(cfg string) string {
	var subs, downs, ups []string
	for _, s := range w.subs {
		s.mu.Lock()
		g := make([]uint64, len(s.got))
		for i, v := range s.got {
			g[i] = uint64(v)
		}
		s.mu.Unlock()
		subs = append(subs, fmt.Sprintf("(%d, %s)", s.pcCode(), hx.NList(g)))
	}
	for _, cl := range w.clients {
		var d, u []string
		for _, f := range cl.c.Down.Frames() {
			if f.Hdr.Service != w.sid {
				continue
			}
			p := uint32(0)
			if f.Hdr.Type == net.Event {
				p = c13val(f.Payload)
			}
			d = append(d, fmt.Sprintf("(%d, %d, %d, %d)", f.Hdr.Type, f.Hdr.Action, f.Hdr.ID, p))
		}
		for _, f := range cl.c.Up.Frames() {
			if f.Hdr.Service != w.sid || len(f.Payload) < 16 {
				continue
			}
			uid := binary.LittleEndian.Uint64(f.Payload[8:16])
			h, ok := w.uidOf[uid]
			if !ok {
				h = 999999
			}
			u = append(u, fmt.Sprintf("(%d, %d, %d, %d)", f.Hdr.Action, f.Hdr.ID, binary.LittleEndian.Uint32(f.Payload[4:8]), h))
		}
		downs = append(downs, hx.List(d))
		ups = append(ups, hx.List(u))
	}
	return fmt.Sprintf("{| k_labels := [%s]; k_subs := %s%%N; k_down := %s%%N; k_up := %s%%N; k_dead := %s |}",
		strings.Join(w.labels, "; "), hx.List(subs), hx.List(downs), hx.List(ups), hx.Bool(w.dead))
}

// ---- property oracles, evaluated on what the implementation did ----

type c13verdict struct {
	kind, detail string
	key          string // the observed defect switch whose trigger explains this failure ("" = none)
}

func (w *c13world) oracles() []c13verdict {
	var v []c13verdict
	hist := strings.Join(w.labels, "; ")
	if w.mode != 0 {
		hist = "object " + c13modeName(w.mode) + "; " + hist
	}
	if len(w.split) > 0 {
		hist += "; note: " + strings.Join(w.split, "; ")
	}
	if w.mid != nil && len(w.mid.placed) > 0 {
		hist += "; note: " + strings.Join(w.mid.placed, "; ")
	}
	emIndex := map[uint32]int{}
	for i, e := range w.emits {
		emIndex[e.p] = i
	}
	for _, s := range w.subs {
		s.mu.Lock()
		got := append([]uint32(nil), s.got...)
		corrupt := append([]string(nil), s.corrupt...)
		s.mu.Unlock()
		// with the emitted payload: every byte of it
		for i, b := range corrupt {
			if _, emitted := emIndex[got[i]]; emitted && b != "" {
				v = append(v, c13verdict{"payload-corrupt", fmt.Sprintf("subscriber %d (connection %d, signal %d): %s; schedule: %s", s.idx, s.conn, s.sig, b, hist), ""})
			}
		}
		// the channel of a subscriber that has not cancelled stays open (the connection stays up)
		if s.acked && !s.cancelled && s.isClosed() {
			v = append(v, c13verdict{"closed-while-subscribed", fmt.Sprintf("subscriber %d (connection %d, signal %d): its channel was closed although it never cancelled; schedule: %s", s.idx, s.conn, s.sig, hist), ""})
		}
		// exactly once, in emission order, only its own signal
		last := -1
		for _, p := range got {
			i, ok := emIndex[p]
			switch {
			case !ok:
				v = append(v, c13verdict{"foreign-payload", fmt.Sprintf("subscriber %d (connection %d, signal %d) read %d which was never emitted; schedule: %s", s.idx, s.conn, s.sig, p, hist), ""})
			case w.emits[i].sig != s.sig:
				v = append(v, c13verdict{"other-signal", fmt.Sprintf("subscriber %d of signal %d read payload %d emitted for signal %d; schedule: %s", s.idx, s.sig, p, w.emits[i].sig, hist), ""})
			case i <= last:
				v = append(v, c13verdict{"order-or-duplicate", fmt.Sprintf("subscriber %d read %v: emission #%d after #%d; schedule: %s", s.idx, got, i, last, hist), ""})
			}
			if ok && i > last {
				last = i
			}
		}
		if !s.acked {
			continue
		}
		// every emission inside the window
		for _, e := range w.emits {
			if e.sig != s.sig || e.pos < s.ackPos || (s.cancelled && e.pos >= s.cancelPos) {
				continue
			}
			has := false
			for _, p := range got {
				if p == e.p {
					has = true
				}
			}
			if has {
				continue
			}
			at, sent := e.sentTo[s.conn]
			key := ""
			switch {
			case w.trig["uid_global"]:
				key = "uid_global"
			case w.trig17[[2]int{s.conn, int(s.sig)}]:
				key = "sub_unserialised"
			case w.trig16[[2]int{emIndex[e.p], s.conn}]:
				key = "snapshot_send"
			}
			switch {
			case !e.written[s.conn]:
				v = append(v, c13verdict{"event-lost", fmt.Sprintf("subscriber %d (connection %d, signal %d, acknowledged at step %d) never got emission %d of step %d: no event frame was sent to its connection; schedule: %s", s.idx, s.conn, s.sig, s.ackPos, e.p, e.pos, hist), key})
			case !s.cancelled || (sent && at != 0 && at <= s.cancelPos):
				v = append(v, c13verdict{"event-lost", fmt.Sprintf("subscriber %d (connection %d, signal %d) did not read emission %d although its frame was dispatched at step %d (cancel requested: %v at %d); schedule: %s", s.idx, s.conn, s.sig, e.p, at, s.cancelled, s.cancelPos, hist), key})
			}
		}
		if s.cancelled && !s.finished && !s.waitUnreg {
			v = append(v, c13verdict{"not-closed", fmt.Sprintf("subscriber %d: channel not closed after its cancel returned; schedule: %s", s.idx, hist), ""})
		}
	}
	// no event for a registration after the answer that acknowledged its removal
	for c, cl := range w.clients {
		regMid := map[uint64]uint32{}
		removed := map[uint32]uint32{} // unregister call id -> register call id
		for _, f := range cl.c.Up.Frames() {
			if f.Hdr.Service != w.sid || len(f.Payload) < 16 {
				continue
			}
			uid := binary.LittleEndian.Uint64(f.Payload[8:16])
			if f.Hdr.Action == 0 {
				regMid[uid] = f.Hdr.ID
			} else if f.Hdr.Action == 1 {
				removed[f.Hdr.ID] = regMid[uid]
			}
		}
		gone := map[uint32]bool{}
		for _, f := range cl.c.Down.Frames() {
			if f.Hdr.Service != w.sid {
				continue
			}
			if f.Hdr.Type == net.Reply && f.Hdr.Action == 1 {
				gone[removed[f.Hdr.ID]] = true
			}
			if f.Hdr.Type == net.Event && gone[f.Hdr.ID] {
				key := ""
				for k := range w.trig16 {
					if k[1] == c {
						key = "snapshot_send"
					}
				}
				v = append(v, c13verdict{"event-after-unregister-reply", fmt.Sprintf("connection %d: event frame %v written after the reply to unregisterEvent of that registration; schedule: %s", c, f, hist), key})
			}
		}
	}
	for _, b := range w.bad {
		key := ""
		if w.trig["uid_global"] {
			key = "uid_global"
		}
		v = append(v, c13verdict{"stalled", b + "; schedule: " + hist, key})
	}
	return v
}

// report sends the verdicts of one run to the result: failures of a run that went through the
// trigger of an observed defect switch are attributed to that switch.
func (w *c13world) report(res *hx.Result, sw map[string]bool) {
	for _, v := range w.oracles() {
		if v.key != "" && sw[v.key] {
			res.FailKnown(v.kind, v.detail, v.key)
		} else {
			res.Fail(v.kind, v.detail)
		}
	}
}

// ---- scripted schedules (also the probes of the defect switches) ----

// sched17: a second subscriber on the same client while the first one's registerEvent call is in flight.
func c13sched17() (*c13world, bool) {
	w := c13new(1)
	w.drive()
	w.startSub(0, 200, 1)
	w.mayBlock = true
	s2 := w.startSub(0, 200, 2)
	w.mayBlock = false
	early := s2.acked
	w.emitSnap(200, 11)
	w.drain()
	w.emitSnap(200, 12)
	w.drain()
	return w, early
}

// sched16: B unregisters between the emitter's snapshot and its send to B.
func c13sched16() (*c13world, bool) {
	w := c13new(2)
	w.drive()
	w.startSub(0, 200, 1)
	w.drain()
	sb := w.startSub(1, 200, 2)
	w.drain()
	w.emitSnap(200, 21) // blocked in the send to connection 0
	on := false
	if sb.acked {
		w.startCancel(sb)
		if len(w.clients[1].c.Up.Parked()) > 0 {
			w.mbox(1)
			_, on = w.pendingReply()
			if on {
				w.reply()
				w.cliRecv(1)
			} else {
				w.dead = false // not dead: waiting for the emitter (repaired code)
			}
		}
	}
	w.drain()
	return w, on
}

// sched15: two clients draw the same handler id.
func c13sched15() (*c13world, bool, bool) {
	w := c13new(2)
	w.drive()
	w.startSub(0, 200, 7)
	w.drain()
	sb := w.startSub(1, 200, 7)
	w.drain()
	w.emitSnap(200, 31)
	w.drain()
	return w, !sb.acked, w.dead
}

// dupProbe: registerEvent twice with one id on one connection (free-running world).
func c13dupProbe() bool {
	w := c13new(1)
	defer w.close()
	payload := append(append(c13le(1), c13le(200)...), 7, 0, 0, 0, 0, 0, 0, 0)
	if _, err := w.clients[0].proxy.CallID(0, payload); err != nil {
		return false
	}
	done := make(chan struct{})
	go func() { w.clients[0].proxy.CallID(0, payload); close(done) }()
	select {
	case <-done:
		return false
	case <-time.After(c13Block):
		return true
	}
}

// other scripted schedules: legal behaviours the model must reproduce exactly
func c13scripts() []func() (*c13world, string) {
	return []func() (*c13world, string){
		func() (*c13world, string) { // event between the table insertion and the register reply
			w := c13new(1)
			w.drive()
			w.startSub(0, 200, 1)
			w.mbox(0)
			w.emitSnap(200, 41)
			w.emitSend()
			w.reply()
			w.drain()
			w.emitSnap(200, 42)
			w.drain()
			return w, "event-before-register-reply"
		},
		func() (*c13world, string) { // two signals on one connection, interleaved emissions
			w := c13new(1)
			w.drive()
			w.startSub(0, 200, 1)
			w.drain()
			w.startSub(0, 201, 2)
			w.drain()
			for i := 0; i < 3; i++ {
				w.emitSnap(200, uint32(50+2*i))
				w.emitSend()
				w.emitSnap(201, uint32(51+2*i))
				w.emitSend()
			}
			w.drain()
			return w, "two-signals-one-connection"
		},
		func() (*c13world, string) { // shared registration: first of two leaves, then the second
			w := c13new(1)
			w.drive()
			a := w.startSub(0, 200, 1)
			w.drain()
			b := w.startSub(0, 200, 2)
			w.emitSnap(200, 61)
			w.drain()
			w.startCancel(a)
			w.emitSnap(200, 62)
			w.drain()
			w.startCancel(b)
			w.drain()
			w.emitSnap(200, 63)
			w.drain()
			c := w.startSub(0, 200, 3)
			w.drain()
			w.emitSnap(200, 64)
			w.drain()
			w.startCancel(c)
			w.drain()
			return w, "refcount-and-resubscribe"
		},
		func() (*c13world, string) { // an event in flight when a subscriber that shares the registration cancels
			w := c13new(1)
			w.drive()
			a := w.startSub(0, 200, 1)
			w.drain()
			w.startSub(0, 200, 2)
			w.emitSnap(200, 71)
			w.emitSend()
			w.startCancel(a) // count 2 -> 1: handler removed at once, the frame is still parked
			w.drain()
			return w, "cancel-with-event-in-flight"
		},
		func() (*c13world, string) { // four connections subscribed to one signal; the second leaves
			w := c13new(4)
			w.drive()
			var ss []*c13sub
			for c := 0; c < 4; c++ {
				ss = append(ss, w.startSub(c, 201, c+1))
				w.drain()
			}
			w.emitSnap(201, 85)
			w.drain()
			w.startCancel(ss[1])
			w.drain()
			w.emitSnap(201, 86)
			w.drain()
			return w, "four-connections-one-signal"
		},
		func() (*c13world, string) { // the same signal subscribed and cancelled three times on one client
			w := c13new(2)
			w.drive()
			w.startSub(1, 200, 9)
			w.drain()
			for i := 0; i < 3; i++ {
				a := w.startSub(0, 200, i+1)
				w.drain()
				w.emitSnap(200, uint32(90+2*i))
				w.drain()
				w.startCancel(a)
				w.drain()
				w.emitSnap(200, uint32(91+2*i))
				w.drain()
			}
			b := w.startSub(0, 200, 5)
			w.drain()
			w.emitSnap(200, 99)
			w.drain()
			w.startCancel(b)
			w.drain()
			return w, "resubscribe-cycles"
		},
		func() (*c13world, string) { // a burst of 60 events reaches the client at once (queue capacity 100)
			w := c13new(1)
			w.drive()
			w.startSub(0, 106, 1)
			w.drain()
			w.startSub(0, 106, 2)
			for i := 0; i < 60; i++ {
				w.emitSnap(106, uint32(1000+i))
				w.emitSend()
			}
			w.burst(0)
			w.drain()
			return w, "burst-60"
		},
		func() (*c13world, string) { // three connections, property and signal, emissions held between sends
			w := c13new(3)
			w.drive()
			w.startSub(0, 300, 1)
			w.startSub(1, 300, 2)
			w.startSub(2, 200, 3)
			w.mbox(2)
			w.reply()
			w.mbox(1)
			w.cliRecv(2)
			w.reply()
			w.mbox(0)
			w.drain()
			w.emitSnap(300, 81)
			w.emitSend()
			w.cliRecv(1)
			w.emitSend()
			w.emitSnap(200, 82)
			w.drain()
			return w, "three-connections-property"
		},
		func() (*c13world, string) { // events of every size class written while the mailbox goroutine writes an answer to the same connection
			w := c13new(2)
			w.drive()
			w.startSub(0, 200, 1)
			w.drain()
			w.startSub(1, 200, 2)
			w.drain()
			var other *c13sub
			for k := 1; k < len(c13sizes) && len(w.bad) == 0; k++ {
				if other == nil { // the request whose answer competes with the event: a registration or its removal
					other = w.startSub(0, 201, 10+k)
				} else {
					w.startCancel(other)
					other = nil
				}
				w.mbox(0)                                 // the answer is blocked in its Write ...
				w.emitSnap(200, c13big(k, uint32(100+k))) // ... and so is the event for the same connection
				if k%3 != 0 {
					w.emitSend() // the event (or whatever its first Write call carries) goes first
				} else {
					w.reply()
				}
				w.drain() // the answer, the rest, connection 1, dispatch, readers
			}
			return w, "large-events-while-answering"
		},
		func() (*c13world, string) { // the same through the generated proxy, a property and an answer per event on one connection
			w := c13new(1)
			w.drive()
			w.startSub(0, 106, 1)
			w.drain()
			w.startSub(0, 300, 2)
			w.drain()
			var other *c13sub
			for k := len(c13sizes) - 1; k >= 1 && len(w.bad) == 0; k-- {
				if other == nil {
					other = w.startSub(0, 107, 10+k)
				} else {
					w.startCancel(other)
					other = nil
				}
				w.mbox(0)
				w.emitSnap([]uint32{106, 300}[k%2], c13big(k, uint32(200+k)))
				w.emitSend()
				w.drain()
			}
			return w, "large-events-generated-proxy"
		},
	}
}

// ---- generated schedules ----

func (w *c13world) liveSubs() []*c13sub {
	var l []*c13sub
	for _, s := range w.subs {
		if s.acked && !s.cancelled {
			l = append(l, s)
		}
	}
	return l
}

// c13sized: one emission in four carries a payload of a random size class (1000 bytes to 400000 bytes).
func c13sized(rng *hx.Rng, n uint32) uint32 {
	if rng.Intn(4) != 0 {
		return n
	}
	return c13big(1+rng.Intn(len(c13sizes)-1), n)
}

// sequential: every operation runs to completion before the next one starts.
func c13sequential(rng *hx.Rng, nops, nconn, nsig, maxsubs int) *c13world {
	w := c13new(nconn)
	w.drive()
	payload := uint32(100)
	h := 0
	for i := 0; i < nops; i++ {
		live := w.liveSubs()
		switch k := rng.Intn(10); {
		case k < 3 && len(w.subs) < maxsubs:
			h++
			c := rng.Intn(nconn)
			w.startSub(c, c13sigs[rng.Intn(nsig)], h)
			c13midMaybe(rng, w, c, nsig, &payload)
		case k < 5 && len(live) > 0:
			s := live[rng.Intn(len(live))]
			w.startCancel(s)
			c13midMaybe(rng, w, s.conn, nsig, &payload)
		default:
			payload++
			w.emitSnap(c13sigs[rng.Intn(nsig)], c13sized(rng, payload))
		}
		w.drain()
		if len(w.bad) > 0 {
			break
		}
	}
	return w
}

// interleaved: the driver picks any enabled action; requests overlap.
func c13interleaved(rng *hx.Rng, nsteps int) *c13world {
	w := c13new(2 + rng.Intn(2))
	w.drive()
	payload := uint32(500)
	h := 0
	nc := len(w.clients)
	mids := 2 // requests of this schedule that may get an emission inside (c13mid.go)
	for i := 0; i < nsteps && len(w.bad) == 0; i++ {
		type act func()
		var acts []act
		add := func(weight int, a act) {
			for j := 0; j < weight; j++ {
				acts = append(acts, a)
			}
		}
		if len(w.subs) < 8 {
			if c := rng.Intn(nc); !c13serialised || !w.busy(c) {
				add(3, func() { h++; w.startSub(c, c13sigs[rng.Intn(2)], h) })
			}
		}
		for _, s := range w.liveSubs() {
			s := s
			if !c13serialised || !w.busy(s.conn) {
				add(1, func() { w.startCancel(s) })
			}
		}
		if !w.emitBusy {
			add(4, func() { payload++; w.emitSnap(c13sigs[rng.Intn(2)], c13sized(rng, payload)) })
		} else {
			add(4, w.emitSend)
		}
		if _, ok := w.pendingReply(); ok {
			add(4, w.reply)
		} else if !w.dead {
			for c, cl := range w.clients {
				if len(cl.c.Up.Parked()) > 0 {
					c := c
					add(3, func() { w.mbox(c) })
					if mids > 0 && w.midOK(c) {
						add(2, func() {
							mids--
							payload++
							sig, p := c13sigs[rng.Intn(2)], c13sized(rng, payload)
							w.mboxMid(c, func() { w.emitWhole(sig, p) })
						})
					}
				}
			}
		}
		for c := range w.clients {
			if w.parkedDown(c) > 0 {
				c := c
				add(3, func() { w.cliRecv(c) })
			}
		}
		acts[rng.Intn(len(acts))]()
	}
	w.drain()
	return w
}

func runC13(res *hx.Result, rng *hx.Rng, tier string, outdir string) {
	res.Rule = "schedules of subscribe / cancel / emit by up to 9 subscribers on 3 connections x 3 signals (one a property), " +
		"executed label by label through harness-owned streams; non-trivial = at least 2 emissions with a change of the " +
		"subscriber set between them; distinct by sha256 of the label sequence; client side: sequences of subscribe / cancel / " +
		"emit / one receive attempt of one subscriber by up to 6 subscribers of 3 signals on one client whose readers read only " +
		"when the sequence says so; non-trivial = at least 2 subscribers and 2 emissions; emissions placed inside the mailbox " +
		"goroutine's processing of a registerEvent / unregisterEvent (scripts, one request in three of the sequential schedules, up " +
		"to two per interleaved schedule); raw registerEvent / unregisterEvent sequences with colliding ids, also next to " +
		"connections whose writes fail (EPIPE, ECONNRESET, io.EOF), that were closed, that fail once or are slow; bursts of events of " +
		"4 bytes to 300000 bytes (around and above 64 KB) to 5 subscribers on 3 connections of a server on unix:// and tcp:// " +
		"while every connection has calls in flight; non-trivial = at least one event above 64 KB followed by another frame"
	nSeq, nInter := 200, 150
	if tier == "thorough" {
		nSeq, nInter = 3000, 5000
	}
	if os.Getenv("QV_C13_REAL") == "only" { // the real-transport family alone (c13real.go)
		c13runReal(res, hx.NewRng(res.Seed*0x9e3779b97f4a7c15+613), tier)
		return
	}
	if strings.HasPrefix(os.Getenv("QV_C13_FWD"), "only:") { // campaign of the client-side family alone (c13fwd.go)
		c13runFwd(res, rng, tier, outdir)
		return
	}
	// the client side with readers that the harness controls (c13fwd.go).  First: it reads the state of its
	// forwarders off runtime.Stack dumps, whose cost grows with the goroutines the other families leave behind
	// (40 minutes instead of 3 in the thorough tier when it ran last).  Its own random stream.
	t0 := time.Now()
	lap := func(what string) { // QV_C13_TIMING=1: where the time goes
		if os.Getenv("QV_C13_TIMING") != "" {
			fmt.Fprintf(os.Stderr, "C13 %-28s %6.2fs\n", what, time.Since(t0).Seconds())
		}
		t0 = time.Now()
	}
	c13runFwd(res, hx.NewRng(res.Seed*0x9e3779b97f4a7c15+13), tier, outdir)
	lap("client-side family")
	// defect switches: replay of the C13_refuted_* witnesses on the implementation
	w17, on17 := c13sched17()
	w16, on16 := c13sched16()
	w15, on15, dead15 := c13sched15()
	dup := c13dupProbe()
	c13serialised = !on17
	sw := map[string]bool{"sub_unserialised": on17, "snapshot_send": on16, "uid_global": on15, "dup_relock": dup}
	res.Switch("sub_unserialised", on17, "SubscribeID by a second subscriber returns while the first one's registerEvent call is held: schedule "+strings.Join(w17.labels, "; "))
	res.Switch("snapshot_send", on16, "unregisterEvent is answered between UpdateSignal's snapshot and its send to that connection: schedule "+strings.Join(w16.labels, "; "))
	res.Switch("uid_global", on15, fmt.Sprintf("two clients drawing the same handler id: the second registerEvent is not accepted (object stops answering: %v): schedule %s", dead15, strings.Join(w15.labels, "; ")))
	cfg := fmt.Sprintf("Definition g : scfg := {| uid_global := %s; snapshot_send := %s; sub_unserialised := %s; dup_relock := %s |}.",
		hx.Bool(on15), hx.Bool(on16), hx.Bool(on17), hx.Bool(dup))
	cf := hx.NewCases(outdir, "C13", "From QV Require Import Signals C13Run.", "mismatches g cases", res, "cases", "kcase")
	cf.Extra = append(cf.Extra, cfg)
	if strings.HasPrefix(os.Getenv("QV_C13_HEALTH"), "only:") { // campaign: QV_C13_HEALTH=only:N random sequences with connections in bad health, nothing else
		for _, w := range []*c13world{w17, w16, w15} {
			w.close()
		}
		cf.Flush()
		c13runRaw(res, rng, tier, outdir, cfg)
		return
	}

	finish := func(w *c13world, name string) {
		w.report(res, sw)
		sets := 0
		nem := 0
		lastSet := ""
		for _, l := range w.labels {
			if strings.HasPrefix(l, "LEmitSnap") {
				nem++
			}
		}
		_ = lastSet
		for _, s := range w.subs {
			if s.acked {
				sets++
			}
		}
		res.Count(fmt.Sprintf("mode%d;", w.mode)+strings.Join(w.labels, ";"), nem >= 2 && sets >= 2)
		res.Dist("kind:" + name)
		res.Dist("object:" + strings.SplitN(c13modeName(w.mode), " (", 2)[0])
		res.Dist(fmt.Sprintf("subscribers:%d", len(w.subs)))
		res.Sample(fmt.Sprintf("%s: %d labels, %d subscribers, %d emissions", name, len(w.labels), len(w.subs), nem))
		cf.Add("cases", w.caseTerm(cfg), name+" [object "+c13modeName(w.mode)+"]: "+strings.Join(w.labels, "; "))
		w.close()
	}
	finish(w17, "probe-sub_unserialised")
	finish(w16, "probe-snapshot_send")
	finish(w15, "probe-uid_global")
	for _, f := range c13scripts() {
		w, name := f()
		finish(w, "script-"+name)
	}
	lap("probes, scripts")
	// an emission inside the mailbox goroutine's processing of a request (c13mid.go)
	for i, f := range c13midScripts() {
		for m := 0; m <= 3; m++ {
			if tier != "thorough" && m != 0 && m != 1+i%3 {
				continue
			}
			c13mode = m
			w, name := f()
			c13mode = 0
			for _, n := range w.notes {
				if strings.HasPrefix(n, "an emission could not be placed") {
					res.Notes = append(res.Notes, "C13 script-"+name+": "+n)
				}
			}
			finish(w, "script-"+name)
		}
	}
	lap("emission-inside scripts")
	// the same scripts on an object with statistics and/or tracing enabled
	for i, f := range c13scripts() {
		for m := 1; m <= 3; m++ {
			if tier != "thorough" && m != 1+i%3 && i != 5 && i != 2 { // quick: one mode per script, every mode for the re-subscription scripts
				continue
			}
			c13mode = m
			w, name := f()
			c13mode = 0
			finish(w, "script-"+name)
		}
	}
	lap("scripts in other modes")
	if tier == "thorough" {
		c13midLeft = 600
	}
	for i := 0; i < nSeq; i++ {
		c13mode = (i / 2) % 4
		if i%2 == 0 {
			finish(c13sequential(rng, 6+rng.Intn(10), 3, 5, 9), "sequential")
		} else { // few keys, many operations: shared registrations, re-subscription cycles
			finish(c13sequential(rng, 14+rng.Intn(14), 2, 1+rng.Intn(2), 14), "sequential-focused")
		}
	}
	lap("sequential")
	if tier == "thorough" {
		c13midLeft = 600
	}
	for i := 0; i < nInter; i++ {
		c13mode = i % 4
		finish(c13interleaved(rng, 15+rng.Intn(30)), "interleaved")
	}
	c13mode = 0
	c13midLeft = 0 // the exhaustive sequences do not use it
	lap("interleaved")
	if tier == "thorough" {
		// every sequence of at most 4 operations over 2 connections x 2 signals (one through the generated proxy)
		res.Exhaustive = true
		var rec func(prefix []int)
		run := func(seq []int) {
			c13mode = 0
			for _, o := range seq {
				c13mode = (c13mode + o) % 4
			}
			w := c13new(2)
			c13mode = 0
			w.drive()
			payload := uint32(100)
			h := 0
			for _, o := range seq {
				live := w.liveSubs()
				switch {
				case o < 4:
					h++
					w.startSub(o/2, []uint32{200, 106}[o%2], h)
				case o == 4 && len(live) > 0:
					w.startCancel(live[0])
				case o == 5 && len(live) > 0:
					w.startCancel(live[len(live)-1])
				case o >= 6:
					payload++
					w.emitSnap([]uint32{200, 106}[o-6], payload)
				}
				w.drain()
			}
			finish(w, "exhaustive")
		}
		rec = func(prefix []int) {
			if len(prefix) > 0 {
				run(prefix)
			}
			if len(prefix) == 4 {
				return
			}
			for o := 0; o < 8; o++ {
				rec(append(append([]int(nil), prefix...), o))
			}
		}
		rec(nil)
	}
	cf.Flush()
	// registrations with caller-chosen ids (c13raw.go)
	lap("exhaustive, flush")
	c13runRaw(res, rng, tier, outdir, cfg)
	lap("raw family")
	// bursts of events of every size over unix:// and tcp:// (c13real.go).  Its own random stream.
	c13runReal(res, hx.NewRng(res.Seed*0x9e3779b97f4a7c15+613), tier)
	lap("real transports")
}
