package main

import (
	"bytes"
	"fmt"
	"math"
	"strings"

	"github.com/lugu/qiloop/type/value"
	"qv/internal/hx"
	"qv/internal/wg"
)

func init() { props["C02"] = runC02 }

// dv mirrors coq/theories/Value.v dval.
type dv struct {
	kind string // letter of a scalar kind, or "s", "L[" (list), "r", "v", "O" (opaque)
	bits uint64
	b    []byte
	l    []*dv
	sig  string
	t    *wg.Ty // opaque: its type and typed data tree
	tv   *wg.Val
}

var dkCtor = map[string]string{"b": "KBool", "c": "KI8", "C": "KU8", "w": "KI16", "W": "KU16", "i": "KI32", "I": "KU32", "l": "KI64", "L": "KU64", "f": "KF32"}
var dkWidth = map[string]int{"b": 1, "c": 1, "C": 1, "w": 2, "W": 2, "i": 4, "I": 4, "l": 8, "L": 8, "f": 4}

func (d *dv) coq() string {
	switch d.kind {
	case "s":
		return "DStr (unhex " + hx.Hex(d.b) + ")"
	case "L[":
		it := make([]string, len(d.l))
		for i, x := range d.l {
			it[i] = x.coq()
		}
		return "DList " + hx.List(it)
	case "r":
		return "DRaw (unhex " + hx.Hex(d.b) + ")"
	case "v":
		return "DVoid"
	case "O":
		return "DOpaque (unhex " + hx.Hex([]byte(d.sig)) + ") (unhex " + hx.Hex(d.b) + ")"
	}
	return fmt.Sprintf("DNum %s %d%%N", dkCtor[d.kind], d.bits)
}

func (d *dv) canon() string {
	switch d.kind {
	case "s", "r":
		return fmt.Sprintf("%s:%x", d.kind, d.b)
	case "L[":
		it := make([]string, len(d.l))
		for i, x := range d.l {
			it[i] = x.canon()
		}
		return "[" + strings.Join(it, ",") + "]"
	case "v":
		return "void"
	case "O":
		return fmt.Sprintf("O<%s>%x", d.sig, d.b)
	}
	return fmt.Sprintf("%s:%x", d.kind, d.bits)
}

func (d *dv) depth() int {
	m := 0
	for _, x := range d.l {
		if k := x.depth(); k > m {
			m = k
		}
	}
	return m + 1
}

// the documented encoding of a dynamic value: signature string, then the data
func (d *dv) doc() []byte {
	var b bytes.Buffer
	str := func(s []byte) {
		b.Write([]byte{byte(len(s)), byte(len(s) >> 8), byte(len(s) >> 16), byte(len(s) >> 24)})
		b.Write(s)
	}
	switch d.kind {
	case "s":
		str([]byte("s"))
		str(d.b)
	case "L[":
		str([]byte("[m]"))
		n := len(d.l)
		b.Write([]byte{byte(n), byte(n >> 8), byte(n >> 16), byte(n >> 24)})
		for _, x := range d.l {
			b.Write(x.doc())
		}
	case "r":
		str([]byte("r"))
		n := len(d.b)
		b.Write([]byte{byte(n), byte(n >> 8), byte(n >> 16), byte(n >> 24)})
		b.Write(d.b)
	case "v":
		str([]byte("v"))
	case "O":
		str([]byte(d.sig))
		b.Write(d.b)
	default:
		str([]byte(d.kind))
		for i := 0; i < dkWidth[d.kind]; i++ {
			b.WriteByte(byte(d.bits >> uint(8*i)))
		}
	}
	return b.Bytes()
}

func (d *dv) goValue() value.Value {
	switch d.kind {
	case "b":
		return value.Bool(d.bits != 0)
	case "c":
		return value.Int8(int8(d.bits))
	case "C":
		return value.Uint8(uint8(d.bits))
	case "w":
		return value.Int16(int16(d.bits))
	case "W":
		return value.Uint16(uint16(d.bits))
	case "i":
		return value.Int(int32(d.bits))
	case "I":
		return value.Uint(uint32(d.bits))
	case "l":
		return value.Long(int64(d.bits))
	case "L":
		return value.Ulong(d.bits)
	case "f":
		return value.Float(math.Float32frombits(uint32(d.bits)))
	case "s":
		return value.String(string(d.b))
	case "L[":
		l := make([]value.Value, len(d.l))
		for i, x := range d.l {
			l[i] = x.goValue()
		}
		return value.List(l)
	case "r":
		return value.Raw(d.b)
	case "v":
		return value.Void()
	}
	return value.Opaque(d.sig, d.b)
}

func fromGo(v value.Value) *dv {
	switch x := v.(type) {
	case value.BoolValue:
		if x.Value() {
			return &dv{kind: "b", bits: 1}
		}
		return &dv{kind: "b"}
	case value.Int8Value:
		return &dv{kind: "c", bits: uint64(uint8(x.Value()))}
	case value.Uint8Value:
		return &dv{kind: "C", bits: uint64(x.Value())}
	case value.Int16Value:
		return &dv{kind: "w", bits: uint64(uint16(x.Value()))}
	case value.Uint16Value:
		return &dv{kind: "W", bits: uint64(x.Value())}
	case value.IntValue:
		return &dv{kind: "i", bits: uint64(uint32(x.Value()))}
	case value.UintValue:
		return &dv{kind: "I", bits: uint64(x.Value())}
	case value.LongValue:
		return &dv{kind: "l", bits: uint64(x.Value())}
	case value.UlongValue:
		return &dv{kind: "L", bits: x.Value()}
	case value.FloatValue:
		return &dv{kind: "f", bits: uint64(math.Float32bits(x.Value()))}
	case value.StringValue:
		return &dv{kind: "s", b: []byte(x.Value())}
	case value.ListValue:
		d := &dv{kind: "L["}
		for _, e := range x.Value() {
			d.l = append(d.l, fromGo(e))
		}
		return d
	case value.RawValue:
		return &dv{kind: "r", b: x.Value()}
	case value.VoidValue:
		return &dv{kind: "v"}
	case *value.OpaqueValue:
		return &dv{kind: "O", sig: x.Signature(), b: value.Bytes(x)}
	}
	return &dv{kind: "?"}
}

var opaqueOpts = wg.GenOpts{MaxDepth: 3, Scalars: "cCwWiIlLfdbsm", KeyScalar: "sIil", MaxWidth: 3, Template: true}

func genDv(r *hx.Rng, depth, maxDepth int) *dv {
	c := r.Intn(16)
	switch {
	case c < 6:
		k := string("bcCwWiIlLf"[r.Intn(10)])
		w := dkWidth[k]
		bits := r.U64()
		switch r.Intn(4) {
		case 0:
			bits = 0
		case 1:
			bits = math.MaxUint64
		case 2:
			bits = 1 << uint(r.Intn(64))
		}
		if w < 8 {
			bits &= (uint64(1) << uint(8*w)) - 1
		}
		if k == "b" {
			bits &= 1
		}
		if k == "f" && r.Chance(0.15) {
			// NaN bit patterns, signalling ones included: a float is 4 bytes that come back as they were
			bits = uint64([]uint32{0x7fa00001, 0xffa00000, 0x7f800001, 0x7fc12345, 0xffffffff, 0x7fc00000}[r.Intn(6)])
		}
		return &dv{kind: k, bits: bits}
	case c < 8:
		return &dv{kind: "s", b: r.Bytes(r.Pick(0, 1, 5, 30, 200))}
	case c < 9:
		return &dv{kind: "r", b: r.Bytes(r.Pick(0, 1, 17, 300))}
	case c < 10:
		return &dv{kind: "v"}
	case c < 13 && depth < maxDepth:
		d := &dv{kind: "L["}
		for i := 0; i < r.Intn(4); i++ {
			d.l = append(d.l, genDv(r, depth+1, maxDepth))
		}
		return d
	default:
		// opaque: any signature that NewValue does not special-case
		for {
			t := wg.GenTy(r, opaqueOpts, 0)
			s := t.Sig()
			if s == "[m]" || len(s) == 1 && s != "d" {
				continue
			}
			tv := wg.GenVal(r, t, 3)
			return &dv{kind: "O", sig: s, b: tv.Enc(), t: t, tv: tv}
		}
	}
}

func (d *dv) hasOpaqueWithM() bool {
	if d.kind == "O" && d.t != nil && d.t.HasScalar("m") {
		return true
	}
	for _, x := range d.l {
		if x.hasOpaqueWithM() {
			return true
		}
	}
	return false
}
func (d *dv) hasOpaque() bool {
	if d.kind == "O" {
		return true
	}
	for _, x := range d.l {
		if x.hasOpaque() {
			return true
		}
	}
	return false
}

type nvOut struct {
	class int
	v     *dv
	left  int
}

func newValue(input []byte) (o nvOut) {
	defer func() {
		if recover() != nil {
			o = nvOut{class: ocPanic}
		}
	}()
	r := mkReader(input)
	v, err := value.NewValue(r)
	if err != nil {
		return nvOut{class: ocErr, left: r.Len()}
	}
	return nvOut{class: ocOK, v: fromGo(v), left: r.Len()}
}

func runC02(res *hx.Result, rng *hx.Rng, tier string, outdir string) {
	res.Rule = "random dynamic-value trees over every constructor (scalars with boundary bits, strings, raw, void, nested lists, opaque values of a random signature " +
		"incl. nested m inside lists/maps/structs) + 0..7 trailing bytes; non-trivial = depth >= 2, or opaque with a container signature, or trailing bytes; distinct by sha256 of the canonical tree + trailer"
	n, maxDepth := 900, 4
	if tier == "thorough" {
		n, maxDepth = 30000, 7
	}
	cfg, sw := wireSwitches(res, "value_reader_no_len")
	// the asymmetry of the length limits: values the encoder writes and the decoder refuses
	big := &dv{kind: "L["}
	for i := 0; i < 4097; i++ {
		big.l = append(big.l, &dv{kind: "v"})
	}
	var bb bytes.Buffer
	big.goValue().Write(&bb)
	o := newValue(bb.Bytes())
	res.Switch("list_over_4096", o.class != ocOK, "a ListValue of 4097 void values is written by Value.Write and refused by NewValue (list value too long)")
	raw := &dv{kind: "r", b: make([]byte, 10*1024*1024+1)}
	bb.Reset()
	raw.goValue().Write(&bb)
	o = newValue(bb.Bytes())
	res.Switch("raw_over_10MiB", o.class != ocOK, "a RawValue of 10 MiB + 1 bytes is written by Value.Write and refused by NewValue (raw value too long)")

	cs := hx.NewCases(outdir, "C02", "From QV Require Import Value ParseOpt C02Run.", "mismatches cfg cases", res, "cases", "c02case")
	cs.Extra = append(cs.Extra, cfg)
	// the decoder's limits, exactly: the largest values it must still accept
	boundary := []*dv{}
	for _, k := range []int{4095, 4096} {
		l := &dv{kind: "L["}
		for i := 0; i < k; i++ {
			l.l = append(l.l, &dv{kind: "v"})
		}
		boundary = append(boundary, l)
	}
	for _, b := range []*dv{{kind: "r", b: make([]byte, 10*1024*1024)}, {kind: "s", b: bytes.Repeat([]byte("x"), 10*1024*1024)}} {
		var buf bytes.Buffer
		b.goValue().Write(&buf)
		if o := newValue(buf.Bytes()); o.class != ocOK || o.left != 0 || o.v.kind != b.kind || len(o.v.b) != len(b.b) {
			res.Fail("limit", fmt.Sprintf("a %s value of exactly %d bytes (the decoder's limit) does not round-trip: class %d", b.kind, len(b.b), o.class))
		}
		res.Count(fmt.Sprintf("limit-%s", b.kind), true)
		res.Dist("kind:limit-sized " + b.kind)
	}
	// directed: several opaque struct/tuple values side by side in one list (a reader that reuses a
	// buffer between values shows up only when an earlier value is still held), and opaque lists
	// of zero-width elements with a non-zero count
	for k := 0; k < 12; k++ {
		l := &dv{kind: "L["}
		for e := 0; e < 2+rng.Intn(3); e++ {
			var t *wg.Ty
			if k%2 == 0 {
				t = wg.Struct("P", []string{"a", "b"}, wg.Scalar("i"), wg.Scalar("s"))
			} else {
				t = wg.GenTy(rng, wg.GenOpts{MaxDepth: 2, Scalars: "iIsbl", KeyScalar: "sI", MaxWidth: 3}, 0)
				if t.K == wg.KScalar {
					t = wg.Tuple(t, wg.Scalar("s"))
				}
			}
			tv := wg.GenVal(rng, t, 3)
			l.l = append(l.l, &dv{kind: "O", sig: t.Sig(), b: tv.Enc(), t: t, tv: tv})
		}
		boundary = append(boundary, l)
	}
	for _, zs := range []string{"[v]", "[()]", "(i[v]s)<S,a,b,c>", "{i()}"} {
		var data []byte
		switch zs {
		case "(i[v]s)<S,a,b,c>":
			data = []byte{7, 0, 0, 0, 3, 0, 0, 0, 1, 0, 0, 0, 'x'}
		case "{i()}":
			data = []byte{2, 0, 0, 0, 1, 0, 0, 0, 2, 0, 0, 0}
		default:
			data = []byte{3, 0, 0, 0}
		}
		boundary = append(boundary, &dv{kind: "O", sig: zs, b: data, t: wg.Scalar("v")})
	}
	// directed: every scalar kind in every container position of an opaque signature, and the
	// containers of zero-width elements (alone, nested, next to sized members), each with a value
	// whose containers are all non-empty and with a random one
	for _, t := range wg.DirectedTys(opaqueOpts.Scalars, opaqueOpts.KeyScalar, true) {
		sg := t.Sig()
		if sg == "[m]" || len(sg) == 1 {
			continue
		}
		for _, tv := range []*wg.Val{wg.GenValFull(rng, t, 2), wg.GenVal(rng, t, 3)} {
			boundary = append(boundary, &dv{kind: "O", sig: sg, b: tv.Enc(), t: t, tv: tv})
		}
	}
	// opaque values of types that differ but look alike to a cache keyed by part of a type, one after the other
	for _, t := range wg.CollidingTys() {
		tv := wg.GenValFull(rng, t, 2)
		boundary = append(boundary, &dv{kind: "O", sig: t.Sig(), b: tv.Enc(), t: t, tv: tv})
	}
	for i := 0; i < n+len(boundary); i++ {
		var d *dv
		if i < len(boundary) {
			d = boundary[i]
		} else {
			d = genDv(rng, 0, maxDepth)
		}
		doc := d.doc()
		var buf bytes.Buffer
		if err := d.goValue().Write(&buf); err != nil {
			res.Fail("write", fmt.Sprintf("Value.Write failed on %s: %v", d.canon(), err))
			continue
		}
		enc := buf.Bytes()
		if !bytes.Equal(enc, doc) {
			res.Fail("layout", fmt.Sprintf("value %s written as %x, documented (signature string then data) %x", d.canon(), enc, doc))
		}
		trail := rng.Bytes(rng.Pick(0, 0, 1, 4, 7))
		input := append(append([]byte(nil), enc...), trail...)
		o := newValue(input)
		knownM := d.hasOpaqueWithM() && sw["value_reader_no_len"]
		failf := func(kind, detail string) {
			if knownM {
				res.FailKnown(kind, detail, "value_reader_no_len")
			} else {
				res.Fail(kind, detail)
			}
		}
		if o.class != ocOK {
			failf("decode", fmt.Sprintf("NewValue fails (class %d) on the encoding %x of %s", o.class, enc, d.canon()))
		} else {
			if o.v.canon() != d.canon() {
				failf("roundtrip", fmt.Sprintf("value %s encoded %x decodes to %s", d.canon(), enc, o.v.canon()))
			}
			if o.left != len(trail) {
				failf("consumed", fmt.Sprintf("value %s: decoder left %d bytes, %d follow the encoding %x", d.canon(), o.left, len(trail), enc))
			}
			var re bytes.Buffer
			o.v.goValue().Write(&re)
			if !bytes.Equal(re.Bytes(), enc) {
				failf("reencode", fmt.Sprintf("value %s: encoding %x, decoded and re-encoded %x", d.canon(), enc, re.Bytes()))
			}
		}
		// oracle: what the stream hands out per Read call does not matter
		for rk := 1; rk <= 3 && len(input) < 5000; rk++ {
			readerKind = rk
			o2 := newValue(input)
			same := o2.class == o.class && o2.left == o.left
			if same && o.v != nil && o2.v != nil && o2.v.canon() != o.v.canon() {
				same = false
			}
			if !same {
				got := "<none>"
				if o2.v != nil {
					got = o2.v.canon()
				}
				res.Fail("decoder-fragmentation", fmt.Sprintf("value %s encoding %x: NewValue gives class %d, %d left from a *bytes.Reader and class %d, %s, %d left from reader kind %d (1 = *bytes.Buffer, 2 = one byte per Read, 3 = data together with EOF)",
					d.canon(), enc, o.class, o.left, o2.class, got, o2.left, rk))
			}
		}
		readerKind = 0
		nontrivial := d.depth() >= 2 || (d.kind == "O" && d.t.Depth() >= 2) || len(trail) > 0
		res.Count(d.canon()+fmt.Sprintf("|%x", trail), nontrivial)
		res.Dist("kind:" + d.kind)
		res.Dist(fmt.Sprintf("depth:%d", d.depth()))
		if d.hasOpaque() {
			res.Dist("has-opaque")
		}
		if len(enc) < 120 {
			res.Sample(fmt.Sprintf("%s -> %x", d.canon(), enc))
		}
		dec := "DVoid"
		if o.v != nil {
			dec = o.v.coq()
		}
		cs.Add("cases", fmt.Sprintf("{| v_val := %s; v_enc := %s; v_input := %s; v_class := %d; v_dec := %s; v_left := %d |}",
			d.coq(), hx.Hex(enc), hx.Hex(input), o.class, dec, o.left), d.canon())
	}
	cs.Flush()
}
