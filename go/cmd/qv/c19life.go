package main

// C19, second part — the LIFE of the session's connection pool.  A life is a sequence of phases
// run on ONE client session, in a child process (sub-command C19life):
//
//   burst  : k requests — Session.Proxy, Session.Object or Session.client (hook, identity
//            observable), mixed — either one after the other or all together with the forced
//            schedule of c19.go (the harness listeners hold the authentication reply until every
//            goroutine that must dial has connected);
//   lose   : the pooled connection to an endpoint is lost while its services stay registered:
//            the server side closes the socket ("peer"), the server side sends bytes that are not
//            a message ("garbage": the client side tears the connection down), or the client
//            endpoint is closed ("local"); the harness then waits until the session has noticed;
//   unreg / rereg : a service is unregistered and registered again, behind another endpoint
//            when there is one (new service id, new address); the harness waits until the
//            session's service list shows it.
//
// After every phase the harness records the connections accepted / still open per endpoint and
// which endpoints the pool holds.  Every life ends with one Proxy and one Object request per
// registered service.  The model (coq/theories/SessionLife.v: LSpawn / LStep / LLose with the
// closer program) replays the phases and C19Run.lcase_ok compares every snapshot and the
// identity classes of the clients over the whole life.

import (
	"context"
	"encoding/json"
	"fmt"
	"os"
	"os/exec"
	"path/filepath"
	"strings"
	"sync"
	"time"

	"bytes"

	"github.com/lugu/qiloop/bus"
	"github.com/lugu/qiloop/bus/directory"
	"github.com/lugu/qiloop/bus/net"
	"github.com/lugu/qiloop/bus/services"
	"github.com/lugu/qiloop/bus/session"
	"github.com/lugu/qiloop/type/object"
	"qv/internal/hx"
)

func init() { props["C19life"] = runC19LifeChild }

type c19Req struct {
	Svc  int    `json:"svc"`
	Kind string `json:"kind"`           // proxy | object | hook
	Gone bool   `json:"gone,omitempty"` // the service is unregistered at that moment: the request must only return
}

type c19Phase struct {
	Kind string   `json:"kind"` // burst | lose | unreg | rereg
	Reqs []c19Req `json:"reqs,omitempty"`
	Seq  bool     `json:"seq,omitempty"`
	End  int      `json:"end,omitempty"`
	How  string   `json:"how,omitempty"` // peer | garbage | local
	Svc  int      `json:"svc,omitempty"`
	To   int      `json:"to,omitempty"`
}

type c19Life struct {
	NEnd   int        `json:"nend"`
	NSvc   int        `json:"nsvc"`
	Phases []c19Phase `json:"phases"`
	Dir    string     `json:"dir"`
}

type c19PhaseObs struct {
	Accepted []int  `json:"accepted"`
	Open     []int  `json:"open"`
	Pooled   []bool `json:"pooled"`
	PoolOK   bool   `json:"pool_ok"`   // the pool's lock could be taken for reading
	PoolSame bool   `json:"pool_same"` // burst: every hook-path client of the phase is the pooled one of its endpoint
	Held     int    `json:"held"`
	Expected int    `json:"expected"`
	Noticed  bool   `json:"noticed"` // lose: the pool dropped the endpoint and the connection is closed
	Listed   bool   `json:"listed"`  // unreg / rereg: the session's service list followed
}

type c19LifeResult struct {
	Errs    []string      `json:"errs"`  // per request, in the order of the phases
	Works   []bool        `json:"works"` // a call through the returned proxy / client succeeded
	IDs     []int         `json:"ids"`   // identity class of the client (hook requests), -1 otherwise
	Phases  []c19PhaseObs `json:"phases"`
	Timeout bool          `json:"timeout"`
	Stage   string        `json:"stage"`
}

func c19LifeSvc(s int) string { return fmt.Sprintf("life_%d", s) }

// kill ends every connection of the endpoint from the server side: by closing the socket, or
// by sending bytes that are not a message (the client side then closes)
func (g *c19Gate) kill(garbage bool) {
	g.mu.Lock()
	var live []*c19Stream
	for _, w := range g.streams {
		if !w.closed {
			live = append(live, w)
		}
	}
	g.mu.Unlock()
	for _, w := range live {
		if garbage {
			w.Stream.Write(bytes.Repeat([]byte{0xEE}, 64))
		} else {
			w.Close()
		}
	}
}

func runC19LifeChild(res *hx.Result, rng *hx.Rng, tier string, outdir string) {
	var lf c19Life
	if err := json.Unmarshal([]byte(os.Getenv("QV_C19L")), &lf); err != nil {
		fmt.Println("C19ERROR bad scenario:", err)
		os.Exit(4)
	}
	fail := func(what string, err error) {
		fmt.Printf("C19ERROR %s: %v\n", what, err)
		os.Exit(4)
	}
	stage := "set-up"
	time.AfterFunc(30*time.Second, func() {
		fmt.Printf("C19HANG the child was still in its %s phase after 30 s\n", stage)
		os.Exit(3)
	})
	dirAddr := "unix://" + filepath.Join(lf.Dir, "d.sock")
	if _, err := directory.NewServer(dirAddr, bus.Yes{}); err != nil {
		fail("directory", err)
	}
	srvSess, err := session.NewSession(dirAddr)
	if err != nil {
		fail("server-side session", err)
	}
	coord := &c19Coord{release: make(chan struct{}), notify: make(chan struct{}, 256)}
	coord.open()
	gates := make([]*c19Gate, lf.NEnd)
	addrs := make([]string, lf.NEnd)
	srvs := make([]bus.Server, lf.NEnd)
	for e := 0; e < lf.NEnd; e++ {
		addrs[e] = "unix://" + filepath.Join(lf.Dir, fmt.Sprintf("e%d.sock", e))
		inner, err := net.Listen(addrs[e])
		if err != nil {
			fail("listen", err)
		}
		gates[e] = newC19Gate(inner, coord)
		ns, err := services.Namespace(srvSess, []string{addrs[e]})
		if err != nil {
			fail("namespace", err)
		}
		srvs[e], err = bus.StandAloneServer(gates[e], bus.Yes{}, ns)
		if err != nil {
			fail("server", err)
		}
	}
	home := make([]int, lf.NSvc)
	handle := make([]bus.Service, lf.NSvc)
	lastID := make([]uint32, lf.NSvc)
	for s := 0; s < lf.NSvc; s++ {
		home[s] = s % lf.NEnd
		handle[s], err = srvs[home[s]].NewService(c19LifeSvc(s), c19Object())
		if err != nil {
			fail("new service", err)
		}
	}
	sess, err := session.NewSession(dirAddr)
	if err != nil {
		fail("client session", err)
	}
	find := func(name string) (services.ServiceInfo, bool) {
		for _, i := range session.VerifServices(sess) {
			if i.Name == name {
				return i, true
			}
		}
		return services.ServiceInfo{}, false
	}
	// waits until the session's list says cond about the service
	waitListed := func(s int, cond func(services.ServiceInfo, bool) bool) bool {
		deadline := time.Now().Add(5 * time.Second)
		for {
			i, ok := find(c19LifeSvc(s))
			if cond(i, ok) {
				if ok {
					lastID[s] = i.ServiceId
				}
				return true
			}
			if time.Now().After(deadline) {
				return false
			}
			time.Sleep(5 * time.Millisecond)
		}
	}
	for s := 0; s < lf.NSvc; s++ {
		e := home[s]
		if !waitListed(s, func(i services.ServiceInfo, ok bool) bool {
			return ok && len(i.Endpoints) == 1 && i.Endpoints[0] == addrs[e]
		}) {
			fail("set-up", fmt.Errorf("service %d never appeared in the session's list", s))
		}
	}

	var r c19LifeResult
	var clients []bus.Client
	var rmu sync.Mutex
	fullMeta := object.FullMetaObject(object.MetaObject{
		Methods:    make(map[uint32]object.MetaMethod),
		Signals:    make(map[uint32]object.MetaSignal),
		Properties: make(map[uint32]object.MetaProperty),
	})
	// one request; g is its slot in the result
	one := func(g int, rq c19Req) {
		name := c19LifeSvc(rq.Svc)
		set := func(err string, works bool, c bus.Client) {
			rmu.Lock()
			r.Errs[g], r.Works[g], clients[g] = err, works, c
			rmu.Unlock()
		}
		switch rq.Kind {
		case "hook":
			info, ok := find(name)
			if !ok {
				set("service not in the session's list: "+name, false, nil)
				return
			}
			c, err := session.VerifClient(sess, info)
			if err != nil {
				set(err.Error(), false, nil)
				return
			}
			if _, err := bus.GetMetaObject(c, info.ServiceId, 1); err != nil {
				set("call through the client: "+err.Error(), false, c)
				return
			}
			set("", true, c)
		case "object":
			id := lastID[rq.Svc]
			if info, ok := find(name); ok {
				id = info.ServiceId
			}
			p, err := sess.Object(object.ObjectReference{MetaObject: fullMeta, ServiceID: id, ObjectID: 1})
			if err != nil {
				set(err.Error(), false, nil)
				return
			}
			if _, err := bus.MakeObject(p).IsStatsEnabled(); err != nil {
				set("call through the proxy returned by Object: "+err.Error(), false, nil)
				return
			}
			set("", true, nil)
		default:
			p, err := sess.Proxy(name, 1)
			if err != nil {
				set(err.Error(), false, nil)
				return
			}
			if _, err := bus.MakeObject(p).IsStatsEnabled(); err != nil {
				set("call through the proxy returned by Proxy: "+err.Error(), false, nil)
				return
			}
			set("", true, nil)
		}
	}
	readPool := func() (map[string]bus.Client, bool) {
		type pr struct {
			p  map[string]bus.Client
			ok bool
		}
		ch := make(chan pr, 1)
		go func() { p, ok := session.VerifPool(sess); ch <- pr{p, ok} }()
		select {
		case x := <-ch:
			return x.p, x.ok
		case <-time.After(2 * time.Second):
			return nil, false
		}
	}
	counts := func(po *c19PhaseObs) bool {
		same, atMostOne := true, true
		for e, g := range gates {
			a, o := g.counts()
			if a != po.Accepted[e] || o != po.Open[e] {
				same = false
			}
			if o > 1 {
				atMostOne = false
			}
			po.Accepted[e], po.Open[e] = a, o
		}
		_ = atMostOne
		return same
	}
	// snapshot after a phase: the closes of the redundant connections must have reached the servers
	observe := func(po *c19PhaseObs) {
		po.Accepted, po.Open, po.Pooled = make([]int, lf.NEnd), make([]int, lf.NEnd), make([]bool, lf.NEnd)
		deadline := time.Now().Add(2 * time.Second)
		for {
			counts(po)
			ok := true
			for _, o := range po.Open {
				if o > 1 {
					ok = false
				}
			}
			if ok || time.Now().After(deadline) {
				break
			}
			time.Sleep(5 * time.Millisecond)
		}
		for stable := 0; stable < 4; {
			time.Sleep(10 * time.Millisecond)
			if counts(po) {
				stable++
			} else {
				stable = 0
			}
		}
		pool, ok := readPool()
		po.PoolOK = ok
		for e := range addrs {
			_, po.Pooled[e] = pool[addrs[e]]
		}
	}
	finish := func() {
		classes := map[bus.Client]int{}
		r.IDs = make([]int, len(clients))
		for g, c := range clients {
			r.IDs[g] = -1
			if c != nil {
				if _, ok := classes[c]; !ok {
					classes[c] = len(classes)
				}
				r.IDs[g] = classes[c]
			}
		}
		r.Stage = stage
		rmu.Lock()
		b, _ := json.Marshal(r)
		rmu.Unlock()
		fmt.Println("C19RESULT " + string(b))
		os.Exit(0)
	}

	for pi, ph := range lf.Phases {
		stage = fmt.Sprintf("phase %d (%s)", pi, ph.Kind)
		var po c19PhaseObs
		switch ph.Kind {
		case "burst":
			base := len(r.Errs)
			rmu.Lock()
			for range ph.Reqs {
				r.Errs = append(r.Errs, "did not return")
				r.Works = append(r.Works, false)
				clients = append(clients, nil)
			}
			rmu.Unlock()
			if ph.Seq {
				for j, rq := range ph.Reqs {
					d := make(chan struct{})
					go func(j int, rq c19Req) { one(base+j, rq); close(d) }(j, rq)
					select {
					case <-d:
					case <-time.After(8 * time.Second):
						r.Timeout = true
						finish()
					}
				}
			} else {
				pool, _ := readPool()
				coord.hold()
				var wg, wgHit sync.WaitGroup
				for j, rq := range ph.Reqs {
					_, pooled := pool[addrs[home[rq.Svc]]]
					hit := rq.Gone || pooled
					if hit {
						wgHit.Add(1)
					} else {
						po.Expected++
					}
					wg.Add(1)
					go func(j int, rq c19Req, hit bool) {
						defer wg.Done()
						one(base+j, rq)
						if hit {
							wgHit.Done()
						}
					}(j, rq, hit)
				}
				hitDone := make(chan struct{})
				go func() { wgHit.Wait(); close(hitDone) }()
				select {
				case <-hitDone:
				case <-time.After(4 * time.Second):
				}
				waitArr := time.After(4 * time.Second)
			wait:
				for {
					coord.mu.Lock()
					n := coord.arrivals
					coord.mu.Unlock()
					if n >= po.Expected {
						break
					}
					select {
					case <-coord.notify:
					case <-waitArr:
						break wait
					}
				}
				coord.mu.Lock()
				po.Held = coord.arrivals
				coord.mu.Unlock()
				coord.open()
				done := make(chan struct{})
				go func() { wg.Wait(); close(done) }()
				select {
				case <-done:
				case <-time.After(8 * time.Second):
					r.Timeout = true
					finish()
				}
			}
			observe(&po)
			po.PoolSame = true
			if pool, ok := readPool(); ok {
				for j, rq := range ph.Reqs {
					if c := clients[base+j]; c != nil && pool[addrs[home[rq.Svc]]] != c {
						po.PoolSame = false
					}
				}
			}
		case "lose":
			e := ph.End
			switch ph.How {
			case "local":
				if pool, ok := readPool(); ok {
					if c, ok := pool[addrs[e]]; ok {
						c.Channel().EndPoint().Close()
					}
				}
			case "garbage":
				gates[e].kill(true)
			default:
				gates[e].kill(false)
			}
			deadline := time.Now().Add(5 * time.Second)
			for {
				pool, ok := readPool()
				_, still := pool[addrs[e]]
				_, o := gates[e].counts()
				if ok && !still && o == 0 {
					po.Noticed = true
					break
				}
				if time.Now().After(deadline) {
					break
				}
				time.Sleep(5 * time.Millisecond)
			}
			observe(&po)
		case "unreg":
			if err := handle[ph.Svc].Terminate(); err != nil {
				fail("unregister", err)
			}
			po.Listed = waitListed(ph.Svc, func(_ services.ServiceInfo, ok bool) bool { return !ok })
			observe(&po)
		case "rereg":
			home[ph.Svc] = ph.To
			handle[ph.Svc], err = srvs[ph.To].NewService(c19LifeSvc(ph.Svc), c19Object())
			if err != nil {
				fail("register again", err)
			}
			po.Listed = waitListed(ph.Svc, func(i services.ServiceInfo, ok bool) bool {
				return ok && len(i.Endpoints) == 1 && i.Endpoints[0] == addrs[ph.To]
			})
			observe(&po)
		}
		r.Phases = append(r.Phases, po)
	}
	stage = "done"
	finish()
}

// ---------- the parent ----------

type c19LifeObs struct {
	class  string // ok | fatal | hang | crash | error
	res    c19LifeResult
	stderr string
}

func c19RunLife(lf c19Life, workdir string, idx int) c19LifeObs {
	dir, err := os.MkdirTemp("", "qv19l-")
	if err != nil {
		return c19LifeObs{class: "error", stderr: err.Error()}
	}
	defer os.RemoveAll(dir)
	lf.Dir = dir
	b, _ := json.Marshal(lf)
	ctx, cancel := context.WithTimeout(context.Background(), 45*time.Second)
	defer cancel()
	out := filepath.Join(workdir, fmt.Sprintf("life%03d", idx))
	cmd := exec.CommandContext(ctx, os.Args[0], "--out", out, "C19life")
	cmd.Env = append(os.Environ(), "QV_C19L="+string(b))
	var so, se bytes.Buffer
	cmd.Stdout, cmd.Stderr = &so, &se
	err = cmd.Run()
	o := c19LifeObs{stderr: se.String()}
	os.RemoveAll(out)
	for _, line := range strings.Split(so.String(), "\n") {
		if strings.HasPrefix(line, "C19RESULT ") {
			if json.Unmarshal([]byte(strings.TrimPrefix(line, "C19RESULT ")), &o.res) == nil && err == nil {
				o.class = "ok"
				if o.res.Timeout {
					o.class = "hang"
				}
				return o
			}
		}
		if strings.HasPrefix(line, "C19ERROR") {
			o.class = "error"
			o.stderr = line + "\n" + o.stderr
			return o
		}
		if strings.HasPrefix(line, "C19HANG") {
			o.class = "hang"
			o.stderr = line
			return o
		}
	}
	switch {
	case ctx.Err() != nil:
		o.class = "hang"
	case strings.Contains(o.stderr, "fatal error: sync: RUnlock of unlocked RWMutex"):
		o.class = "fatal"
	default:
		o.class = "crash"
	}
	return o
}

func (lf c19Life) String() string {
	var ps []string
	for _, ph := range lf.Phases {
		switch ph.Kind {
		case "burst":
			var rs []string
			for _, rq := range ph.Reqs {
				t := fmt.Sprintf("%s(s%d)", rq.Kind, rq.Svc)
				if rq.Gone {
					t += "!unregistered"
				}
				rs = append(rs, t)
			}
			k := "together"
			if ph.Seq {
				k = "in turn"
			}
			ps = append(ps, k+"["+strings.Join(rs, " ")+"]")
		case "lose":
			ps = append(ps, fmt.Sprintf("lose(e%d,%s)", ph.End, ph.How))
		case "unreg":
			ps = append(ps, fmt.Sprintf("unregister(s%d)", ph.Svc))
		case "rereg":
			ps = append(ps, fmt.Sprintf("register(s%d@e%d)", ph.Svc, ph.To))
		}
	}
	return fmt.Sprintf("life on one session, %d endpoints, services s0..s%d (s_i first behind e_(i mod %d)): %s",
		lf.NEnd, lf.NSvc-1, lf.NEnd, strings.Join(ps, " ; "))
}

// what the harness expects of a life, from its own bookkeeping of registrations and losses
type c19LifeSim struct {
	reqEp    []int  // per modelled request (not Gone): endpoint of its service at that moment
	reqEpoch []int  // ... and how many times that endpoint's connection had been lost before
	reqPhase []int  // per request (all): phase index
	modelled []bool // per request (all)
	twoMiss  bool   // some held burst has two requests missing the pool for the same endpoint
	afterLos bool   // some request asks for a service behind an endpoint whose connection was lost before
}

func (lf c19Life) sim() c19LifeSim {
	var s c19LifeSim
	home := make([]int, lf.NSvc)
	for i := range home {
		home[i] = i % lf.NEnd
	}
	pooled := make([]bool, lf.NEnd)
	epoch := make([]int, lf.NEnd)
	for pi, ph := range lf.Phases {
		switch ph.Kind {
		case "burst":
			miss := map[int]int{}
			for _, rq := range ph.Reqs {
				s.reqPhase = append(s.reqPhase, pi)
				s.modelled = append(s.modelled, !rq.Gone)
				if rq.Gone {
					continue
				}
				e := home[rq.Svc]
				s.reqEp = append(s.reqEp, e)
				s.reqEpoch = append(s.reqEpoch, epoch[e])
				if epoch[e] > 0 {
					s.afterLos = true
				}
				if !pooled[e] {
					miss[e]++
				}
			}
			for e, n := range miss {
				pooled[e] = true
				if n >= 2 && !ph.Seq {
					s.twoMiss = true
				}
			}
		case "lose":
			pooled[ph.End] = false
			epoch[ph.End]++
		case "rereg":
			home[ph.Svc] = ph.To
		}
	}
	return s
}

// c19GenLife draws a life: bursts, losses of pooled connections, services that move, and a
// final round of one Proxy and one Object request per registered service
func c19GenLife(rng *hx.Rng) c19Life {
	ne := 1 + rng.Intn(3)
	lf := c19Life{NEnd: ne, NSvc: ne + rng.Intn(3)}
	home := make([]int, lf.NSvc)
	reg := make([]bool, lf.NSvc)
	for i := range home {
		home[i] = i % ne
		reg[i] = true
	}
	pooled := make([]bool, ne)
	kinds := []string{"proxy", "object", "hook"}
	burst := func(withGone int) c19Phase {
		ph := c19Phase{Kind: "burst", Seq: rng.Chance(0.35)}
		k := 1 + rng.Intn(6)
		for j := 0; j < k; j++ {
			var live []int
			for s, ok := range reg {
				if ok {
					live = append(live, s)
				}
			}
			if len(live) == 0 {
				break
			}
			s := live[rng.Intn(len(live))]
			ph.Reqs = append(ph.Reqs, c19Req{Svc: s, Kind: kinds[rng.Intn(3)]})
			pooled[home[s]] = true
		}
		if withGone >= 0 {
			ph.Reqs = append(ph.Reqs, c19Req{Svc: withGone, Kind: kinds[rng.Intn(2)], Gone: true})
		}
		return ph
	}
	lose := func() (c19Phase, bool) {
		var c []int
		for e, ok := range pooled {
			if ok {
				c = append(c, e)
			}
		}
		if len(c) == 0 {
			return c19Phase{}, false
		}
		e := c[rng.Intn(len(c))]
		pooled[e] = false
		return c19Phase{Kind: "lose", End: e, How: []string{"peer", "garbage", "local"}[rng.Intn(3)]}, true
	}
	lf.Phases = append(lf.Phases, burst(-1))
	n := 3 + rng.Intn(6)
	losses := 0
	for len(lf.Phases) < n || losses == 0 {
		switch x := rng.Intn(100); {
		case x < 35 || (losses == 0 && len(lf.Phases) >= n):
			if ph, ok := lose(); ok {
				lf.Phases = append(lf.Phases, ph)
				losses++
				// the requests right after a loss are the point: always ask again
				lf.Phases = append(lf.Phases, burst(-1))
			} else {
				lf.Phases = append(lf.Phases, burst(-1))
			}
		case x < 55:
			var live []int
			for s, ok := range reg {
				if ok {
					live = append(live, s)
				}
			}
			s := live[rng.Intn(len(live))]
			to := home[s]
			if ne > 1 {
				to = (home[s] + 1 + rng.Intn(ne-1)) % ne
			}
			reg[s] = false
			lf.Phases = append(lf.Phases, c19Phase{Kind: "unreg", Svc: s})
			if rng.Chance(0.4) {
				lf.Phases = append(lf.Phases, burst(s))
			}
			home[s], reg[s] = to, true
			lf.Phases = append(lf.Phases, c19Phase{Kind: "rereg", Svc: s, To: to})
		default:
			lf.Phases = append(lf.Phases, burst(-1))
		}
	}
	lf.Phases = append(lf.Phases, c19FinalRound(lf.NSvc))
	return lf
}

func c19FinalRound(nsvc int) c19Phase {
	ph := c19Phase{Kind: "burst", Seq: true}
	for s := 0; s < nsvc; s++ {
		ph.Reqs = append(ph.Reqs, c19Req{Svc: s, Kind: "object"}, c19Req{Svc: s, Kind: "proxy"})
	}
	return ph
}

// lives that are always run: the shortest histories of each kind
func c19DirectedLives() []c19Life {
	rq := func(kind string, s int) c19Req { return c19Req{Svc: s, Kind: kind} }
	var out []c19Life
	// every kind of request before and after every kind of loss, one endpoint
	for _, how := range []string{"peer", "garbage", "local"} {
		out = append(out, c19Life{NEnd: 1, NSvc: 2, Phases: []c19Phase{
			{Kind: "burst", Seq: true, Reqs: []c19Req{rq("object", 0), rq("proxy", 1), rq("hook", 0)}},
			{Kind: "lose", End: 0, How: how},
			{Kind: "burst", Seq: true, Reqs: []c19Req{rq("object", 0), rq("hook", 1), rq("proxy", 1), rq("object", 1)}},
			{Kind: "lose", End: 0, How: how},
			c19FinalRound(2),
		}})
	}
	// concurrent mixes before and after the loss, two endpoints
	out = append(out, c19Life{NEnd: 2, NSvc: 3, Phases: []c19Phase{
		{Kind: "burst", Reqs: []c19Req{rq("object", 0), rq("proxy", 0), rq("hook", 2), rq("object", 1), rq("hook", 1)}},
		{Kind: "lose", End: 0, How: "peer"},
		{Kind: "burst", Reqs: []c19Req{rq("object", 0), rq("object", 2), rq("hook", 0), rq("proxy", 2), rq("object", 1)}},
		{Kind: "lose", End: 1, How: "local"},
		{Kind: "lose", End: 0, How: "garbage"},
		{Kind: "burst", Reqs: []c19Req{rq("hook", 1), rq("object", 1), rq("object", 0), rq("hook", 0), rq("proxy", 1), rq("object", 2)}},
		c19FinalRound(3),
	}})
	// a service moves to another endpoint, then the connection to its new endpoint is lost
	out = append(out, c19Life{NEnd: 2, NSvc: 2, Phases: []c19Phase{
		{Kind: "burst", Seq: true, Reqs: []c19Req{rq("object", 0), rq("proxy", 0), rq("hook", 0)}},
		{Kind: "unreg", Svc: 0},
		{Kind: "burst", Seq: true, Reqs: []c19Req{{Svc: 0, Kind: "object", Gone: true}, {Svc: 0, Kind: "proxy", Gone: true}, rq("object", 1)}},
		{Kind: "rereg", Svc: 0, To: 1},
		{Kind: "burst", Reqs: []c19Req{rq("object", 0), rq("proxy", 0), rq("hook", 0), rq("hook", 1)}},
		{Kind: "lose", End: 1, How: "peer"},
		{Kind: "burst", Reqs: []c19Req{rq("object", 0), rq("hook", 0), rq("object", 1)}},
		c19FinalRound(2),
	}})
	return out
}

func c19LifeTerm(lf c19Life, sm c19LifeSim, o c19LifeObs) string {
	var phs []string
	g := 0 // index among the modelled requests
	for pi, ph := range lf.Phases {
		obs := "{| lo_accepted := []; lo_open := []; lo_pooled := [] |}"
		if o.class == "ok" && pi < len(o.res.Phases) {
			po := o.res.Phases[pi]
			bs := make([]string, len(po.Pooled))
			for i, b := range po.Pooled {
				bs[i] = hx.Bool(b)
			}
			obs = fmt.Sprintf("{| lo_accepted := %s; lo_open := %s; lo_pooled := %s |}", hx.NatList(po.Accepted), hx.NatList(po.Open), hx.List(bs))
		}
		switch ph.Kind {
		case "burst":
			var eps []int
			for _, rq := range ph.Reqs {
				if !rq.Gone {
					eps = append(eps, sm.reqEp[g])
					g++
				}
			}
			phs = append(phs, fmt.Sprintf("(PBurst %s %s, %s)", hx.NatList(eps), hx.Bool(ph.Seq), obs))
		case "lose":
			phs = append(phs, fmt.Sprintf("(PLose %d, %s)", ph.End, obs))
		}
	}
	var ids []string
	for q, m := range sm.modelled {
		if !m {
			continue
		}
		if o.class == "ok" && q < len(o.res.IDs) && o.res.IDs[q] >= 0 {
			ids = append(ids, fmt.Sprintf("Some %d", o.res.IDs[q]))
		} else {
			ids = append(ids, "None")
		}
	}
	return fmt.Sprintf("{| lc_fatal := %s; lc_phases := %s; lc_ids := %s |}", hx.Bool(o.class == "fatal"), hx.List(phs), hx.List(ids))
}

// runC19Lives runs the lives and evaluates the property on what the session did
func runC19Lives(res *hx.Result, rng *hx.Rng, tier string, outdir string, defect bool, cf *hx.Cases) {
	n := 12
	if tier == "thorough" {
		n = 150
	}
	lives := c19DirectedLives()
	for i := 0; i < n; i++ {
		lives = append(lives, c19GenLife(rng))
	}
	obs := make([]c19LifeObs, len(lives))
	var wg sync.WaitGroup
	sem := make(chan struct{}, 4)
	for i := range lives {
		wg.Add(1)
		go func(i int) {
			defer wg.Done()
			sem <- struct{}{}
			defer func() { <-sem }()
			obs[i] = c19RunLife(lives[i], outdir, i)
		}(i)
	}
	wg.Wait()
	for i, lf := range lives {
		o := obs[i]
		sm := lf.sim()
		desc := lf.String()
		res.Count(desc, sm.afterLos)
		res.Dist("life:outcome:" + o.class)
		res.Dist(fmt.Sprintf("life:endpoints:%d", lf.NEnd))
		for _, ph := range lf.Phases {
			switch ph.Kind {
			case "lose":
				res.Dist("life:loss:" + ph.How)
			case "rereg":
				res.Dist("life:service-moved")
			case "burst":
				if ph.Seq {
					res.Dist("life:burst:in-turn")
				} else {
					res.Dist("life:burst:together")
				}
			}
		}
		if i < 3 || i == len(c19DirectedLives()) {
			var snap []string
			for _, po := range o.res.Phases {
				snap = append(snap, fmt.Sprintf("acc=%v open=%v pooled=%v", po.Accepted, po.Open, po.Pooled))
			}
			res.Sample(fmt.Sprintf("%s => %s ids=%v after each phase: %s", desc, o.class, o.res.IDs, strings.Join(snap, " | ")))
		}
		known := defect && sm.twoMiss
		fail := func(kind, detail string) {
			if known {
				res.FailKnown(kind, detail, "runlock_after_lock")
			} else {
				res.Fail(kind, detail)
			}
		}
		forced := true
		switch o.class {
		case "crash":
			fail("process-crashed", fmt.Sprintf("%s: the process died: %s", desc, c19Tail(o.stderr, 300)))
			continue
		case "fatal":
			fail("process-crashed", fmt.Sprintf("%s: the process died: %s", desc, c19Tail(o.stderr, 300)))
		case "hang":
			fail("request-never-returned", fmt.Sprintf("%s: stopped in %s: some request had not returned after 8 s: %s", desc, o.res.Stage, c19Tail(o.stderr, 200)))
			continue
		case "error":
			res.Notes = append(res.Notes, "life could not be set up: "+desc+": "+c19Tail(o.stderr, 200))
			continue
		case "ok":
			if len(o.res.Phases) != len(lf.Phases) || len(o.res.Errs) != len(sm.reqPhase) {
				fail("request-never-returned", desc+": the life was not run to its end")
				continue
			}
			for q := range sm.reqPhase {
				if !sm.modelled[q] {
					continue // a request for an unregistered service only has to return
				}
				if o.res.Errs[q] != "" || !o.res.Works[q] {
					detail := fmt.Sprintf("%s: request %d (phase %d) for a registered service got no working proxy: %s", desc, q, sm.reqPhase[q], o.res.Errs[q])
					if strings.Contains(o.res.Errs[q], net.ErrConsumerBlocked.Error()) {
						res.FailKnown("request-failed", detail, "consumer_queue_overflow")
					} else {
						fail("request-failed", detail)
					}
				}
			}
			for pi, po := range o.res.Phases {
				for e := 0; e < lf.NEnd; e++ {
					if po.Open[e] > 1 {
						fail("connections-per-endpoint", fmt.Sprintf("%s: after phase %d, %d connections to endpoint %d are open (accepted %d so far)", desc, pi, po.Open[e], e, po.Accepted[e]))
					}
				}
				if !po.PoolOK {
					fail("pool-lock", fmt.Sprintf("%s: after phase %d the pool's lock could not be taken for reading", desc, pi))
				}
				if lf.Phases[pi].Kind == "burst" && !po.PoolSame {
					fail("client-not-pooled", fmt.Sprintf("%s: phase %d: a returned client is not the one the pool holds for its endpoint", desc, pi))
				}
				if lf.Phases[pi].Kind == "burst" && !lf.Phases[pi].Seq && po.Held < po.Expected {
					forced = false
				}
			}
			// clients: shared while the connection lives, replaced after it was lost
			m := 0
			idx := make([]int, len(sm.reqPhase))
			for q := range sm.reqPhase {
				idx[q] = -1
				if sm.modelled[q] {
					idx[q] = m
					m++
				}
			}
			for q := range idx {
				for p := 0; p < q; p++ {
					if idx[p] < 0 || idx[q] < 0 || o.res.IDs[p] < 0 || o.res.IDs[q] < 0 || sm.reqEp[idx[p]] != sm.reqEp[idx[q]] {
						continue
					}
					same := sm.reqEpoch[idx[p]] == sm.reqEpoch[idx[q]]
					if same && o.res.IDs[p] != o.res.IDs[q] {
						fail("clients-not-shared", fmt.Sprintf("%s: requests %d and %d asked for services behind endpoint %d, whose connection was not lost in between, and got different clients", desc, p, q, sm.reqEp[idx[q]]))
					}
					if !same && o.res.IDs[p] == o.res.IDs[q] {
						fail("client-of-lost-connection", fmt.Sprintf("%s: request %d got the client that request %d had got before the connection to endpoint %d was lost", desc, q, p, sm.reqEp[idx[q]]))
					}
				}
			}
			if !forced {
				res.Notes = append(res.Notes, "schedule not forced in some burst: "+desc)
				res.Dist("life:schedule-not-forced")
				continue
			}
		}
		cf.Add("lcases", c19LifeTerm(lf, sm, o), desc)
	}
}
