package main

// C19, second part — the LIFE of the session's connection pool.  A life is a sequence of phases
// run on ONE client session, in a child process (sub-command C19life):
//
//   burst  : k requests — Session.Proxy, Session.Object or Session.client (hook, identity
//            observable), mixed — either one after the other or all together with the forced
//            schedule of c19.go (the harness listeners hold the authentication reply until every
//            goroutine that must dial has connected);
//   lose   : the pooled connection to an endpoint is lost while its services stay registered:
//            the server side closes the socket ("peer"), the server side sends bytes that are not
//            a message ("garbage": the client side tears the connection down), or the client
//            endpoint is closed ("local"); the harness then waits until the session has noticed;
//   unreg / rereg : a service is unregistered and registered again, behind another endpoint
//            when there is one (new service id, new address); the harness waits until the
//            session's service list shows it.
//
// After every phase the harness records the connections accepted / still open per endpoint and
// which endpoints the pool holds.  Every life ends with one Proxy and one Object request per
// registered service.  The model (coq/theories/SessionLife.v: LSpawn / LStep / LLose with the
// closer program) replays the phases and C19Run.lcase_ok compares every snapshot and the
// identity classes of the clients over the whole life.

import (
	"context"
	"encoding/json"
	"fmt"
	gonet "net"
	"os"
	"os/exec"
	"path/filepath"
	"sort"
	"strings"
	"sync"
	"time"

	"bytes"

	"github.com/lugu/qiloop/bus"
	"github.com/lugu/qiloop/bus/directory"
	"github.com/lugu/qiloop/bus/net"
	"github.com/lugu/qiloop/bus/services"
	"github.com/lugu/qiloop/bus/session"
	"github.com/lugu/qiloop/type/object"
	"qv/internal/hx"
)

func init() { props["C19life"] = runC19LifeChild }

type c19Req struct {
	Svc  int    `json:"svc"`
	Kind string `json:"kind"`           // proxy | object | hook
	Gone bool   `json:"gone,omitempty"` // the service is unregistered at that moment: the request must only return
	// the request names an object (77) that the service does not have: it goes through the session
	// like any other, the server answers the metaObject call / the call with an error, and the request
	// only has to return — the shared connection is as good as before
	NoObj bool `json:"noobj,omitempty"`
}

// one change of the directory inside a burst of changes (phase "regs")
type c19RegOp struct {
	Op  string `json:"op"`  // add | del | move (unregister and register again at once)
	Svc int    `json:"svc"` // add: a service index never used before
	To  int    `json:"to"`  // add / move: endpoint whose server hosts it; -1: the directory's own server
	Gap int    `json:"gap"` // microseconds between the previous change (par: the common start) and this one
}

type c19Phase struct {
	Kind string     `json:"kind"` // burst | lose | unreg | rereg | regs
	Reqs []c19Req   `json:"reqs,omitempty"`
	Seq  bool       `json:"seq,omitempty"`
	End  int        `json:"end,omitempty"`
	How  string     `json:"how,omitempty"` // peer | garbage | local
	Svc  int        `json:"svc,omitempty"`
	To   int        `json:"to,omitempty"`
	Ops  []c19RegOp `json:"ops,omitempty"` // regs: the changes, microseconds apart
	Par  bool       `json:"par,omitempty"` // regs: every change from its own goroutine
	// regs, life with Relay: the first change alone; the reply to the Services() call it triggers is held
	// by the relay (so every further change happens after that snapshot); then the reply and the signals
	// of the further changes reach the session in one write
	Forced bool     `json:"forced,omitempty"`
	Bg     []c19Req `json:"bg,omitempty"` // regs: requests repeated by one goroutine each while the directory changes
}

type c19Life struct {
	NEnd   int        `json:"nend"`
	NSvc   int        `json:"nsvc"`
	Phases []c19Phase `json:"phases"`
	Dir    string     `json:"dir"`
	// the client session reaches the directory through a relay of the harness (a unix socket that
	// forwards every frame in order, and can delay the frames towards the session)
	Relay bool `json:"relay,omitempty"`
	// every service behind an endpoint advertises TWO addresses, the first of which cannot be connected:
	// 1: tcp://198.18.0.1:9559 (test range, as real robots advertise; SelectEndPoint skips it),
	// 2: a unix socket that does not exist (the dial fails).  The connection — and the pool entry — is
	// the second address's.
	Multi int `json:"multi,omitempty"`
}

type c19PhaseObs struct {
	Accepted []int  `json:"accepted"`
	Open     []int  `json:"open"`
	Pooled   []bool `json:"pooled"`
	PoolOK   bool   `json:"pool_ok"`   // the pool's lock could be taken for reading
	PoolSame bool   `json:"pool_same"` // burst: every hook-path client of the phase is the pooled one of its endpoint
	Held     int    `json:"held"`
	Expected int    `json:"expected"`
	Noticed  bool   `json:"noticed"` // lose: the pool dropped the endpoint and the connection is closed
	Listed   bool   `json:"listed"`  // unreg / rereg / regs: the session's service list followed
	// regs: the services life_* as (service, endpoint, how many times registered so far) in the session's
	// list once it matched what the harness registered, or 3 s after the directory went quiet; the same
	// read from the directory itself through another connection at that moment
	View     [][3]int `json:"view,omitempty"`
	DirView  [][3]int `json:"dir_view,omitempty"`
	WaitedMs int      `json:"waited_ms,omitempty"` // regs: how long the harness waited for the session's list
	Held2    bool     `json:"held2,omitempty"`     // regs, forced: the reply of the refresh was held while the further changes were made
	BgN      []int    `json:"bg_n,omitempty"`      // regs: requests made by each background goroutine
	BgErr    []string `json:"bg_err,omitempty"`    // ... and the first failure of each
}

type c19LifeResult struct {
	Errs    []string      `json:"errs"`  // per request, in the order of the phases
	Works   []bool        `json:"works"` // a call through the returned proxy / client succeeded
	IDs     []int         `json:"ids"`   // identity class of the client (hook requests), -1 otherwise
	Phases  []c19PhaseObs `json:"phases"`
	Timeout bool          `json:"timeout"`
	Stage   string        `json:"stage"`
}

func c19LifeSvc(s int) string { return fmt.Sprintf("life_%d", s) }

// ---------- relay between the client session and the directory ----------

// c19Relay forwards the frames between the session and the directory, in order.  When armed it
// holds back the reply to the next Services() call of the session, and everything the directory
// sends after it, until release(): a delay on the connection, never a reordering.
type c19Relay struct {
	mu      sync.Mutex
	action  uint32 // action id of ServiceDirectory.services
	armed   bool
	waiting bool // the call has been seen, its reply not yet
	callID  uint32
	holding bool
	queue   [][]byte
	heldCh  chan struct{}
	down    gonet.Conn // towards the session
}

func c19Frame(m *net.Message) []byte {
	var b bytes.Buffer
	m.Write(&b)
	return b.Bytes()
}

func newC19Relay(path, dirPath string, action uint32) (*c19Relay, error) {
	l, err := gonet.Listen("unix", path)
	if err != nil {
		return nil, err
	}
	r := &c19Relay{action: action, heldCh: make(chan struct{}, 4)}
	go func() {
		for {
			down, err := l.Accept()
			if err != nil {
				return
			}
			up, err := gonet.Dial("unix", dirPath)
			if err != nil {
				down.Close()
				continue
			}
			r.mu.Lock()
			r.down = down
			r.mu.Unlock()
			go func() { // session -> directory
				defer up.Close()
				for {
					var m net.Message
					if err := m.Read(down); err != nil {
						return
					}
					r.mu.Lock()
					if r.armed && !r.waiting && m.Header.Type == net.Call && m.Header.Service == 1 && m.Header.Object == 1 && m.Header.Action == r.action {
						r.waiting, r.callID = true, m.Header.ID
					}
					r.mu.Unlock()
					if _, err := up.Write(c19Frame(&m)); err != nil {
						return
					}
				}
			}()
			go func() { // directory -> session
				defer down.Close()
				for {
					var m net.Message
					if err := m.Read(up); err != nil {
						return
					}
					f := c19Frame(&m)
					r.mu.Lock()
					switch {
					case r.holding:
						r.queue = append(r.queue, f)
					case r.armed && r.waiting && m.Header.Type == net.Reply && m.Header.ID == r.callID:
						r.holding, r.armed, r.waiting = true, false, false
						r.queue = [][]byte{f}
						select {
						case r.heldCh <- struct{}{}:
						default:
						}
					default:
						down.Write(f)
					}
					r.mu.Unlock()
				}
			}()
		}
	}()
	return r, nil
}

func (r *c19Relay) arm() {
	r.mu.Lock()
	r.armed, r.waiting = true, false
	for len(r.heldCh) > 0 {
		<-r.heldCh
	}
	r.mu.Unlock()
}

// behind: frames that arrived after the held reply
func (r *c19Relay) behind() int {
	r.mu.Lock()
	defer r.mu.Unlock()
	if !r.holding {
		return 0
	}
	return len(r.queue) - 1
}

// release writes the held reply and everything behind it in one piece
func (r *c19Relay) release() {
	r.mu.Lock()
	r.armed, r.waiting = false, false
	if r.holding {
		var all []byte
		for _, f := range r.queue {
			all = append(all, f...)
		}
		r.down.Write(all)
		r.holding, r.queue = false, nil
	}
	r.mu.Unlock()
}

// the number of service indices a life uses
func (lf c19Life) total() int {
	n := lf.NSvc
	for _, ph := range lf.Phases {
		for _, op := range ph.Ops {
			if op.Svc >= n {
				n = op.Svc + 1
			}
		}
	}
	return n
}

func c19SameView(a, b [][3]int) bool {
	if len(a) != len(b) {
		return false
	}
	for i := range a {
		if a[i] != b[i] {
			return false
		}
	}
	return true
}

// kill ends every connection of the endpoint from the server side: by closing the socket, or
// by sending bytes that are not a message (the client side then closes)
func (g *c19Gate) kill(garbage bool) {
	g.mu.Lock()
	var live []*c19Stream
	for _, w := range g.streams {
		if !w.closed {
			live = append(live, w)
		}
	}
	g.mu.Unlock()
	for _, w := range live {
		if garbage {
			w.Stream.Write(bytes.Repeat([]byte{0xEE}, 64))
		} else {
			w.Close()
		}
	}
}

func runC19LifeChild(res *hx.Result, rng *hx.Rng, tier string, outdir string) {
	var lf c19Life
	if err := json.Unmarshal([]byte(os.Getenv("QV_C19L")), &lf); err != nil {
		fmt.Println("C19ERROR bad scenario:", err)
		os.Exit(4)
	}
	fail := func(what string, err error) {
		fmt.Printf("C19ERROR %s: %v\n", what, err)
		os.Exit(4)
	}
	stage := "set-up"
	time.AfterFunc(30*time.Second, func() {
		fmt.Printf("C19HANG the child was still in its %s phase after 30 s\n", stage)
		os.Exit(3)
	})
	dirAddr := "unix://" + filepath.Join(lf.Dir, "d.sock")
	dsrv, err := directory.NewServer(dirAddr, bus.Yes{})
	if err != nil {
		fail("directory", err)
	}
	srvSess, err := session.NewSession(dirAddr)
	if err != nil {
		fail("server-side session", err)
	}
	// the directory as seen through a connection that is not the client session's
	dirProxy, err := services.ServiceDirectory(srvSess)
	if err != nil {
		fail("directory proxy", err)
	}
	coord := &c19Coord{release: make(chan struct{}), notify: make(chan struct{}, 256)}
	coord.open()
	gates := make([]*c19Gate, lf.NEnd)
	addrs := make([]string, lf.NEnd)
	srvs := make([]bus.Server, lf.NEnd)
	for e := 0; e < lf.NEnd; e++ {
		addrs[e] = "unix://" + filepath.Join(lf.Dir, fmt.Sprintf("e%d.sock", e))
		inner, err := net.Listen(addrs[e])
		if err != nil {
			fail("listen", err)
		}
		gates[e] = newC19Gate(inner, coord)
		advertised := []string{addrs[e]}
		switch lf.Multi {
		case 1:
			advertised = []string{"tcp://198.18.0.1:9559", addrs[e]}
		case 2:
			advertised = []string{"unix://" + filepath.Join(lf.Dir, fmt.Sprintf("nobody%d.sock", e)), addrs[e]}
		}
		ns, err := services.Namespace(srvSess, advertised)
		if err != nil {
			fail("namespace", err)
		}
		srvs[e], err = bus.StandAloneServer(gates[e], bus.Yes{}, ns)
		if err != nil {
			fail("server", err)
		}
	}
	// endpoint -1 is the directory's own server (its address is pooled from the creation of the session)
	addrOf := func(e int) string {
		if e < 0 {
			return dirAddr
		}
		return addrs[e]
	}
	serverOf := func(e int) bus.Server {
		if e < 0 {
			return dsrv
		}
		return srvs[e]
	}
	total := lf.total()
	home := make([]int, total)
	handle := make([]bus.Service, total)
	lastID := make([]uint32, total) // the id under which the directory registered the service last
	gen := make([]int, total)       // how many times it has been registered
	reg := make([]bool, total)
	var idmu sync.Mutex
	idOf := map[uint32][2]int{} // service id -> (service, registration count)
	register := func(s, e int) error {
		h, err := serverOf(e).NewService(c19LifeSvc(s), c19Object())
		if err != nil {
			return err
		}
		idmu.Lock()
		handle[s], home[s], reg[s], lastID[s] = h, e, true, h.ServiceID()
		gen[s]++
		idOf[h.ServiceID()] = [2]int{s, gen[s]}
		idmu.Unlock()
		return nil
	}
	unregister := func(s int) error {
		err := handle[s].Terminate()
		idmu.Lock()
		reg[s] = false
		idmu.Unlock()
		return err
	}
	for s := 0; s < lf.NSvc; s++ {
		if err := register(s, s%lf.NEnd); err != nil {
			fail("new service", err)
		}
	}
	sessAddr := dirAddr
	var relay *c19Relay
	if lf.Relay {
		var action uint32
		for id, m := range dirProxy.Proxy().MetaObject().Methods {
			if m.Name == "services" {
				action = id
			}
		}
		relay, err = newC19Relay(filepath.Join(lf.Dir, "r.sock"), filepath.Join(lf.Dir, "d.sock"), action)
		if err != nil {
			fail("relay", err)
		}
		sessAddr = "unix://" + filepath.Join(lf.Dir, "r.sock")
	}
	sess, err := session.NewSession(sessAddr)
	if err != nil {
		fail("client session", err)
	}
	// the address of a listed service that can be connected: the last one it advertises
	connectable := func(i services.ServiceInfo) string {
		want := 1
		if lf.Multi > 0 && len(i.Endpoints) > 0 && i.Endpoints[len(i.Endpoints)-1] != dirAddr {
			want = 2
		}
		if len(i.Endpoints) != want {
			return ""
		}
		return i.Endpoints[want-1]
	}
	find := func(name string) (services.ServiceInfo, bool) {
		for _, i := range session.VerifServices(sess) {
			if i.Name == name {
				return i, true
			}
		}
		return services.ServiceInfo{}, false
	}
	// waits until the session's list says cond about the service
	waitListed := func(s int, cond func(services.ServiceInfo, bool) bool) bool {
		deadline := time.Now().Add(5 * time.Second)
		for {
			i, ok := find(c19LifeSvc(s))
			if cond(i, ok) {
				return true
			}
			if time.Now().After(deadline) {
				return false
			}
			time.Sleep(5 * time.Millisecond)
		}
	}
	for s := 0; s < lf.NSvc; s++ {
		e := home[s]
		if !waitListed(s, func(i services.ServiceInfo, ok bool) bool {
			return ok && connectable(i) == addrs[e]
		}) {
			fail("set-up", fmt.Errorf("service %d never appeared in the session's list", s))
		}
	}
	// a service list as (service, endpoint, registration count) triples of the services life_*, sorted;
	// endpoint lf.NEnd is the directory's, 99 anything else; count 99: an id the directory never gave it
	viewOf := func(list []services.ServiceInfo) [][3]int {
		var v [][3]int
		idmu.Lock()
		defer idmu.Unlock()
		for _, i := range list {
			var s int
			if n, err := fmt.Sscanf(i.Name, "life_%d", &s); n != 1 || err != nil {
				continue
			}
			e := 99
			if c := connectable(i); c != "" {
				if c == dirAddr {
					e = lf.NEnd
				}
				for x, a := range addrs {
					if c == a {
						e = x
					}
				}
			}
			g := 99
			if sg, ok := idOf[i.ServiceId]; ok && sg[0] == s {
				g = sg[1]
			}
			v = append(v, [3]int{s, e, g})
		}
		sort.Slice(v, func(a, b int) bool {
			for k := 0; k < 3; k++ {
				if v[a][k] != v[b][k] {
					return v[a][k] < v[b][k]
				}
			}
			return false
		})
		return v
	}
	// what the harness registered
	wantView := func() [][3]int {
		var v [][3]int
		idmu.Lock()
		defer idmu.Unlock()
		for s := range reg {
			if reg[s] {
				e := home[s]
				if e < 0 {
					e = lf.NEnd
				}
				v = append(v, [3]int{s, e, gen[s]})
			}
		}
		return v
	}

	var r c19LifeResult
	var clients []bus.Client
	var rmu sync.Mutex
	fullMeta := object.FullMetaObject(object.MetaObject{
		Methods:    make(map[uint32]object.MetaMethod),
		Signals:    make(map[uint32]object.MetaSignal),
		Properties: make(map[uint32]object.MetaProperty),
	})
	// one request: "" and true when it returned a proxy / client through which a call succeeds
	try := func(rq c19Req) (string, bool, bus.Client) {
		name := c19LifeSvc(rq.Svc)
		objectID := uint32(1)
		if rq.NoObj {
			objectID = 77
		}
		switch rq.Kind {
		case "hook":
			info, ok := find(name)
			if !ok {
				return "service not in the session's list: " + name, false, nil
			}
			c, err := session.VerifClient(sess, info)
			if err != nil {
				return err.Error(), false, nil
			}
			if _, err := bus.GetMetaObject(c, info.ServiceId, objectID); err != nil {
				return "call through the client: " + err.Error(), false, c
			}
			return "", true, c
		case "object":
			// a reference to object 1 of the service as the directory registered it last
			idmu.Lock()
			id := lastID[rq.Svc]
			idmu.Unlock()
			p, err := sess.Object(object.ObjectReference{MetaObject: fullMeta, ServiceID: id, ObjectID: objectID})
			if err != nil {
				return err.Error(), false, nil
			}
			if _, err := bus.MakeObject(p).IsStatsEnabled(); err != nil {
				return "call through the proxy returned by Object: " + err.Error(), false, nil
			}
			return "", true, nil
		default:
			p, err := sess.Proxy(name, objectID)
			if err != nil {
				return err.Error(), false, nil
			}
			if _, err := bus.MakeObject(p).IsStatsEnabled(); err != nil {
				return "call through the proxy returned by Proxy: " + err.Error(), false, nil
			}
			return "", true, nil
		}
	}
	// g is the slot of the request in the result
	one := func(g int, rq c19Req) {
		e, w, c := try(rq)
		rmu.Lock()
		r.Errs[g], r.Works[g], clients[g] = e, w, c
		rmu.Unlock()
	}
	readPool := func() (map[string]bus.Client, bool) {
		type pr struct {
			p  map[string]bus.Client
			ok bool
		}
		ch := make(chan pr, 1)
		go func() { p, ok := session.VerifPool(sess); ch <- pr{p, ok} }()
		select {
		case x := <-ch:
			return x.p, x.ok
		case <-time.After(2 * time.Second):
			return nil, false
		}
	}
	counts := func(po *c19PhaseObs) bool {
		same, atMostOne := true, true
		for e, g := range gates {
			a, o := g.counts()
			if a != po.Accepted[e] || o != po.Open[e] {
				same = false
			}
			if o > 1 {
				atMostOne = false
			}
			po.Accepted[e], po.Open[e] = a, o
		}
		_ = atMostOne
		return same
	}
	// snapshot after a phase: the closes of the redundant connections must have reached the servers
	observe := func(po *c19PhaseObs) {
		po.Accepted, po.Open, po.Pooled = make([]int, lf.NEnd), make([]int, lf.NEnd), make([]bool, lf.NEnd)
		deadline := time.Now().Add(2 * time.Second)
		for {
			counts(po)
			ok := true
			for _, o := range po.Open {
				if o > 1 {
					ok = false
				}
			}
			if ok || time.Now().After(deadline) {
				break
			}
			time.Sleep(5 * time.Millisecond)
		}
		for stable := 0; stable < 4; {
			time.Sleep(10 * time.Millisecond)
			if counts(po) {
				stable++
			} else {
				stable = 0
			}
		}
		pool, ok := readPool()
		po.PoolOK = ok
		for e := range addrs {
			_, po.Pooled[e] = pool[addrs[e]]
		}
	}
	finish := func() {
		classes := map[bus.Client]int{}
		r.IDs = make([]int, len(clients))
		for g, c := range clients {
			r.IDs[g] = -1
			if c != nil {
				if _, ok := classes[c]; !ok {
					classes[c] = len(classes)
				}
				r.IDs[g] = classes[c]
			}
		}
		r.Stage = stage
		rmu.Lock()
		b, _ := json.Marshal(r)
		rmu.Unlock()
		fmt.Println("C19RESULT " + string(b))
		os.Exit(0)
	}

	staleWait := 3 * time.Second
	for pi, ph := range lf.Phases {
		stage = fmt.Sprintf("phase %d (%s)", pi, ph.Kind)
		var po c19PhaseObs
		switch ph.Kind {
		case "burst":
			base := len(r.Errs)
			rmu.Lock()
			for range ph.Reqs {
				r.Errs = append(r.Errs, "did not return")
				r.Works = append(r.Works, false)
				clients = append(clients, nil)
			}
			rmu.Unlock()
			if ph.Seq {
				for j, rq := range ph.Reqs {
					d := make(chan struct{})
					go func(j int, rq c19Req) { one(base+j, rq); close(d) }(j, rq)
					select {
					case <-d:
					case <-time.After(8 * time.Second):
						r.Timeout = true
						finish()
					}
				}
			} else {
				pool, _ := readPool()
				coord.hold()
				var wg, wgHit sync.WaitGroup
				for j, rq := range ph.Reqs {
					_, pooled := pool[addrOf(home[rq.Svc])]
					hit := rq.Gone || pooled
					if hit {
						wgHit.Add(1)
					} else {
						po.Expected++
					}
					wg.Add(1)
					go func(j int, rq c19Req, hit bool) {
						defer wg.Done()
						one(base+j, rq)
						if hit {
							wgHit.Done()
						}
					}(j, rq, hit)
				}
				hitDone := make(chan struct{})
				go func() { wgHit.Wait(); close(hitDone) }()
				select {
				case <-hitDone:
				case <-time.After(4 * time.Second):
				}
				waitArr := time.After(4 * time.Second)
			wait:
				for {
					coord.mu.Lock()
					n := coord.arrivals
					coord.mu.Unlock()
					if n >= po.Expected {
						break
					}
					select {
					case <-coord.notify:
					case <-waitArr:
						break wait
					}
				}
				coord.mu.Lock()
				po.Held = coord.arrivals
				coord.mu.Unlock()
				coord.open()
				done := make(chan struct{})
				go func() { wg.Wait(); close(done) }()
				select {
				case <-done:
				case <-time.After(8 * time.Second):
					r.Timeout = true
					finish()
				}
			}
			observe(&po)
			po.PoolSame = true
			if pool, ok := readPool(); ok {
				for j, rq := range ph.Reqs {
					if c := clients[base+j]; c != nil && pool[addrOf(home[rq.Svc])] != c {
						po.PoolSame = false
					}
				}
			}
		case "lose":
			e := ph.End
			switch ph.How {
			case "local":
				if pool, ok := readPool(); ok {
					if c, ok := pool[addrs[e]]; ok {
						c.Channel().EndPoint().Close()
					}
				}
			case "garbage":
				gates[e].kill(true)
			default:
				gates[e].kill(false)
			}
			deadline := time.Now().Add(5 * time.Second)
			for {
				pool, ok := readPool()
				_, still := pool[addrs[e]]
				_, o := gates[e].counts()
				if ok && !still && o == 0 {
					po.Noticed = true
					break
				}
				if time.Now().After(deadline) {
					break
				}
				time.Sleep(5 * time.Millisecond)
			}
			observe(&po)
		case "unreg":
			if err := unregister(ph.Svc); err != nil {
				fail("unregister", err)
			}
			po.Listed = waitListed(ph.Svc, func(_ services.ServiceInfo, ok bool) bool { return !ok })
			po.View = viewOf(session.VerifServices(sess))
			observe(&po)
		case "rereg":
			if err := register(ph.Svc, ph.To); err != nil {
				fail("register again", err)
			}
			po.Listed = waitListed(ph.Svc, func(i services.ServiceInfo, ok bool) bool {
				return ok && connectable(i) == addrs[ph.To] && i.ServiceId == lastID[ph.Svc]
			})
			po.View = viewOf(session.VerifServices(sess))
			observe(&po)
		case "regs":
			// requests for services that stay registered, repeated while the directory changes
			stop := make(chan struct{})
			var bgwg sync.WaitGroup
			po.BgN, po.BgErr = make([]int, len(ph.Bg)), make([]string, len(ph.Bg))
			for b, rq := range ph.Bg {
				bgwg.Add(1)
				go func(b int, rq c19Req) {
					defer bgwg.Done()
					for i := 0; i < 5000; i++ {
						if i >= 20 {
							select {
							case <-stop:
								return
							default:
							}
						}
						e, w, _ := try(rq)
						rmu.Lock()
						po.BgN[b]++
						if (e != "" || !w) && po.BgErr[b] == "" {
							po.BgErr[b] = fmt.Sprintf("request %d: %s", i, e)
						}
						rmu.Unlock()
					}
				}(b, rq)
			}
			spin := func(t0 time.Time, us int) {
				for time.Since(t0) < time.Duration(us)*time.Microsecond {
				}
			}
			do := func(op c19RegOp) {
				switch op.Op {
				case "add":
					if err := register(op.Svc, op.To); err != nil {
						fail("register", err)
					}
				case "del":
					if err := unregister(op.Svc); err != nil {
						fail("unregister", err)
					}
				case "move":
					if err := unregister(op.Svc); err != nil {
						fail("unregister", err)
					}
					if err := register(op.Svc, op.To); err != nil {
						fail("register again", err)
					}
				}
			}
			if ph.Forced && relay != nil && len(ph.Ops) > 0 {
				relay.arm()
				do(ph.Ops[0])
				select {
				case <-relay.heldCh:
					po.Held2 = true
				case <-time.After(2 * time.Second):
				}
				signals := 0
				for _, op := range ph.Ops[1:] {
					spin(time.Now(), op.Gap)
					do(op)
					signals++
					if op.Op == "move" {
						signals++
					}
				}
				// the signals of the further changes are behind the held reply
				for t0 := time.Now(); po.Held2 && relay.behind() < signals && time.Since(t0) < 500*time.Millisecond; {
					time.Sleep(200 * time.Microsecond)
				}
				relay.release()
			} else if ph.Par {
				var owg sync.WaitGroup
				start := make(chan struct{})
				for _, op := range ph.Ops {
					owg.Add(1)
					go func(op c19RegOp) {
						defer owg.Done()
						<-start
						spin(time.Now(), op.Gap)
						do(op)
					}(op)
				}
				close(start)
				owg.Wait()
			} else {
				for _, op := range ph.Ops {
					spin(time.Now(), op.Gap)
					do(op)
				}
			}
			close(stop)
			bgDone := make(chan struct{})
			go func() { bgwg.Wait(); close(bgDone) }()
			select {
			case <-bgDone:
			case <-time.After(8 * time.Second):
				r.Timeout = true
				finish()
			}
			// every change has been acknowledged by the directory: it is quiet from here on.  What it
			// holds, read through another connection:
			want := wantView()
			if list, err := dirProxy.Services(); err == nil {
				po.DirView = viewOf(list)
			}
			// ... and the session's list, once it agrees or 3 s later (300 ms once a list of this life has
			// been found stale: the life has failed already, and its watchdog is 30 s)
			t0 := time.Now()
			for {
				po.View = viewOf(session.VerifServices(sess))
				if po.Listed = c19SameView(po.View, want); po.Listed || time.Since(t0) > staleWait {
					break
				}
				time.Sleep(2 * time.Millisecond)
			}
			po.WaitedMs = int(time.Since(t0) / time.Millisecond)
			if !po.Listed {
				staleWait = 300 * time.Millisecond
			}
			observe(&po)
		}
		r.Phases = append(r.Phases, po)
	}
	stage = "done"
	finish()
}

// ---------- the parent ----------

type c19LifeObs struct {
	class  string // ok | fatal | hang | crash | error
	res    c19LifeResult
	stderr string
}

func c19RunLife(lf c19Life, workdir string, idx int) c19LifeObs {
	dir, err := os.MkdirTemp("", "qv19l-")
	if err != nil {
		return c19LifeObs{class: "error", stderr: err.Error()}
	}
	defer os.RemoveAll(dir)
	lf.Dir = dir
	b, _ := json.Marshal(lf)
	ctx, cancel := context.WithTimeout(context.Background(), 45*time.Second)
	defer cancel()
	out := filepath.Join(workdir, fmt.Sprintf("life%03d", idx))
	cmd := exec.CommandContext(ctx, os.Args[0], "--out", out, "C19life")
	cmd.Env = append(os.Environ(), "QV_C19L="+string(b))
	var so, se bytes.Buffer
	cmd.Stdout, cmd.Stderr = &so, &se
	err = cmd.Run()
	o := c19LifeObs{stderr: se.String()}
	os.RemoveAll(out)
	for _, line := range strings.Split(so.String(), "\n") {
		if strings.HasPrefix(line, "C19RESULT ") {
			if json.Unmarshal([]byte(strings.TrimPrefix(line, "C19RESULT ")), &o.res) == nil && err == nil {
				o.class = "ok"
				if o.res.Timeout {
					o.class = "hang"
				}
				return o
			}
		}
		if strings.HasPrefix(line, "C19ERROR") {
			o.class = "error"
			o.stderr = line + "\n" + o.stderr
			return o
		}
		if strings.HasPrefix(line, "C19HANG") {
			o.class = "hang"
			o.stderr = line
			return o
		}
	}
	switch {
	case ctx.Err() != nil:
		o.class = "hang"
	case strings.Contains(o.stderr, "fatal error: sync: RUnlock of unlocked RWMutex"):
		o.class = "fatal"
	default:
		o.class = "crash"
	}
	return o
}

func (lf c19Life) String() string {
	var ps []string
	for _, ph := range lf.Phases {
		switch ph.Kind {
		case "burst":
			var rs []string
			for _, rq := range ph.Reqs {
				t := fmt.Sprintf("%s(s%d)", rq.Kind, rq.Svc)
				if rq.Gone {
					t += "!unregistered"
				}
				if rq.NoObj {
					t += "!no-such-object"
				}
				rs = append(rs, t)
			}
			k := "together"
			if ph.Seq {
				k = "in turn"
			}
			ps = append(ps, k+"["+strings.Join(rs, " ")+"]")
		case "lose":
			ps = append(ps, fmt.Sprintf("lose(e%d,%s)", ph.End, ph.How))
		case "unreg":
			ps = append(ps, fmt.Sprintf("unregister(s%d)", ph.Svc))
		case "rereg":
			ps = append(ps, fmt.Sprintf("register(s%d@e%d)", ph.Svc, ph.To))
		case "regs":
			at := func(e int) string {
				if e < 0 {
					return "dir"
				}
				return fmt.Sprintf("e%d", e)
			}
			var os []string
			for _, op := range ph.Ops {
				t := ""
				switch op.Op {
				case "add":
					t = fmt.Sprintf("+s%d@%s", op.Svc, at(op.To))
				case "del":
					t = fmt.Sprintf("-s%d", op.Svc)
				case "move":
					t = fmt.Sprintf("s%d->%s", op.Svc, at(op.To))
				}
				os = append(os, fmt.Sprintf("%s after %dus", t, op.Gap))
			}
			k := "one after the other"
			if ph.Par {
				k = "each from its own goroutine"
			}
			if ph.Forced {
				k = "the first, then — the reply to the Services() call it triggers held by the relay — the others, then reply and signals delivered together"
			}
			t := fmt.Sprintf("directory changes %s[%s]", k, strings.Join(os, ", "))
			if len(ph.Bg) > 0 {
				var rs []string
				for _, rq := range ph.Bg {
					rs = append(rs, fmt.Sprintf("%s(s%d)", rq.Kind, rq.Svc))
				}
				t += " while goroutines repeat[" + strings.Join(rs, " ") + "]"
			}
			ps = append(ps, t+" then quiet")
		}
	}
	via := ""
	if lf.Relay {
		via = " (connected to the directory through a relay of the harness)"
	}
	switch lf.Multi {
	case 1:
		via += " (every service behind e_i advertises tcp://198.18.0.1:9559 first, then e_i)"
	case 2:
		via += " (every service behind e_i advertises a unix socket nobody listens on first, then e_i)"
	}
	return fmt.Sprintf("life on one session%s, %d endpoints, services s0..s%d (s_i first behind e_(i mod %d)): %s",
		via, lf.NEnd, lf.NSvc-1, lf.NEnd, strings.Join(ps, " ; "))
}

// what the harness expects of a life, from its own bookkeeping of registrations and losses
type c19LifeSim struct {
	reqEp    []int            // per modelled request: endpoint of its service at that moment
	reqEpoch []int            // ... and how many times that endpoint's connection had been lost before
	reqPhase []int            // per request (all): phase index
	mustWork []bool           // per request (all): its service is registered at that moment
	modelled []bool           // per request (all): registered, and not hosted by the directory's own server (whose connection exists from the start and is not part of the machine)
	twoMiss  bool             // some held burst has two requests missing the pool for the same endpoint
	afterLos bool             // some request asks for a service behind an endpoint whose connection was lost before
	view0    [][3]int         // the services registered at the start as (service, endpoint, registration count)
	views    map[int][][3]int // per regs phase: what is registered after it
	burstReg bool             // some regs phase registers two services or more
}

func (lf c19Life) sim() c19LifeSim {
	s := c19LifeSim{views: map[int][][3]int{}}
	total := lf.total()
	home := make([]int, total)
	reg := make([]bool, total)
	gen := make([]int, total)
	for i := 0; i < lf.NSvc; i++ {
		home[i], reg[i], gen[i] = i%lf.NEnd, true, 1
	}
	view := func() [][3]int {
		var v [][3]int
		for i := range reg {
			if reg[i] {
				e := home[i]
				if e < 0 {
					e = lf.NEnd
				}
				v = append(v, [3]int{i, e, gen[i]})
			}
		}
		return v
	}
	s.view0 = view()
	pooled := make([]bool, lf.NEnd)
	epoch := make([]int, lf.NEnd)
	for pi, ph := range lf.Phases {
		switch ph.Kind {
		case "burst":
			miss := map[int]int{}
			for _, rq := range ph.Reqs {
				s.reqPhase = append(s.reqPhase, pi)
				s.mustWork = append(s.mustWork, !rq.Gone && !rq.NoObj)
				e := home[rq.Svc]
				s.modelled = append(s.modelled, !rq.Gone && e >= 0)
				if rq.Gone || e < 0 {
					continue
				}
				s.reqEp = append(s.reqEp, e)
				s.reqEpoch = append(s.reqEpoch, epoch[e])
				if epoch[e] > 0 {
					s.afterLos = true
				}
				if !pooled[e] {
					miss[e]++
				}
			}
			for e, n := range miss {
				pooled[e] = true
				if n >= 2 && !ph.Seq {
					s.twoMiss = true
				}
			}
		case "lose":
			pooled[ph.End] = false
			epoch[ph.End]++
		case "unreg":
			reg[ph.Svc] = false
		case "rereg":
			home[ph.Svc], reg[ph.Svc] = ph.To, true
			gen[ph.Svc]++
		case "regs":
			n := 0
			for _, op := range ph.Ops {
				switch op.Op {
				case "add", "move":
					home[op.Svc], reg[op.Svc] = op.To, true
					gen[op.Svc]++
					n++
				case "del":
					reg[op.Svc] = false
				}
			}
			if n >= 2 {
				s.burstReg = true
			}
			s.views[pi] = view()
		}
	}
	return s
}

// c19GenLife draws a life: bursts, losses of pooled connections, services that move, and a
// final round of one Proxy and one Object request per registered service
func c19GenLife(rng *hx.Rng) c19Life {
	ne := 1 + rng.Intn(3)
	lf := c19Life{NEnd: ne, NSvc: ne + rng.Intn(3)}
	home := make([]int, lf.NSvc)
	reg := make([]bool, lf.NSvc)
	for i := range home {
		home[i] = i % ne
		reg[i] = true
	}
	pooled := make([]bool, ne)
	kinds := []string{"proxy", "object", "hook"}
	burst := func(withGone int) c19Phase {
		ph := c19Phase{Kind: "burst", Seq: rng.Chance(0.35)}
		k := 1 + rng.Intn(6)
		for j := 0; j < k; j++ {
			var live []int
			for s, ok := range reg {
				if ok {
					live = append(live, s)
				}
			}
			if len(live) == 0 {
				break
			}
			s := live[rng.Intn(len(live))]
			ph.Reqs = append(ph.Reqs, c19Req{Svc: s, Kind: kinds[rng.Intn(3)]})
			pooled[home[s]] = true
		}
		if withGone >= 0 {
			ph.Reqs = append(ph.Reqs, c19Req{Svc: withGone, Kind: kinds[rng.Intn(2)], Gone: true})
		}
		return ph
	}
	lose := func() (c19Phase, bool) {
		var c []int
		for e, ok := range pooled {
			if ok {
				c = append(c, e)
			}
		}
		if len(c) == 0 {
			return c19Phase{}, false
		}
		e := c[rng.Intn(len(c))]
		pooled[e] = false
		return c19Phase{Kind: "lose", End: e, How: []string{"peer", "garbage", "local"}[rng.Intn(3)]}, true
	}
	lf.Phases = append(lf.Phases, burst(-1))
	n := 3 + rng.Intn(6)
	losses := 0
	for len(lf.Phases) < n || losses == 0 {
		switch x := rng.Intn(100); {
		case x < 35 || (losses == 0 && len(lf.Phases) >= n):
			if ph, ok := lose(); ok {
				lf.Phases = append(lf.Phases, ph)
				losses++
				// the requests right after a loss are the point: always ask again
				lf.Phases = append(lf.Phases, burst(-1))
			} else {
				lf.Phases = append(lf.Phases, burst(-1))
			}
		case x < 55:
			var live []int
			for s, ok := range reg {
				if ok {
					live = append(live, s)
				}
			}
			s := live[rng.Intn(len(live))]
			to := home[s]
			if ne > 1 {
				to = (home[s] + 1 + rng.Intn(ne-1)) % ne
			}
			reg[s] = false
			lf.Phases = append(lf.Phases, c19Phase{Kind: "unreg", Svc: s})
			if rng.Chance(0.4) {
				lf.Phases = append(lf.Phases, burst(s))
			}
			home[s], reg[s] = to, true
			lf.Phases = append(lf.Phases, c19Phase{Kind: "rereg", Svc: s, To: to})
		default:
			lf.Phases = append(lf.Phases, burst(-1))
		}
	}
	lf.Phases = append(lf.Phases, c19FinalRound(lf.NSvc))
	return lf
}

func c19FinalRound(nsvc int) c19Phase {
	ph := c19Phase{Kind: "burst", Seq: true}
	for s := 0; s < nsvc; s++ {
		ph.Reqs = append(ph.Reqs, c19Req{Svc: s, Kind: "object"}, c19Req{Svc: s, Kind: "proxy"})
	}
	return ph
}

// c19GenViewLife draws a life about the session's VIEW of the directory: `trials` times a burst of
// 2..5 directory changes microseconds apart (services becoming ready behind the endpoints or on the
// directory's own server, services removed, services moving — removed and registered again at
// once), some of them while goroutines keep asking for services that stay registered, then, with
// the directory quiet, requests for the services that were touched and some others; now and then
// a pooled connection is lost in between.  Ends with an Object and a Proxy request per
// registered service.
func c19GenViewLife(rng *hx.Rng, trials int) c19Life {
	ne := 1 + rng.Intn(3)
	lf := c19Life{NEnd: ne, NSvc: ne + rng.Intn(2), Relay: rng.Bool(), Multi: rng.Intn(3)}
	home := make([]int, lf.NSvc)
	reg := make([]bool, lf.NSvc)
	for i := range home {
		home[i], reg[i] = i%ne, true
	}
	pooled := make([]bool, ne)
	kinds := []string{"proxy", "object", "hook"}
	gaps := []int{0, 0, 10, 20, 40, 60, 90, 130, 180, 250, 400}
	live := func(except map[int]bool) []int {
		var l []int
		for s, ok := range reg {
			if ok && !except[s] {
				l = append(l, s)
			}
		}
		return l
	}
	place := func() int {
		// (through the relay the directory's own address is not the pooled one: no service there)
		if !lf.Relay && rng.Chance(0.3) {
			return -1
		}
		return rng.Intn(ne)
	}
	// the first burst pools every endpoint
	first := c19Phase{Kind: "burst", Seq: rng.Bool()}
	for s := 0; s < lf.NSvc; s++ {
		first.Reqs = append(first.Reqs, c19Req{Svc: s, Kind: kinds[rng.Intn(3)]})
		pooled[home[s]] = true
	}
	lf.Phases = append(lf.Phases, first)
	for t := 0; t < trials; t++ {
		ph := c19Phase{Kind: "regs", Par: rng.Chance(0.3)}
		k := 2 + rng.Intn(4)
		if lf.Relay && rng.Chance(0.6) {
			ph.Par, ph.Forced = false, true
			if rng.Bool() {
				k = 2
			}
		}
		touched := map[int]bool{}
		var asked []c19Req
		signals := 0
		for j := 0; j < k && signals < 6; j++ {
			gap := gaps[rng.Intn(len(gaps))]
			if j == 0 {
				gap = 0
			}
			cand := live(touched)
			switch x := rng.Intn(100); {
			case x < 60 || len(cand) <= 2:
				s := len(reg)
				home, reg = append(home, place()), append(reg, true)
				touched[s] = true
				ph.Ops = append(ph.Ops, c19RegOp{Op: "add", Svc: s, To: home[s], Gap: gap})
				asked = append(asked, c19Req{Svc: s, Kind: kinds[rng.Intn(3)]})
				signals++
			case x < 78:
				s := cand[rng.Intn(len(cand))]
				reg[s], touched[s] = false, true
				ph.Ops = append(ph.Ops, c19RegOp{Op: "del", Svc: s, Gap: gap})
				if rng.Bool() {
					asked = append(asked, c19Req{Svc: s, Kind: kinds[rng.Intn(2)], Gone: true})
				}
				signals++
			default:
				s := cand[rng.Intn(len(cand))]
				home[s], touched[s] = place(), true
				ph.Ops = append(ph.Ops, c19RegOp{Op: "move", Svc: s, To: home[s], Gap: gap})
				asked = append(asked, c19Req{Svc: s, Kind: kinds[rng.Intn(3)]})
				signals += 2
			}
		}
		// background requests: services that stay registered, on connections that exist
		if rng.Chance(0.5) {
			var ok []int
			for _, s := range live(touched) {
				if home[s] < 0 || pooled[home[s]] {
					ok = append(ok, s)
				}
			}
			for b, n := 0, 1+rng.Intn(3); b < n && len(ok) > 0; b++ {
				ph.Bg = append(ph.Bg, c19Req{Svc: ok[rng.Intn(len(ok))], Kind: kinds[rng.Intn(3)]})
			}
		}
		lf.Phases = append(lf.Phases, ph)
		// with the directory quiet: the services of the burst, and some others
		cand := live(touched)
		for j, n := 0, rng.Intn(3); j < n && len(cand) > 0; j++ {
			asked = append(asked, c19Req{Svc: cand[rng.Intn(len(cand))], Kind: kinds[rng.Intn(3)]})
		}
		// a request that the server refuses (no such object) among them: the others share its connection
		if all := live(nil); rng.Chance(0.3) {
			asked = append(asked, c19Req{Svc: all[rng.Intn(len(all))], Kind: kinds[rng.Intn(3)], NoObj: true})
		}
		for i := len(asked) - 1; i > 0; i-- {
			j := rng.Intn(i + 1)
			asked[i], asked[j] = asked[j], asked[i]
		}
		for _, rq := range asked {
			if !rq.Gone && home[rq.Svc] >= 0 {
				pooled[home[rq.Svc]] = true
			}
		}
		lf.Phases = append(lf.Phases, c19Phase{Kind: "burst", Seq: rng.Chance(0.4), Reqs: asked})
		if rng.Intn(7) == 0 {
			var c []int
			for e, ok := range pooled {
				if ok {
					c = append(c, e)
				}
			}
			if len(c) > 0 {
				e := c[rng.Intn(len(c))]
				pooled[e] = false
				lf.Phases = append(lf.Phases, c19Phase{Kind: "lose", End: e, How: []string{"peer", "garbage", "local"}[rng.Intn(3)]})
			}
		}
	}
	lf.Phases = append(lf.Phases, c19FinalRoundOf(live(nil)))
	return lf
}

func c19FinalRoundOf(svcs []int) c19Phase {
	ph := c19Phase{Kind: "burst", Seq: true}
	for _, s := range svcs {
		ph.Reqs = append(ph.Reqs, c19Req{Svc: s, Kind: "object"}, c19Req{Svc: s, Kind: "proxy"})
	}
	return ph
}

// view lives that are always run
func c19DirectedViewLives() []c19Life {
	rq := func(kind string, s int) c19Req { return c19Req{Svc: s, Kind: kind} }
	var out []c19Life
	// the schedule forced through the relay: one change, the refresh it triggers takes its snapshot,
	// ONE further change (registration / removal / move), then the reply of that refresh and the
	// signal of the further change reach the session together
	lf := c19Life{NEnd: 2, NSvc: 2, Relay: true, Multi: 1, Phases: []c19Phase{{Kind: "burst", Reqs: []c19Req{rq("proxy", 0), rq("hook", 1), rq("object", 1)}}}}
	livef := []int{0, 1}
	n := 2
	for t := 0; t < 10; t++ {
		x, y := n, n+1
		switch t % 5 {
		case 0, 1: // two services of one process / of two processes
			n += 2
			livef = append(livef, x, y)
			lf.Phases = append(lf.Phases,
				c19Phase{Kind: "regs", Forced: true, Ops: []c19RegOp{{Op: "add", Svc: x, To: t % 2}, {Op: "add", Svc: y, To: (t + t%5) % 2, Gap: 20 * t}}},
				c19Phase{Kind: "burst", Seq: t%2 == 0, Reqs: []c19Req{rq("proxy", y), {Svc: x, Kind: "proxy", NoObj: true}, rq("proxy", x), rq("object", y), rq("hook", x)}})
		case 2: // a removal, then a registration behind it
			n++
			gone := livef[len(livef)-1]
			livef = append(livef[:len(livef)-1], x)
			lf.Phases = append(lf.Phases,
				c19Phase{Kind: "regs", Forced: true, Ops: []c19RegOp{{Op: "del", Svc: gone}, {Op: "add", Svc: x, To: 1}}},
				c19Phase{Kind: "burst", Reqs: []c19Req{rq("proxy", x), {Svc: gone, Kind: "proxy", Gone: true}, rq("object", x), rq("hook", 0)}})
		case 3: // a registration, then a service of the start moves
			n++
			livef = append(livef, x)
			lf.Phases = append(lf.Phases,
				c19Phase{Kind: "regs", Forced: true, Ops: []c19RegOp{{Op: "add", Svc: x, To: 0}, {Op: "move", Svc: 1, To: (t / 5) % 2}}},
				c19Phase{Kind: "burst", Seq: true, Reqs: []c19Req{rq("proxy", 1), {Svc: 1, Kind: "hook", NoObj: true}, rq("object", 1), rq("proxy", x), {Svc: x, Kind: "object", NoObj: true}, rq("hook", 1)}})
		case 4: // a move, then a registration
			n++
			livef = append(livef, x)
			lf.Phases = append(lf.Phases,
				c19Phase{Kind: "regs", Forced: true, Ops: []c19RegOp{{Op: "move", Svc: 0, To: 1 - (t/5)%2}, {Op: "add", Svc: x, To: 1}}},
				c19Phase{Kind: "burst", Reqs: []c19Req{rq("object", x), rq("proxy", 0), rq("proxy", x), rq("object", 0)}})
		}
	}
	lf.Phases = append(lf.Phases, c19FinalRoundOf(livef))
	out = append(out, lf)
	// two services become ready 0..330 us apart (as when a process hosting two services starts);
	// then, with the directory quiet, goroutines ask for both — on the endpoint's server, on the
	// directory's own server
	for _, to := range []int{0, -1} {
		lf := c19Life{NEnd: 1, NSvc: 1, Phases: []c19Phase{{Kind: "burst", Seq: true, Reqs: []c19Req{rq("proxy", 0)}}}}
		var all []int
		all = append(all, 0)
		for t := 0; t < 12; t++ {
			a, b := 1+2*t, 2+2*t
			all = append(all, a, b)
			lf.Phases = append(lf.Phases,
				c19Phase{Kind: "regs", Ops: []c19RegOp{{Op: "add", Svc: a, To: to}, {Op: "add", Svc: b, To: to, Gap: 30 * t}}},
				c19Phase{Kind: "burst", Seq: t%2 == 1, Reqs: []c19Req{rq("proxy", a), rq("proxy", b), rq([]string{"object", "hook"}[t%2], b)}})
		}
		lf.Phases = append(lf.Phases, c19FinalRoundOf(all))
		out = append(out, lf)
	}
	// bursts of five from five goroutines, behind two endpoints and the directory, while three
	// goroutines keep asking for the two services that were there from the start; every second
	// burst removes what the previous one added
	lf = c19Life{NEnd: 2, NSvc: 2, Phases: []c19Phase{{Kind: "burst", Reqs: []c19Req{rq("hook", 0), rq("proxy", 1), rq("object", 0)}}}}
	bg := []c19Req{rq("proxy", 0), rq("object", 1), rq("hook", 1)}
	n = 2
	for t := 0; t < 8; t++ {
		add := c19Phase{Kind: "regs", Par: true, Bg: bg}
		var after []c19Req
		for j := 0; j < 5; j++ {
			add.Ops = append(add.Ops, c19RegOp{Op: "add", Svc: n + j, To: (t+j)%3 - 1, Gap: 25 * j * (t % 4)})
			after = append(after, rq([]string{"proxy", "object", "hook"}[(t+j)%3], n+j))
		}
		lf.Phases = append(lf.Phases, add, c19Phase{Kind: "burst", Reqs: after})
		if t%2 == 1 {
			del := c19Phase{Kind: "regs", Bg: bg[:2]}
			for j := 0; j < 5; j++ {
				del.Ops = append(del.Ops, c19RegOp{Op: "del", Svc: n + j, Gap: 15 * j})
			}
			lf.Phases = append(lf.Phases, del, c19Phase{Kind: "burst", Seq: true, Reqs: []c19Req{{Svc: n, Kind: "proxy", Gone: true}, rq("proxy", 0), rq("object", 1)}})
		}
		n += 5
	}
	var left []int
	left = append(left, 0, 1)
	for t := 0; t < 8; t += 2 {
		for j := 0; j < 5; j++ {
			left = append(left, 2+5*t+j)
		}
	}
	lf.Phases = append(lf.Phases, c19FinalRoundOf(left))
	out = append(out, lf)
	// services that move in pairs (removed and registered again at once, new id, other endpoint)
	lf = c19Life{NEnd: 2, NSvc: 4, Multi: 2, Phases: []c19Phase{{Kind: "burst", Seq: true, Reqs: []c19Req{rq("object", 0), rq("proxy", 1), rq("hook", 2), rq("proxy", 3)}}}}
	where := []int{0, 1, 0, 1}
	for t := 0; t < 10; t++ {
		a, b := t%4, (t+1+t/4)%4
		if a == b {
			b = (b + 1) % 4
		}
		where[a], where[b] = 1-where[a], 1-where[b]
		lf.Phases = append(lf.Phases,
			c19Phase{Kind: "regs", Par: t%3 == 2, Ops: []c19RegOp{{Op: "move", Svc: a, To: where[a]}, {Op: "move", Svc: b, To: where[b], Gap: 40 * (t % 5)}}},
			c19Phase{Kind: "burst", Seq: t%2 == 0, Reqs: []c19Req{rq("proxy", a), rq("object", b), rq("hook", b), rq("object", a)}})
	}
	lf.Phases = append(lf.Phases, c19FinalRoundOf([]int{0, 1, 2, 3}))
	out = append(out, lf)
	return out
}

// lives that are always run: the shortest histories of each kind
func c19DirectedLives() []c19Life {
	rq := func(kind string, s int) c19Req { return c19Req{Svc: s, Kind: kind} }
	var out []c19Life
	// every kind of request before and after every kind of loss, one endpoint
	for _, how := range []string{"peer", "garbage", "local"} {
		out = append(out, c19Life{NEnd: 1, NSvc: 2, Phases: []c19Phase{
			{Kind: "burst", Seq: true, Reqs: []c19Req{rq("object", 0), rq("proxy", 1), rq("hook", 0)}},
			{Kind: "lose", End: 0, How: how},
			{Kind: "burst", Seq: true, Reqs: []c19Req{rq("object", 0), rq("hook", 1), rq("proxy", 1), rq("object", 1)}},
			{Kind: "lose", End: 0, How: how},
			c19FinalRound(2),
		}})
	}
	// concurrent mixes before and after the loss, two endpoints
	out = append(out, c19Life{NEnd: 2, NSvc: 3, Phases: []c19Phase{
		{Kind: "burst", Reqs: []c19Req{rq("object", 0), rq("proxy", 0), rq("hook", 2), rq("object", 1), rq("hook", 1)}},
		{Kind: "lose", End: 0, How: "peer"},
		{Kind: "burst", Reqs: []c19Req{rq("object", 0), rq("object", 2), rq("hook", 0), rq("proxy", 2), rq("object", 1)}},
		{Kind: "lose", End: 1, How: "local"},
		{Kind: "lose", End: 0, How: "garbage"},
		{Kind: "burst", Reqs: []c19Req{rq("hook", 1), rq("object", 1), rq("object", 0), rq("hook", 0), rq("proxy", 1), rq("object", 2)}},
		c19FinalRound(3),
	}})
	// a service moves to another endpoint, then the connection to its new endpoint is lost
	out = append(out, c19Life{NEnd: 2, NSvc: 2, Phases: []c19Phase{
		{Kind: "burst", Seq: true, Reqs: []c19Req{rq("object", 0), rq("proxy", 0), rq("hook", 0)}},
		{Kind: "unreg", Svc: 0},
		{Kind: "burst", Seq: true, Reqs: []c19Req{{Svc: 0, Kind: "object", Gone: true}, {Svc: 0, Kind: "proxy", Gone: true}, rq("object", 1)}},
		{Kind: "rereg", Svc: 0, To: 1},
		{Kind: "burst", Reqs: []c19Req{rq("object", 0), rq("proxy", 0), rq("hook", 0), rq("hook", 1)}},
		{Kind: "lose", End: 1, How: "peer"},
		{Kind: "burst", Reqs: []c19Req{rq("object", 0), rq("hook", 0), rq("object", 1)}},
		c19FinalRound(2),
	}})
	return out
}

func c19ViewTerm(v [][3]int) string {
	es := make([]string, len(v))
	for i, x := range v {
		es[i] = fmt.Sprintf("(%d, (%d, %d))", x[0], x[1], x[2])
	}
	return hx.List(es)
}

func c19LifeTerm(lf c19Life, sm c19LifeSim, o c19LifeObs) string {
	var phs []string
	g := 0 // index among the modelled requests
	q := 0 // index among all requests
	total := lf.total()
	gen := make([]int, total)
	for i := 0; i < lf.NSvc; i++ {
		gen[i] = 1
	}
	ep := func(e int) int {
		if e < 0 {
			return lf.NEnd
		}
		return e
	}
	for pi, ph := range lf.Phases {
		obs := "{| lo_accepted := []; lo_open := []; lo_pooled := []; lo_view := [] |}"
		if o.class == "ok" && pi < len(o.res.Phases) {
			po := o.res.Phases[pi]
			bs := make([]string, len(po.Pooled))
			for i, b := range po.Pooled {
				bs[i] = hx.Bool(b)
			}
			obs = fmt.Sprintf("{| lo_accepted := %s; lo_open := %s; lo_pooled := %s; lo_view := %s |}", hx.NatList(po.Accepted), hx.NatList(po.Open), hx.List(bs), c19ViewTerm(po.View))
		}
		switch ph.Kind {
		case "burst":
			var eps []int
			for range ph.Reqs {
				if sm.modelled[q] {
					eps = append(eps, sm.reqEp[g])
					g++
				}
				q++
			}
			phs = append(phs, fmt.Sprintf("(PBurst %s %s, %s)", hx.NatList(eps), hx.Bool(ph.Seq), obs))
		case "lose":
			phs = append(phs, fmt.Sprintf("(PLose %d, %s)", ph.End, obs))
		case "unreg":
			phs = append(phs, fmt.Sprintf("(PRegs [RDel %d], %s)", ph.Svc, obs))
		case "rereg":
			gen[ph.Svc]++
			phs = append(phs, fmt.Sprintf("(PRegs [RAdd %d %d %d], %s)", ph.Svc, ep(ph.To), gen[ph.Svc], obs))
		case "regs":
			// the changes of the directory, in the order in which they were started
			var ops []string
			for _, op := range ph.Ops {
				switch op.Op {
				case "add":
					gen[op.Svc]++
					ops = append(ops, fmt.Sprintf("RAdd %d %d %d", op.Svc, ep(op.To), gen[op.Svc]))
				case "del":
					ops = append(ops, fmt.Sprintf("RDel %d", op.Svc))
				case "move":
					gen[op.Svc]++
					ops = append(ops, fmt.Sprintf("RDel %d", op.Svc), fmt.Sprintf("RAdd %d %d %d", op.Svc, ep(op.To), gen[op.Svc]))
				}
			}
			phs = append(phs, fmt.Sprintf("(PRegs %s, %s)", hx.List(ops), obs))
		}
	}
	var ids []string
	for q, m := range sm.modelled {
		if !m {
			continue
		}
		if o.class == "ok" && q < len(o.res.IDs) && o.res.IDs[q] >= 0 {
			ids = append(ids, fmt.Sprintf("Some %d", o.res.IDs[q]))
		} else {
			ids = append(ids, "None")
		}
	}
	return fmt.Sprintf("{| lc_fatal := %s; lc_view0 := %s; lc_phases := %s; lc_ids := %s |}", hx.Bool(o.class == "fatal"), c19ViewTerm(sm.view0), hx.List(phs), hx.List(ids))
}

// runC19Lives runs the lives and evaluates the property on what the session did
func runC19Lives(res *hx.Result, rng *hx.Rng, tier string, outdir string, defect bool, cf *hx.Cases) {
	n := 12
	if tier == "thorough" {
		n = 150
	}
	lives := c19DirectedLives()
	for i := 0; i < n; i++ {
		lives = append(lives, c19GenLife(rng))
	}
	// two lives in three with services that advertise an unreachable address first
	for i := range lives {
		lives[i].Multi = i % 3
	}
	// the session's view of the directory over time (bursts of registrations during refreshes)
	nv, trials := 6, 12
	if tier == "thorough" {
		nv, trials = 60, 16
	}
	lives = append(lives, c19DirectedViewLives()...)
	for i := 0; i < nv; i++ {
		lives = append(lives, c19GenViewLife(rng, trials))
	}
	obs := make([]c19LifeObs, len(lives))
	var wg sync.WaitGroup
	sem := make(chan struct{}, 4)
	for i := range lives {
		wg.Add(1)
		go func(i int) {
			defer wg.Done()
			sem <- struct{}{}
			defer func() { <-sem }()
			obs[i] = c19RunLife(lives[i], outdir, i)
		}(i)
	}
	wg.Wait()
	for i, lf := range lives {
		o := obs[i]
		sm := lf.sim()
		desc := lf.String()
		res.Count(desc, sm.afterLos || sm.burstReg)
		res.Dist("life:outcome:" + o.class)
		res.Dist(fmt.Sprintf("life:endpoints:%d", lf.NEnd))
		res.Dist([]string{"life:services-advertise:one-address", "life:services-advertise:test-range-address-first", "life:services-advertise:dead-unix-socket-first"}[lf.Multi])
		for _, ph := range lf.Phases {
			switch ph.Kind {
			case "lose":
				res.Dist("life:loss:" + ph.How)
			case "rereg":
				res.Dist("life:service-moved")
			case "regs":
				res.Dist(fmt.Sprintf("life:directory-changes-in-a-burst:%d", len(ph.Ops)))
				if ph.Par {
					res.Dist("life:directory-changes:concurrent")
				}
				if ph.Forced {
					res.Dist("life:directory-changes:behind-a-held-refresh")
				}
				if len(ph.Bg) > 0 {
					res.Dist("life:directory-changes:during-requests")
				}
				for _, op := range ph.Ops {
					res.Dist("life:directory-change:" + op.Op)
					if op.To < 0 && op.Op != "del" {
						res.Dist("life:service-on-the-directory-server")
					}
				}
			case "burst":
				for _, rq := range ph.Reqs {
					if rq.NoObj {
						res.Dist("life:request-for-a-missing-object")
					}
				}
				if ph.Seq {
					res.Dist("life:burst:in-turn")
				} else {
					res.Dist("life:burst:together")
				}
			}
		}
		if i < 3 || i == len(c19DirectedLives()) || i == len(c19DirectedLives())+n+2 {
			var snap []string
			for _, po := range o.res.Phases {
				snap = append(snap, fmt.Sprintf("acc=%v open=%v pooled=%v", po.Accepted, po.Open, po.Pooled))
			}
			res.Sample(fmt.Sprintf("%s => %s ids=%v after each phase: %s", desc, o.class, o.res.IDs, strings.Join(snap, " | ")))
		}
		known := defect && sm.twoMiss
		fail := func(kind, detail string) {
			if known {
				res.FailKnown(kind, detail, "runlock_after_lock")
			} else {
				res.Fail(kind, detail)
			}
		}
		forced := true
		switch o.class {
		case "crash":
			fail("process-crashed", fmt.Sprintf("%s: the process died: %s", desc, c19Tail(o.stderr, 300)))
			continue
		case "fatal":
			fail("process-crashed", fmt.Sprintf("%s: the process died: %s", desc, c19Tail(o.stderr, 300)))
		case "hang":
			fail("request-never-returned", fmt.Sprintf("%s: stopped in %s: some request had not returned after 8 s: %s", desc, o.res.Stage, c19Tail(o.stderr, 200)))
			continue
		case "error":
			res.Notes = append(res.Notes, "life could not be set up: "+desc+": "+c19Tail(o.stderr, 200))
			continue
		case "ok":
			if len(o.res.Phases) != len(lf.Phases) || len(o.res.Errs) != len(sm.reqPhase) {
				fail("request-never-returned", desc+": the life was not run to its end")
				continue
			}
			for q := range sm.reqPhase {
				if !sm.mustWork[q] {
					continue // a request for an unregistered service only has to return
				}
				if o.res.Errs[q] != "" || !o.res.Works[q] {
					detail := fmt.Sprintf("%s: request %d (phase %d) for a registered service got no working proxy: %s", desc, q, sm.reqPhase[q], o.res.Errs[q])
					if strings.Contains(o.res.Errs[q], net.ErrConsumerBlocked.Error()) {
						res.FailKnown("request-failed", detail, "consumer_queue_overflow")
					} else {
						fail("request-failed", detail)
					}
				}
			}
			for pi, po := range o.res.Phases {
				for e := 0; e < lf.NEnd; e++ {
					if po.Open[e] > 1 {
						fail("connections-per-endpoint", fmt.Sprintf("%s: after phase %d, %d connections to endpoint %d are open (accepted %d so far)", desc, pi, po.Open[e], e, po.Accepted[e]))
					}
				}
				if !po.PoolOK {
					fail("pool-lock", fmt.Sprintf("%s: after phase %d the pool's lock could not be taken for reading", desc, pi))
				}
				if lf.Phases[pi].Kind == "burst" && !po.PoolSame {
					fail("client-not-pooled", fmt.Sprintf("%s: phase %d: a returned client is not the one the pool holds for its endpoint", desc, pi))
				}
				if lf.Phases[pi].Kind == "burst" && !lf.Phases[pi].Seq && po.Held < po.Expected {
					forced = false
				}
				if lf.Phases[pi].Kind == "regs" && lf.Phases[pi].Forced && !po.Held2 {
					res.Dist("life:refresh-not-held")
					res.Notes = append(res.Notes, fmt.Sprintf("%s: phase %d: the relay saw no Services() reply to hold within 2 s of the first change", desc, pi))
				}
				if lf.Phases[pi].Kind == "regs" {
					// requests for services that were registered all along, made while the directory changed
					for b, e := range po.BgErr {
						rq := lf.Phases[pi].Bg[b]
						if e == "" {
							continue
						}
						detail := fmt.Sprintf("%s: phase %d: the goroutine repeating %s(s%d) — registered before, during and after the changes — got no working proxy at %s (of %d requests)", desc, pi, rq.Kind, rq.Svc, e, po.BgN[b])
						if strings.Contains(e, net.ErrConsumerBlocked.Error()) {
							res.FailKnown("request-failed", detail, "consumer_queue_overflow")
						} else {
							fail("request-failed", detail)
						}
					}
					// the session's list, with the directory quiet
					want := sm.views[pi]
					if !c19SameView(po.DirView, want) {
						res.Notes = append(res.Notes, fmt.Sprintf("%s: phase %d: the directory itself lists %v (service, endpoint, registration), the harness registered %v", desc, pi, po.DirView, want))
						res.Dist("life:directory-did-not-follow")
						forced = false
					} else if !po.Listed {
						listed := map[[3]int]bool{}
						for _, v := range po.View {
							listed[v] = true
						}
						for _, w := range want {
							if !listed[w] {
								fail("service-not-listed", fmt.Sprintf("%s: phase %d: %d ms after the last change was acknowledged, with the directory quiet (it lists %v as service, endpoint, registration), the session's list is %v: a request for s%d cannot succeed", desc, pi, po.WaitedMs, po.DirView, po.View, w[0]))
								break
							}
						}
					}
				}
			}
			// clients: shared while the connection lives, replaced after it was lost
			m := 0
			idx := make([]int, len(sm.reqPhase))
			for q := range sm.reqPhase {
				idx[q] = -1
				if sm.modelled[q] {
					idx[q] = m
					m++
				}
			}
			for q := range idx {
				for p := 0; p < q; p++ {
					if idx[p] < 0 || idx[q] < 0 || o.res.IDs[p] < 0 || o.res.IDs[q] < 0 || sm.reqEp[idx[p]] != sm.reqEp[idx[q]] {
						continue
					}
					same := sm.reqEpoch[idx[p]] == sm.reqEpoch[idx[q]]
					if same && o.res.IDs[p] != o.res.IDs[q] {
						fail("clients-not-shared", fmt.Sprintf("%s: requests %d and %d asked for services behind endpoint %d, whose connection was not lost in between, and got different clients", desc, p, q, sm.reqEp[idx[q]]))
					}
					if !same && o.res.IDs[p] == o.res.IDs[q] {
						fail("client-of-lost-connection", fmt.Sprintf("%s: request %d got the client that request %d had got before the connection to endpoint %d was lost", desc, q, p, sm.reqEp[idx[q]]))
					}
				}
			}
			if !forced {
				res.Notes = append(res.Notes, "schedule not forced in some burst: "+desc)
				res.Dist("life:schedule-not-forced")
				continue
			}
		}
		cf.Add("lcases", c19LifeTerm(lf, sm, o), desc)
	}
}
