package main

// C12, hostile traffic aimed at SERVICE 0 ITSELF.
//
// "Every object keeps answering other clients' calls" presupposes that another client can still
// connect AND AUTHENTICATE: service 0 is the object every connection has to call first.  The other
// families of this check never sent it more than a stray frame.  Here a VOLLEY is a sequence of
// frames for service 0 written by one hostile client — authenticated or not yet authenticated —
// over one or many connections:
//
//	credentials   valid / wrong token / no token / no user / empty map / empty strings / token or user
//	              of a wrong type (uint, int, bool, int64, float, dynamic) / forged state entry /
//	              duplicate entries / cut, empty, junk payloads / hostile counts and string sizes /
//	              huge user names, tokens, maps, payloads / other actions and objects of service 0
//	aimed at      the client's own user name, another user's (the victim's), the anonymous user "",
//	              a user that does not exist
//	message type  Call mostly; Post, Capability, Cancel and the four types the server ignores
//	delivery      one by one reading each answer / one write then reading / one write, never reading /
//	              one write and hang up; 6..150 frames; spread over 1, 2, 5 or as many connections as frames
//	server        the authenticator that accepts everybody (bus.Yes) / a real one (bus.Dictionary)
//
// and AFTERWARDS, for every identity the server knows, a fresh client with VALID credentials does
// what every client does: connects, authenticates (the real capability map of bus.ClientCap), and
// asks the directory and the two generic objects for their meta object.  Oracle: the server process
// is alive, the fresh client's authenticate call is answered "done", its three calls get a Reply.
//
// State that survives inside the implementation is the point, so one server child serves several
// volleys in a row (a failure is run again alone on a fresh server: if it fails there too the
// shorter input is reported, otherwise the history is part of the report; the server is retired
// either way).  Every volley is also a case for coq/run/C12AuthRun.v (model Auth.v): what the
// one-by-one connections and the fresh clients received is compared frame by frame.

import (
	"bytes"
	"encoding/binary"
	"fmt"
	gonet "net"
	"strings"
	"time"

	"github.com/lugu/qiloop/bus"
	"github.com/lugu/qiloop/bus/net"
	"qv/internal/hx"
)

// the table of the "dict" server's authenticator
var c12users = map[string]string{"alice": "pw-alice", "bob": "pw-bob", "mallory": "pw-mallory"}

type c12ident struct{ user, token string }

// who the fresh clients are, and who the hostile client is, per server kind
func c12identities(server string) (fresh []c12ident, hostile c12ident) {
	if server == "dict" {
		return []c12ident{{"alice", "pw-alice"}, {"bob", "pw-bob"}, {"mallory", "pw-mallory"}}, c12ident{"mallory", "pw-mallory"}
	}
	return []c12ident{{"", ""}, {"alice", "whatever"}}, c12ident{"", ""}
}

// ---- capability maps built by hand: ordered entries, any value, any count ----

type c12kv struct {
	k string
	v []byte
}

func c12vS(s string) []byte  { return append(c12str("s"), c12str(s)...) }
func c12vI(u uint32) []byte  { return append(c12str("I"), c12le32(u)...) }
func c12vi(u uint32) []byte  { return append(c12str("i"), c12le32(u)...) }
func c12vb(b byte) []byte    { return append(c12str("b"), b) }
func c12vl(u uint64) []byte  { return append(c12str("l"), c12le64(u)...) }
func c12vf(u uint32) []byte  { return append(c12str("f"), c12le32(u)...) }
func c12vm(in []byte) []byte { return append(c12str("m"), in...) }

func c12cap(kvs ...c12kv) []byte {
	b := c12le32(uint32(len(kvs)))
	for _, e := range kvs {
		b = append(b, c12str(e.k)...)
		b = append(b, e.v...)
	}
	return b
}

type c12variant struct {
	name   string
	small  bool // the payloads are small and of kinds Auth.v decodes itself: part of the Coq case
	refuse bool // well-formed, refused whoever is named: run against every target
	build  func(rng *hx.Rng, u, tok string) []byte
	hdr    func(rng *hx.Rng, f *c12zframe) // other action / object
}

func c12wrong(rng *hx.Rng) string { return fmt.Sprintf("wrong-%x", rng.Bytes(3)) }

func c12variants() []c12variant {
	U, T := bus.KeyUser, bus.KeyToken
	return []c12variant{
		{name: "valid", small: true, build: func(rng *hx.Rng, u, tok string) []byte { return c12cap(c12kv{U, c12vS(u)}, c12kv{T, c12vS(tok)}) }},
		{name: "wrong-token", small: true, refuse: true, build: func(rng *hx.Rng, u, tok string) []byte {
			return c12cap(c12kv{U, c12vS(u)}, c12kv{T, c12vS(c12wrong(rng))})
		}},
		{name: "user-only", small: true, build: func(rng *hx.Rng, u, tok string) []byte { return c12cap(c12kv{U, c12vS(u)}) }},
		{name: "token-only", small: true, build: func(rng *hx.Rng, u, tok string) []byte { return c12cap(c12kv{T, c12vS(c12wrong(rng))}) }},
		{name: "empty-map", small: true, build: func(rng *hx.Rng, u, tok string) []byte { return c12cap() }},
		{name: "empty-strings", small: true, build: func(rng *hx.Rng, u, tok string) []byte { return c12cap(c12kv{U, c12vS("")}, c12kv{T, c12vS("")}) }},
		{name: "client-caps-wrong-token", small: true, refuse: true, build: func(rng *hx.Rng, u, tok string) []byte {
			return c12cap(c12kv{"ClientServerSocket", c12vb(1)}, c12kv{"MessageFlags", c12vb(1)}, c12kv{"MetaObjectCache", c12vb(0)},
				c12kv{U, c12vS(u)}, c12kv{T, c12vS(c12wrong(rng))})
		}},
		{name: "token-uint", small: true, refuse: true, build: func(rng *hx.Rng, u, tok string) []byte {
			return c12cap(c12kv{U, c12vS(u)}, c12kv{T, c12vI(uint32(rng.Intn(1000)))})
		}},
		{name: "token-uint-no-user", small: true, refuse: true, build: func(rng *hx.Rng, u, tok string) []byte {
			return c12cap(c12kv{T, c12vI(uint32(rng.Intn(1000)))})
		}},
		{name: "token-int", small: true, refuse: true, build: func(rng *hx.Rng, u, tok string) []byte {
			return c12cap(c12kv{U, c12vS(u)}, c12kv{T, c12vi(uint32(rng.Intn(1000)))})
		}},
		{name: "token-bool", small: true, refuse: true, build: func(rng *hx.Rng, u, tok string) []byte {
			return c12cap(c12kv{U, c12vS(u)}, c12kv{T, c12vb(byte(rng.Intn(2)))})
		}},
		{name: "token-int64", small: true, refuse: true, build: func(rng *hx.Rng, u, tok string) []byte {
			return c12cap(c12kv{U, c12vS(u)}, c12kv{T, c12vl(rng.U64())})
		}},
		{name: "token-float", small: true, refuse: true, build: func(rng *hx.Rng, u, tok string) []byte {
			return c12cap(c12kv{U, c12vS(u)}, c12kv{T, c12vf(uint32(rng.U64()))})
		}},
		{name: "token-dynamic-string", small: true, build: func(rng *hx.Rng, u, tok string) []byte {
			return c12cap(c12kv{U, c12vS(u)}, c12kv{T, c12vm(c12vS(tok))})
		}},
		{name: "token-dynamic-uint", small: true, refuse: true, build: func(rng *hx.Rng, u, tok string) []byte {
			return c12cap(c12kv{U, c12vS(u)}, c12kv{T, c12vm(c12vI(3))})
		}},
		{name: "user-uint", small: true, build: func(rng *hx.Rng, u, tok string) []byte { return c12cap(c12kv{U, c12vI(7)}, c12kv{T, c12vS(tok)}) }},
		{name: "forged-state-wrong-token", small: true, refuse: true, build: func(rng *hx.Rng, u, tok string) []byte {
			return c12cap(c12kv{bus.KeyState, c12vI(bus.StateDone)}, c12kv{U, c12vS(u)}, c12kv{T, c12vS(c12wrong(rng))})
		}},
		{name: "token-entry-twice-valid-then-wrong", small: true, refuse: true, build: func(rng *hx.Rng, u, tok string) []byte {
			return c12cap(c12kv{U, c12vS(u)}, c12kv{T, c12vS(tok)}, c12kv{T, c12vS(c12wrong(rng))})
		}},
		{name: "cut", small: true, build: func(rng *hx.Rng, u, tok string) []byte {
			b := c12cap(c12kv{U, c12vS(u)}, c12kv{T, c12vS(tok)})
			return b[:rng.Intn(len(b))]
		}},
		{name: "empty-payload", small: true, build: func(rng *hx.Rng, u, tok string) []byte { return nil }},
		{name: "count-4097", small: true, build: func(rng *hx.Rng, u, tok string) []byte {
			b := c12cap(c12kv{U, c12vS(u)}, c12kv{T, c12vS(tok)})
			binary.LittleEndian.PutUint32(b, 4097)
			return b
		}},
		{name: "count-ffffffff", small: true, build: func(rng *hx.Rng, u, tok string) []byte {
			b := c12cap(c12kv{U, c12vS(u)}, c12kv{T, c12vS(tok)})
			binary.LittleEndian.PutUint32(b, 0xffffffff)
			return b
		}},
		{name: "count-larger-than-sent", small: true, build: func(rng *hx.Rng, u, tok string) []byte {
			b := c12cap(c12kv{U, c12vS(u)}, c12kv{T, c12vS(tok)})
			binary.LittleEndian.PutUint32(b, uint32(3+rng.Intn(4000)))
			return b
		}},
		{name: "junk", small: true, build: func(rng *hx.Rng, u, tok string) []byte {
			b := rng.Bytes(4 + rng.Intn(60))
			b[3] |= 0x10 // (a count above the limit: what follows is never looked at)
			return b
		}},
		{name: "string-size-above-limit", small: true, build: func(rng *hx.Rng, u, tok string) []byte {
			b := c12le32(1)
			b = append(b, c12le32(11*1024*1024)...) // the key's declared size
			return append(b, "auth_user"...)
		}},
		{name: "other-action", small: true, build: func(rng *hx.Rng, u, tok string) []byte { return rng.Bytes(rng.Intn(12)) },
			hdr: func(rng *hx.Rng, f *c12zframe) { f.act = uint32(rng.Pick(0, 1, 2, 3, 7, 80, 9999)) }},
		{name: "other-object", small: true, build: func(rng *hx.Rng, u, tok string) []byte { return c12cap(c12kv{U, c12vS(u)}, c12kv{T, c12vS(tok)}) },
			hdr: func(rng *hx.Rng, f *c12zframe) { f.obj = uint32(rng.Pick(1, 5, 0xffffffff)) }},
		// not part of the Coq case (too large for its front end, or of a kind Auth.v leaves to a parameter)
		{name: "token-list", refuse: true, build: func(rng *hx.Rng, u, tok string) []byte {
			l := append(c12str("[i]"), c12le32(2)...)
			l = append(l, c12le32(1)...)
			l = append(l, c12le32(2)...)
			return c12cap(c12kv{U, c12vS(u)}, c12kv{T, l})
		}},
		{name: "huge-user-name-64k", build: func(rng *hx.Rng, u, tok string) []byte {
			return c12cap(c12kv{U, c12vS(u + strings.Repeat("u", 64*1024))}, c12kv{T, c12vS(c12wrong(rng))})
		}},
		{name: "huge-token-512k", refuse: true, build: func(rng *hx.Rng, u, tok string) []byte {
			return c12cap(c12kv{U, c12vS(u)}, c12kv{T, c12vS(strings.Repeat("t", 512*1024))})
		}},
		{name: "map-of-4096-entries", refuse: true, build: func(rng *hx.Rng, u, tok string) []byte {
			kvs := make([]c12kv, 0, 4096)
			for i := 0; i < 4094; i++ {
				kvs = append(kvs, c12kv{fmt.Sprintf("k%04d", i), c12vI(uint32(i))})
			}
			kvs = append(kvs, c12kv{U, c12vS(u)}, c12kv{T, c12vS(c12wrong(rng))})
			return c12cap(kvs...)
		}},
		{name: "payload-of-4MB-behind-the-map", refuse: true, build: func(rng *hx.Rng, u, tok string) []byte {
			return append(c12cap(c12kv{U, c12vS(u)}, c12kv{T, c12vS(c12wrong(rng))}), make([]byte, 4<<20)...)
		}},
	}
}

// ---- volleys ----

type c12zframe struct {
	conn           int
	typ            uint8
	svc, obj, act  uint32
	id             uint32
	payload        []byte
	setup          bool // the hostile client's own, valid, authentication at the start of a connection
	variant, aimed string
}

type c12volley struct {
	server  string // "yes", "dict"
	variant string // or "mixed", "idle-connections"
	target  string // own, victim, anonymous, nobody
	authed  bool   // the hostile connections authenticate first
	mode    int    // 0 one by one reading, 1 one write then reading, 2 one write never reading, 3 one write and hang up
	conns   int
	n       int
	small   bool
	frames  []c12zframe
}

func (v *c12volley) String() string {
	return fmt.Sprintf("service-0-volley[server=%s credentials=%s aimed-at=%s frames=%d connections=%d client=%s delivery=%s]",
		map[string]string{"yes": "accepts-everybody", "dict": "user-table"}[v.server], v.variant, v.target, v.n, v.conns,
		map[bool]string{true: "authenticated", false: "not-yet-authenticated"}[v.authed],
		[]string{"one-by-one-reading", "one-write-then-reading", "one-write-never-reading", "one-write-then-hangup"}[v.mode])
}

func c12dropped(t uint8) bool {
	return t == net.Reply || t == net.Error || t == net.Event || t == net.Cancelled
}

func c12targetName(server, target string) (user, token string) {
	_, h := c12identities(server)
	switch target {
	case "own":
		user = h.user
	case "victim":
		user = "alice"
	case "anonymous":
		user = ""
	default:
		user = "nobody"
	}
	if server == "dict" {
		return user, c12users[user]
	}
	return user, "any-token"
}

func c12genVolley(rng *hx.Rng, v *c12volley) {
	vars := c12variants()
	byName := map[string]c12variant{}
	var smalls []c12variant
	for _, x := range vars {
		byName[x.name] = x
		if x.small {
			smalls = append(smalls, x)
		}
	}
	_, h := c12identities(v.server)
	v.small = true
	id := uint32(101)
	if v.authed {
		for c := 0; c < v.conns; c++ {
			v.frames = append(v.frames, c12zframe{conn: c, typ: net.Call, act: 8, id: 1, setup: true,
				payload: c12cap(c12kv{bus.KeyUser, c12vS(h.user)}, c12kv{bus.KeyToken, c12vS(h.token)})})
		}
	}
	if v.variant == "idle-connections" {
		return
	}
	targets := []string{"own", "victim", "anonymous", "nobody"}
	for k := 0; k < v.n; k++ {
		x, target := byName[v.variant], v.target
		if v.variant == "mixed" {
			x, target = smalls[rng.Intn(len(smalls))], targets[rng.Intn(len(targets))]
		}
		u, tok := c12targetName(v.server, target)
		f := c12zframe{conn: k % v.conns, typ: net.Call, act: 8, id: id, variant: x.name, aimed: target}
		id += 2
		switch t := rng.Intn(100); {
		case t < 8:
			f.typ = net.Post
		case t < 13:
			f.typ = net.Capability
		case t < 18:
			f.typ = net.Cancel
		case t < 25:
			f.typ = uint8(rng.Pick(int(net.Reply), int(net.Error), int(net.Event), int(net.Cancelled)))
		}
		f.payload = x.build(rng, u, tok)
		if x.hdr != nil {
			x.hdr(rng, &f)
		}
		if !x.small {
			v.small = false
		}
		v.frames = append(v.frames, f)
	}
	// the last frame of every connection is one that is answered (so that a reading client knows when it has seen everything)
	last := map[int]int{}
	for i, f := range v.frames {
		last[f.conn] = i
	}
	for _, i := range last {
		if !v.frames[i].setup {
			v.frames[i].typ = net.Call
		}
	}
	// (only behind credentials that no authenticator of the harness accepts: the connection is certainly not authenticated)
	never := map[string]bool{"cut": true, "empty-payload": true, "count-4097": true, "count-ffffffff": true, "count-larger-than-sent": true,
		"junk": true, "string-size-above-limit": true, "other-action": true, "other-object": true, "user-uint": true,
		"token-uint": true, "token-uint-no-user": true, "token-int": true, "token-bool": true, "token-int64": true, "token-float": true, "token-dynamic-uint": true}
	if v.server == "dict" {
		for _, k := range []string{"wrong-token", "client-caps-wrong-token", "forged-state-wrong-token", "token-entry-twice-valid-then-wrong", "token-only", "empty-map", "empty-strings"} {
			never[k] = true
		}
	}
	if !v.authed && v.mode == 0 && never[v.variant] && rng.Chance(0.5) {
		// a connection that never authenticated ends with a frame for another service: the firewall answers and closes
		v.frames = append(v.frames, c12zframe{conn: (v.n - 1) % v.conns, typ: net.Call, svc: 1, obj: 1, act: 108, id: id, variant: "directory-call-without-authentication"})
	}
}

type c12freshRun struct {
	who     c12ident
	body    int
	payload []byte
	probes  [3]int
}

type c12volleyRun struct {
	got   map[int][][4]uint32 // per hostile connection that read one by one
	fresh []c12freshRun
	alive bool
	sent  string
	stuck bool
}

func (r *c12raw) awaitBody(id uint32, d time.Duration, log *[][4]uint32) bool {
	dl := time.Now().Add(d)
	for time.Until(dl) > 0 {
		m, err := r.readFrame(time.Until(dl))
		if err != nil {
			return false
		}
		*log = append(*log, [4]uint32{uint32(m.Header.Type), m.Header.Action, m.Header.ID, uint32(c12body(m))})
		if m.Header.ID == id {
			return true
		}
	}
	return false
}

// c12fresh: what every client does first, then a call to each object.
func c12fresh(ch *c12child, who c12ident) c12freshRun {
	fr := c12freshRun{who: who, body: c12NoAnswer}
	c, err := gonet.Dial("unix", ch.dir+"/sock")
	if err != nil {
		return fr
	}
	defer c.Close()
	r := &c12raw{c: c}
	fr.body, fr.payload = r.authenticate(1, who.user, who.token)
	if fr.body != c12Done {
		return fr
	}
	for i, t := range [][2]uint32{{1, 1}, {ch.svc, 1}, {ch.svc, ch.obj2}} {
		id := uint32(3 + 2*i)
		if r.writeFrame(net.Call, t[0], t[1], 2, id, c12le32(t[1])) != nil {
			break
		}
		dl := time.Now().Add(c12Probe)
		for time.Until(dl) > 0 {
			m, err := r.readFrame(time.Until(dl))
			if err != nil {
				break
			}
			if m.Header.ID == id {
				fr.probes[i] = int(m.Header.Type)
				break
			}
		}
		if fr.probes[i] == 0 {
			break // (the connection may have been closed under us: the remaining probes would only wait)
		}
	}
	return fr
}

func c12playVolley(ch *c12child, v *c12volley) *c12volleyRun {
	run := &c12volleyRun{got: map[int][][4]uint32{}}
	conns := make([]*c12raw, v.conns)
	dead := make([]bool, v.conns)
	for i := range conns {
		c, err := gonet.Dial("unix", ch.dir+"/sock")
		if err != nil {
			dead[i] = true
			continue
		}
		conns[i] = &c12raw{c: c, hexMax: 400} // (credentials in full)
		defer c.Close()
	}
	logs := make([][][4]uint32, v.conns)
	step := func(f c12zframe) { // one frame, its answer awaited
		r := conns[f.conn]
		if dead[f.conn] {
			return
		}
		if r.writeFrame(f.typ, f.svc, f.obj, f.act, f.id, f.payload) != nil {
			dead[f.conn] = true
			return
		}
		if c12dropped(f.typ) {
			return
		}
		if !r.awaitBody(f.id, c12Answer, &logs[f.conn]) {
			dead[f.conn], run.stuck = true, true
		}
		if f.svc != 0 && !v.authed {
			dead[f.conn] = true // closed by the firewall
		}
	}
	var rest []c12zframe
	for _, f := range v.frames {
		if f.setup || v.mode == 0 {
			step(f)
		} else {
			rest = append(rest, f)
		}
	}
	if v.mode != 0 {
		per := make([][]byte, v.conns)
		lastID := make([]uint32, v.conns)
		for _, f := range rest {
			per[f.conn] = append(per[f.conn], c12bytes(f.typ, f.svc, f.obj, f.act, f.id, f.payload)...)
			lastID[f.conn] = f.id
		}
		for i, r := range conns {
			if dead[i] || len(per[i]) == 0 {
				continue
			}
			r.write(per[i], 3*time.Second)
			if v.mode == 3 {
				r.c.Close()
			}
		}
		if v.mode == 1 {
			for i, r := range conns {
				if !dead[i] && len(per[i]) > 0 {
					var l [][4]uint32
					r.awaitBody(lastID[i], c12Short, &l)
				}
			}
		} else {
			time.Sleep(30 * time.Millisecond)
		}
	}
	var sent []string
	for i, r := range conns {
		if r != nil {
			sent = append(sent, fmt.Sprintf("connection %d wrote %s", i, strings.Join(r.sent, " ")))
			if v.mode == 0 {
				run.got[i] = logs[i]
			}
		}
	}
	run.sent = strings.Join(sent, "; ")
	run.alive = ch.alive()
	ids, _ := c12identities(v.server)
	for _, who := range ids {
		run.fresh = append(run.fresh, c12fresh(ch, who))
	}
	run.alive = run.alive && ch.alive()
	return run
}

func (run *c12volleyRun) ok() bool {
	if !run.alive {
		return false
	}
	for _, f := range run.fresh {
		if f.body != c12Done || f.probes != [3]int{int(net.Reply), int(net.Reply), int(net.Reply)} {
			return false
		}
	}
	return true
}

func (run *c12volleyRun) judge(res *hx.Result, desc string) {
	if !run.alive {
		res.Fail("server-died", "the server process exited during: "+desc)
	}
	names := []string{"the service directory (service 1, object 1)", "the generic object (service 2, object 1)", "the second object of the generic service (service 2)"}
	for _, f := range run.fresh {
		who := fmt.Sprintf("a fresh client with the valid credentials user=%q token=%q", f.who.user, f.who.token)
		if f.body != c12Done {
			res.Fail("fresh-client-refused", fmt.Sprintf("%s gets %s to its authenticate call (service 0, object 0, action 8) within %v and so reaches no service; after: %s",
				who, c12bodyName(f.body), c12Answer, desc))
			continue
		}
		for i, p := range f.probes {
			if p != int(net.Reply) {
				res.Fail("probe-unanswered", fmt.Sprintf("%s authenticated, but %s gave it %s to metaObject within %v; after: %s",
					who, names[i], map[int]string{0: "no answer", 3: "an error"}[p], c12Probe, desc))
				break
			}
		}
	}
}

// caseTerm: the volley as a zcase of coq/run/C12AuthRun.v.
func (v *c12volley) caseTerm(run *c12volleyRun) string {
	var frames, got, probes []string
	fr := func(conn int, typ uint8, svc, obj, act, id uint32, pl []byte) string {
		return fmt.Sprintf("(%d%%nat, ([%d; %d; %d; %d; %d], %s))", conn, typ, svc, obj, act, id, hx.Hex(pl))
	}
	quad := func(conn int, l [][4]uint32) string {
		var q []string
		for _, x := range l {
			q = append(q, fmt.Sprintf("(%d, %d, %d, %d)", x[0], x[1], x[2], x[3]))
		}
		return fmt.Sprintf("(%d%%nat, %s)", conn, hx.List(q))
	}
	size := 0
	for _, f := range v.frames {
		size += len(f.payload)
	}
	if v.small && size < 12000 {
		for _, f := range v.frames {
			frames = append(frames, fr(f.conn, f.typ, f.svc, f.obj, f.act, f.id, f.payload))
		}
		for c := 0; c < v.conns; c++ {
			if l, ok := run.got[c]; ok && !run.stuck {
				got = append(got, quad(c, l))
			}
		}
	}
	for i, f := range run.fresh {
		c := v.conns + i
		frames = append(frames, fr(c, net.Call, 0, 0, 8, 1, f.payload))
		var l [][4]uint32
		if f.body != c12NoAnswer {
			l = append(l, [4]uint32{uint32(net.Reply), 8, 1, uint32(f.body)})
			if f.body == c12ErrFrame {
				l[0][0] = uint32(net.Error)
			}
		}
		got = append(got, quad(c, l))
		probes = append(probes, fmt.Sprintf("(%d, %d, %d)", f.probes[0], f.probes[1], f.probes[2]))
	}
	var tbl []string
	if v.server == "dict" {
		for _, u := range []string{"alice", "bob", "mallory"} {
			tbl = append(tbl, fmt.Sprintf("(%s, %s)", hx.Hex([]byte(u)), hx.Hex([]byte(c12users[u]))))
		}
	}
	return fmt.Sprintf("{| z_yes := %s; z_accept := %s; z_frames := %s%%N; z_got := %s%%N; z_probes := %s%%N |}",
		hx.Bool(v.server != "dict"), hx.List(tbl), hx.List(frames), hx.List(got), hx.List(probes))
}

// c12volleyPlan: the volleys of one round for one server kind.  Every credential variant at least
// once; the well-formed variants that are refused whoever they name against the client's own name,
// the victim's and the anonymous user (three volleys).
func c12volleyPlan(rng *hx.Rng, server string, thorough bool) []*c12volley {
	var plan []*c12volley
	k := 0
	add := func(variant, target string, n int) *c12volley {
		v := &c12volley{server: server, variant: variant, target: target, n: n}
		v.authed = k%3 != 2
		v.mode = []int{0, 0, 1, 0, 2, 0, 3}[k%7]
		v.conns = []int{1, 1, 2, 1, 5}[k%5]
		if k%11 == 10 {
			v.conns = n // every frame on a connection of its own
		}
		if v.conns > n {
			v.conns = n
		}
		k++
		plan = append(plan, v)
		return v
	}
	targets := []string{"own", "victim", "anonymous", "nobody"}
	for _, x := range c12variants() {
		n := 6 + rng.Intn(11)
		if !x.small {
			n = 5 + rng.Intn(3)
		}
		if x.refuse {
			for _, t := range []string{"own", "victim", "anonymous"} {
				add(x.name, t, n)
			}
		} else {
			add(x.name, targets[rng.Intn(len(targets))], n)
		}
	}
	for i := 0; i < 4; i++ {
		add("mixed", "mixed", 10+rng.Intn(30))
	}
	// long volleys: written at once, read or not; and many connections
	for _, name := range []string{"wrong-token", "token-uint", "cut", "mixed"} {
		v := add(name, targets[rng.Intn(3)], 40+rng.Intn(111))
		v.mode = 1 + rng.Intn(3)
		v.conns = rng.Pick(1, 2, 20)
	}
	if thorough {
		for _, name := range []string{"wrong-token", "token-bool", "valid", "mixed"} {
			v := add(name, targets[rng.Intn(3)], 300)
			v.mode, v.conns = 0, 300
		}
	}
	v := add("idle-connections", "nobody", 0)
	v.conns, v.mode = 60, 0
	for _, v := range plan {
		if v.conns < 1 {
			v.conns = 1
		}
		c12genVolley(rng, v)
	}
	// a fixed order would always put the same volleys behind each other on one server
	for i := len(plan) - 1; i > 0; i-- {
		j := rng.Intn(i + 1)
		plan[i], plan[j] = plan[j], plan[i]
	}
	return plan
}

const c12volleysPerServer = 8

func c12svc0(res *hx.Result, rng *hx.Rng, root, outdir string, rounds int) {
	zf := hx.NewCases(outdir, "C12z", "From QV Require Import Auth C12AuthRun.", "zmismatches volleys", res, "volleys", "zcase")
	for round := 0; round < rounds; round++ {
		for _, server := range []string{"yes", "dict"} {
			plan := c12volleyPlan(rng, server, rounds > 1)
			var ch *c12child
			var history []string
			retire := func() {
				if ch != nil {
					ch.stop()
					ch = nil
				}
				history = nil
			}
			for _, v := range plan {
				if ch == nil || len(history) >= c12volleysPerServer {
					retire()
					var err error
					if ch, err = c12startOpts(root, server); err != nil {
						res.Notes = append(res.Notes, "service-0 volleys: "+err.Error())
						ch = nil
						continue
					}
				}
				run := c12playVolley(ch, v)
				desc := v.String() + ": " + run.sent
				if !run.ok() {
					if len(history) > 0 {
						// alone, on a fresh server: the shorter failing input if there is one
						if ch2, err := c12startOpts(root, server); err == nil {
							run2 := c12playVolley(ch2, v)
							ch2.stop()
							if !run2.ok() {
								run, desc = run2, v.String()+": "+run2.sent
							} else {
								desc = "a server that had served, in this order, " + strings.Join(history, ", ") + " and then " + desc
							}
						}
					}
					run.judge(res, desc)
					retire()
				} else {
					history = append(history, v.String())
				}
				short := desc
				if len(short) > 1500 {
					short = short[:1500] + "..."
				}
				res.Count(short, v.variant != "valid")
				res.Dist("kind:service-0-volley/" + server)
				res.Dist("volley-credentials:" + v.variant)
				res.Sample(fmt.Sprintf("%s: fresh clients %v", v.String(), func() (l []string) {
					for _, f := range run.fresh {
						l = append(l, fmt.Sprintf("%q:%s/%v", f.who.user, c12bodyName(f.body), f.probes))
					}
					return
				}()))
				zf.Add("volleys", v.caseTerm(run), short)
			}
			retire()
		}
	}
	zf.Flush()
}

var _ = bytes.MinRead
