package main

// C16 — Removed objects are unreachable and terminated exactly once.
// Drives a real bus.Service (bus/service.go) holding generated PingPong objects
// (examples/pong) whose implementor belongs to the harness: Service.Add with the harness
// inside Activate (forced schedule), Service.Remove, raw frames on three connections
// (call/post × method, terminate, registerEvent, unknown action), mailboxes held by a gate in
// the method, signal emission.  What is observed after every operation is written for
// coq/run/C16Run.v; the property oracles below decide violations on the implementation alone.

import (
	"context"
	"errors"
	"fmt"
	"math/rand"
	"os"
	"os/exec"
	"runtime"
	"strings"
	"sync"
	"time"

	"github.com/lugu/qiloop/bus"
	"github.com/lugu/qiloop/bus/net"
	"github.com/lugu/qiloop/examples/pong"
	"qv/internal/hx"
)

func init() { props["C16"] = runC16 }

const (
	c16Actors  = 8 // lives: a slot is one life of an object value (see c16Body)
	c16Conns   = 3
	c16Hello   = 100
	c16Unknown = 999
)

type c16Actor struct {
	k         int
	mu        sync.Mutex
	hooks     int
	execs     int
	helper    pong.PingPongSignalHelper
	started   int         // entries into the method (before the gate)
	processed int         // mails the object's mailbox goroutine has finished handling (counted by c16Wrap)
	cond      *sync.Cond  // signalled on every change of processed
	entered   chan uint32 // Activate entered with this object id (nil: activate at once)
	proceed   chan bool   // what Activate returns
	gate      chan struct{}
	onTerm    func() // what the termination hook does besides counting (nil: nothing)
}

func (a *c16Actor) Activate(act bus.Activation, h pong.PingPongSignalHelper) error {
	a.mu.Lock()
	a.helper = h
	a.mu.Unlock()
	if a.entered != nil {
		a.entered <- act.ObjectID
		if !<-a.proceed {
			return errors.New("activation refused by the harness")
		}
	}
	return nil
}
func (a *c16Actor) OnTerminate() {
	a.mu.Lock()
	a.hooks++
	f := a.onTerm
	a.mu.Unlock()
	if f != nil {
		f() // a termination hook that calls back into the service (c16HookReenters)
	}
}
func (a *c16Actor) Hello(s string) (string, error) {
	a.mu.Lock()
	g := a.gate
	a.started++
	a.cond.Broadcast()
	a.mu.Unlock()
	if g != nil {
		select {
		case <-g:
		case <-time.After(20 * time.Second):
		}
	}
	a.mu.Lock()
	a.execs++
	a.mu.Unlock()
	return "hi " + s, nil
}
func (a *c16Actor) Ping(s string) error { return nil }
func (a *c16Actor) counts() (int, int) {
	a.mu.Lock()
	defer a.mu.Unlock()
	return a.hooks, a.execs
}

// c16Body is the implementor of ONE object value (one pong.PingPongObject, hence one stub, one
// generic object, one signalHandler).  The same object value may be handed to Service.Add again
// after its removal or after a failed activation: every such life has its own c16Actor (its own
// hook / execution / mail counters); the body forwards to the c16Actor of the life that is current.
// The harness starts a new life only when the mailbox of the previous one is idle (nothing queued,
// nothing running), so that every call-back is attributed to the right life.
type c16Body struct {
	mu  sync.Mutex
	cur *c16Actor
}

func (b *c16Body) life() *c16Actor { b.mu.Lock(); defer b.mu.Unlock(); return b.cur }
func (b *c16Body) setLife(a *c16Actor) {
	b.mu.Lock()
	b.cur = a
	b.mu.Unlock()
}
func (b *c16Body) Activate(act bus.Activation, h pong.PingPongSignalHelper) error {
	return b.life().Activate(act, h)
}
func (b *c16Body) OnTerminate()                   { b.life().OnTerminate() }
func (b *c16Body) Hello(s string) (string, error) { return b.life().Hello(s) }
func (b *c16Body) Ping(s string) error            { return b.life().Ping(s) }

// c16Wrap is the Actor handed to the service: the generated object, plus a count of the mails its
// mailbox goroutine has finished with.  This is the event the harness waits on before it observes
// the effects of a frame — no guess about timing is involved.
type c16Wrap struct {
	inner bus.Actor
	body  *c16Body
}

func (w *c16Wrap) Receive(m *net.Message, from bus.Channel) error {
	a := w.body.life()
	err := w.inner.Receive(m, from)
	a.mu.Lock()
	a.processed++
	a.cond.Broadcast()
	a.mu.Unlock()
	return err
}
func (w *c16Wrap) Activate(act bus.Activation) error { return w.inner.Activate(act) }
func (w *c16Wrap) OnTerminate()                      { w.inner.OnTerminate() }

// c16Object makes a new object value whose first life is a.
func c16Object(a *c16Actor) *c16Wrap {
	b := &c16Body{cur: a}
	return &c16Wrap{inner: pong.PingPongObject(b), body: b}
}

// waitStarted waits until the method has been entered n times.
func (a *c16Actor) waitStarted(n int, d time.Duration) bool {
	deadline := time.Now().Add(d)
	a.mu.Lock()
	defer a.mu.Unlock()
	for a.started < n {
		if time.Now().After(deadline) {
			return false
		}
		a.mu.Unlock()
		time.Sleep(time.Millisecond)
		a.mu.Lock()
	}
	return true
}

// waitProcessed waits until the mailbox goroutine of the actor has finished n mails.
func (a *c16Actor) waitProcessed(n int, d time.Duration) bool {
	deadline := time.Now().Add(d)
	stop := make(chan struct{})
	defer close(stop)
	go func() {
		select {
		case <-time.After(d + 10*time.Millisecond):
			a.mu.Lock()
			a.cond.Broadcast()
			a.mu.Unlock()
		case <-stop:
		}
	}()
	a.mu.Lock()
	defer a.mu.Unlock()
	for a.processed < n {
		if time.Now().After(deadline) {
			return false
		}
		a.cond.Wait()
	}
	return true
}

type c16Phase int

const (
	c16phFresh c16Phase = iota
	c16phAdding
	c16phLive
	c16phFailed
	c16phRemoved
)

type c16Sub struct {
	conn  int
	sig   uint32
	mid   uint32
	told  int
	actor int
}

type c16AddRes struct {
	id  uint32
	err error
}

// c16Run is one case: a fresh server, one service, the harness's own bookkeeping (what the
// callers of Add/Remove have been told — never the model's state).
type c16Run struct {
	env              *svEnv
	svc              bus.Service
	sid              uint32
	actors           []*c16Actor // one per life (slot); the model's actor k is slot k
	obj              []*c16Wrap  // the object value slot k is a life of (nil: not added yet); shared by the lives of one value
	again            []int       // slot whose object value slot k gives a further life to (-1: a new object value)
	pendRegs         []int       // registerEvent mails waiting in the held mailbox of slot k
	lateSub          []bool      // a registerEvent was (or may have been) handled by slot k after its life ended: the subscriber stays in the object value
	phase            []c16Phase
	id               []uint32
	addDone          []chan c16AddRes
	gated            []bool
	queued           [][2]uint32 // (conn, message id) of calls waiting behind a gate, per actor: flattened below
	queuedOf         [][][2]uint32
	lastPost         []bool
	enq              []int           // mails that entered the mailbox of each actor
	owner            map[uint32]int  // id -> actor that was last added successfully under it
	pendingBox       map[uint32]bool // the mailbox last installed under the id is the placeholder's (never answers)
	subs             []*c16Sub
	nextMsg          uint32
	nextUID          uint32
	nextSeed         int64
	seeds            []int64
	ops              []string
	descs            []string
	res              *hx.Result
	removedIDs       []uint32
	failedIDs        []uint32
	obj1Gone         bool
	termSent         []bool
	taint            string // a known defect has made the callers' picture of the service ambiguous (two live objects under one index)
	allow1           bool   // this case may remove or terminate object 1
	reused           []bool
	sawRemovePending bool
	dead             bool
	rng              *hx.Rng
}

func c16NewRun(res *hx.Result, rng *hx.Rng) (*c16Run, error) {
	env, err := svNewEnv(c16Conns)
	if err != nil {
		return nil, err
	}
	r := &c16Run{env: env, res: res, rng: rng, owner: map[uint32]int{}, pendingBox: map[uint32]bool{}, nextMsg: 1, nextUID: 1000,
		nextSeed: int64(rng.Intn(1 << 30)), allow1: rng.Chance(0.3)}
	for k := 0; k < c16Actors; k++ {
		a := &c16Actor{k: k}
		a.cond = sync.NewCond(&a.mu)
		if k > 0 {
			a.entered = make(chan uint32, 1)
			a.proceed = make(chan bool, 1)
		}
		r.actors = append(r.actors, a)
	}
	r.phase = make([]c16Phase, c16Actors)
	r.id = make([]uint32, c16Actors)
	r.addDone = make([]chan c16AddRes, c16Actors)
	r.gated = make([]bool, c16Actors)
	r.queuedOf = make([][][2]uint32, c16Actors)
	r.lastPost = make([]bool, c16Actors)
	r.enq = make([]int, c16Actors)
	r.termSent = make([]bool, c16Actors)
	r.reused = make([]bool, c16Actors)
	r.obj = make([]*c16Wrap, c16Actors)
	r.again = make([]int, c16Actors)
	r.pendRegs = make([]int, c16Actors)
	r.lateSub = make([]bool, c16Actors)
	for k := range r.again {
		r.again[k] = -1
	}
	r.obj[0] = c16Object(r.actors[0])
	svc, err := env.srv.NewService("probe", r.obj[0])
	if err != nil {
		return nil, err
	}
	if c16Debug != "" {
		os.WriteFile(c16Debug, nil, 0o644)
	}
	r.svc, r.sid = svc, svc.ServiceID()
	r.phase[0], r.id[0] = c16phLive, 1
	r.owner[1] = 0
	return r, nil
}

func (r *c16Run) finish() {
	for _, a := range r.actors {
		a.mu.Lock()
		if a.gate != nil {
			select {
			case <-a.gate:
			default:
				close(a.gate)
			}
		}
		a.mu.Unlock()
	}
	// let pending Adds complete successfully: a failed one would leave a nil entry that a terminate
	// still queued in some mailbox could hit (nil dereference in a mailbox goroutine ends the process)
	for k := range r.actors {
		if r.phase[k] == c16phAdding {
			select {
			case r.actors[k].proceed <- true:
			default:
			}
		}
	}
	r.env.close()
}

// ---------- observation ----------

func (r *c16Run) observe(deferred bool, idx *uint32, ret *bool, panicked bool) (string, [][]net.Message) {
	perConn := make([][]net.Message, len(r.env.conns))
	var frames []string
	if !deferred {
		r.env.syncAll()
		for ci, c := range r.env.conns {
			perConn[ci] = c.take()
			for i := range perConn[ci] {
				m := &perConn[ci][i]
				frames = append(frames, fmt.Sprintf("(%d%%nat, %d%%N, %d%%N, %d%%N, %d%%N)", ci, svTypeCode(m), m.Header.Object, m.Header.Action, m.Header.ID))
			}
		}
	}
	hooks := make([]int, len(r.actors))
	execs := make([]int, len(r.actors))
	for k, a := range r.actors {
		hooks[k], execs[k] = a.counts()
	}
	si, sr := "None", "None"
	if idx != nil {
		si = fmt.Sprintf("(Some %d%%N)", *idx)
	}
	if ret != nil {
		sr = fmt.Sprintf("(Some %s)", hx.Bool(*ret))
	}
	o := fmt.Sprintf("ob %s %s %s %s [%s] %s %s", hx.Bool(deferred), si, sr, hx.Bool(panicked),
		strings.Join(frames, "; "), c16NList(hooks), c16NList(execs))
	return o, perConn
}

func c16NList(vs []int) string {
	it := make([]string, len(vs))
	for i, v := range vs {
		it[i] = fmt.Sprintf("%d%%N", v)
	}
	return "[" + strings.Join(it, "; ") + "]"
}

var c16Debug = os.Getenv("C16_DEBUG")

func (r *c16Run) record(op, obs, desc string) {
	if c16Debug != "" { // the operations of the case in progress, for post-mortems of a process death
		if f, err := os.OpenFile(c16Debug, os.O_APPEND|os.O_CREATE|os.O_WRONLY, 0o644); err == nil {
			fmt.Fprintf(f, "%d: %s\n", len(r.ops), desc)
			f.Close()
		}
	}
	r.ops = append(r.ops, fmt.Sprintf("(%s, %s)", op, obs))
	r.descs = append(r.descs, desc)
}

// ---------- oracles on the implementation's own behaviour ----------

func (r *c16Run) trace() string { return strings.Join(r.descs, " ; ") }

func (r *c16Run) checkCounters(where string) {
	for k, a := range r.actors {
		h, _ := a.counts()
		if h > 1 {
			r.fail("terminated-twice", fmt.Sprintf("OnTerminate of actor %d ran %d times after: %s", k, h, r.trace()), "")
		}
		if h == 1 && r.phase[k] != c16phRemoved {
			r.fail("terminated-while-live", fmt.Sprintf("OnTerminate of actor %d ran although it was never removed (%s): %s", k, where, r.trace()), "")
		}
		if h == 0 && r.phase[k] == c16phRemoved {
			r.fail("hook-not-run", fmt.Sprintf("actor %d was removed but OnTerminate did not run (%s): %s", k, where, r.trace()), "")
		}
	}
}

// after a removal of actor k: every subscriber it had must have been told exactly once
func (r *c16Run) checkTold(k int, perConn [][]net.Message) {
	for _, s := range r.subs {
		if s.actor != k || s.told < 0 {
			continue
		}
		n := 0
		for i := range perConn[s.conn] {
			m := &perConn[s.conn][i]
			if m.Header.Type == net.Error && m.Header.ID == s.mid && svTypeCode(m) == 2 {
				n++
			}
		}
		if n != 1 {
			r.fail("subscriber-not-told", fmt.Sprintf("subscriber (connection %d, signal %d, message id %d) of removed actor %d received %d termination notices: %s", s.conn, s.sig, s.mid, k, n, r.trace()), "")
		}
		s.told = -1
	}
}

// reconcile: an object that was sent its own terminate action and whose hook has run has
// terminated itself; from then on the harness expects of it what it expects of a removed object.
func (r *c16Run) reconcile(perConn [][]net.Message, where string) {
	for k, a := range r.actors {
		h, _ := a.counts()
		if r.phase[k] == c16phLive && h >= 1 && r.termSent[k] {
			r.phase[k] = c16phRemoved
			r.removedIDs = append(r.removedIDs, r.id[k])
			if r.id[k] == 1 {
				r.obj1Gone = true
			}
			r.checkTold(k, perConn)
		}
	}
	r.checkCounters(where)
}

func (r *c16Run) liveAt(id uint32, except int) int {
	for k := range r.actors {
		if k != except && r.phase[k] == c16phLive && r.id[k] == id {
			return k
		}
	}
	return -1
}

// ---------- operations ----------

func (r *c16Run) draws(seed int64) []uint64 {
	g := rand.New(rand.NewSource(seed))
	d := make([]uint64, 6)
	for i := range d {
		d[i] = uint64(g.Uint32())
	}
	return d
}

// latest: slot k is the most recent life of its object value
func (r *c16Run) latest(k int) bool { return r.obj[k] != nil && r.obj[k].body.life() == r.actors[k] }

// idle: nothing is queued or running in the mailbox the service made for slot k
func (r *c16Run) idle(k int) bool {
	a := r.actors[k]
	a.mu.Lock()
	defer a.mu.Unlock()
	return !r.gated[k] && len(r.queuedOf[k]) == 0 && a.processed == r.enq[k] && a.gate == nil
}

// againCandidates: slots whose object value can be handed to Add once more — it has been removed
// (or its activation failed), it is the latest life of that value, its old mailbox is idle, and no
// registration was handled after the life ended (a registerEvent accepted before the removal and
// handled after it leaves a subscriber in the object value, which its next life inherits: state
// across lives that the model — one actor per life, starting fresh — does not have).
func (r *c16Run) againCandidates() []int {
	var out []int
	for p := range r.actors {
		if (r.phase[p] == c16phRemoved || r.phase[p] == c16phFailed) && r.latest(p) && r.idle(p) && !r.lateSub[p] {
			out = append(out, p)
		}
	}
	return out
}

func (r *c16Run) opAddBegin(k int, seed int64) { r.opAddBeginOf(k, -1, seed) }

// opAddBeginOf starts Service.Add for slot k.  prev < 0: a new object value; otherwise the very
// object value (same bus.Actor, same stub, same signal handler) that slot prev was a life of.
func (r *c16Run) opAddBeginOf(k, prev int, seed int64) {
	a := r.actors[k]
	done := make(chan c16AddRes, 1)
	r.addDone[k] = done
	if prev >= 0 {
		r.obj[k] = r.obj[prev]
		r.again[k] = prev
		r.obj[k].body.setLife(a)
	} else {
		r.obj[k] = c16Object(a)
	}
	obj := r.obj[k]
	rand.Seed(seed)
	go func() {
		id, err := r.svc.Add(obj)
		done <- c16AddRes{id, err}
	}()
	var idx *uint32
	select {
	case id := <-a.entered:
		idx = &id
		r.phase[k], r.id[k] = c16phAdding, id
		r.pendingBox[id] = true
	case <-time.After(5 * time.Second):
		r.fail("add-stuck", "Service.Add did not reach Activate within 5 s: "+r.trace(), "")
		r.dead = true
	}
	desc := fmt.Sprintf("AddBegin(actor %d, seed %d)", k, seed)
	if prev >= 0 {
		desc = fmt.Sprintf("AddBegin(actor %d = the object value of actor %d handed to Add again, seed %d)", k, prev, seed)
	}
	if idx != nil {
		desc += fmt.Sprintf("->%d", *idx)
		if o := r.liveAt(*idx, k); o >= 0 {
			key := ""
			if *idx == 0 && r.obj1Gone && c16ZeroIndexOn {
				key = "zero_index_untested"
			}
			r.fail("id-not-unique", fmt.Sprintf("Add gave actor %d the index %d which live actor %d holds: %s ; %s", k, *idx, o, r.trace(), desc), key)
			if key != "" {
				r.taint = key
			}
		}
	}
	if idx != nil {
		for o := range r.actors {
			if o != k && r.phase[o] == c16phAdding && r.id[o] == *idx {
				key := ""
				if *idx == 0 && r.obj1Gone && c16ZeroIndexOn {
					key = "zero_index_untested"
				} else if r.sawRemovePending {
					key = "remove_pending_slot"
				}
				r.fail("id-not-unique", fmt.Sprintf("Add gave actor %d the index %d which the Add of actor %d, still in progress, was given: %s ; %s", k, *idx, o, r.trace(), desc), key)
				if key != "" {
					r.taint = key
				}
			}
		}
	}
	obs, _ := r.observe(false, idx, nil, false)
	r.record(fmt.Sprintf("PAddBegin %d %s", k, hx.NList(r.draws(seed))), obs, desc)
}

// A wait that ran into its deadline has been reported as a failure with its input.  The case ends
// there (what follows it would be judged on a service in an unknown state), and once three waits
// have expired in a run the remaining ones use a short deadline: the violation is established, the
// rest of the run only adds detail and must not take minutes.
var c16Expired int

func c16Wait(d time.Duration) time.Duration {
	if c16Expired >= 3 {
		return 300 * time.Millisecond
	}
	return d
}
func (r *c16Run) expired() { c16Expired++; r.dead = true }

func (r *c16Run) fail(kind, detail, key string) {
	if key == "" {
		key = r.taint
	}
	if key != "" {
		r.res.FailKnown(kind, detail, key)
	} else {
		r.res.Fail(kind, detail)
	}
}

func (r *c16Run) opAddEnd(k int, ok bool) {
	a := r.actors[k]
	a.proceed <- ok
	var ret *bool
	desc := fmt.Sprintf("AddEnd(actor %d, activate ok=%v)", k, ok)
	select {
	case ar := <-r.addDone[k]:
		b := ar.err == nil
		ret = &b
		if b != ok {
			r.fail("add-result", fmt.Sprintf("Add returned err=%v although Activate returned ok=%v: %s", ar.err, ok, r.trace()), "")
		}
		if b && ar.id != r.id[k] {
			r.fail("add-index-mismatch", fmt.Sprintf("Add returned index %d but activated the object with %d: %s", ar.id, r.id[k], r.trace()), "")
		}
		if b {
			if o := r.liveAt(r.id[k], k); o >= 0 {
				key := ""
				if r.id[k] == 0 && r.obj1Gone && c16ZeroIndexOn {
					key = "zero_index_untested"
				} else if r.sawRemovePending {
					key = "remove_pending_slot"
				}
				r.fail("id-not-unique", fmt.Sprintf("actors %d and %d are both live under index %d: %s ; %s", o, k, r.id[k], r.trace(), desc), key)
				if key != "" {
					r.taint = key
				}
			}
			for o := range r.actors {
				// a terminate of an earlier holder of this index is still waiting in that object's mailbox
				if o != k && r.id[o] == r.id[k] && r.termSent[o] && r.gated[o] && r.phase[o] != c16phFresh && r.taint == "" {
					r.taint = "terminate_by_index"
				}
			}
			r.phase[k] = c16phLive
			r.owner[r.id[k]] = k
			r.pendingBox[r.id[k]] = false
		} else {
			r.phase[k] = c16phFailed
			r.failedIDs = append(r.failedIDs, r.id[k])
		}
	case <-time.After(5 * time.Second):
		r.fail("add-stuck", "Service.Add did not return within 5 s after Activate: "+r.trace(), "")
		r.dead = true
	}
	obs, _ := r.observe(false, nil, ret, false)
	r.record(fmt.Sprintf("PAddEnd %d %s", k, hx.Bool(ok)), obs, desc)
}

func (r *c16Run) opRemove(id uint32) {
	desc := fmt.Sprintf("Remove(%d)", id)
	target := r.liveAt(id, -1)
	adding := false
	failed := false
	for k := range r.actors {
		if r.phase[k] == c16phAdding && r.id[k] == id {
			adding = true
		}
		if r.phase[k] == c16phFailed && r.id[k] == id {
			failed = true
		}
	}
	var err error
	panicked := false
	func() {
		defer func() {
			if e := recover(); e != nil {
				panicked = true
			}
		}()
		err = r.svc.Remove(id)
	}()
	var ret *bool
	if !panicked {
		b := err == nil
		ret = &b
	}
	desc += fmt.Sprintf("->err=%v,panic=%v", err != nil, panicked)
	r.descs = append(r.descs, desc) // visible to the oracles below
	if panicked {
		key := ""
		if failed {
			key = "nil_slot_on_failed_activate"
		}
		r.fail("remove-panics", "Service.Remove panicked (a panic outside the caller's recover ends the process and every object in it): "+r.trace(), key)
		r.dead = true
	}
	if target >= 0 && !panicked {
		if err != nil {
			r.fail("remove-refused", fmt.Sprintf("Remove(%d) of live actor %d failed: %s", id, target, r.trace()), "")
		} else {
			r.phase[target] = c16phRemoved
			r.removedIDs = append(r.removedIDs, id)
			if id == 1 {
				r.obj1Gone = true
			}
			if r.pendRegs[target] > 0 {
				r.lateSub[target] = true
			}
		}
	}
	if adding && err == nil && !panicked {
		r.sawRemovePending = true
	}
	r.descs = r.descs[:len(r.descs)-1]
	obs, perConn := r.observe(false, nil, ret, panicked)
	r.record(fmt.Sprintf("PRemove %d", id), obs, desc)
	if target >= 0 && err == nil && !panicked {
		r.checkTold(target, perConn)
	}
	r.checkCounters("after " + desc)
}

type c16Frame struct {
	conn int
	post bool
	obj  uint32
	act  int // 0 hello 1 unknown 2 terminate 3 register
	arg  uint32
	sig  uint32
	uid  uint64
	id   uint32
}

func (f c16Frame) term() string {
	kind := 0
	if f.post {
		kind = 1
	}
	var a string
	switch f.act {
	case 0:
		a = "AHello"
	case 1:
		a = "AUnknown"
	case 2:
		a = fmt.Sprintf("(ATerminate %d)", f.arg)
	case 3:
		a = fmt.Sprintf("(ARegister %d %d %d)", f.arg, f.sig, f.uid)
	}
	return fmt.Sprintf("(fr %d %d %s %d)", kind, f.obj, a, f.id)
}

func (f c16Frame) desc() string {
	k := "call"
	if f.post {
		k = "post"
	}
	switch f.act {
	case 0:
		return fmt.Sprintf("%s hello(obj %d) on conn %d", k, f.obj, f.conn)
	case 1:
		return fmt.Sprintf("%s unknown-action(obj %d) on conn %d", k, f.obj, f.conn)
	case 2:
		return fmt.Sprintf("%s terminate(obj %d, arg %d) on conn %d", k, f.obj, f.arg, f.conn)
	}
	return fmt.Sprintf("%s registerEvent(obj %d, arg %d, signal %d, user %d) on conn %d", k, f.obj, f.arg, f.sig, f.uid, f.conn)
}

func (r *c16Run) write(f c16Frame) {
	typ := uint8(net.Call)
	if f.post {
		typ = net.Post
	}
	var action uint32
	var payload []byte
	switch f.act {
	case 0:
		action, payload = c16Hello, svStr("x")
	case 1:
		action, payload = c16Unknown, svStr("x")
	case 2:
		action, payload = 3, svU32(f.arg)
	case 3:
		action = 0
		payload = append(svU32(f.arg, f.sig), svU32(uint32(f.uid), uint32(f.uid>>32))...)
	}
	if err := r.env.conns[f.conn].send(typ, r.sid, f.obj, action, f.id, payload); err != nil {
		r.fail("harness-write", fmt.Sprintf("writing a frame failed (%v): %s", err, r.trace()), "")
		r.dead = true
	}
}

// opSend writes one frame.  The harness waits for the answer of a call unless it knows that none
// can come yet (mailbox held by a gate, identifier of an Add in progress or of a failed Add).
func (r *c16Run) opSend(f c16Frame) {
	f.id = r.nextMsg
	r.nextMsg++
	owner, hasOwner := r.owner[f.obj]
	noAnswer := r.pendingBox[f.obj]
	held := hasOwner && r.gated[owner] && !noAnswer
	removedBefore := false
	for _, id := range r.removedIDs {
		if id == f.obj && r.liveAt(id, -1) < 0 && !noAnswer {
			removedBefore = true
		}
	}
	var execsBefore int
	if hasOwner {
		_, execsBefore = r.actors[owner].counts()
	}
	if f.act == 2 && hasOwner && (f.arg == 0 || f.arg == r.id[owner]) {
		r.termSent[owner] = true
	}
	r.write(f)
	desc := f.desc()
	// The barrier is answered by the connection's consumer goroutine after serviceImpl.Receive has
	// dealt with the frame: refused (the ObjectNotFound error is already here), dropped into a
	// placeholder mailbox, or put into the mailbox of the object that owns the index.
	conn := r.env.conns[f.conn]
	conn.sync()
	enqueued := hasOwner && !noAnswer && !conn.hasUntaken(f.id, 1)
	if enqueued {
		r.enq[owner]++
		if !held {
			// wait for the mailbox goroutine itself: it has finished this mail (and every earlier one)
			if !r.actors[owner].waitProcessed(r.enq[owner], c16Wait(5*time.Second)) {
				r.fail("mailbox-stalled", fmt.Sprintf("the mailbox of actor %d did not finish %s within 5 s: %s", owner, desc, r.trace()), "")
				r.expired()
			}
		}
	}
	if held {
		if enqueued && f.act == 3 {
			r.pendRegs[owner]++
		}
		if !f.post {
			r.queuedOf[owner] = append(r.queuedOf[owner], [2]uint32{uint32(f.conn), f.id})
		}
		r.lastPost[owner] = f.post
		desc += " [mailbox held]"
	}
	deferred := false
	var reply *net.Message
	if !held && !f.post && !noAnswer {
		reply = r.env.conns[f.conn].waitID(f.id, c16Wait(3*time.Second))
		if reply == nil {
			r.fail("call-unanswered", fmt.Sprintf("no answer within 3 s to %s: %s", desc, r.trace()), "")
			r.expired()
		}
	}
	if !held && f.post {
		deferred = true // its effects are observed together with the call that follows it
	}
	// bookkeeping for the oracles
	if reply != nil && f.act == 3 && reply.Header.Type == net.Reply && hasOwner {
		r.subs = append(r.subs, &c16Sub{conn: f.conn, sig: f.sig, mid: f.id, actor: owner})
	}
	obs, perConn := r.observe(deferred, nil, nil, false)
	r.record(fmt.Sprintf("PSend %d %s %s", f.conn, f.term(), hx.Bool(!held)), obs, desc)
	if !deferred {
		r.reconcile(perConn, "after "+desc)
	}
	if removedBefore && !deferred && !held {
		bad := ""
		if hasOwner {
			if _, e := r.actors[owner].counts(); e != execsBefore {
				bad = fmt.Sprintf("the removed object executed the method (%d -> %d executions)", execsBefore, e)
			}
		}
		if reply != nil && svTypeCode(reply) != 1 && bad == "" {
			bad = fmt.Sprintf("answered with type code %d instead of an ObjectNotFound error", svTypeCode(reply))
		}
		if bad != "" {
			r.fail("reachable-after-removal", fmt.Sprintf("%s sent after the removal of object %d: %s: %s ; %s", desc, f.obj, bad, r.trace(), desc), "keep_box_on_remove")
		}
	}
}

// a call of an action nobody has, to flush the mailbox in front of it
func (r *c16Run) opFlush(conn int, obj uint32) {
	r.opSend(c16Frame{conn: conn, obj: obj, act: 1})
}

func (r *c16Run) opPlug(k int) {
	a := r.actors[k]
	a.mu.Lock()
	a.gate = make(chan struct{})
	a.mu.Unlock()
	r.gated[k] = true
	r.opSend(c16Frame{conn: r.rng.Intn(c16Conns), obj: r.id[k], act: 0})
}

func (r *c16Run) opDrain(k int) {
	if r.lastPost[k] {
		// make the last mail a call so that the end of the drain is visible
		r.opSend(c16Frame{conn: r.rng.Intn(c16Conns), obj: r.id[k], act: 1})
	}
	a := r.actors[k]
	a.mu.Lock()
	close(a.gate)
	a.mu.Unlock()
	if !a.waitProcessed(r.enq[k], c16Wait(5*time.Second)) {
		r.fail("mailbox-stalled", fmt.Sprintf("the released mailbox of actor %d did not finish its %d mails within 5 s: %s", k, r.enq[k], r.trace()), "")
		r.expired()
	}
	for _, q := range r.queuedOf[k] {
		if r.env.conns[q[0]].waitSeen(q[1], c16Wait(3*time.Second)) == nil {
			r.fail("call-unanswered", fmt.Sprintf("a call (message id %d) queued in the mailbox of actor %d got no answer within 3 s after the mailbox was released: %s", q[1], k, r.trace()), "")
			r.expired()
			break
		}
	}
	r.queuedOf[k] = nil
	r.gated[k] = false
	a.mu.Lock()
	a.gate = nil
	a.mu.Unlock()
	desc := fmt.Sprintf("Drain(actor %d)", k)
	obs, perConn := r.observe(false, nil, nil, false)
	r.record(fmt.Sprintf("PDrain %d", k), obs, desc)
	wasLive := r.phase[k] == c16phLive
	r.reconcile(perConn, "after "+desc)
	if wasLive && r.phase[k] != c16phLive && r.pendRegs[k] > 0 {
		r.lateSub[k] = true // its own terminate was among the drained mails, and so were registrations
	}
	r.pendRegs[k] = 0
}

func (r *c16Run) opEmit(k int, sig uint32) {
	a := r.actors[k]
	a.mu.Lock()
	h := a.helper
	a.mu.Unlock()
	if h == nil {
		return
	}
	if sig != 102 || !r.latest(k) {
		return // the helper belongs to the object value: it speaks for its latest life only
	}
	h.SignalPong("e")
	desc := fmt.Sprintf("Emit(actor %d, signal %d)", k, sig)
	obs, perConn := r.observe(false, nil, nil, false)
	r.record(fmt.Sprintf("PEmit %d %d", k, sig), obs, desc)
	// oracle: a removed object's former subscribers get nothing any more; others' subscribers do
	for _, s := range r.subs {
		if s.actor != k || s.sig != sig {
			continue
		}
		n := 0
		for i := range perConn[s.conn] {
			m := &perConn[s.conn][i]
			if m.Header.Type == net.Event && m.Header.ID == s.mid {
				n++
			}
		}
		if s.told < 0 && n != 0 {
			r.fail("event-after-termination", fmt.Sprintf("subscriber (conn %d, message id %d) received %d events after it was told the object terminated: %s", s.conn, s.mid, n, r.trace()), "")
		}
		if s.told >= 0 && r.phase[k] == c16phLive && n != 1 {
			r.fail("subscriber-of-live-object-lost", fmt.Sprintf("subscriber (conn %d, message id %d) of live actor %d received %d events for one emission: %s", s.conn, s.mid, k, n, r.trace()), "")
		}
	}
}

// ---------- generator ----------

func (r *c16Run) pickID() uint32 {
	var live, removed, adding, failed []uint32
	for k := range r.actors {
		switch r.phase[k] {
		case c16phLive:
			live = append(live, r.id[k])
		case c16phAdding:
			adding = append(adding, r.id[k])
		case c16phFailed:
			failed = append(failed, r.id[k])
		}
	}
	removed = r.removedIDs
	x := r.rng.Intn(100)
	switch {
	case x < 50 && len(live) > 0:
		return live[r.rng.Intn(len(live))]
	case x < 75 && len(removed) > 0:
		return removed[r.rng.Intn(len(removed))]
	case x < 82 && len(adding) > 0:
		return adding[r.rng.Intn(len(adding))]
	case x < 85 && len(failed) > 0:
		return failed[r.rng.Intn(len(failed))]
	case x < 90:
		return uint32(r.rng.Pick(0, 1))
	case x < 95:
		return uint32(r.rng.Intn(1 << 31))
	}
	if len(live) > 0 {
		return live[r.rng.Intn(len(live))]
	}
	return 1
}

func (r *c16Run) genFrame() c16Frame {
	f := c16Frame{conn: r.rng.Intn(c16Conns), obj: r.pickID()}
	x := r.rng.Intn(100)
	wrong := f.obj + 1 + uint32(r.rng.Intn(3))
	argOf := func() uint32 {
		switch r.rng.Intn(5) {
		case 0:
			return 0
		case 1:
			return wrong
		}
		return f.obj
	}
	switch {
	case x < 40:
		f.act = 0
		f.post = r.rng.Chance(0.2)
	case x < 55:
		f.act = 1
		f.post = r.rng.Chance(0.2)
	case x < 75:
		f.act = 2
		f.arg = argOf()
		f.post = r.rng.Chance(0.3)
	default:
		f.act = 3
		f.arg = argOf()
		f.sig = uint32(r.rng.Pick(102, 103))
		f.uid = uint64(r.nextUID)
		r.nextUID++
	}
	return f
}

func (r *c16Run) step() {
	var fresh, adding, live, ungated, gated, activated []int
	for k := range r.actors {
		switch r.phase[k] {
		case c16phFresh:
			fresh = append(fresh, k)
		case c16phAdding:
			adding = append(adding, k)
		case c16phLive:
			live = append(live, k)
			if !r.gated[k] {
				ungated = append(ungated, k)
			}
		}
		if r.gated[k] {
			gated = append(gated, k)
		}
		if r.phase[k] == c16phLive || r.phase[k] == c16phRemoved || r.phase[k] == c16phFailed {
			activated = append(activated, k)
		}
	}
	x := r.rng.Intn(100)
	switch {
	case x < 14 && len(fresh) > 0 && len(adding) < 2:
		k := fresh[0]
		seed := r.nextSeed
		r.nextSeed++
		if len(r.seeds) > 0 && r.rng.Chance(0.35) {
			seed = r.seeds[r.rng.Intn(len(r.seeds))] // the same draws again: collisions with what is there
			r.reused[k] = true
		}
		r.seeds = append(r.seeds, seed)
		// the second life of an object value: the object of a removed actor, or of one whose activation
		// failed, is handed to Add again (state kept inside the object survives from its first life)
		prev := -1
		if c := r.againCandidates(); len(c) > 0 && r.rng.Chance(0.55) {
			prev = c[r.rng.Intn(len(c))]
		}
		r.opAddBeginOf(k, prev, seed)
	case x < 30 && len(adding) > 0:
		k := adding[r.rng.Intn(len(adding))]
		// a failed activation leaves a nil entry on the pinned code; a terminate handled by a mailbox
		// goroutine for that index would end the process, so failing Adds never share an index
		ok := r.rng.Chance(0.85) || r.reused[k] || r.id[k] == 0
		for o := range r.actors { // ... nor the index of another object (possible once Remove hit a placeholder)
			if o != k && r.id[o] == r.id[k] && (r.phase[o] == c16phLive || r.phase[o] == c16phAdding) {
				ok = true
			}
		}
		r.opAddEnd(k, ok)
	case x < 42:
		id := r.pickID()
		if id == 1 && !r.allow1 {
			return
		}
		for _, fid := range r.failedIDs {
			if fid == id && !r.rng.Chance(0.3) {
				return // removing a failed index ends the case on the pinned code: keep it rare
			}
		}
		r.opRemove(id)
	case x < 47 && len(ungated) > 0 && len(gated) == 0:
		r.opPlug(ungated[r.rng.Intn(len(ungated))])
	case x < 57 && len(gated) > 0:
		r.opDrain(gated[0])
	case x < 64 && len(activated) > 0:
		r.opEmit(activated[r.rng.Intn(len(activated))], 102)
	default:
		f := r.genFrame()
		if f.obj == 1 && f.act == 2 && !r.allow1 {
			f.arg = 7 // refused: wrong object id
		}
		if o, ok := r.owner[f.obj]; ok && r.gated[o] && len(r.queuedOf[o]) >= 6 {
			return
		}
		r.opSend(f)
		if f.post && !r.dead {
			o, ok := r.owner[f.obj]
			if !(ok && r.gated[o]) {
				r.opFlush(f.conn, f.obj)
			}
		}
	}
}

func (r *c16Run) epilogue() {
	for k := range r.actors {
		if r.dead {
			return
		}
		if r.gated[k] {
			r.opDrain(k)
		}
	}
	for k := range r.actors {
		if r.dead {
			return
		}
		if r.phase[k] == c16phAdding {
			r.opAddEnd(k, true)
		}
	}
	// every object the callers believe live must still be callable, every removed one must not
	for k := range r.actors {
		if r.dead {
			return
		}
		if r.phase[k] != c16phLive {
			continue
		}
		_, before := r.actors[k].counts()
		f := c16Frame{conn: r.rng.Intn(c16Conns), obj: r.id[k], act: 0}
		r.opSend(f)
		_, after := r.actors[k].counts()
		if after != before+1 {
			key := ""
			if r.id[k] == 0 && r.obj1Gone && c16ZeroIndexOn {
				key = "zero_index_untested"
			} else if r.sawRemovePending {
				key = "remove_pending_slot"
			}
			r.fail("live-object-not-callable", fmt.Sprintf("live actor %d (index %d) did not execute a call addressed to it (%d -> %d executions): %s", k, r.id[k], before, after, r.trace()), key)
		}
	}
	for _, id := range r.removedIDs {
		if r.dead {
			return
		}
		r.opSend(c16Frame{conn: r.rng.Intn(c16Conns), obj: id, act: 0})
	}
}

func (r *c16Run) caseTerm() string {
	return fmt.Sprintf("{| tc_actors := %d; tc_ops := [\n    %s] |}", c16Actors, strings.Join(r.ops, ";\n    "))
}

// ---------- defect probes: the witnesses of C16_refuted_* replayed on the real service ----------

// c16ZeroIndexOn: the zero_index_untested defect is present in the tree under test (set from the
// probe); failures are attributed to a finding only when its switch is actually on.
var c16ZeroIndexOn = true

func c16Probes(res *hx.Result, rng *hx.Rng) [5]bool {
	var on [5]bool
	// keep_box_on_remove
	if r, err := c16NewRun(res, rng); err == nil {
		r.res = hx.NewResult("probe", 0, "")
		r.opAddBegin(1, 11)
		r.opAddEnd(1, true)
		r.opRemove(r.id[1])
		_, before := r.actors[1].counts()
		r.opSend(c16Frame{conn: 0, obj: r.id[1], act: 0})
		_, after := r.actors[1].counts()
		on[0] = after != before
		res.Switch("keep_box_on_remove", on[0], fmt.Sprintf("Add an object (index %d), Service.Remove it, call its method: executions %d -> %d", r.id[1], before, after))
		r.finish()
	}
	// zero_index_untested
	if r, err := c16NewRun(res, rng); err == nil {
		r.res = hx.NewResult("probe", 0, "")
		r.opRemove(1)
		r.opAddBegin(1, 12)
		r.opAddEnd(1, true)
		r.opAddBegin(2, 13)
		r.opAddEnd(2, true)
		on[1] = r.phase[1] == c16phLive && r.phase[2] == c16phLive && r.id[1] == r.id[2]
		h, _ := r.actors[1].counts()
		res.Switch("zero_index_untested", on[1], fmt.Sprintf("Remove(1), then Add twice: indices %d and %d, OnTerminate count of the first object %d", r.id[1], r.id[2], h))
		r.finish()
	}
	// nil_slot_on_failed_activate
	if r, err := c16NewRun(res, rng); err == nil {
		r.res = hx.NewResult("probe", 0, "")
		r.opAddBegin(1, 14)
		r.opAddEnd(1, false)
		r.opRemove(r.id[1])
		on[2] = r.dead
		res.Switch("nil_slot_on_failed_activate", on[2], fmt.Sprintf("Add an object whose Activate fails (index %d), then Service.Remove(%d): panicked=%v", r.id[1], r.id[1], r.dead))
		r.finish()
	}
	// remove_pending_slot
	if r, err := c16NewRun(res, rng); err == nil {
		r.res = hx.NewResult("probe", 0, "")
		r.opAddBegin(1, 15)
		r.opRemove(r.id[1])
		on[3] = r.sawRemovePending
		r.opAddBegin(2, 15)
		if r.phase[2] == c16phAdding {
			r.opAddEnd(2, true)
		}
		r.opAddEnd(1, true)
		res.Switch("remove_pending_slot", on[3], fmt.Sprintf("Service.Remove(%d) while the object is inside Activate returned success=%v; a second Add with the same draws got index %d; both live afterwards: %v",
			r.id[1], on[3], r.id[2], r.phase[1] == c16phLive && r.phase[2] == c16phLive && r.id[1] == r.id[2]))
		r.finish()
	}
	// terminate_by_index
	if r, err := c16NewRun(res, rng); err == nil {
		r.res = hx.NewResult("probe", 0, "")
		r.opAddBegin(1, 16)
		r.opAddEnd(1, true)
		id := r.id[1]
		r.opPlug(1)
		r.opSend(c16Frame{conn: 0, obj: id, act: 2, arg: id, post: true})
		r.opRemove(id)
		r.opAddBegin(2, 16)
		if r.phase[2] == c16phAdding {
			r.opAddEnd(2, true)
		}
		same := r.id[2] == id
		r.opDrain(1)
		h, _ := r.actors[2].counts()
		on[4] = same && h == 1
		res.Switch("terminate_by_index", on[4], fmt.Sprintf("object A (index %d) has its own terminate queued (mailbox held), Service.Remove(%d), Add B with the same draws -> index %d, A's mailbox released: OnTerminate count of B = %d", id, id, r.id[2], h))
		r.finish()
	}
	return on
}

// ---------- concurrent part: racing removals of one object ----------

// c16Stress adds three objects with two subscribers each, then removes one of them from several
// goroutines at once (Service.Remove ×8, remote terminate ×2) while calls are in flight, and
// evaluates the property on what the implementation did: hook exactly once, every subscriber told
// exactly once, the other objects untouched and callable, later calls refused.
func c16Stress(res *hx.Result, rng *hx.Rng, rounds int) {
	for round := 0; round < rounds; round++ {
		r, err := c16NewRun(res, rng)
		if err != nil {
			res.Fail("harness-setup", err.Error())
			return
		}
		r.allow1 = false
		for k := 1; k <= 3; k++ {
			r.opAddBegin(k, r.nextSeed+int64(k))
			r.opAddEnd(k, true)
			for c := 0; c < 2; c++ {
				r.opSend(c16Frame{conn: c, obj: r.id[k], act: 3, arg: r.id[k], sig: 102, uid: uint64(2000 + 10*k + c)})
			}
		}
		victim := 1 + rng.Intn(3)
		vid := r.id[victim]
		start := make(chan struct{})
		var wg sync.WaitGroup
		var okRemoves int32
		var mu sync.Mutex
		for g := 0; g < 8; g++ {
			wg.Add(1)
			go func() {
				defer wg.Done()
				<-start
				if r.svc.Remove(vid) == nil {
					mu.Lock()
					okRemoves++
					mu.Unlock()
				}
			}()
		}
		base := r.nextMsg
		r.nextMsg += 10
		for g := 0; g < 2; g++ {
			wg.Add(1)
			go func(g int) {
				defer wg.Done()
				<-start
				r.env.conns[g].send(net.Call, r.sid, vid, 3, base+uint32(g), svU32(vid))
				r.env.conns[2].send(net.Call, r.sid, vid, c16Hello, base+4+uint32(g), svStr("x"))
			}(g)
		}
		close(start)
		wg.Wait()
		// the mailbox of the victim is FIFO: once these are answered everything sent above was handled
		for g := 0; g < 2; g++ {
			r.env.conns[g].waitSeen(base+uint32(g), 3*time.Second)
			r.env.conns[2].waitSeen(base+4+uint32(g), 3*time.Second)
		}
		r.env.syncAll()
		perConn := make([][]net.Message, len(r.env.conns))
		for ci, c := range r.env.conns {
			perConn[ci] = c.take()
		}
		for k, a := range r.actors { // the frames above bypassed opSend: every one of them has been answered
			a.mu.Lock()
			r.enq[k] = a.processed
			a.mu.Unlock()
		}
		desc := fmt.Sprintf("3 objects with 2 subscribers each; object %d removed by 8 concurrent Service.Remove and 2 concurrent remote terminate calls, 2 method calls in flight", vid)
		h, _ := r.actors[victim].counts()
		if h != 1 {
			res.Fail("concurrent-remove-hook", fmt.Sprintf("%s: OnTerminate ran %d times", desc, h))
		}
		if okRemoves > 1 {
			res.Fail("concurrent-remove-twice", fmt.Sprintf("%s: %d Service.Remove calls reported success", desc, okRemoves))
		}
		for _, sb := range r.subs {
			n := 0
			for i := range perConn[sb.conn] {
				m := &perConn[sb.conn][i]
				if m.Header.Type == net.Error && m.Header.ID == sb.mid && svTypeCode(m) == 2 {
					n++
				}
			}
			want := 0
			if sb.actor == victim {
				want = 1
			}
			if n != want {
				res.Fail("concurrent-remove-notice", fmt.Sprintf("%s: subscriber (conn %d, message id %d) of actor %d received %d termination notices, expected %d", desc, sb.conn, sb.mid, sb.actor, n, want))
			}
		}
		r.phase[victim] = c16phRemoved
		r.removedIDs = append(r.removedIDs, vid)
		for k := 1; k <= 3; k++ {
			if k == victim {
				continue
			}
			if hk, _ := r.actors[k].counts(); hk != 0 {
				res.Fail("concurrent-remove-frame", fmt.Sprintf("%s: OnTerminate of another object (actor %d) ran %d times", desc, k, hk))
			}
		}
		r.ops, r.descs = nil, []string{desc}
		r.epilogue() // every live object still callable, the removed one refused (oracles inside)
		r.finish()
		res.Count(fmt.Sprintf("stress %d %d", round, vid), true)
		res.Dist("concurrent-removal-round")
	}
}

// ---------- the second life of an object value (directed, compared with the model) ----------

// c16LifePlans: every way an object value can live 2 or 3 times.  One letter per life — F: the
// activation fails; R: added, then Service.Remove; T: added, then its own terminate action; D: added,
// Service.Remove twice (the second one must be refused).  The last life is never F.
func c16LifePlans(maxLives int) []string {
	var out []string
	var rec func(p string)
	rec = func(p string) {
		if len(p) >= 2 && p[len(p)-1] != 'F' {
			out = append(out, p)
		}
		if len(p) == maxLives {
			return
		}
		for _, c := range "FRTD" {
			rec(p + string(c))
		}
	}
	rec("")
	return out
}

// c16SecondLife runs one plan on a fresh service.  In every life that is activated clients subscribe,
// call, the object emits; then the life ends; then the old index is called (must be refused) and the
// same object value is handed to Add again.  first0: the first life is the service's own object
// (index 1).  sameSeed: every Add consumes the same random draws (the index of the previous life,
// now free, is handed out again).  All operations go through the recorded operations, so the case
// is compared with the model (model actor = one life) and every oracle of the random part applies.
func c16SecondLife(r *c16Run, plan string, first0, sameSeed bool, nsubs int) {
	seed := r.nextSeed
	prev := -1
	slot := 1
	for li, c := range plan {
		if r.dead {
			return
		}
		k := slot
		if li == 0 && first0 {
			k = 0 // already live under index 1
		} else {
			if !sameSeed {
				seed++
			}
			if prev >= 0 && !(r.latest(prev) && r.idle(prev)) {
				r.fail("harness-second-life", fmt.Sprintf("the mailbox of actor %d is not idle after its life ended: %s", prev, r.trace()), "")
				return
			}
			r.opAddBeginOf(k, prev, seed)
			if r.phase[k] != c16phAdding {
				return
			}
			// the index is reserved, the object is inside Activate: a call now is dropped or refused, never executed
			r.opSend(c16Frame{conn: li % c16Conns, obj: r.id[k], act: 0})
			r.opAddEnd(k, c != 'F')
			slot++
		}
		prev = k
		if c == 'F' {
			// what a failed activation leaves behind must not be reachable
			r.opSend(c16Frame{conn: 0, obj: r.id[k], act: 0})
			continue
		}
		if r.phase[k] != c16phLive {
			return
		}
		id := r.id[k]
		for j := 0; j < nsubs; j++ {
			sig := uint32(102)
			if j == 2 {
				sig = 103
			}
			arg := id
			if j%2 == 1 {
				arg = 0
			}
			r.opSend(c16Frame{conn: (li + j) % c16Conns, obj: id, act: 3, arg: arg, sig: sig, uid: uint64(r.nextUID)})
			r.nextUID++
		}
		r.opSend(c16Frame{conn: 1, obj: id, act: 0})
		r.opEmit(k, 102)
		switch c {
		case 'R':
			r.opRemove(id)
		case 'D':
			r.opRemove(id)
			r.opRemove(id)
		case 'T':
			arg := id
			if li%2 == 1 {
				arg = 0
			}
			r.opSend(c16Frame{conn: 2, obj: id, act: 2, arg: arg})
		}
		if r.phase[k] != c16phRemoved {
			r.fail("not-terminated", fmt.Sprintf("actor %d (index %d) was removed / sent its own terminate action but its termination hook has not run: %s", k, id, r.trace()), "")
			return
		}
		r.opSend(c16Frame{conn: 0, obj: id, act: 0})
		r.opEmit(k, 102)
	}
}

func c16SecondLives(res *hx.Result, rng *hx.Rng, cf *hx.Cases, tier string) {
	maxLives := 3
	plans := c16LifePlans(maxLives)
	n := 0
	for pi, plan := range plans {
		for variant := 0; variant < 4; variant++ {
			first0 := variant&1 == 1
			sameSeed := variant&2 == 2
			if first0 && plan[0] == 'F' {
				continue // the service's own object was activated when the service was made
			}
			if tier != "thorough" && len(plan) == 3 && (pi+variant)%4 != 0 {
				continue // quick: every plan of two lives in all variants, a quarter of the plans of three lives
			}
			r, err := c16NewRun(res, rng)
			if err != nil {
				res.Fail("harness-setup", err.Error())
				return
			}
			r.allow1 = true
			c16SecondLife(r, plan, first0, sameSeed, 1+(pi+variant)%3)
			r.epilogue()
			r.finish()
			res.Count(strings.Join(r.ops, "|"), true)
			res.Dist("second-life-plan:" + plan)
			cf.Add("tcases", r.caseTerm(), fmt.Sprintf("lives %s first0=%v sameSeed=%v: %s", plan, first0, sameSeed, r.trace()))
			n++
		}
	}
	res.Notes = append(res.Notes, fmt.Sprintf("second lives: %d directed cases over the plans %s (F failed activation, R removed, T own terminate, D removed twice), each life with subscribers, calls and an emission", n, strings.Join(plans, " ")))
}

// ---------- one object value that is a member twice (oracles only) ----------

// c16Shared hands ONE object value to Add twice without removing it in between — to two services
// (even rounds) or twice to the same service (odd rounds) — so that it is live under two
// identifiers at once, then ends the two memberships one after the other and starts a third.  The
// model has one membership per actor, so this part is judged by oracles on the implementation only:
// every removal runs the termination hook exactly once; a subscriber is told exactly once, at the
// latest when the membership it subscribed through ends; a removed identifier is refused without
// executing; the other membership stays callable; a second Remove of the same identifier is refused.
func c16Shared(res *hx.Result, rng *hx.Rng, rounds int) {
	for round := 0; round < rounds; round++ {
		r, err := c16NewRun(res, rng)
		if err != nil {
			res.Fail("harness-setup", err.Error())
			return
		}
		two := round%2 == 0
		type member struct {
			svc bus.Service
			sid uint32
			id  uint32
		}
		type subscr struct {
			conn    int
			mid     uint32
			via     int
			notices int
			events  int
		}
		var steps []string
		note := func(f string, a ...interface{}) { steps = append(steps, fmt.Sprintf(f, a...)) }
		failed := false
		fail := func(kind, f string, a ...interface{}) {
			failed = true
			res.Fail(kind, fmt.Sprintf(f, a...)+" — after: "+strings.Join(steps, " ; "))
		}
		m := make([]member, 2)
		m[0] = member{svc: r.svc, sid: r.sid}
		m[1] = m[0]
		if two {
			main2 := &c16Actor{k: 100}
			main2.cond = sync.NewCond(&main2.mu)
			svc2, err := r.env.srv.NewService("probe2", c16Object(main2))
			if err != nil {
				res.Fail("harness-setup", err.Error())
				r.finish()
				return
			}
			m[1] = member{svc: svc2, sid: svc2.ServiceID()}
			note("two services %d and %d", m[0].sid, m[1].sid)
		} else {
			note("one service %d", m[0].sid)
		}
		a := &c16Actor{k: 101}
		a.cond = sync.NewCond(&a.mu)
		obj := c16Object(a)
		add := func(i int) bool {
			rand.Seed(r.nextSeed)
			r.nextSeed++
			id, err := m[i].svc.Add(obj)
			if err != nil {
				fail("add-refused", "Add of the object value to service %d failed: %v", m[i].sid, err)
				return false
			}
			m[i].id = id
			note("Add(obj) to service %d -> %d", m[i].sid, id)
			return true
		}
		var subs []*subscr
		// collect: barrier on every connection, then count termination notices and events per subscriber
		collect := func() {
			r.env.syncAll()
			for ci, c := range r.env.conns {
				for _, fm := range c.take() {
					for _, sb := range subs {
						if sb.conn != ci || fm.Header.ID != sb.mid {
							continue
						}
						if fm.Header.Type == net.Event {
							sb.events++
						} else if svTypeCode(&fm) == 2 {
							sb.notices++
						}
					}
				}
			}
		}
		subscribe := func(via, conn int) *subscr {
			mid := r.nextMsg
			r.nextMsg++
			uid := r.nextUID
			r.nextUID++
			r.env.conns[conn].send(net.Call, m[via].sid, m[via].id, 0, mid, append(svU32(0, 102), svU32(uid, 0)...))
			rep := r.env.conns[conn].waitID(mid, c16Wait(3*time.Second))
			note("connection %d subscribes to signal 102 through (service %d, object %d), message id %d", conn, m[via].sid, m[via].id, mid)
			if rep == nil || rep.Header.Type != net.Reply {
				fail("live-object-not-callable", "registerEvent sent to a live identifier of the object was not accepted")
				return nil
			}
			r.env.conns[conn].take()
			sb := &subscr{conn: conn, mid: mid, via: via}
			subs = append(subs, sb)
			return sb
		}
		// call: the method through membership i; wantExec: it must run (true) or be refused with ObjectNotFound (false)
		call := func(i int, wantExec bool) {
			conn := r.rng.Intn(c16Conns)
			mid := r.nextMsg
			r.nextMsg++
			_, before := a.counts()
			r.env.conns[conn].send(net.Call, m[i].sid, m[i].id, c16Hello, mid, svStr("x"))
			rep := r.env.conns[conn].waitID(mid, c16Wait(3*time.Second))
			_, after := a.counts()
			note("call hello(service %d, object %d)", m[i].sid, m[i].id)
			switch {
			case rep == nil:
				fail("call-unanswered", "no answer within 3 s")
				c16Expired++
			case wantExec && (rep.Header.Type != net.Reply || after != before+1):
				fail("live-object-not-callable", "the object is live under (service %d, object %d) but the call was answered with type code %d, executions %d -> %d", m[i].sid, m[i].id, svTypeCode(rep), before, after)
			case !wantExec && (svTypeCode(rep) != 1 || after != before):
				fail("reachable-after-removal", "(service %d, object %d) was removed but a call to it was answered with type code %d, executions %d -> %d", m[i].sid, m[i].id, svTypeCode(rep), before, after)
			}
		}
		emit := func() {
			a.mu.Lock()
			h := a.helper
			a.mu.Unlock()
			before := make([]int, len(subs))
			for i, sb := range subs {
				before[i] = sb.events
			}
			h.SignalPong("e")
			note("the object emits signal 102")
			collect()
			for i, sb := range subs {
				got := sb.events - before[i]
				if sb.notices > 0 && got != 0 {
					fail("event-after-termination", "subscriber (connection %d, message id %d) received %d events after its termination notice", sb.conn, sb.mid, got)
				}
				if sb.notices == 0 && got != 1 {
					fail("subscriber-of-live-object-lost", "subscriber (connection %d, message id %d), not told of any termination, received %d events for one emission", sb.conn, sb.mid, got)
				}
			}
		}
		hooksWant := 0
		remove := func(i int, wantOK bool) {
			err := m[i].svc.Remove(m[i].id)
			note("Service.Remove(%d) on service %d -> err=%v", m[i].id, m[i].sid, err != nil)
			if wantOK {
				hooksWant++
			}
			if wantOK && err != nil {
				fail("remove-refused", "Remove of a live identifier failed: %v", err)
			}
			if !wantOK && err == nil {
				fail("removed-twice", "the second Remove of the same identifier reported success")
			}
			collect()
			if h, _ := a.counts(); h != hooksWant {
				kind := "hook-not-run"
				if h > hooksWant {
					kind = "terminated-twice"
				}
				fail(kind, "the termination hook of the object has run %d times after %d removals of it", h, hooksWant)
			}
			for _, sb := range subs {
				if sb.notices > 1 {
					fail("subscriber-told-twice", "subscriber (connection %d, message id %d) received %d termination notices", sb.conn, sb.mid, sb.notices)
				}
				if wantOK && sb.via == i && sb.notices != 1 {
					fail("subscriber-not-told", "subscriber (connection %d, message id %d) subscribed through (service %d, object %d); that identifier was removed and it received %d termination notices", sb.conn, sb.mid, m[i].sid, m[i].id, sb.notices)
				}
			}
		}
		func() {
			if !add(0) || !add(1) {
				return
			}
			if !two && m[0].id == m[1].id {
				fail("id-not-unique", "two Adds to one service returned the same identifier %d", m[0].id)
				return
			}
			subscribe(0, 0)
			subscribe(1, 1)
			if round%3 == 0 {
				subscribe(0, 2)
			}
			call(0, true)
			call(1, true)
			emit()
			first := rng.Intn(2)
			second := 1 - first
			remove(first, true)
			call(first, false)
			call(second, true)
			if failed {
				return
			}
			for _, sb := range subs {
				sb.via = -1 // told or not, their turn is over: exactly one notice by the end (checked below)
			}
			late := subscribe(second, 2)
			emit()
			remove(first, false)
			call(second, true)
			remove(second, true)
			call(second, false)
			call(first, false)
			if late != nil && late.notices != 1 {
				fail("subscriber-not-told", "subscriber (connection %d, message id %d) subscribed after the first membership ended; at the end of the second it has %d termination notices", late.conn, late.mid, late.notices)
			}
			for _, sb := range subs {
				if sb.notices != 1 {
					fail("subscriber-not-told", "both memberships of the object have ended; subscriber (connection %d, message id %d) received %d termination notices", sb.conn, sb.mid, sb.notices)
				}
			}
			if failed {
				return
			}
			// a third membership of the same object value
			subs = nil
			if !add(first) {
				return
			}
			subscribe(first, 1)
			call(first, true)
			emit()
			remove(first, true)
			call(first, false)
			remove(first, false)
		}()
		r.finish()
		res.Count(fmt.Sprintf("shared %d %v", round, two), true)
		res.Dist(fmt.Sprintf("one-object-two-memberships:two-services=%v", two))
	}
}

// ---------- termination hooks that call back into the service (oracles only) ----------

func c16NewActor(k int) *c16Actor {
	a := &c16Actor{k: k}
	a.cond = sync.NewCond(&a.mu)
	return a
}

// c16HookReenters: the termination hook of an owner object uses the service it is being removed
// from — it removes a child object (round%3 == 0), adds a new object (1), or hands its own object
// value to Add again, so that its second life begins inside the hook of the first (2).  Oracles:
// Service.Remove returns; the hook ran once per removal; the owner's subscriber is told once; the
// old identifier is refused; an unrelated object still answers; the child is terminated and refused
// / the new object answers / the owner answers under its new identifier and its second life ends
// like the first (hook once more, its new subscriber told, refused afterwards).
func c16HookReenters(res *hx.Result, rng *hx.Rng, rounds int) {
	for round := 0; round < rounds; round++ {
		r, err := c16NewRun(res, rng)
		if err != nil {
			res.Fail("harness-setup", err.Error())
			return
		}
		variant := round % 3
		var steps []string
		note := func(f string, a ...interface{}) { steps = append(steps, fmt.Sprintf(f, a...)) }
		fail := func(kind, f string, a ...interface{}) {
			res.Fail(kind, fmt.Sprintf(f, a...)+" — after: "+strings.Join(steps, " ; "))
		}
		owner, child, other, extra := c16NewActor(200), c16NewActor(201), c16NewActor(202), c16NewActor(203)
		ownerObj := c16Object(owner)
		add := func(name string, o bus.Actor) (uint32, bool) {
			rand.Seed(r.nextSeed)
			r.nextSeed++
			id, err := r.svc.Add(o)
			note("Add(%s) -> %d, err=%v", name, id, err != nil)
			if err != nil {
				fail("add-refused", "Add(%s) failed: %v", name, err)
			}
			return id, err == nil
		}
		// call: the method of actor a under identifier id must run (want) or be refused with ObjectNotFound
		call := func(id uint32, a *c16Actor, want bool) {
			mid := r.nextMsg
			r.nextMsg++
			_, before := a.counts()
			r.env.conns[1].send(net.Call, r.sid, id, c16Hello, mid, svStr("x"))
			rep := r.env.conns[1].waitID(mid, c16Wait(3*time.Second))
			_, after := a.counts()
			note("call hello(object %d)", id)
			switch {
			case rep == nil:
				fail("call-unanswered", "no answer within 3 s")
				c16Expired++
			case want && (rep.Header.Type != net.Reply || after != before+1):
				fail("live-object-not-callable", "object %d is live but the call was answered with type code %d, executions %d -> %d", id, svTypeCode(rep), before, after)
			case !want && (svTypeCode(rep) != 1 || after != before):
				fail("reachable-after-removal", "object %d was removed but a call to it was answered with type code %d, executions %d -> %d", id, svTypeCode(rep), before, after)
			}
		}
		subscribe := func(id uint32, conn int) uint32 {
			mid := r.nextMsg
			r.nextMsg++
			r.env.conns[conn].send(net.Call, r.sid, id, 0, mid, append(svU32(0, 102), svU32(r.nextUID, 0)...))
			r.nextUID++
			rep := r.env.conns[conn].waitID(mid, c16Wait(3*time.Second))
			note("connection %d subscribes to signal 102 of object %d, message id %d", conn, id, mid)
			if rep == nil || rep.Header.Type != net.Reply {
				fail("live-object-not-callable", "registerEvent sent to live object %d was not accepted", id)
			}
			return mid
		}
		notices := func(conn int, mid uint32) int { // termination notices received for a subscription so far
			r.env.conns[conn].sync()
			n := 0
			r.env.conns[conn].mu.Lock()
			for i := range r.env.conns[conn].got {
				fm := &r.env.conns[conn].got[i]
				if fm.Header.ID == mid && fm.Header.Type == net.Error && svTypeCode(fm) == 2 {
					n++
				}
			}
			r.env.conns[conn].mu.Unlock()
			return n
		}
		remove := func(id uint32) bool {
			done := make(chan error, 1)
			go func() { done <- r.svc.Remove(id) }()
			select {
			case err := <-done:
				note("Service.Remove(%d) -> err=%v", id, err != nil)
				if err != nil {
					fail("remove-refused", "Remove of live object %d failed: %v", id, err)
				}
				return err == nil
			case <-time.After(c16Wait(5 * time.Second)):
				note("Service.Remove(%d)", id)
				fail("remove-stalled", "Service.Remove(%d) did not return within 5 s: the termination hook of the object calls back into the service", id)
				c16Expired++
				return false
			}
		}
		func() {
			idO, ok1 := add("owner", ownerObj)
			idC, ok2 := add("child", c16Object(child))
			idX, ok3 := add("other", c16Object(other))
			if !ok1 || !ok2 || !ok3 {
				return
			}
			var newID uint32
			var hookErr error
			ran := 0
			owner.mu.Lock()
			owner.onTerm = func() {
				ran++
				if ran > 1 {
					return
				}
				switch variant {
				case 0:
					hookErr = r.svc.Remove(idC)
				case 1:
					rand.Seed(r.nextSeed)
					newID, hookErr = r.svc.Add(c16Object(extra))
				case 2:
					rand.Seed(r.nextSeed)
					newID, hookErr = r.svc.Add(ownerObj)
				}
			}
			owner.mu.Unlock()
			note("the termination hook of the owner will %s", [...]string{"remove the child with Service.Remove", "add a new object with Service.Add", "hand the owner's own object value to Service.Add again"}[variant])
			mid := subscribe(idO, 0)
			call(idO, owner, true)
			if !remove(idO) {
				return
			}
			if hookErr != nil {
				fail("hook-call-refused", "the service refused the call made by the termination hook: %v", hookErr)
				return
			}
			if h, _ := owner.counts(); h != 1 {
				fail("hook-not-run", "the termination hook of the owner has run %d times after its removal", h)
			}
			if n := notices(0, mid); n != 1 {
				fail("subscriber-not-told", "the subscriber (connection 0, message id %d) of the removed owner received %d termination notices", mid, n)
			}
			call(idO, owner, false)
			call(idX, other, true)
			switch variant {
			case 0:
				if h, _ := child.counts(); h != 1 {
					fail("hook-not-run", "the child was removed by the owner's hook; its own termination hook has run %d times", h)
				}
				call(idC, child, false)
			case 1:
				call(newID, extra, true)
				call(idC, child, true)
			case 2:
				note("the hook's Add returned %d", newID)
				call(newID, owner, true)
				mid2 := subscribe(newID, 2)
				if !remove(newID) {
					return
				}
				if h, _ := owner.counts(); h != 2 {
					fail("hook-not-run", "the owner's object value lived twice and was removed twice; its termination hook has run %d times", h)
				}
				if n := notices(2, mid2); n != 1 {
					fail("subscriber-not-told", "the subscriber (connection 2, message id %d) of the owner's second life received %d termination notices", mid2, n)
				}
				if n := notices(0, mid); n != 1 {
					fail("subscriber-told-twice", "the subscriber of the first life has %d termination notices after the end of the second", n)
				}
				call(newID, owner, false)
				call(idC, child, true)
			}
		}()
		r.finish()
		res.Count(fmt.Sprintf("hook-reenters %d", round), true)
		res.Dist(fmt.Sprintf("termination-hook-calls-the-service:variant=%d", variant))
	}
}

// ---------- exhaustive small scope ----------

// c16Exhaustive runs every sequence of length 1..maxLen over nine operations on two objects:
// add the next object, remove object A / B, call A / B, A's own terminate, subscribe to A, A emits,
// hand A's object value to Add again (A then names its new life; sequences in which A has not been
// removed at that point are skipped).  Operations on an object that has not been added yet address
// an unknown index.
func c16Exhaustive(res *hx.Result, rng *hx.Rng, cf *hx.Cases, maxLen int) {
	const k = 9
	for l := 1; l <= maxLen; l++ {
		total := 1
		for i := 0; i < l; i++ {
			total *= k
		}
		for code := 0; code < total; code++ {
			r, err := c16NewRun(res, rng)
			if err != nil {
				res.Fail("harness-setup", err.Error())
				return
			}
			slotA := 1 // the latest life of object A
			idOf := func(a int) uint32 {
				if a == 1 {
					a = slotA
				}
				if r.phase[a] == c16phFresh {
					return 7777
				}
				return r.id[a]
			}
			c := code
			skip := false
			for i := 0; i < l && !r.dead && !skip; i++ {
				op := c % k
				c /= k
				switch op {
				case 0:
					for a := 1; a < 5; a++ {
						if r.phase[a] == c16phFresh {
							seed := r.nextSeed
							r.nextSeed++
							r.opAddBegin(a, seed)
							if r.phase[a] == c16phAdding {
								r.opAddEnd(a, true)
							}
							break
						}
					}
				case 1, 2:
					r.opRemove(idOf(op))
				case 3, 4:
					r.opSend(c16Frame{conn: 1, obj: idOf(op - 2), act: 0})
				case 5:
					r.opSend(c16Frame{conn: 1, obj: idOf(1), act: 2, arg: 0})
				case 6:
					r.opSend(c16Frame{conn: 0, obj: idOf(1), act: 3, arg: 0, sig: 102, uid: uint64(r.nextUID)})
					r.nextUID++
				case 7:
					if r.phase[slotA] != c16phFresh {
						r.opEmit(slotA, 102)
					}
				case 8:
					next := -1
					for a := c16Actors - 1; a > slotA && a >= 5; a-- { // further lives of A take the slots 5, 6, 7
						if r.phase[a] == c16phFresh {
							next = a
						}
					}
					if r.phase[slotA] != c16phRemoved || next < 0 || !r.idle(slotA) {
						skip = true
						break
					}
					seed := r.nextSeed
					r.nextSeed++
					r.opAddBeginOf(next, slotA, seed)
					if r.phase[next] == c16phAdding {
						r.opAddEnd(next, true)
					}
					slotA = next
				}
			}
			if skip {
				r.finish()
				continue
			}
			r.epilogue()
			r.finish()
			res.Count(strings.Join(r.ops, "|"), true)
			res.Dist(fmt.Sprintf("exhaustive-seq-len:%d", l))
			cf.Add("tcases", r.caseTerm(), fmt.Sprintf("exhaustive %d/%d: %s", l, code, r.trace()))
		}
	}
}

// ---------- removal of a busy object whose mailbox is full (child process) ----------

const c16MailboxCap = 10 // bus/mailbox.go, tied by TieC16.tie_mailbox_cap

func init() { subcommands["c16-busy-remove"] = c16BusyChild }

// c16BlockedSender: some goroutine is blocked in the channel send of serviceImpl.Receive
func c16BlockedSender() bool {
	buf := make([]byte, 4<<20)
	n := runtime.Stack(buf, true)
	for _, g := range strings.Split(string(buf[:n]), "\n\n") {
		nl := strings.Index(g, "\n")
		if nl > 0 && strings.Contains(g[:nl], "chan send") && strings.Contains(g, "serviceImpl).Receive") {
			return true
		}
	}
	return false
}

// c16BusyChild: object A is busy inside its method, its mailbox holds as many calls as it can, one
// more sender is blocked between the mailbox lookup and the channel send — then A is removed.
// The process must survive, the other objects must answer while A is stuck, and every call sent
// to A before the removal must get its answer once A's method returns.
func c16BusyChild(args []string) {
	die := func(f string, a ...interface{}) {
		fmt.Printf("C16-BUSY-FAIL: "+f+"\n", a...)
		os.Exit(1)
	}
	res := hx.NewResult("child", 0, "")
	r, err := c16NewRun(res, hx.NewRng(7))
	if err != nil {
		die("setup: %v", err)
	}
	r.opAddBegin(1, 21)
	r.opAddEnd(1, true)
	r.opAddBegin(2, 22)
	r.opAddEnd(2, true)
	if r.phase[1] != c16phLive || r.phase[2] != c16phLive {
		die("could not add two objects")
	}
	a, idA, idB := r.actors[1], r.id[1], r.id[2]
	a.mu.Lock()
	a.gate = make(chan struct{})
	a.mu.Unlock()
	c0, c1 := r.env.conns[0], r.env.conns[1]
	first := uint32(5000)
	n := uint32(c16MailboxCap + 2)
	c0.send(net.Call, r.sid, idA, c16Hello, first, svStr("x"))
	if !a.waitStarted(1, 5*time.Second) {
		die("the first call did not reach the method")
	}
	for i := uint32(1); i <= c16MailboxCap; i++ { // each barrier confirms that the call sits in the mailbox
		c0.send(net.Call, r.sid, idA, c16Hello, first+i, svStr("x"))
		if !c0.sync() {
			die("call %d of %d did not enter the mailbox", i, c16MailboxCap)
		}
	}
	c0.send(net.Call, r.sid, idA, c16Hello, first+n-1, svStr("x")) // no room: its sender blocks in Receive
	blocked := false
	for dl := time.Now().Add(5 * time.Second); time.Now().Before(dl) && !blocked; {
		if blocked = c16BlockedSender(); !blocked {
			time.Sleep(2 * time.Millisecond)
		}
	}
	fmt.Printf("sender blocked in serviceImpl.Receive: %v\n", blocked)
	if err := r.svc.Remove(idA); err != nil {
		die("Remove of the busy object failed: %v", err)
	}
	fmt.Println("removed")
	for i, obj := range []uint32{idB, 1} {
		id := uint32(6000 + i)
		c1.send(net.Call, r.sid, obj, c16Hello, id, svStr("x"))
		if m := c1.waitSeen(id, 5*time.Second); m == nil || m.Header.Type != net.Reply {
			die("object %d does not answer while the removed object is still busy", obj)
		}
	}
	a.mu.Lock()
	close(a.gate)
	a.mu.Unlock()
	for i := uint32(0); i < n; i++ {
		if c0.waitSeen(first+i, 5*time.Second) == nil {
			die("call %d sent to the object before its removal was never answered", i)
		}
	}
	if h, _ := a.counts(); h != 1 {
		die("OnTerminate of the removed object ran %d times", h)
	}
	c1.send(net.Call, r.sid, idB, c16Hello, 6100, svStr("x"))
	if m := c1.waitSeen(6100, 5*time.Second); m == nil || m.Header.Type != net.Reply {
		die("the other object does not answer after the removal")
	}
	fmt.Println("C16-BUSY-OK")
	os.Exit(0)
}

// c16BusyRemove runs the scenario above in a child process and judges it from outside.
func c16BusyRemove(res *hx.Result) {
	ctx, cancel := context.WithTimeout(context.Background(), 90*time.Second)
	defer cancel()
	out, err := exec.CommandContext(ctx, os.Args[0], "c16-busy-remove").CombinedOutput()
	text := string(out)
	res.Count("busy-remove", true)
	res.Dist("busy-object-removal-child")
	if err == nil && strings.Contains(text, "C16-BUSY-OK") {
		if !strings.Contains(text, "sender blocked in serviceImpl.Receive: true") {
			res.Notes = append(res.Notes, "busy-object removal: no sender was seen blocked in Receive before the removal (scenario ran without the in-flight message)")
		}
		return
	}
	if len(text) > 1500 {
		text = text[:1500]
	}
	res.Fail("process-dies-or-stalls-when-a-busy-object-is-removed", fmt.Sprintf(
		"object A busy inside its method, %d calls queued in its mailbox, one more sender blocked in serviceImpl.Receive, then Service.Remove(A): "+
			"the server process must survive and the other objects must keep answering; child exit: %v; output: %s", c16MailboxCap, err, text))
}

func runC16(res *hx.Result, rng *hx.Rng, tier string, outdir string) {
	res.Rule = "operation sequences (about 40 operations) over 8 lives of object values (the object of a removed actor or of a failed activation is handed to Add again in about half of the Adds that could), 3 connections, 2 signals on a real bus.Service: Add in two halves with " +
		"operations inside Activate, seeds reused to force index collisions, failing activations, Remove of live/removed/pending/failed/unknown " +
		"indices, call/post × method/terminate/registerEvent/unknown action to live, removed, pending and unknown indices, mailboxes held by a gate and " +
		"released, signal emission; every case ends with a call to every live and every removed object; directed cases for every plan of 2 or 3 lives of one object value " +
		"(failed activation / removed / own terminate / removed twice, same or new index, subscribers in every life); one object value live under two identifiers (two services, or twice in one); " +
		"real proxies of the client library subscribing (the same signal twice through one connection, several connections, two signals) to objects added on the server or through a service reference (ids from 2^31), ended by Remove / terminate action / activation.Terminate; " +
		"non-trivial = a call or a subscription happens after a removal; distinct by sha256 of the operation list"
	nCases := 120
	if tier == "thorough" {
		nCases = 4000
	}
	on := c16Probes(res, rng)
	c16ZeroIndexOn = on[1]
	cf := hx.NewCases(outdir, "C16", "From QV Require Import Service C16Run.", "mismatches cfg tcases", res, "tcases", "tcase")
	cf.Extra = append(cf.Extra, "Local Open Scope N_scope.")
	cf.Extra = append(cf.Extra, fmt.Sprintf("Definition cfg := mkcfg %s %s %s %s %s.", hx.Bool(on[0]), hx.Bool(on[1]), hx.Bool(on[2]), hx.Bool(on[3]), hx.Bool(on[4])))
	for i := 0; i < nCases; i++ {
		r, err := c16NewRun(res, rng)
		if err != nil {
			res.Fail("harness-setup", err.Error())
			return
		}
		n := 25 + rng.Intn(30)
		for j := 0; j < n && !r.dead; j++ {
			r.step()
		}
		r.epilogue()
		r.finish()
		afterRemoval := false
		seenRemoval := false
		for _, d := range r.descs {
			if strings.HasPrefix(d, "Remove(") || strings.Contains(d, "terminate(") {
				seenRemoval = true
			} else if seenRemoval && (strings.Contains(d, "hello(") || strings.Contains(d, "registerEvent(")) {
				afterRemoval = true
			}
		}
		res.Count(strings.Join(r.ops, "|"), afterRemoval)
		res.Dist(fmt.Sprintf("ops:%d0s", len(r.ops)/10))
		for _, d := range r.descs {
			res.Dist("op:" + strings.SplitN(strings.SplitN(d, "(", 2)[0], " ", 3)[0])
		}
		if r.dead {
			res.Dist("ended-by-panic-or-stall")
		}
		if i < 3 {
			res.Sample(r.trace())
		}
		cf.Add("tcases", r.caseTerm(), fmt.Sprintf("case %d: %s", i, r.trace()))
	}
	if tier == "thorough" {
		c16Exhaustive(res, rng, cf, 4)
		res.Exhaustive = true
		res.Notes = append(res.Notes, "exhaustive part: every sequence of length <= 4 over {add next object, remove A, remove B, call A, call B, terminate A, subscribe to A, A emits, add A's object value again} (those in which A is removed when it is added again), each followed by a call to every live and every removed object")
	}
	c16SecondLives(res, rng, cf, tier)
	cf.Flush()
	c16Shared(res, rng, map[bool]int{false: 12, true: 60}[tier == "thorough"])
	c16HookReenters(res, rng, map[bool]int{false: 6, true: 30}[tier == "thorough"])
	c16Clients(res, rng, map[bool]int{false: 24, true: 240}[tier == "thorough"])
	rounds := 40
	if tier == "thorough" {
		rounds = 400
	}
	c16Stress(res, rng, rounds)
	c16BusyRemove(res)
}
