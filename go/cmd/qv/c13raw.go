package main

// C13, registrations made with raw registerEvent / unregisterEvent calls whose ids the caller
// chooses (libqi clients reuse one link id for several signals; proxy.SubscribeID draws a fresh
// one every time, so the schedules of c13.go never make two registrations share an id).
//
// One operation at a time on a free-running world (real StandAloneServer, object, clients on
// harness streams): registerEvent(object, signal, id) and unregisterEvent(object, signal, id) sent
// with Proxy.CallID, emissions with UpdateSignal / UpdateProperty.  Ids come from a pool of two,
// so the same id for two signals of one connection, the same id registered again, and the same
// id on two connections all occur.  Observed: the answer to every call, and per emission the Event
// frames written (connection, message id, payload) in the order written, plus what a local
// client.Subscribe reader of that (connection, signal) reads.
//
// Oracle (on the implementation's own behaviour): a registration whose registerEvent was
// ACKNOWLEDGED is sent every emission of its signal, once, with the emitted payload, until the
// unregisterEvent for it (same connection, signal, id) has been acknowledged, and nothing after
// that; a refused registration is sent nothing; no frame for another signal or for nobody; every
// frame written is read, intact and in order, by the reader of that connection; every call is
// answered.  The same sequences go to Coq (SignalsRaw.v) with everything observed.
//
// Every wait has a deadline, everything the object does for an operation runs in a goroutine of
// its own: a mailbox goroutine that dead-locks costs one deadline, the sequence stops there
// (after one last emission per signal, which does not need the mailbox) and the world is dropped.

import (
	"bytes"
	"encoding/binary"
	"fmt"
	"io"
	"os"
	"sort"
	"strings"
	"sync"
	"syscall"
	"time"

	"github.com/lugu/qiloop/bus/net"
	"qv/internal/hx"
	"qv/internal/rig"
)

type c13reg struct {
	c       int
	sig     uint32
	uid     uint64
	mid     uint32
	op      int  // index of the registerEvent operation
	acked   bool // the registerEvent call was answered with a Reply
	unregOp int  // index of the operation whose Reply acknowledged its removal (-1: still registered)
}

func (r *c13reg) String() string {
	return fmt.Sprintf("registration (connection %d, signal %d, id %d; call %d of step %d)", r.c, r.sig, r.uid, r.mid, r.op)
}

type c13rawSent struct {
	c       int
	mid     uint32
	action  uint32
	intact  bool
	payload uint32
}

type c13rawStep struct {
	text string // the operation, for humans
	coq  string // the operation with what was observed, for SignalsRaw.raw_agrees
	kind int    // 0 register, 1 unregister, 2 emit, 3 the health of a connection changes
	sig  uint32
	p    uint32
	sent []c13rawSent
	// emissions: the connections the object cannot be expected to reach (every write fails, or one failure is pending)
	unreachable map[int]bool
}

type c13rawReader struct {
	mu     sync.Mutex
	got    []uint32
	bad    []string
	closed bool
}

type c13raw struct {
	w       *c13world
	regs    []*c13reg
	steps   []*c13rawStep
	readers map[[2]int]*c13rawReader
	stopped bool // a call was not answered: nothing more is sent to the mailbox
	fails   [][2]string
	pcount  uint32
	// connections in bad health (round 5)
	bad    map[int]int    // connection -> kind of RBreak that made every write to it fail (0, 1, 2)
	once   map[int]*c13once // connection -> transient failures to come
	slow   map[int]bool   // connection -> its Event writes block until the harness lets them go
	closed map[int]bool   // connection closed by the sequence
}

func c13rawNew(nconn int) *c13raw {
	return &c13raw{w: c13new(nconn), readers: map[[2]int]*c13rawReader{}, pcount: 100,
		bad: map[int]int{}, once: map[int]*c13once{}, slow: map[int]bool{}, closed: map[int]bool{}}
}

// ---- connections in bad health ----
//
// The server side of a connection keeps READING whatever happens to the other direction, and an endpoint
// gives a connection up only when reading fails: a peer that is half dead (shutdown(SHUT_RD), a reset that
// only the writer sees, a full socket buffer) stays registered.  The link refuses or delays the object's
// writes, nothing else changes.

const (
	c13brkFail  = 0 // every write fails with an error that is not io.EOF (EPIPE, ECONNRESET)
	c13brkEOF   = 1 // every write fails with io.EOF: UpdateSignal forgets the registration it was writing to
	c13brkClose = 2 // the whole connection is closed (by the peer): writes fail, the closers forget the registrations
	c13brkOnce  = 3 // the Event writes of the next emission that reaches the connection fail (not io.EOF), later ones succeed
	c13brkSlow  = 4 // Event writes block for a while
)

// c13once: transient failures of a connection.  One failure lasts for the Event writes of ONE emission (the
// first event written to the connection while a failure is pending, and every other frame of that same event):
// what an emission sends does not depend on the order of the registrations then.
type c13once struct {
	mu      sync.Mutex
	pending int
	failing bool
	event   uint32
}

func (o *c13once) arm() { o.mu.Lock(); o.pending++; o.mu.Unlock() }
func (o *c13once) armed() bool {
	o.mu.Lock()
	defer o.mu.Unlock()
	return o.pending > 0
}
func (o *c13once) write(event uint32) error {
	o.mu.Lock()
	defer o.mu.Unlock()
	if o.failing && o.event == event {
		return syscall.EPIPE
	}
	if o.pending > 0 {
		o.pending--
		o.failing, o.event = true, event
		return syscall.EPIPE
	}
	return nil
}

var c13brkNames = []string{"every write fails (EPIPE / ECONNRESET)", "every write fails with io.EOF", "the connection is closed",
	"the Event writes of the next emission fail (EPIPE)", "Event writes block until the peer takes them (slow)"}

func (r *c13raw) usable(c int) bool { _, b := r.bad[c]; return !b }

// breakConn: from now on connection c is in bad health of kind k.
func (r *c13raw) breakConn(c, k int) {
	if r.stopped || !r.usable(c) {
		return
	}
	l := r.w.clients[c].c.Down
	sid := r.w.sid
	text := ""
	switch k {
	case c13brkFail:
		err := error(syscall.EPIPE)
		if (c+len(r.steps))%2 == 1 {
			err = syscall.ECONNRESET
		}
		l.SetFailIf(func(rig.Frame) error { return err })
		r.bad[c] = k
		text = fmt.Sprintf("from now on every write to connection %d fails with %v (the server still reads from it: nothing unregisters it)", c, err)
	case c13brkEOF:
		l.SetFailIf(func(rig.Frame) error { return io.EOF })
		r.bad[c] = k
		text = fmt.Sprintf("from now on every write to connection %d fails with io.EOF (the server still reads from it)", c)
	case c13brkClose:
		r.w.clients[c].c.Close()
		r.bad[c], r.closed[c] = k, true
		text = fmt.Sprintf("connection %d is closed by its peer", c)
		if len(r.steps)%2 == 0 { // either the very next operation finds the server in the middle of noticing, or it has had time
			time.Sleep(3 * time.Millisecond)
			text += " (3 ms ago)"
		}
	case c13brkOnce:
		o, ok := r.once[c]
		if !ok {
			o = &c13once{}
			r.once[c] = o
			l.SetFailIf(func(f rig.Frame) error {
				if !f.Head || f.Hdr.Service != sid || f.Hdr.Type != net.Event {
					return nil
				}
				return o.write(c13val(f.Payload))
			})
		}
		o.arm()
		text = fmt.Sprintf("the Event writes of the next emission that reaches connection %d fail with EPIPE, later writes succeed", c)
	case c13brkSlow:
		r.slow[c] = true
		l.SetBlockIf(func(f rig.Frame) bool { return f.Head && f.Hdr.Service == sid && f.Hdr.Type == net.Event })
		text = fmt.Sprintf("from now on Event writes to connection %d block until its peer takes them", c)
	default:
		return
	}
	r.steps = append(r.steps, &c13rawStep{kind: 3, text: text, coq: fmt.Sprintf("(RBreak %d %d, OAck)", c, k)})
}

func (r *c13raw) fail(kind, format string, a ...interface{}) {
	r.fails = append(r.fails, [2]string{kind, fmt.Sprintf(format, a...)})
}

// reader: a local handler for the events of signal sig on connection c (client.Subscribe: filter on
// service, object, action; the fan-out goroutine hands the payloads over in order).
func (r *c13raw) reader(c int, sig uint32) *c13rawReader {
	k := [2]int{c, int(sig)}
	if rd, ok := r.readers[k]; ok {
		return rd
	}
	rd := &c13rawReader{}
	r.readers[k] = rd
	_, events, err := r.w.clients[c].cl.Subscribe(r.w.sid, 1, sig)
	if err != nil {
		r.fail("stalled", "client.Subscribe(%d) on connection %d: %v", sig, c, err)
		return rd
	}
	go func() {
		for p := range events {
			bad := ""
			if want := c13payload(sig, c13val(p)); !bytes.Equal(p, want) {
				bad = fmt.Sprintf("read a payload of %d bytes starting with %x, which is not the %d bytes emitted as event %d", len(p), p[:c13min(len(p), 12)], len(want), c13val(p))
			}
			rd.mu.Lock()
			rd.got = append(rd.got, c13val(p))
			if bad != "" {
				rd.bad = append(rd.bad, bad)
			}
			rd.mu.Unlock()
		}
		rd.mu.Lock()
		rd.closed = true
		rd.mu.Unlock()
	}()
	return rd
}

func (r *c13raw) live(c int, uid uint64) []*c13reg {
	var l []*c13reg
	for _, g := range r.regs {
		if g.acked && g.unregOp < 0 && g.c == c && g.uid == uid {
			l = append(l, g)
		}
	}
	return l
}

func (r *c13raw) allLive() []*c13reg {
	var l []*c13reg
	for _, g := range r.regs {
		if g.acked && g.unregOp < 0 {
			l = append(l, g)
		}
	}
	return l
}

// call: one call of action act (0 registerEvent, 1 unregisterEvent) on connection c.
// Returns the message id and the answer: 2 Reply, 3 Error, 0 none within the deadline.
func (r *c13raw) call(c int, act uint32, sig uint32, uid uint64) (uint32, uint8) {
	cl := r.w.clients[c]
	payload := append(append(c13le(1), c13le(sig)...), make([]byte, 8)...)
	binary.LittleEndian.PutUint64(payload[8:], uid)
	nu := len(cl.c.Up.Frames())
	done := make(chan struct{})
	go func() { cl.proxy.CallID(act, payload); close(done) }()
	if !r.w.n.WaitFor(c13Wait, func() bool { return len(cl.c.Up.Frames()) > nu }) {
		r.fail("stalled", "the call of action %d on connection %d was not written", act, c)
		return 0, 0
	}
	mid := cl.c.Up.Frames()[nu].Hdr.ID
	answer := func() uint8 {
		for _, f := range cl.c.Down.Frames() {
			if f.Hdr.Service == r.w.sid && f.Hdr.ID == mid && f.Hdr.Action == act && (f.Hdr.Type == net.Reply || f.Hdr.Type == net.Error) {
				return f.Hdr.Type
			}
		}
		return 0
	}
	r.w.n.WaitFor(c13Wait, func() bool { return answer() != 0 })
	t := answer()
	if t != 0 {
		select {
		case <-done:
		case <-time.After(c13Wait):
			r.fail("stalled", "connection %d: the call %d was answered but CallID did not return", c, mid)
		}
	}
	return mid, t
}

func c13obs(t uint8) string {
	switch t {
	case net.Reply:
		return "OAck"
	case net.Error:
		return "ORefused"
	}
	return "ONoAnswer"
}

// register: registerEvent(object 1, sig, uid) on connection c.
func (r *c13raw) register(c int, sig uint32, uid uint64) *c13reg {
	if r.stopped || !r.usable(c) { // no calls on a connection that cannot carry the answer
		return nil
	}
	r.reader(c, sig)
	g := &c13reg{c: c, sig: sig, uid: uid, op: len(r.steps), unregOp: -1}
	mid, t := r.call(c, 0, sig, uid)
	g.mid, g.acked = mid, t == net.Reply
	r.regs = append(r.regs, g)
	st := &c13rawStep{kind: 0, text: fmt.Sprintf("connection %d: registerEvent(signal %d, id %d) as call %d -> %s", c, sig, uid, mid, c13obs(t)),
		coq: fmt.Sprintf("(RReg %d %d %d %d, %s)", c, mid, sig, uid, c13obs(t))}
	r.steps = append(r.steps, st)
	if t == 0 {
		r.noAnswer(st.text)
	}
	return g
}

// unregister: unregisterEvent(object 1, g.sig, g.uid) on g's connection: the unregistration of g itself.
func (r *c13raw) unregister(g *c13reg) {
	if r.stopped || g == nil || !g.acked || g.unregOp >= 0 || !r.usable(g.c) {
		return
	}
	_, t := r.call(g.c, 1, g.sig, g.uid)
	st := &c13rawStep{kind: 1, text: fmt.Sprintf("connection %d: unregisterEvent(signal %d, id %d) -> %s", g.c, g.sig, g.uid, c13obs(t)),
		coq: fmt.Sprintf("(RUnreg %d %d %d, %s)", g.c, g.sig, g.uid, c13obs(t))}
	if t == net.Reply {
		g.unregOp = len(r.steps)
	}
	r.steps = append(r.steps, st)
	if t == 0 {
		r.noAnswer(st.text)
	}
}

// unregisterUnknown: unregisterEvent for an id no live registration of connection c uses.
func (r *c13raw) unregisterUnknown(c int, sig uint32, uid uint64) {
	if r.stopped || len(r.live(c, uid)) > 0 || !r.usable(c) {
		return
	}
	_, t := r.call(c, 1, sig, uid)
	st := &c13rawStep{kind: 1, text: fmt.Sprintf("connection %d: unregisterEvent(signal %d, id %d), an id not registered on that connection -> %s", c, sig, uid, c13obs(t)),
		coq: fmt.Sprintf("(RUnreg %d %d %d, %s)", c, sig, uid, c13obs(t))}
	r.steps = append(r.steps, st)
	if t == 0 {
		r.noAnswer(st.text)
	}
}

// noAnswer: the object does not answer any more.  One last emission per signal that still has
// registrations (the emitter does not need the mailbox goroutine), then nothing.
func (r *c13raw) noAnswer(what string) {
	r.fail("no-answer", "%s: no answer within %v, the object has stopped answering", what, c13Wait)
	seen := map[uint32]bool{}
	for _, g := range r.allLive() {
		if !seen[g.sig] {
			seen[g.sig] = true
			r.emit(g.sig, 0)
		}
	}
	r.stopped = true
}

// emit: UpdateSignal(sig, payload of size class k); the Event frames it wrote, in the order written.
func (r *c13raw) emit(sig uint32, k int) {
	if r.stopped {
		return
	}
	r.pcount++
	p := c13big(k, r.pcount)
	w := r.w
	before := make([]int, len(w.clients))
	for i, cl := range w.clients {
		before[i] = len(cl.c.Down.Frames())
	}
	done := make(chan struct{})
	go func() {
		if sig >= 300 {
			w.obj.UpdateProperty(sig, "i", c13payload(sig, p))
		} else {
			w.obj.UpdateSignal(sig, c13payload(sig, p))
		}
		close(done)
	}()
	st := &c13rawStep{kind: 2, sig: sig, p: p, unreachable: map[int]bool{}}
	for c := range r.bad {
		st.unreachable[c] = true
	}
	for c, o := range r.once {
		if o.armed() {
			st.unreachable[c] = true
		}
	}
	returned := func() bool {
		select {
		case <-done:
			return true
		default:
			return false
		}
	}
	slowBlocked := func() int {
		for c := range r.slow {
			if len(w.clients[c].c.Down.Blocked()) > 0 {
				return c
			}
		}
		return -1
	}
	dl := time.Now().Add(c13Wait)
	for !returned() {
		// a slow connection holds the emitter up for a moment; then its peer takes the frame
		w.n.WaitFor(time.Until(dl), func() bool { return returned() || slowBlocked() >= 0 })
		if c := slowBlocked(); c >= 0 {
			time.Sleep(200 * time.Microsecond)
			w.clients[c].c.Down.Release(nil)
			continue
		}
		if !returned() {
			r.fail("stalled", "UpdateSignal(%d, event %d) did not return within %v", sig, p, c13Wait)
			break
		}
	}
	var fs []rig.Frame
	conn := map[int]int{}
	for i, cl := range w.clients {
		for _, f := range cl.c.Down.Frames()[before[i]:] {
			if f.Hdr.Service == w.sid && f.Hdr.Type == net.Event {
				conn[f.Seq] = i
				fs = append(fs, f)
			}
		}
	}
	sort.Slice(fs, func(i, j int) bool { return fs[i].Seq < fs[j].Seq })
	var items, texts []string
	for _, f := range fs {
		s := c13rawSent{c: conn[f.Seq], mid: f.Hdr.ID, action: f.Hdr.Action, payload: c13val(f.Payload), intact: bytes.Equal(f.Payload, c13payload(sig, p))}
		st.sent = append(st.sent, s)
		items = append(items, fmt.Sprintf("(%d%%nat, %d)", s.c, s.mid))
		texts = append(texts, fmt.Sprintf("connection %d id %d", s.c, s.mid))
	}
	st.text = fmt.Sprintf("emit signal %d, event %d (%d bytes) -> Event frames to [%s]", sig, p, c13size(p), strings.Join(texts, "; "))
	st.coq = fmt.Sprintf("(REmit %d %d, OSent %s)", sig, p, hx.List(items))
	r.steps = append(r.steps, st)
	// every frame written reaches the reader of its connection
	for k, rd := range r.readers {
		want := 0
		for _, s := range r.steps {
			for _, e := range s.sent {
				if e.c == k[0] && int(e.action) == k[1] {
					want++
				}
			}
		}
		r.w.n.WaitFor(c13Wait, func() bool { rd.mu.Lock(); defer rd.mu.Unlock(); return len(rd.got) >= want || rd.closed })
	}
}

func (r *c13raw) readerKeys() [][2]int {
	var ks [][2]int
	for k := range r.readers {
		ks = append(ks, k)
	}
	sort.Slice(ks, func(i, j int) bool { return ks[i][0] < ks[j][0] || (ks[i][0] == ks[j][0] && ks[i][1] < ks[j][1]) })
	return ks
}

func (r *c13raw) history() string {
	var t []string
	if r.w.mode != 0 {
		t = append(t, "object "+c13modeName(r.w.mode))
	}
	for i, s := range r.steps {
		t = append(t, fmt.Sprintf("[%d] %s", i, s.text))
	}
	return strings.Join(t, "; ")
}

// verdicts: the oracles described at the top of this file.
func (r *c13raw) verdicts() [][2]string {
	hist := r.history()
	v := [][2]string{}
	for _, f := range r.fails {
		v = append(v, [2]string{f[0], f[1] + "; sequence: " + hist})
	}
	for i, s := range r.steps {
		if s.kind != 2 {
			continue
		}
		used := make([]bool, len(s.sent))
		for _, g := range r.regs {
			n := 0
			for j, e := range s.sent {
				if e.c == g.c && e.mid == g.mid {
					n++
					used[j] = true
				}
			}
			// a registration on a connection in bad health is owed nothing; everybody else is owed everything
			inWindow := g.acked && g.op < i && (g.unregOp < 0 || i < g.unregOp) && !s.unreachable[g.c]
			switch {
			case g.sig == s.sig && inWindow && n == 0:
				v = append(v, [2]string{"event-lost", fmt.Sprintf("%v was acknowledged and not unregistered, but emission [%d] of its signal sent it no Event frame; sequence: %s", g, i, hist)})
			case g.sig == s.sig && inWindow && n > 1:
				v = append(v, [2]string{"order-or-duplicate", fmt.Sprintf("%v was sent %d Event frames by emission [%d]; sequence: %s", g, n, i, hist)})
			case n > 0 && !g.acked:
				v = append(v, [2]string{"event-for-refused-registration", fmt.Sprintf("%v was refused, but emission [%d] sent it an Event frame; sequence: %s", g, i, hist)})
			case n > 0 && g.unregOp >= 0 && i > g.unregOp:
				v = append(v, [2]string{"event-after-unregister-reply", fmt.Sprintf("%v: emission [%d] sent it an Event frame after step [%d] acknowledged its removal; sequence: %s", g, i, g.unregOp, hist)})
			case n > 0 && g.sig != s.sig:
				v = append(v, [2]string{"other-signal", fmt.Sprintf("%v was sent an Event frame of signal %d by emission [%d]; sequence: %s", g, s.sig, i, hist)})
			}
		}
		for j, e := range s.sent {
			if !used[j] {
				v = append(v, [2]string{"foreign-payload", fmt.Sprintf("emission [%d] wrote an Event frame (connection %d, id %d) that belongs to no registration; sequence: %s", i, e.c, e.mid, hist)})
			}
			if e.action != s.sig || !e.intact {
				v = append(v, [2]string{"payload-corrupt", fmt.Sprintf("emission [%d]: the Event frame written to connection %d (action %d, starts with %d) is not the emitted payload of signal %d; sequence: %s", i, e.c, e.action, e.payload, s.sig, hist)})
			}
		}
	}
	// what the readers read: the frames written to their connection for their signal, in order
	for _, k := range r.readerKeys() {
		rd := r.readers[k]
		var want []uint32
		for _, s := range r.steps {
			for _, e := range s.sent {
				if e.c == k[0] && int(e.action) == k[1] {
					want = append(want, e.payload)
				}
			}
		}
		rd.mu.Lock()
		got := append([]uint32(nil), rd.got...)
		bad := append([]string(nil), rd.bad...)
		closed := rd.closed
		rd.mu.Unlock()
		for _, b := range bad {
			v = append(v, [2]string{"payload-corrupt", fmt.Sprintf("reader of signal %d on connection %d %s; sequence: %s", k[1], k[0], b, hist)})
		}
		if closed && !r.closed[k[0]] { // closed by the sequence itself: the reader is told, as it should be
			v = append(v, [2]string{"closed-while-subscribed", fmt.Sprintf("reader of signal %d on connection %d: its channel was closed (connection lost); sequence: %s", k[1], k[0], hist)})
		}
		if fmt.Sprint(got) != fmt.Sprint(want) {
			kind := "event-lost"
			if len(got) >= len(want) {
				kind = "order-or-duplicate"
			}
			v = append(v, [2]string{kind, fmt.Sprintf("reader of signal %d on connection %d read events %v, the frames written to it carry %v; sequence: %s", k[1], k[0], got, want, hist)})
		}
	}
	return v
}

func (r *c13raw) caseTerm() string {
	var ops []string
	for _, s := range r.steps {
		ops = append(ops, s.coq)
	}
	return fmt.Sprintf("{| rc_ops := %s%%N |}", hx.List(ops))
}

// ---- scripted sequences: one per kind of id collision ----

type c13rawScript struct {
	name  string
	nconn int
	play  func(r *c13raw)
}

func c13rawScripts() []c13rawScript {
	return []c13rawScript{
		{"same-id-two-signals", 1, func(r *c13raw) { // one link id for two signals of the object, as libqi does
			a := r.register(0, 200, 7)
			b := r.register(0, 201, 7)
			r.emit(200, 0)
			r.emit(201, 0)
			r.unregister(b) // only if it was acknowledged
			r.emit(200, 2)
			r.emit(201, 0)
			r.unregister(a)
			r.emit(200, 0)
			r.emit(201, 0)
		}},
		{"same-id-two-signals-first-leaves", 2, func(r *c13raw) {
			o := r.register(1, 200, 7)
			a := r.register(0, 200, 7)
			b := r.register(0, 300, 7)
			c := r.register(0, 201, 8)
			r.emit(200, 0)
			r.emit(300, 0)
			r.unregister(a)
			r.emit(200, 0)
			r.emit(300, 3)
			r.emit(201, 0)
			r.unregister(b)
			r.unregister(c)
			r.emit(300, 0)
			r.emit(201, 0)
			r.emit(200, 0)
			r.unregister(o)
			r.emit(200, 0)
		}},
		{"same-id-registered-again", 1, func(r *c13raw) {
			a := r.register(0, 200, 7)
			a2 := r.register(0, 200, 7) // refused or not, a stays
			r.emit(200, 0)
			r.unregister(a2)
			r.emit(200, 0)
			r.unregister(a)
			r.emit(200, 4)
			a3 := r.register(0, 200, 7) // the id is free again
			r.emit(200, 0)
			r.unregister(a3)
			r.emit(200, 0)
		}},
		{"same-id-two-connections", 2, func(r *c13raw) {
			a := r.register(0, 200, 7)
			b := r.register(1, 200, 7)
			c := r.register(1, 201, 8)
			r.emit(200, 0)
			r.unregister(a)
			r.emit(200, 5)
			r.unregisterUnknown(0, 200, 7)
			r.unregisterUnknown(0, 201, 8) // registered on connection 1 only
			r.emit(201, 0)
			r.emit(200, 0)
			r.unregister(b)
			r.emit(200, 0)
			r.emit(201, 0)
			r.unregister(c)
			r.emit(201, 0)
		}},
		{"one-id-three-signals-two-connections", 2, func(r *c13raw) {
			var gs []*c13reg
			for _, sig := range []uint32{200, 201, 300} {
				gs = append(gs, r.register(0, sig, 7), r.register(1, sig, 7))
			}
			for _, sig := range []uint32{200, 201, 300} {
				r.emit(sig, 0)
			}
			for i, g := range gs {
				r.unregister(g)
				r.emit([]uint32{200, 201, 300}[i%3], i%len(c13sizes))
			}
			for _, sig := range []uint32{200, 201, 300} {
				r.emit(sig, 0)
			}
		}},
	}
}

// c13healthScripts: three connections register signal 200 one after the other; the one at table position pos
// (first, middle, last) also holds a registration of signal 201 and goes bad in way k; emissions; a healthy
// subscriber leaves (swap-remove: the table order changes) and another arrives; emissions go on.  Every healthy
// registration is owed every emission of its signal, whatever sits before it in the table.
func c13healthScripts() []c13rawScript {
	var l []c13rawScript
	for k := 0; k <= c13brkSlow; k++ {
		for pos := 0; pos < 3; pos++ {
			k, pos := k, pos
			name := fmt.Sprintf("bad-health-%d-%s", k, []string{"first", "middle", "last"}[pos])
			l = append(l, c13rawScript{name, 3, func(r *c13raw) {
				var gs []*c13reg
				for c := 0; c < 3; c++ {
					gs = append(gs, r.register(c, 200, uint64(7+c%2))) // connections 0 and 2 use the same id
				}
				r.register(pos, 201, 9)
				y := r.register((pos+1)%3, 201, 9)
				r.emit(200, 0)
				r.emit(201, 0)
				r.breakConn(pos, k)
				r.emit(200, 0)
				r.emit(200, 2)
				r.emit(201, 0)
				r.unregister(gs[(pos+1)%3])
				r.emit(200, 0)
				r.register((pos+1)%3, 200, 8)
				r.emit(200, 0)
				r.emit(201, 0)
				r.breakConn(pos, c13brkOnce) // only if it can still be written to
				r.emit(200, 0)
				r.unregister(y)
				r.emit(201, 0)
				r.emit(200, 3)
			}})
		}
	}
	return l
}

// c13rawRandomHealth: like c13rawRandom over 2-4 connections, with connections going bad at any time, in any way,
// wherever their registrations are in the table; at least one connection stays in good health.
func c13rawRandomHealth(rng *hx.Rng, r *c13raw, nconn, nops int) {
	sigs := []uint32{200, 201, 300}
	ids := []uint64{7, 8}
	good := func() []int {
		var l []int
		for c := 0; c < nconn; c++ {
			if r.usable(c) {
				l = append(l, c)
			}
		}
		return l
	}
	// a table to begin with: every connection registers something, in a random order
	order := make([]int, nconn)
	for i := range order {
		j := rng.Intn(i + 1)
		order[i] = order[j]
		order[j] = i
	}
	for _, c := range order {
		r.register(c, sigs[rng.Intn(2)], ids[rng.Intn(len(ids))])
	}
	for i := 0; i < nops && !r.stopped; i++ {
		g := good()
		switch k := rng.Intn(20); {
		case k < 5:
			r.register(g[rng.Intn(len(g))], sigs[rng.Intn(len(sigs))], ids[rng.Intn(len(ids))])
		case k < 7:
			if l := r.allLive(); len(l) > 0 {
				r.unregister(l[rng.Intn(len(l))])
			}
		case k < 11:
			kind := rng.Intn(c13brkSlow + 1)
			if len(g) < 2 && kind <= c13brkClose {
				kind = c13brkOnce + rng.Intn(2)
			}
			r.breakConn(g[rng.Intn(len(g))], kind)
		default:
			size := 0
			if rng.Intn(6) == 0 {
				size = 1 + rng.Intn(len(c13sizes)-1)
			}
			r.emit(sigs[rng.Intn(len(sigs))], size)
		}
	}
	for _, sig := range sigs { // one last emission per signal: whoever is healthy and registered gets it
		r.emit(sig, 0)
	}
}

// c13rawRandom: a random sequence over nconn connections, three signals and two ids.
func c13rawRandom(rng *hx.Rng, r *c13raw, nconn, nops int) {
	sigs := []uint32{200, 201, 300}
	ids := []uint64{7, 8}
	if rng.Intn(4) == 0 {
		ids = []uint64{7, 1<<40 + 7} // equal in their low 32 bits
	}
	for i := 0; i < nops && !r.stopped; i++ {
		switch k := rng.Intn(20); {
		case k < 8:
			r.register(rng.Intn(nconn), sigs[rng.Intn(len(sigs))], ids[rng.Intn(len(ids))])
		case k < 12:
			if l := r.allLive(); len(l) > 0 {
				r.unregister(l[rng.Intn(len(l))])
			}
		case k < 13:
			r.unregisterUnknown(rng.Intn(nconn), sigs[rng.Intn(len(sigs))], ids[rng.Intn(len(ids))])
		default:
			size := 0
			if rng.Intn(4) == 0 {
				size = 1 + rng.Intn(len(c13sizes)-1)
			}
			r.emit(sigs[rng.Intn(len(sigs))], size)
		}
	}
}

// c13runRaw: scripts and random sequences; failures go to res, the sequences to the case files.
func c13runRaw(res *hx.Result, rng *hx.Rng, tier string, outdir string, cfg string) {
	cf := hx.NewCases(outdir, "C13raw", "From QV Require Import Signals SignalsRaw C13Run.", "raw_mismatches g raws", res, "raws", "rcase")
	cf.Extra = append(cf.Extra, cfg)
	hung := 0 // sequences that ended with an object that does not answer (each one costs a deadline)
	finish := func(r *c13raw, name string) {
		for _, v := range r.verdicts() {
			res.Fail(v[0], v[1])
		}
		var canon []string
		nreg, nem := 0, 0
		for _, s := range r.steps {
			canon = append(canon, s.coq)
			switch s.kind {
			case 0:
				nreg++
			case 2:
				nem++
			}
		}
		res.Count(fmt.Sprintf("raw;mode%d;", r.w.mode)+strings.Join(canon, ";"), nreg >= 2 && nem >= 2)
		res.Dist("kind:" + name)
		res.Dist("object:" + strings.SplitN(c13modeName(r.w.mode), " (", 2)[0])
		res.Sample(fmt.Sprintf("%s: %d operations, %d registerEvent calls, %d emissions", name, len(r.steps), nreg, nem))
		cf.Add("raws", r.caseTerm(), name+" [object "+c13modeName(r.w.mode)+"]: "+r.history())
		r.w.close()
		if r.stopped {
			hung++
		}
	}
	only := strings.TrimPrefix(os.Getenv("QV_C13_HEALTH"), "only:")
	for i, sc := range c13rawScripts() {
		for m := 0; m < 4; m++ {
			if (tier != "thorough" && m != 0 && m != 1+i%3) || hung >= 4 || only != "" {
				continue
			}
			c13mode = m
			r := c13rawNew(sc.nconn)
			c13mode = 0
			sc.play(r)
			finish(r, "raw-script-"+sc.name)
		}
	}
	// connections in bad health next to healthy ones (round 5)
	for i, sc := range c13healthScripts() {
		if hung >= 4 {
			break
		}
		c13mode = 0
		if i%4 == 3 || tier == "thorough" {
			c13mode = (i / 4) % 4
		}
		r := c13rawNew(sc.nconn)
		c13mode = 0
		sc.play(r)
		finish(r, "raw-script-"+sc.name)
	}
	nh := 60
	if tier == "thorough" {
		nh = 2000
	}
	if only != "" {
		fmt.Sscanf(only, "%d", &nh)
	}
	hrng := hx.NewRng(res.Seed*0x9e3779b97f4a7c15 + 1305)
	for i := 0; i < nh && hung < 4; i++ {
		c13mode = i % 4
		nconn := 2 + hrng.Intn(3)
		r := c13rawNew(nconn)
		c13mode = 0
		c13rawRandomHealth(hrng, r, nconn, 8+hrng.Intn(12))
		finish(r, "raw-random-bad-health")
	}
	n := 120
	if tier == "thorough" {
		n = 3000
	}
	if only != "" {
		n = 0
	}
	for i := 0; i < n; i++ {
		if hung >= 4 {
			res.Notes = append(res.Notes, fmt.Sprintf("C13 raw sequences: the object stopped answering in %d sequences, the remaining %d random ones were not run", hung, n-i))
			break
		}
		c13mode = i % 4
		nconn := 1 + rng.Intn(3)
		r := c13rawNew(nconn)
		c13mode = 0
		c13rawRandom(rng, r, nconn, 6+rng.Intn(12))
		finish(r, "raw-random")
	}
	cf.Flush()
}
