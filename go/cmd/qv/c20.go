package main

// C20 — structural conversion (type/conversion).  Type-directed generator over a small
// universe of Go types built by reflection, the real conversion.ConvertFrom (and, in
// c20entry.go, conversion.DecodeFrom and bus.Proxy.Call2), observation of the deep structure of
// the target, property oracles on the implementation's own behaviour, and case shards for the
// model (coq/run/C20Run.v).

import (
	"fmt"
	"math"
	"reflect"
	"sort"
	"strings"

	"github.com/lugu/qiloop/type/conversion"
	"qv/internal/hx"
)

func init() { props["C20"] = runC20 }

type gkind int

const (
	gBool gkind = iota
	gString
	gInt
	gF32
	gF64
	gSlice
	gMap
	gStruct
)

type ikind struct {
	coq    string
	kind   reflect.Kind
	bits   int
	signed bool
}

var ikinds = []ikind{
	{"I8", reflect.Int8, 8, true}, {"I16", reflect.Int16, 16, true}, {"I32", reflect.Int32, 32, true},
	{"I64", reflect.Int64, 64, true}, {"IInt", reflect.Int, 64, true},
	{"U8", reflect.Uint8, 8, false}, {"U16", reflect.Uint16, 16, false}, {"U32", reflect.Uint32, 32, false},
	{"U64", reflect.Uint64, 64, false}, {"UInt", reflect.Uint, 64, false},
}

type gfield struct {
	name string
	t    *gt
}

// gt mirrors Conv.gotype
type gt struct {
	k      gkind
	ik     int
	elem   *gt
	key    *gt
	fields []gfield
	// named: a struct type declared in Go source (c20NamedFamilies) instead of one made by
	// reflect.StructOf; such types can be different and still print the same String()
	named reflect.Type
}

var rtypeOfKind = map[reflect.Kind]reflect.Type{
	reflect.Int8: reflect.TypeOf(int8(0)), reflect.Int16: reflect.TypeOf(int16(0)), reflect.Int32: reflect.TypeOf(int32(0)),
	reflect.Int64: reflect.TypeOf(int64(0)), reflect.Int: reflect.TypeOf(int(0)),
	reflect.Uint8: reflect.TypeOf(uint8(0)), reflect.Uint16: reflect.TypeOf(uint16(0)), reflect.Uint32: reflect.TypeOf(uint32(0)),
	reflect.Uint64: reflect.TypeOf(uint64(0)), reflect.Uint: reflect.TypeOf(uint(0)),
}

func (t *gt) rtype() reflect.Type {
	if t.named != nil {
		return t.named
	}
	switch t.k {
	case gBool:
		return reflect.TypeOf(false)
	case gString:
		return reflect.TypeOf("")
	case gInt:
		return rtypeOfKind[ikinds[t.ik].kind]
	case gF32:
		return reflect.TypeOf(float32(0))
	case gF64:
		return reflect.TypeOf(float64(0))
	case gSlice:
		return reflect.SliceOf(t.elem.rtype())
	case gMap:
		return reflect.MapOf(t.key.rtype(), t.elem.rtype())
	default:
		fs := make([]reflect.StructField, len(t.fields))
		for i, f := range t.fields {
			fs[i] = reflect.StructField{Name: f.name, Type: f.t.rtype()}
		}
		return reflect.StructOf(fs)
	}
}

func (t *gt) coq() string {
	switch t.k {
	case gBool:
		return "TBool"
	case gString:
		return "TString"
	case gInt:
		return "TInt " + ikinds[t.ik].coq
	case gF32:
		return "TFloat32"
	case gF64:
		return "TFloat64"
	case gSlice:
		return "TSlice (" + t.elem.coq() + ")"
	case gMap:
		return "TMap (" + t.key.coq() + ") (" + t.elem.coq() + ")"
	default:
		it := make([]string, len(t.fields))
		for i, f := range t.fields {
			it[i] = fmt.Sprintf("(\"%s\", %s)", f.name, f.t.coq())
		}
		return "TStruct [" + strings.Join(it, "; ") + "]"
	}
}

// Go-ish rendering for samples and failure reports
func (t *gt) String() string {
	switch t.k {
	case gBool:
		return "bool"
	case gString:
		return "string"
	case gInt:
		return ikinds[t.ik].kind.String()
	case gF32:
		return "float32"
	case gF64:
		return "float64"
	case gSlice:
		return "[]" + t.elem.String()
	case gMap:
		return "map[" + t.key.String() + "]" + t.elem.String()
	default:
		it := make([]string, len(t.fields))
		for i, f := range t.fields {
			it[i] = f.name + " " + f.t.String()
		}
		if t.named != nil { // a declared type: its printed name is part of the scenario
			return "(type " + t.named.String() + " struct{" + strings.Join(it, "; ") + "})"
		}
		return "struct{" + strings.Join(it, "; ") + "}"
	}
}

func (t *gt) class() int {
	switch t.k {
	case gF32, gF64:
		return int(gF32)
	default:
		return int(t.k)
	}
}

func (t *gt) depth() int {
	switch t.k {
	case gSlice:
		return 1 + t.elem.depth()
	case gMap:
		d := t.key.depth()
		if e := t.elem.depth(); e > d {
			d = e
		}
		return 1 + d
	case gStruct:
		d := 0
		for _, f := range t.fields {
			if e := f.t.depth(); e > d {
				d = e
			}
		}
		return 1 + d
	}
	return 0
}

func (t *gt) hasMap() bool {
	switch t.k {
	case gSlice:
		return t.elem.hasMap()
	case gMap:
		return true
	case gStruct:
		for _, f := range t.fields {
			if f.t.hasMap() {
				return true
			}
		}
	}
	return false
}

func (t *gt) clone() *gt {
	c := *t
	if t.elem != nil {
		c.elem = t.elem.clone()
	}
	if t.key != nil {
		c.key = t.key.clone()
	}
	if t.fields != nil {
		c.fields = make([]gfield, len(t.fields))
		for i, f := range t.fields {
			c.fields[i] = gfield{f.name, f.t.clone()}
		}
	}
	return &c
}

// ---------- generators ----------

func genScalarType(rng *hx.Rng) *gt {
	switch rng.Intn(8) {
	case 0:
		return &gt{k: gBool}
	case 1:
		return &gt{k: gString}
	case 2:
		return &gt{k: gF32}
	case 3:
		return &gt{k: gF64}
	default:
		return &gt{k: gInt, ik: rng.Intn(len(ikinds))}
	}
}

const nameTail = "abcxyzABCXYZ019_"

func genName(rng *hx.Rng) string {
	b := []byte{byte('A' + rng.Intn(26))}
	if rng.Chance(0.5) { // small alphabet: collisions of lower-cased names are likely enough to matter
		b[0] = byte('A' + rng.Intn(4))
	}
	for n := rng.Intn(4); n > 0; n-- {
		b = append(b, nameTail[rng.Intn(len(nameTail))])
	}
	return string(b)
}

func c20GenType(rng *hx.Rng, depth int) *gt {
	if depth <= 0 || rng.Chance(0.35) {
		return genScalarType(rng)
	}
	switch rng.Intn(3) {
	case 0:
		return &gt{k: gSlice, elem: c20GenType(rng, depth-1)}
	case 1:
		return &gt{k: gMap, key: genScalarType(rng), elem: c20GenType(rng, depth-1)}
	default:
		n := 1 + rng.Intn(4)
		t := &gt{k: gStruct}
		seen := map[string]bool{}
		for len(t.fields) < n {
			nm := genName(rng)
			if len(t.fields) > 0 && rng.Chance(0.25) { // one name a prefix of another
				nm = t.fields[rng.Intn(len(t.fields))].name + string(nameTail[rng.Intn(len(nameTail))])
			}
			if seen[strings.ToLower(nm)] {
				continue
			}
			seen[strings.ToLower(nm)] = true
			t.fields = append(t.fields, gfield{nm, c20GenType(rng, depth-1)})
		}
		return t
	}
}

func recase(rng *hx.Rng, s string) string {
	b := []byte(s)
	for i := 1; i < len(b); i++ {
		if rng.Chance(0.5) {
			switch {
			case b[i] >= 'a' && b[i] <= 'z':
				b[i] -= 32
			case b[i] >= 'A' && b[i] <= 'Z':
				b[i] += 32
			}
		}
	}
	return string(b)
}

// widen derives a structurally compatible target type
func widen(rng *hx.Rng, t *gt) *gt {
	switch t.k {
	case gInt:
		var c []int
		for i, k := range ikinds {
			if k.signed == ikinds[t.ik].signed && k.bits >= ikinds[t.ik].bits {
				c = append(c, i)
			}
		}
		if rng.Chance(0.3) {
			return &gt{k: gInt, ik: t.ik}
		}
		return &gt{k: gInt, ik: c[rng.Intn(len(c))]}
	case gF32:
		if rng.Chance(0.6) {
			return &gt{k: gF64}
		}
		return &gt{k: gF32}
	case gSlice:
		return &gt{k: gSlice, elem: widen(rng, t.elem)}
	case gMap:
		return &gt{k: gMap, key: widen(rng, t.key), elem: widen(rng, t.elem)}
	case gStruct:
		r := &gt{k: gStruct}
		for _, f := range t.fields {
			r.fields = append(r.fields, gfield{recase(rng, f.name), widen(rng, f.t)})
		}
		if rng.Chance(0.7) {
			for i := len(r.fields) - 1; i > 0; i-- {
				j := rng.Intn(i + 1)
				r.fields[i], r.fields[j] = r.fields[j], r.fields[i]
			}
		}
		return r
	}
	return &gt{k: t.k}
}

// sites lists the sub-types of t (pointers into t) with a flag telling whether the site is a map key
type site struct {
	p     *gt
	isKey bool
}

func sites(t *gt, isKey bool, acc *[]site) {
	*acc = append(*acc, site{t, isKey})
	switch t.k {
	case gSlice:
		sites(t.elem, false, acc)
	case gMap:
		sites(t.key, true, acc)
		sites(t.elem, false, acc)
	case gStruct:
		for _, f := range t.fields {
			sites(f.t, false, acc)
		}
	}
}

// perturb edits the target type at one place so that the pair leaves the compatible fragment;
// it returns the name of the edit ("" if none applied).  Map-key positions only receive class
// changes (an error whatever the iteration order), never narrowing: colliding keys would make
// the result depend on Go's map iteration order.
func perturb(rng *hx.Rng, t *gt) string {
	var ss []site
	sites(t, false, &ss)
	for try := 0; try < 40; try++ {
		s := ss[rng.Intn(len(ss))]
		p := s.p
		switch rng.Intn(7) {
		case 0: // another class
			if try < 30 && !rng.Chance(0.2) { // always applicable: keep it from crowding out the other edits
				continue
			}
			for {
				n := c20GenType(rng, 1)
				if s.isKey && n.k >= gSlice {
					continue
				}
				if n.class() != p.class() {
					*p = *n
					return "class-change"
				}
			}
		case 1: // narrower integer
			if p.k == gInt && !s.isKey {
				var c []int
				for i, k := range ikinds {
					if k.signed == ikinds[p.ik].signed && k.bits < ikinds[p.ik].bits {
						c = append(c, i)
					}
				}
				if len(c) > 0 {
					p.ik = c[rng.Intn(len(c))]
					return "narrow-int"
				}
			}
		case 2: // other signedness
			if p.k == gInt && !s.isKey {
				var c []int
				for i, k := range ikinds {
					if k.signed != ikinds[p.ik].signed {
						c = append(c, i)
					}
				}
				p.ik = c[rng.Intn(len(c))]
				return "sign-change"
			}
		case 3:
			if p.k == gF64 && !s.isKey {
				p.k = gF32
				return "narrow-float"
			}
		case 4: // target lacks a field of the source
			if p.k == gStruct && len(p.fields) > 1 {
				i := rng.Intn(len(p.fields))
				p.fields = append(p.fields[:i:i], p.fields[i+1:]...)
				return "field-dropped"
			}
		case 5: // target has a field the source lacks
			if p.k == gStruct {
				nm := "Q" + genName(rng)
				for _, f := range p.fields {
					if strings.EqualFold(f.name, nm) {
						nm = ""
					}
				}
				if nm != "" {
					i := rng.Intn(len(p.fields) + 1)
					fs := append([]gfield{}, p.fields[:i]...)
					fs = append(fs, gfield{nm, c20GenType(rng, 1)})
					p.fields = append(fs, p.fields[i:]...)
					return "field-added"
				}
			}
		case 6: // two fields whose names differ in case only
			if p.k == gStruct && len(p.fields) > 0 {
				f := p.fields[rng.Intn(len(p.fields))]
				if len(f.name) > 1 {
					nm := recase(rng, f.name)
					dup := false
					for _, g := range p.fields {
						if g.name == nm {
							dup = true
						}
					}
					if !dup {
						i := rng.Intn(len(p.fields) + 1)
						fs := append([]gfield{}, p.fields[:i]...)
						fs = append(fs, gfield{nm, c20GenType(rng, 0)})
						p.fields = append(fs, p.fields[i:]...)
						return "ambiguous-name"
					}
				}
			}
		}
	}
	return ""
}

func compatGo(a, b *gt) bool {
	switch a.k {
	case gBool, gString:
		return b.k == a.k
	case gInt:
		return b.k == gInt && ikinds[a.ik].signed == ikinds[b.ik].signed && ikinds[a.ik].bits <= ikinds[b.ik].bits
	case gF32:
		return b.k == gF32 || b.k == gF64
	case gF64:
		return b.k == gF64
	case gSlice:
		return b.k == gSlice && compatGo(a.elem, b.elem)
	case gMap:
		return b.k == gMap && compatGo(a.key, b.key) && compatGo(a.elem, b.elem)
	}
	if b.k != gStruct {
		return false
	}
	uniq := func(t *gt) bool {
		m := map[string]bool{}
		for _, f := range t.fields {
			if m[strings.ToLower(f.name)] {
				return false
			}
			m[strings.ToLower(f.name)] = true
		}
		return true
	}
	if !uniq(a) || !uniq(b) || len(a.fields) != len(b.fields) {
		return false
	}
	for _, f := range a.fields {
		ok := false
		for _, g := range b.fields {
			if strings.EqualFold(f.name, g.name) {
				ok = compatGo(f.t, g.t)
				break
			}
		}
		if !ok {
			return false
		}
	}
	return true
}

var strAlphabet = "abcXYZ019 _-.,:/"

func genInt(rng *hx.Rng, k ikind) (int64, uint64) {
	if k.signed {
		min := int64(-1) << uint(k.bits-1)
		max := -(min + 1)
		switch rng.Intn(8) {
		case 0:
			return 0, 0
		case 1:
			return 1, 0
		case 2:
			return -1, 0
		case 3:
			return min, 0
		case 4:
			return max, 0
		case 5:
			return (int64(1)<<uint(rng.Intn(k.bits-1)) + int64(rng.Intn(3)) - 1) & max, 0
		default:
			return int64(rng.U64()) >> uint(64-k.bits), 0
		}
	}
	max := ^uint64(0) >> uint(64-k.bits)
	switch rng.Intn(7) {
	case 0:
		return 0, 0
	case 1:
		return 0, 1
	case 2:
		return 0, max
	case 3:
		return 0, max >> 1
	case 4:
		return 0, (max >> 1) + 1
	default:
		return 0, rng.U64() & max
	}
}

func genF64(rng *hx.Rng, key bool) float64 {
	for {
		var f float64
		switch rng.Intn(9) {
		case 0:
			f = 0
		case 1:
			f = math.Copysign(0, -1)
		case 2:
			f = float64(rng.Intn(2000)-1000) / 8
		case 3:
			f = math.Float64frombits(rng.U64())
		case 4:
			f = math.Inf(1 - 2*rng.Intn(2))
		case 5: // around the float32 range limits
			f = math.Float64frombits(uint64(rng.Intn(2))<<63 | uint64(1023+120+rng.Intn(12))<<52 | rng.U64()&(1<<52-1))
		case 6: // float32 subnormal range
			f = math.Float64frombits(uint64(rng.Intn(2))<<63 | uint64(1023-155+rng.Intn(32))<<52 | rng.U64()&(1<<52-1))
		case 7: // exact tie between two float32 neighbours
			f = math.Float64frombits(uint64(1023-10+rng.Intn(20))<<52 | (rng.U64()&(1<<52-1))&^(1<<29-1) | 1<<28)
		default:
			f = float64(math.Float32frombits(uint32(rng.U64())))
		}
		if math.IsNaN(f) || (key && f == 0 && math.Signbit(f)) {
			continue
		}
		return f
	}
}

func genF32(rng *hx.Rng, key bool) float32 {
	for {
		var f float32
		switch rng.Intn(6) {
		case 0:
			f = 0
		case 1:
			f = float32(rng.Intn(2000)-1000) / 8
		case 2:
			f = math.MaxFloat32
		case 3:
			f = math.SmallestNonzeroFloat32 * float32(1+rng.Intn(5))
		default:
			f = math.Float32frombits(uint32(rng.U64()))
		}
		if f != f || (key && f == 0 && math.Signbit(float64(f))) {
			continue
		}
		return f
	}
}

// genVal fills v (settable, of type t.rtype()) with a random value
func genVal(rng *hx.Rng, t *gt, v reflect.Value, key bool, budget int) {
	genValOpt(rng, t, v, key, budget, vopt{})
}

// vopt: stale = slices get a backing array whose elements beyond the length are populated too
// (what a slice looks like after it was cut by a shorter conversion); small = containers are
// biased to nil / empty / one element (the second answer stored in a reply variable)
type vopt struct{ stale, small bool }

func genValOpt(rng *hx.Rng, t *gt, v reflect.Value, key bool, budget int, opt vopt) {
	genVal := func(rng *hx.Rng, t *gt, v reflect.Value, key bool, budget int) {
		genValOpt(rng, t, v, key, budget, opt)
	}
	switch t.k {
	case gBool:
		v.SetBool(rng.Bool())
	case gString:
		n := rng.Pick(0, 1, 2, 3, 5, 9)
		b := make([]byte, n)
		for i := range b {
			b[i] = strAlphabet[rng.Intn(len(strAlphabet))]
		}
		v.SetString(string(b))
	case gInt:
		i, u := genInt(rng, ikinds[t.ik])
		if ikinds[t.ik].signed {
			v.SetInt(i)
		} else {
			v.SetUint(u)
		}
	case gF32:
		v.SetFloat(float64(genF32(rng, key)))
	case gF64:
		v.SetFloat(genF64(rng, key))
	case gSlice:
		n := rng.Pick(0, 1, 2, 3, 4)
		if opt.small {
			n = rng.Pick(0, 0, 0, 1, 1, 2)
		}
		if budget <= 0 && n > 1 {
			n = 1
		}
		if n == 0 && rng.Bool() {
			v.Set(reflect.Zero(v.Type())) // nil slice
			return
		}
		c := n + rng.Intn(2)
		if opt.stale {
			c = n + rng.Pick(0, 1, 2)
		}
		s := reflect.MakeSlice(v.Type(), c, c)
		for i := 0; i < c && (i < n || opt.stale); i++ {
			genVal(rng, t.elem, s.Index(i), false, budget-1)
		}
		v.Set(s.Slice(0, n))
	case gMap:
		n := rng.Pick(0, 1, 2, 3, 4)
		if opt.small {
			n = rng.Pick(0, 0, 0, 1, 1, 2)
		}
		if budget <= 0 && n > 1 {
			n = 1
		}
		if n == 0 && rng.Bool() {
			v.Set(reflect.Zero(v.Type())) // nil map
			return
		}
		m := reflect.MakeMap(v.Type())
		for i := 0; i < n; i++ {
			k := reflect.New(t.key.rtype()).Elem()
			genVal(rng, t.key, k, true, 0)
			e := reflect.New(t.elem.rtype()).Elem()
			genVal(rng, t.elem, e, false, budget-1)
			m.SetMapIndex(k, e)
		}
		v.Set(m)
	case gStruct:
		for i, f := range t.fields {
			genVal(rng, f.t, v.Field(i), false, budget-1)
		}
	}
}

// coqVal prints the deep structure of v : t as a Conv.val term; map entries sorted by key text.
// This is the canonical form used for comparison, hashing and reports.
func coqVal(t *gt, v reflect.Value) string {
	switch t.k {
	case gBool:
		return "VBool " + hx.Bool(v.Bool())
	case gString:
		return "VStr \"" + strings.ReplaceAll(v.String(), "\"", "\"\"") + "\""
	case gInt:
		if ikinds[t.ik].signed {
			if v.Int() < 0 {
				return fmt.Sprintf("VInt (%d)", v.Int())
			}
			return fmt.Sprintf("VInt %d", v.Int())
		}
		return fmt.Sprintf("VInt %d", v.Uint())
	case gF32, gF64:
		return fmt.Sprintf("VFloat %d", math.Float64bits(v.Float()))
	case gSlice:
		it := make([]string, v.Len())
		for i := range it {
			it[i] = coqVal(t.elem, v.Index(i))
		}
		return "VSlice [" + strings.Join(it, "; ") + "]"
	case gMap:
		var it []string
		for _, k := range v.MapKeys() {
			it = append(it, "("+coqVal(t.key, k)+", "+coqVal(t.elem, v.MapIndex(k))+")")
		}
		sort.Strings(it)
		return "VMap [" + strings.Join(it, "; ") + "]"
	default:
		it := make([]string, len(t.fields))
		for i, f := range t.fields {
			it[i] = coqVal(f.t, v.Field(i))
		}
		return "VStruct [" + strings.Join(it, "; ") + "]"
	}
}

// coqDirty prints what a destination holds before a conversion as a Conv.dval term: the deep
// structure of v with every slice given by its length and its whole backing array (Cap()
// elements) — the elements beyond the length are what convertSlice finds in place when it
// re-extends the slice.
func coqDirty(t *gt, v reflect.Value) string {
	switch t.k {
	case gSlice:
		if v.IsNil() {
			return "DSlice 0 []"
		}
		w := v.Slice(0, v.Cap())
		it := make([]string, w.Len())
		for i := range it {
			it[i] = coqDirty(t.elem, w.Index(i))
		}
		return fmt.Sprintf("DSlice %d [%s]", v.Len(), strings.Join(it, "; "))
	case gMap:
		var it []string
		for _, k := range v.MapKeys() {
			it = append(it, "("+coqVal(t.key, k)+", "+coqDirty(t.elem, v.MapIndex(k))+")")
		}
		sort.Strings(it)
		return "DMap [" + strings.Join(it, "; ") + "]"
	case gStruct:
		it := make([]string, len(t.fields))
		for i, f := range t.fields {
			it[i] = coqDirty(f.t, v.Field(i))
		}
		return "DStruct [" + strings.Join(it, "; ") + "]"
	}
	return "DVal (" + coqVal(t, v) + ")"
}

// leavesGo: scalar leaves of v as a sorted multiset of texts
func leavesGo(t *gt, v reflect.Value, acc *[]string) {
	switch t.k {
	case gSlice:
		for i := 0; i < v.Len(); i++ {
			leavesGo(t.elem, v.Index(i), acc)
		}
	case gMap:
		for _, k := range v.MapKeys() {
			leavesGo(t.key, k, acc)
			leavesGo(t.elem, v.MapIndex(k), acc)
		}
	case gStruct:
		for i, f := range t.fields {
			leavesGo(f.t, v.Field(i), acc)
		}
	default:
		*acc = append(*acc, coqVal(t, v))
	}
}

func hasNonEmptyMap(t *gt, v reflect.Value) bool {
	switch t.k {
	case gSlice:
		for i := 0; i < v.Len(); i++ {
			if hasNonEmptyMap(t.elem, v.Index(i)) {
				return true
			}
		}
	case gMap:
		return v.Len() > 0
	case gStruct:
		for i, f := range t.fields {
			if hasNonEmptyMap(f.t, v.Field(i)) {
				return true
			}
		}
	}
	return false
}

// agreeGo: every element, key and field of b : tb equals the one of a : ta at the same place
// (positions, keys, lower-cased field names); written on the values only, independently of the
// conversion code.  Returns "" or a description of the first difference.
func agreeGo(ta, tb *gt, a, b reflect.Value, path string) string {
	return agreeGoX(ta, tb, a, b, path, false)
}

// extraEntries = true: map entries of b under keys that a does not have are not a difference
// (used only to recognise the known finding map_keeps_old_entries: if the result agrees with the
// source up to such entries, entries kept from the previous content are the whole difference)
func agreeGoX(ta, tb *gt, a, b reflect.Value, path string, extraEntries bool) string {
	agreeGo := func(ta, tb *gt, a, b reflect.Value, path string) string {
		return agreeGoX(ta, tb, a, b, path, extraEntries)
	}
	if ta.class() != tb.class() {
		return path + ": kinds differ"
	}
	switch ta.k {
	case gBool, gString, gInt, gF32, gF64:
		if coqVal(ta, a) != coqVal(tb, b) {
			return fmt.Sprintf("%s: %s became %s", path, coqVal(ta, a), coqVal(tb, b))
		}
	case gSlice:
		if a.Len() != b.Len() {
			return fmt.Sprintf("%s: length %d became %d", path, a.Len(), b.Len())
		}
		for i := 0; i < a.Len(); i++ {
			if d := agreeGo(ta.elem, tb.elem, a.Index(i), b.Index(i), fmt.Sprintf("%s[%d]", path, i)); d != "" {
				return d
			}
		}
	case gMap:
		if a.Len() != b.Len() && !(extraEntries && a.Len() < b.Len()) {
			return fmt.Sprintf("%s: %d entries became %d", path, a.Len(), b.Len())
		}
		for _, k := range a.MapKeys() {
			found := false
			for _, k2 := range b.MapKeys() {
				if agreeGo(ta.key, tb.key, k, k2, "") == "" {
					found = true
					if d := agreeGo(ta.elem, tb.elem, a.MapIndex(k), b.MapIndex(k2), path+"["+coqVal(ta.key, k)+"]"); d != "" {
						return d
					}
				}
			}
			if !found {
				return fmt.Sprintf("%s: key %s is missing", path, coqVal(ta.key, k))
			}
		}
	case gStruct:
		for i, f := range ta.fields {
			found := false
			for j, g := range tb.fields {
				if strings.EqualFold(f.name, g.name) {
					found = true
					if d := agreeGo(f.t, g.t, a.Field(i), b.Field(j), path+"."+f.name); d != "" {
						return d
					}
					break
				}
			}
			if !found {
				return path + "." + f.name + ": no such field in the result"
			}
		}
	}
	return ""
}

// otherKindReached: converting v : from into `to` meets, at the top or at an element, key or
// matched field that v holds, two kinds of different classes (mirrors Conv.other_kind_reached;
// the run file checks that both agree on every case)
//
// skipMapElems: do not look inside map elements — the pinned convertMap never converts them, so
// only a mismatch found with skipMapElems is something the known defect does not explain.
func otherKindReached(to, from *gt, v reflect.Value, skipMapElems bool) bool {
	if to.class() != from.class() {
		return true
	}
	switch to.k {
	case gSlice:
		for i := 0; i < v.Len(); i++ {
			if otherKindReached(to.elem, from.elem, v.Index(i), skipMapElems) {
				return true
			}
		}
	case gMap:
		for _, k := range v.MapKeys() {
			if otherKindReached(to.key, from.key, k, skipMapElems) ||
				(!skipMapElems && otherKindReached(to.elem, from.elem, v.MapIndex(k), skipMapElems)) {
				return true
			}
		}
	case gStruct:
		for _, f := range to.fields {
			for j, g := range from.fields {
				if strings.EqualFold(f.name, g.name) {
					if otherKindReached(f.t, g.t, v.Field(j), skipMapElems) {
						return true
					}
					break
				}
			}
		}
	}
	return false
}

type c20obs struct {
	err      error
	panicked string
	dst      reflect.Value // addressable target
}

func convertReal(t2 *gt, src reflect.Value, byPtr bool) (o c20obs) {
	return convertInto(reflect.New(t2.rtype()), src, byPtr)
}

// convertInto: ConvertFrom(dst, src) where dst (a pointer) may point to a value that is not fresh
func convertInto(dst reflect.Value, src reflect.Value, byPtr bool) (o c20obs) {
	o.dst = dst.Elem()
	defer func() {
		if e := recover(); e != nil {
			o.panicked = fmt.Sprint(e)
		}
	}()
	if byPtr {
		p := reflect.New(src.Type())
		p.Elem().Set(src)
		o.err = conversion.ConvertFrom(dst.Interface(), p.Interface())
	} else {
		o.err = conversion.ConvertFrom(dst.Interface(), src.Interface())
	}
	return o
}

// probeC20 replays the witness of C20_refuted_map_value_into_key on the implementation
func probeC20(res *hx.Result) bool {
	src := map[int8]int8{1: 5}
	var dst map[int16]int16
	err := conversion.ConvertFrom(&dst, src)
	on := false
	switch {
	case err == nil && len(dst) == 1 && dst[1] == 5:
	case err == nil && len(dst) == 1 && dst[5] == 0:
		if _, ok := dst[5]; ok {
			on = true
		}
	default:
		res.Fail("probe", fmt.Sprintf("ConvertFrom(&map[int16]int16, map[int8]int8{1:5}) gave %v, err=%v: neither the value-preserving result nor the known defect", dst, err))
	}
	var d2 map[string]int8
	err2 := conversion.ConvertFrom(&d2, map[string]int8{"a": 1})
	if on != (err2 != nil) {
		res.Fail("probe", fmt.Sprintf("second witness inconsistent with the first: map[string]int8{\"a\":1} into its own type gave %v, err=%v", d2, err2))
	}
	res.Switch("map_value_into_key", on, fmt.Sprintf("conversion.ConvertFrom(&dst /* map[int16]int16 */, map[int8]int8{1: 5}) leaves dst = %v (expected map[1:5]); "+
		"ConvertFrom(&d2 /* map[string]int8 */, map[string]int8{\"a\": 1}) returns err = %v (expected nil): "+
		"convertMap converts the map value into the key variable and never fills the element", dst, err2))
	return on
}

// probeC20Keeps replays the witness of C20_refuted_map_keeps_old_entries: a destination map that
// already holds an entry
func probeC20Keeps(res *hx.Result) bool {
	dst := map[int16]int16{7: 7}
	err := conversion.ConvertFrom(&dst, map[int8]int8{1: 5})
	_, kept := dst[7]
	if err != nil || len(dst) < 1 || len(dst) > 2 || (len(dst) == 2) != kept {
		res.Fail("probe", fmt.Sprintf("dst := map[int16]int16{7:7}; ConvertFrom(&dst, map[int8]int8{1:5}) gave %v, err=%v: neither one converted entry nor that entry next to the old one", dst, err))
		return false
	}
	var back map[int8]int8
	errb := conversion.ConvertFrom(&back, dst)
	res.Switch("map_keeps_old_entries", kept, fmt.Sprintf("dst := map[int16]int16{7: 7}; conversion.ConvertFrom(&dst, map[int8]int8{1: 5}) leaves dst = %v (expected map[1:5]: "+
		"the entry 7:7 is not the source's); converting dst back into a fresh map[int8]int8 gives %v, err=%v (expected map[1:5]): "+
		"convertMap stores into the map the destination already holds and never removes what was there", dst, back, errb))
	return kept
}

// c20env: what one run shares between its scenario families
type c20env struct {
	res    *hx.Result
	rng    *hx.Rng
	cf     *hx.Cases
	defect bool // switch map_value_into_key observed on
	keeps  bool // switch map_keeps_old_entries observed on
	// built: how the source value of the next evaluate was laid out in memory when its parts
	// share storage (c20alias.go); part of the failure report, "" for separately allocated parts
	built string
	// entry: the entry point the next evaluate goes through (c20entry.go); nil = conversion.ConvertFrom
	// on the value itself.  history: the calls made earlier in the same sequence, for the report
	entry   *c20entry
	history string
	// encodeInto: conversion.EncodeInto is usable on this tree (c20EncodeIntoUsable)
	encodeInto bool
}

func (e *c20env) emit(t1, t2 *gt, canon string, comp, other bool, resTerm, oldTerm, desc string) {
	e.emitVia("EConvertFrom", t1, t2, canon, comp, other, resTerm, oldTerm, desc)
}

// emitVia: entry is a Conv.entry term (which entry point the implementation was called through)
func (e *c20env) emitVia(entry string, t1, t2 *gt, canon string, comp, other bool, resTerm, oldTerm, desc string) {
	e.cf.Add("cases", fmt.Sprintf("{| c_from := %s; c_to := %s; c_val := %s; c_compat := %s; c_other := %s; c_res := %s; c_old := %s; c_entry := %s |}",
		t1.coq(), t2.coq(), canon, hx.Bool(comp), hx.Bool(other), resTerm, oldTerm, entry), desc)
}

// evaluate runs conversion.ConvertFrom(dst, src) for src : t1 and dst : *t2 (fresh when dirty is
// false, otherwise holding whatever the scenario left there), applies the property oracles to
// what the implementation did and writes the case for the model.  It reports whether the
// conversion returned without error.
func (e *c20env) evaluate(t1, t2 *gt, src, dst reflect.Value, dirty bool, kind string) bool {
	res, rng := e.res, e.rng
	oldTerm, oldDesc := "None", ""
	if dirty {
		old := coqDirty(t2, dst.Elem())
		oldTerm = "Some (" + old + ")"
		oldDesc = fmt.Sprintf(" into a destination that holds %s (DSlice length [whole backing array])", old)
	}
	byPtr := rng.Bool()
	before := coqVal(t1, src)
	entry, entryTerm := e.entry, "EConvertFrom"
	var o c20obs
	if entry != nil {
		o = entry.run(dst, src)
		entryTerm = entry.coq
	} else {
		o = convertInto(dst, src, byPtr)
	}
	// the way back goes through the same kind of entry point
	wayBack := func(dst, src reflect.Value) c20obs {
		if entry != nil {
			return c20DecodeInto(dst, src)
		}
		return convertInto(dst, src, byPtr)
	}
	backTerm := "EConvertFrom"
	if entry != nil {
		backTerm = "EDecodeFrom"
	}
	canon := coqVal(t1, src)
	desc := fmt.Sprintf("%s: %s -> %s, value %s%s", kind, t1, t2, canon, oldDesc)
	if entry != nil {
		desc = fmt.Sprintf("%s: %s: %s -> %s, value %s%s", kind, entry.name, t1, t2, canon, oldDesc)
	}
	if e.built != "" {
		desc += " [the source shares storage: " + e.built + "]"
	}
	if e.history != "" {
		desc += " [earlier in this process: " + e.history + "]"
	}
	if before != canon {
		res.Fail("source-modified", fmt.Sprintf("%s: the source value was %s before the call", desc, before))
	}
	comp := compatGo(t1, t2)
	other := otherKindReached(t2, t1, src, false)
	// a reply read directly (c20entry.direct) is not converted: the second clause has no object
	judgeOther := entry == nil || !entry.direct
	known := e.defect && hasNonEmptyMap(t1, src)
	fail := func(oracle, detail string) {
		if known {
			res.FailKnown(oracle, detail, "map_value_into_key")
		} else {
			res.Fail(oracle, detail)
		}
	}
	resTerm := "None"
	switch {
	case o.panicked != "":
		res.Fail("panic", fmt.Sprintf("the conversion panicked (%s) on %s", o.panicked, desc))
		return false
	case o.err == nil:
		resTerm = "Some (" + coqVal(t2, o.dst) + ")"
	}
	// ---- property oracles, on the implementation's own behaviour ----
	if comp {
		if o.err != nil {
			fail("compatible-refused", fmt.Sprintf("%s: the conversion returned an error for structurally compatible types: %v", desc, o.err))
		} else {
			preserved := false
			if d := agreeGo(t1, t2, src, o.dst, "value"); d != "" {
				detail := fmt.Sprintf("%s: converted value is %s; %s", desc, coqVal(t2, o.dst), d)
				if dirty && e.keeps && !known && agreeGoX(t1, t2, src, o.dst, "value", true) == "" {
					// the result is the source plus map entries the destination held before: the known finding, nothing else
					res.FailKnown("value-preserved", detail, "map_keeps_old_entries")
				} else {
					fail("value-preserved", detail)
				}
			} else {
				preserved = true
				var la, lb []string
				leavesGo(t1, src, &la)
				leavesGo(t2, o.dst, &lb)
				sort.Strings(la)
				sort.Strings(lb)
				if strings.Join(la, "|") != strings.Join(lb, "|") {
					fail("leaves", fmt.Sprintf("%s: leaves of the result %v differ from the source's %v", desc, lb, la))
				}
			}
			if preserved || !dirty {
				back := wayBack(reflect.New(t1.rtype()), o.dst)
				if back.panicked != "" || back.err != nil || coqVal(t1, back.dst) != canon {
					fail("convert-back", fmt.Sprintf("%s: converting the result %s back gives %s (err %v %s)", desc, coqVal(t2, o.dst), coqVal(t1, back.dst), back.err, back.panicked))
				}
			}
			if preserved && dirty {
				// the way back into a variable that is not fresh either (the source side re-uses its variable too)
				bd := reflect.New(t1.rtype())
				genValOpt(rng, t1, bd.Elem(), false, 2, vopt{stale: true})
				bold := coqDirty(t1, bd.Elem())
				val2 := coqVal(t2, o.dst)
				back := wayBack(bd, o.dst)
				bdesc := fmt.Sprintf("%s: converting the result %s back into a %s that holds %s", desc, val2, t1, bold)
				bres := "None"
				switch {
				case back.panicked != "":
					res.Fail("panic", fmt.Sprintf("the conversion panicked (%s) on %s", back.panicked, bdesc))
				case back.err != nil:
					fail("convert-back", fmt.Sprintf("%s returns an error: %v", bdesc, back.err))
				default:
					bres = "Some (" + coqVal(t1, back.dst) + ")"
					if coqVal(t1, back.dst) != canon {
						detail := fmt.Sprintf("%s gives %s", bdesc, coqVal(t1, back.dst))
						if e.keeps && !known && agreeGoX(t1, t1, src, back.dst, "value", true) == "" {
							res.FailKnown("convert-back", detail, "map_keeps_old_entries")
						} else {
							fail("convert-back", detail)
						}
					}
				}
				if back.panicked == "" {
					res.Dist("dirty:way-back")
					e.emitVia(backTerm, t2, t1, val2, compatGo(t2, t1), otherKindReached(t1, t2, o.dst, false), bres, "Some ("+bold+")", "way back of "+desc)
				}
			}
		}
	} else if !judgeOther {
		res.Dist("not-judged(read directly, names ambiguous)")
	} else if t1.class() != t2.class() && o.err == nil {
		res.Fail("other-kind-accepted", fmt.Sprintf("%s: kinds of different classes were converted, result %s", desc, coqVal(t2, o.dst)))
	} else if other && o.err == nil && otherKindReached(t2, t1, src, true) {
		// reached outside map elements: the known convertMap defect cannot be the reason
		res.Fail("other-kind-accepted", fmt.Sprintf("%s: a key, element or field of a kind of another class was converted, result %s", desc, coqVal(t2, o.dst)))
	} else if other && o.err == nil {
		fail("other-kind-accepted", fmt.Sprintf("%s: an element, key or field of a kind of another class was converted, result %s", desc, coqVal(t2, o.dst)))
	}
	if other {
		res.Dist("other-kind-reached")
	}
	nontrivial := t1.hasMap() || (t1.depth() >= 2)
	res.Count(t1.coq()+"|"+t2.coq()+"|"+canon+"|"+oldTerm+e.built+"|"+entryTerm+e.history, nontrivial)
	res.Dist("pair:" + kind)
	res.Dist(fmt.Sprintf("depth:%d", t1.depth()))
	if t1.hasMap() {
		res.Dist("with-map")
	}
	if o.err != nil {
		res.Dist("result:error")
	} else {
		res.Dist("result:ok")
	}
	if dirty {
		res.Dist("destination:not-fresh")
	} else {
		res.Dist("destination:fresh")
	}
	if !comp && t1.class() == t2.class() {
		res.Dist("not-judged(same class, outside the compatible fragment)")
	}
	res.Sample(desc + " => " + resTerm)
	e.emitVia(entryTerm, t1, t2, canon, comp, other, resTerm, oldTerm, desc)
	return o.err == nil
}

// c20GenPair draws a (source type, target type) pair: compatible by construction, then left as
// it is or moved out of the compatible fragment at one place
func c20GenPair(rng *hx.Rng, depth int) (*gt, *gt, string) {
	return c20GenPairFrom(rng, c20GenType(rng, depth))
}

// c20GenPairFrom: the same for a given source type (no node of t1 may occur twice in it: the
// edits are made in place)
func c20GenPairFrom(rng *hx.Rng, t1 *gt) (*gt, *gt, string) {
	t2 := widen(rng, t1)
	kind := "compatible"
	switch r := rng.Intn(10); {
	case r < 4:
	case r < 5: // reverse direction of a compatible pair: narrowing everywhere
		t1, t2 = t2, t1
		kind = "reversed"
		if compatGo(t1, t2) {
			kind = "compatible"
		} else {
			var ss []site
			sites(t2, false, &ss)
			// a narrowed map key could collide: result would depend on iteration order
			for _, s := range ss {
				if s.isKey {
					kind = ""
				}
			}
			if kind == "" {
				t1, t2 = t2, t1
				kind = "compatible"
			}
		}
	case r < 6: // unrelated top-level kinds
		for {
			t2 = c20GenType(rng, 1)
			if t2.class() != t1.class() {
				break
			}
		}
		kind = "top-class-mismatch"
	case r < 8:
		if k := perturb(rng, t2); k != "" {
			kind = k
		}
	default: // the same edits on the source side (the target keeps the compatible shape)
		if k := perturb(rng, t1); k != "" {
			kind = "source-" + k
		}
	}
	return t1, t2, kind
}

// reusedDestination: one destination variable receives several conversions in a row, as a reply
// variable of a proxy call used again or a struct "populated with default values" (the words of
// ConvertFrom's documentation).  The destination starts either fresh (and is then dirtied by the
// first conversion) or filled with an arbitrary value of its type, stale elements behind the
// length of its slices included; the following sources are biased to nil / empty / shorter
// containers and fewer keys, so that whatever the destination held has to go away.
func (e *c20env) reusedDestination() { e.reusedDestinationOf(false) }

// shared = true: the types come from c20GenSharingPair and every source is rebuilt with storage
// shared between its parts (c20alias.go)
func (e *c20env) reusedDestinationOf(shared bool) {
	rng := e.rng
	var t1, t2 *gt
	var kind string
	for try := 0; ; try++ {
		if shared {
			t1, t2, kind = c20GenSharingPair(rng)
			kind = "shared:" + kind
		} else {
			t1, t2, kind = c20GenPair(rng, rng.Pick(1, 1, 2, 2, 2, 3))
		}
		if try >= 4 || (t2.k >= gSlice && (compatGo(t1, t2) || rng.Chance(0.3))) {
			break
		}
	}
	dst := reflect.New(t2.rtype())
	dirty := false
	if rng.Bool() {
		genValOpt(rng, t2, dst.Elem(), false, 2, vopt{stale: true})
		dirty = true
		e.res.Dist("dirty:filled-directly")
	} else {
		e.res.Dist("dirty:by-an-earlier-conversion")
	}
	steps := 2 + rng.Intn(2)
	for i := 0; i < steps; i++ {
		src := reflect.New(t1.rtype()).Elem()
		if shared {
			src = e.sharedSource(t1, vopt{small: i >= 1 && rng.Chance(0.3)})
		} else {
			genValOpt(rng, t1, src, false, 2, vopt{small: i == 1 || (i > 1 && rng.Bool())})
		}
		k := kind
		if dirty {
			k = "reused:" + kind
		}
		ok := e.evaluate(t1, t2, src, dst, dirty, k)
		e.built = ""
		if !ok {
			// after an error the destination is half written in map iteration order: not a reproducible starting point
			return
		}
		dirty = true
	}
}

func runC20(res *hx.Result, rng *hx.Rng, tier string, outdir string) {
	res.Rule = "case = (source type, target type, source value, previous content of the destination) over bool/string/10 integer kinds/float32/float64/slice/map/struct, depth <= 3; " +
		"targets are derived from the source type by widening, field permutation and re-casing (compatible) and then perturbed at one place " +
		"(class change, narrowing, sign change, missing/extra/ambiguous field) for the rest; the destination is fresh, or re-used: left by an earlier conversion " +
		"into the same variable or filled with an arbitrary value (stale elements behind slice lengths included), with later sources biased to empty/shorter containers; " +
		"plus struct types declared in Go source that are different and print the same reflect String(), converted one after the other in this process; " +
		"plus sources whose parts share storage (types holding one slice or map type at several places: rows, fields, map elements; a slice laid out as the same piece, " +
		"a prefix, a longer piece or a window of the array of an earlier one, a map as the very map met earlier), into fresh and re-used destinations; " +
		"plus sequences of calls in one process through every entry point (conversion.ConvertFrom, conversion.DecodeFrom on the bytes of the value, bus.Proxy.Call2 / CallID+DecodeFrom " +
		"against a proxy whose meta object advertises the return signature of the remote type): 1-3 remote types and 1-3 caller types each (same signature, compatible, perturbed, another class), " +
		"later replies biased to fewer keys and shorter lists, destinations fresh or the reply variable of the call before, calls going on after a refused one; " +
		"non-trivial = the source type contains a map or a container nested in a container; distinct by sha256 of (types, canonical value, previous content)"
	// hx.NewRng(seed) and hx.NewRng(seed+1) produce the same stream shifted by one draw (the seed is
	// multiplied by the generator's own increment); re-seeding from the first output decorrelates them
	rng = hx.NewRng(rng.U64())
	n, nReused, nShared, nSharedReused, nSeq := 1000, 350, 500, 120, 300
	if tier == "thorough" {
		n, nReused, nShared, nSharedReused, nSeq = 40000, 8000, 20000, 4000, 8000
	}
	defect := probeC20(res)
	keeps := probeC20Keeps(res)
	cf := hx.NewCases(outdir, "C20", "From QV Require Import Conv C20Run.", "mismatches cfg_obs cases", res, "cases", "ccase")
	cf.Extra = append(cf.Extra, "Local Open Scope string_scope.",
		fmt.Sprintf("Definition cfg_obs : cfg := {| map_value_into_key := %s; map_keeps_old_entries := %s |}.", hx.Bool(defect), hx.Bool(keeps)))
	e := &c20env{res: res, rng: rng, cf: cf, defect: defect, keeps: keeps}

	one := func(t1, t2 *gt, kind string) {
		src := reflect.New(t1.rtype()).Elem()
		genVal(rng, t1, src, false, 2)
		e.evaluate(t1, t2, src, reflect.New(t2.rtype()), false, kind)
	}

	for i := 0; i < n; i++ {
		t1, t2, kind := c20GenPair(rng, rng.Pick(0, 1, 1, 2, 2, 2, 3, 3))
		one(t1, t2, kind)
	}
	for i := 0; i < nReused; i++ {
		e.reusedDestination()
	}
	e.sameNameTypes()
	e.sharedStorage(nShared, nSharedReused)
	e.entrySequences(nSeq)
	if tier == "thorough" {
		exhaustiveC20(one)
		res.Exhaustive = true
		res.Notes = append(res.Notes, "exhaustive part: all 15x15 pairs of scalar types (4 values each), and every compatible scalar pair under each container "+
			"(slice, map key, map element, struct field) at depth 1 (2 values) and under every container-of-container at depth 2 (1 value)")
	}
	cf.Flush()
}

func allScalars() []*gt {
	r := []*gt{{k: gBool}, {k: gString}, {k: gF32}, {k: gF64}}
	for i := range ikinds {
		r = append(r, &gt{k: gInt, ik: i})
	}
	return r
}

// wrap1 puts the pair (a, b) under container c (0 slice, 1 map key, 2 map element, 3 struct field)
func wrap1(c int, a, b *gt) (*gt, *gt) {
	switch c {
	case 0:
		return &gt{k: gSlice, elem: a}, &gt{k: gSlice, elem: b}
	case 1:
		return &gt{k: gMap, key: a, elem: &gt{k: gString}}, &gt{k: gMap, key: b, elem: &gt{k: gString}}
	case 2:
		return &gt{k: gMap, key: &gt{k: gInt, ik: 0}, elem: a}, &gt{k: gMap, key: &gt{k: gInt, ik: 1}, elem: b}
	default:
		return &gt{k: gStruct, fields: []gfield{{"Xa", a}, {"Y", &gt{k: gBool}}}}, &gt{k: gStruct, fields: []gfield{{"Y", &gt{k: gBool}}, {"XA", b}}}
	}
}

func exhaustiveC20(one func(t1, t2 *gt, kind string)) {
	sc := allScalars()
	for _, a := range sc {
		for _, b := range sc {
			for i := 0; i < 4; i++ {
				one(a.clone(), b.clone(), "exhaustive-scalar")
			}
			if !compatGo(a, b) {
				continue
			}
			for c := 0; c < 4; c++ {
				t1, t2 := wrap1(c, a.clone(), b.clone())
				if c == 1 && a.k >= gSlice {
					continue
				}
				one(t1, t2, "exhaustive-depth1")
				one(t1.clone(), t2.clone(), "exhaustive-depth1")
				for d := 0; d < 4; d++ {
					if d == 1 {
						continue // containers are not map keys
					}
					u1, u2 := wrap1(d, t1.clone(), t2.clone())
					one(u1, u2, "exhaustive-depth2")
				}
			}
		}
	}
}
