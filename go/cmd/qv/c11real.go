package main

// c11real.go — oracle-only runs of C11 over the real transports of bus/net, each under the real
// stream wrapper the package builds for it:
//   netpipe  net.ConnStream over net.Pipe()                      (net.Pipe(), the in-memory transport)
//   unix     net.ConnStream over a unix socket                   (dialUNIX / connListener)
//   tcp      net.ConnStream over a loopback TCP connection       (dialTCP / connListener)
//   tls      net.ConnStream over tls.Client over loopback TCP    (dialTLS)
//   pipe     net.PipeStream over two os.Pipe()                   (dialPipe / pipeListener)
// The client has a disconnect callback, a subscription and 1..3 calls in flight which the peer
// never answers.  Then the connection is lost:
//   * by a real event: the peer closes, shuts its sending side down, resets the connection
//     (SO_LINGER 0), the read deadline of the connection expires (a persistent error whose
//     Temporary() and Timeout() are true), the client closes;
//   * by an injected one (the four net.Conn transports): a wrapper between the real connection and
//     bus/net's wrapper makes every Read fail with each kind of c11kinds.go, persistent or
//     once-then-EOF, the blocked Read included; or makes the Writes fail first (a call made
//     then must return an error on its own) and the Reads afterwards.
// Whatever the kind: every call returns an error, the events channel is closed, the callback has
// run exactly once, within the bound; a later call fails as well.

import (
	"crypto/ecdsa"
	"crypto/elliptic"
	"crypto/rand"
	"crypto/tls"
	"crypto/x509"
	"crypto/x509/pkix"
	"fmt"
	"io"
	"io/ioutil"
	"math/big"
	gonet "net"
	"os"
	"path/filepath"
	"sync"
	"sync/atomic"
	"time"

	"github.com/lugu/qiloop/bus"
	"github.com/lugu/qiloop/bus/net"

	"qv/internal/hx"
)

// c11FaultConn: a real connection whose Reads and Writes start failing on command.
type c11FaultConn struct {
	gonet.Conn
	mu      sync.Mutex
	rdDead  bool
	rdErr   error
	rdOnce  bool
	rdFired int
	wrDead  bool
	wrErr   error
}

func (c *c11FaultConn) Read(p []byte) (int, error) {
	n, err := c.Conn.Read(p)
	c.mu.Lock()
	defer c.mu.Unlock()
	if c.rdDead {
		if c.rdOnce && c.rdFired > 0 {
			return 0, io.EOF
		}
		c.rdFired++
		return 0, c.rdErr
	}
	return n, err
}

func (c *c11FaultConn) Write(p []byte) (int, error) {
	c.mu.Lock()
	dead, err := c.wrDead, c.wrErr
	c.mu.Unlock()
	if dead {
		return 0, err
	}
	return c.Conn.Write(p)
}

func (c *c11FaultConn) killRead(err error, once bool) {
	c.mu.Lock()
	c.rdDead, c.rdErr, c.rdOnce = true, err, once
	c.mu.Unlock()
	c.Conn.SetReadDeadline(time.Now()) // wakes the Read blocked in the real connection
}

func (c *c11FaultConn) killWrite(err error) {
	c.mu.Lock()
	c.wrDead, c.wrErr = true, err
	c.mu.Unlock()
}

// c11Link: one established connection, client side wrapped as bus/net does it.
type c11Link struct {
	ep      net.EndPoint
	fc      *c11FaultConn                   // nil for pipe://
	rawDL   func(time.Time) error           // SetReadDeadline of the client's real connection
	events  map[string]func()               // real loss events this transport can produce
	wevents map[string]func() (then func()) // real events that make the client's Writes fail first
	cleanup func()
}

var c11Cert struct {
	once sync.Once
	cert tls.Certificate
	err  error
}

func c11TLSCert() (tls.Certificate, error) {
	c11Cert.once.Do(func() {
		key, err := ecdsa.GenerateKey(elliptic.P256(), rand.Reader)
		if err != nil {
			c11Cert.err = err
			return
		}
		tpl := &x509.Certificate{SerialNumber: big.NewInt(11), Subject: pkix.Name{CommonName: "c11"},
			NotBefore: time.Now().Add(-time.Hour), NotAfter: time.Now().Add(24 * time.Hour),
			KeyUsage: x509.KeyUsageDigitalSignature, ExtKeyUsage: []x509.ExtKeyUsage{x509.ExtKeyUsageServerAuth}}
		der, err := x509.CreateCertificate(rand.Reader, tpl, tpl, &key.PublicKey, key)
		if err != nil {
			c11Cert.err = err
			return
		}
		c11Cert.cert = tls.Certificate{Certificate: [][]byte{der}, PrivateKey: key}
	})
	return c11Cert.cert, c11Cert.err
}

// c11SockPair: a connected pair over a listener of the given network.
func c11SockPair(ln gonet.Listener) (client, peer gonet.Conn, err error) {
	type acc struct {
		c   gonet.Conn
		err error
	}
	ch := make(chan acc, 1)
	go func() { c, err := ln.Accept(); ch <- acc{c, err} }()
	client, err = gonet.DialTimeout(ln.Addr().Network(), ln.Addr().String(), 5*time.Second)
	if err != nil {
		return nil, nil, err
	}
	select {
	case a := <-ch:
		if a.err != nil {
			client.Close()
			return nil, nil, a.err
		}
		return client, a.c, nil
	case <-time.After(5 * time.Second):
		client.Close()
		return nil, nil, fmt.Errorf("accept: deadline")
	}
}

type c11Transports struct {
	dir  string
	unix gonet.Listener
	tcp  gonet.Listener
}

func newC11Transports() (*c11Transports, error) {
	dir, err := ioutil.TempDir("", "c11-")
	if err != nil {
		return nil, err
	}
	t := &c11Transports{dir: dir}
	if t.unix, err = gonet.Listen("unix", filepath.Join(dir, "s")); err != nil {
		t.close()
		return nil, err
	}
	if t.tcp, err = gonet.Listen("tcp", "127.0.0.1:0"); err != nil {
		t.close()
		return nil, err
	}
	return t, nil
}

func (t *c11Transports) close() {
	if t.unix != nil {
		t.unix.Close()
	}
	if t.tcp != nil {
		t.tcp.Close()
	}
	os.RemoveAll(t.dir)
}

var c11TransportNames = []string{"netpipe", "unix", "tcp", "tls", "pipe"}

func c11Swallow(r io.Reader) { go io.Copy(ioutil.Discard, r) }

func (t *c11Transports) link(name string) (*c11Link, error) {
	switch name {
	case "pipe":
		r1, w1, err := os.Pipe() // peer -> client
		if err != nil {
			return nil, err
		}
		r2, w2, err := os.Pipe() // client -> peer
		if err != nil {
			r1.Close()
			w1.Close()
			return nil, err
		}
		c11Swallow(r2)
		l := &c11Link{ep: net.NewEndPoint(net.PipeStream(r1, w2)), rawDL: r1.SetReadDeadline}
		l.events = map[string]func(){
			"peer-close":       func() { w1.Close(); r2.Close() },
			"peer-close-write": func() { w1.Close() },
		}
		l.wevents = map[string]func() func(){
			"peer-close-read": func() func() { r2.Close(); return func() { w1.Close() } }, // EPIPE, then EOF
		}
		l.cleanup = func() { w1.Close(); r2.Close(); l.ep.Close() }
		return l, nil
	case "netpipe", "unix", "tcp", "tls":
		var cc, pc gonet.Conn
		var err error
		switch name {
		case "netpipe":
			cc, pc = gonet.Pipe()
		case "unix":
			cc, pc, err = c11SockPair(t.unix)
		default:
			cc, pc, err = c11SockPair(t.tcp)
		}
		if err != nil {
			return nil, err
		}
		fc := &c11FaultConn{Conn: cc}
		l := &c11Link{fc: fc, rawDL: cc.SetReadDeadline}
		var top gonet.Conn = fc
		peerTop := pc
		l.events = map[string]func(){"peer-close": func() { pc.Close() }}
		l.wevents = map[string]func() func(){}
		if name == "tls" {
			cert, err := c11TLSCert()
			if err != nil {
				cc.Close()
				pc.Close()
				return nil, err
			}
			srv := tls.Server(pc, &tls.Config{Certificates: []tls.Certificate{cert}})
			cli := tls.Client(fc, &tls.Config{InsecureSkipVerify: true}) // as dialTLS
			dl := time.Now().Add(5 * time.Second)
			cc.SetDeadline(dl)
			pc.SetDeadline(dl)
			hs := make(chan error, 1)
			go func() { hs <- srv.Handshake() }()
			err = cli.Handshake()
			if e2 := <-hs; err == nil {
				err = e2
			}
			if err != nil {
				cc.Close()
				pc.Close()
				return nil, fmt.Errorf("tls handshake: %v", err)
			}
			cc.SetDeadline(time.Time{})
			pc.SetDeadline(time.Time{})
			top, peerTop = cli, srv
			l.events["peer-close"] = func() { srv.Close() } // close_notify, then the socket
			l.events["peer-close-raw"] = func() { pc.Close() }
		}
		if u, ok := pc.(*gonet.UnixConn); ok {
			l.events["peer-close-write"] = func() { u.CloseWrite() }
		}
		if tc, ok := pc.(*gonet.TCPConn); ok {
			if name == "tcp" {
				l.events["peer-close-write"] = func() { tc.CloseWrite() }
			}
			l.events["peer-reset"] = func() { tc.SetLinger(0); tc.Close() }
		}
		c11Swallow(peerTop)
		l.ep = net.ConnEndPoint(top)
		l.cleanup = func() { pc.Close(); l.ep.Close(); cc.Close() }
		return l, nil
	}
	return nil, fmt.Errorf("unknown transport %s", name)
}

// c11RealRun: callback + subscription + `pending` unanswered calls, then wfail (optional: the
// Writes start failing; a call made then must return on its own), then fail (the loss).
func c11RealRun(res *hx.Result, desc string, l *c11Link, pending int, wfail func(), fail func(), hang time.Duration) bool {
	ok := true
	bad := func(format string, a ...interface{}) {
		res.Fail("c11-oracle", desc+": "+fmt.Sprintf(format, a...))
		ok = false
	}
	cl := bus.NewClient(bus.NewContext(l.ep))
	var cb int32
	cl.OnDisconnect(func(err error) {
		if os.Getenv("C11_DEBUG") != "" {
			fmt.Fprintf(os.Stderr, "%s: callback error %T %v\n", desc, err, err)
		}
		atomic.AddInt32(&cb, 1)
	})
	_, ev, err := cl.Subscribe(2, 1, 200)
	if err != nil {
		res.Fail("c11-schedule", fmt.Sprintf("%s: Subscribe: %v", desc, err))
		return false
	}
	results := make(chan error, pending)
	for c := 0; c < pending; c++ {
		go func(c int) {
			_, err := cl.Call(nil, 1, 1, uint32(100+c), []byte{byte(c)})
			results <- err
		}(c)
	}
	time.Sleep(2 * time.Millisecond) // let the calls reach the wire (a call made after the loss must fail as well)
	if wfail != nil {
		wfail()
		wr := make(chan error, 1)
		go func() { _, err := cl.Call(nil, 1, 1, 998, []byte{1}); wr <- err }()
		select {
		case err := <-wr:
			if err == nil {
				bad("a call whose Write failed returned no error")
			}
		case <-time.After(hang):
			bad("a call whose Write failed did not return within %v", hang)
		}
	}
	fail()
	for c := 0; c < pending && ok; c++ {
		select {
		case err := <-results:
			if err == nil {
				bad("a call returned no error although nobody replied")
			}
		case <-time.After(hang):
			bad("a pending call did not return within %v of the loss", hang)
		}
	}
	if ok {
		select {
		case _, open := <-ev:
			if open {
				bad("unexpected event")
			}
		case <-time.After(hang):
			bad("events channel not closed within %v of the loss", hang)
		}
	}
	if ok {
		end := time.Now().Add(hang)
		for atomic.LoadInt32(&cb) < 1 && time.Now().Before(end) {
			time.Sleep(100 * time.Microsecond)
		}
		time.Sleep(300 * time.Microsecond)
		if n := atomic.LoadInt32(&cb); n != 1 {
			bad("disconnect callback ran %d times", n)
		}
	}
	if ok {
		lr := make(chan error, 1)
		go func() { _, err := cl.Call(nil, 1, 1, 999, nil); lr <- err }()
		select {
		case err := <-lr:
			if err == nil {
				bad("a call made after the loss returned no error")
			}
		case <-time.After(hang):
			bad("a call made after the loss did not return within %v", hang)
		}
	}
	return ok
}

func c11RealKinds(res *hx.Result, hang time.Duration, tier string) {
	tr, err := newC11Transports()
	if err != nil {
		res.Fail("c11-schedule", fmt.Sprintf("real transports: %v", err))
		return
	}
	defer tr.close()
	failed, runs, slots := 0, 0, 0
	run := func(name, what string, mk func(l *c11Link) (wfail func(), fail func())) {
		if failed >= 3 {
			return // the violation is established; the remaining runs would only wait
		}
		pending := 1 + slots%3
		slots++
		desc := fmt.Sprintf("real transport=%s loss=%s pending=%d", name, what, pending)
		l, err := tr.link(name)
		if err != nil {
			res.Fail("c11-schedule", fmt.Sprintf("%s: cannot set the connection up: %v", desc, err))
			failed++
			return
		}
		wfail, fail := mk(l)
		if fail != nil {
			if !c11RealRun(res, desc, l, pending, wfail, fail, hang) {
				failed++
			}
			runs++
			res.Count(desc, true)
			res.Dist("real:" + name)
		}
		l.cleanup()
	}
	reps := 1
	if tier == "thorough" {
		reps = 5
	}
	for rep := 0; rep < reps; rep++ {
		for _, name := range c11TransportNames {
			// real events
			for _, e := range []string{"peer-close", "peer-close-raw", "peer-close-write", "peer-reset"} {
				e := e
				run(name, e, func(l *c11Link) (func(), func()) { return nil, l.events[e] })
			}
			run(name, "read-deadline-expired", func(l *c11Link) (func(), func()) {
				return nil, func() { l.rawDL(time.Now().Add(-time.Second)) }
			})
			run(name, "client-close", func(l *c11Link) (func(), func()) { return nil, func() { l.ep.Close() } })
			run(name, "peer-close-read-then-write", func(l *c11Link) (func(), func()) {
				w := l.wevents["peer-close-read"]
				if w == nil {
					return nil, nil
				}
				var then func()
				return func() { then = w() }, func() { then() }
			})
			// injected kinds
			for _, k := range c11ErrKinds {
				k := k
				for _, once := range []bool{false, true} {
					once := once
					p := "persistent"
					if once {
						p = "once-then-EOF"
					}
					run(name, fmt.Sprintf("read[%s,%s]", k.name, p), func(l *c11Link) (func(), func()) {
						if l.fc == nil {
							return nil, nil
						}
						return nil, func() { l.fc.killRead(k.mk("read"), once) }
					})
				}
				run(name, fmt.Sprintf("write-then-read[%s]", k.name), func(l *c11Link) (func(), func()) {
					if l.fc == nil {
						return nil, nil
					}
					return func() { l.fc.killWrite(k.mk("write")) }, func() { l.fc.killRead(k.mk("read"), false) }
				})
			}
		}
	}
	res.Notes = append(res.Notes, fmt.Sprintf("%d runs over the real transports %v under net.ConnStream / net.PipeStream (oracles only)", runs, c11TransportNames))
}
