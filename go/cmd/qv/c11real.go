package main

// c11real.go — oracle-only runs of C11 over the real transports of bus/net, each under the real
// stream wrapper the package builds for it:
//   netpipe  net.ConnStream over net.Pipe()                      (net.Pipe(), the in-memory transport)
//   unix     net.ConnStream over a unix socket                   (dialUNIX / connListener)
//   tcp      net.ConnStream over a loopback TCP connection       (dialTCP / connListener)
//   tls      net.ConnStream over tls.Client over loopback TCP    (dialTLS)
//   pipe     net.PipeStream over two os.Pipe()                   (dialPipe / pipeListener)
// The client has a disconnect callback, a subscription and 1..3 calls in flight which the peer
// never answers.  Then the connection is lost:
//   * by a real event: the peer closes, shuts its sending side down, resets the connection
//     (SO_LINGER 0), the read deadline of the connection expires (a persistent error whose
//     Temporary() and Timeout() are true), the client closes;
//   * by an injected one (the four net.Conn transports): a wrapper between the real connection and
//     bus/net's wrapper makes every Read fail with each kind of c11kinds.go, persistent or
//     once-then-EOF, the blocked Read included; or makes the Writes fail first (a call made
//     then must return an error on its own) and the Reads afterwards.
// Whatever the kind: every call returns an error, the events channel is closed, the callback has
// run exactly once, within the bound; a later call fails as well.

import (
	"bytes"
	"crypto/ecdsa"
	"crypto/elliptic"
	"crypto/rand"
	"crypto/tls"
	"crypto/x509"
	"crypto/x509/pkix"
	"fmt"
	"io"
	"io/ioutil"
	"math/big"
	gonet "net"
	"os"
	"path/filepath"
	"sync"
	"sync/atomic"
	"time"

	"github.com/lugu/qiloop/bus"
	"github.com/lugu/qiloop/bus/net"

	"qv/internal/hx"
)

// c11FaultConn: a real connection whose Reads and Writes start failing on command.
type c11FaultConn struct {
	gonet.Conn
	mu      sync.Mutex
	rdDead  bool
	rdErr   error
	rdOnce  bool
	rdFired int
	wrDead  bool
	wrErr   error
	wrFails int // Writes refused since killWrite
}

func (c *c11FaultConn) Read(p []byte) (int, error) {
	n, err := c.Conn.Read(p)
	c.mu.Lock()
	defer c.mu.Unlock()
	if c.rdDead {
		if c.rdOnce && c.rdFired > 0 {
			return 0, io.EOF
		}
		c.rdFired++
		return 0, c.rdErr
	}
	return n, err
}

func (c *c11FaultConn) Write(p []byte) (int, error) {
	c.mu.Lock()
	dead, err := c.wrDead, c.wrErr
	if dead {
		c.wrFails++
	}
	c.mu.Unlock()
	if dead {
		return 0, err
	}
	return c.Conn.Write(p)
}

func (c *c11FaultConn) writeFailures() int {
	c.mu.Lock()
	defer c.mu.Unlock()
	return c.wrFails
}

func (c *c11FaultConn) killRead(err error, once bool) {
	c.mu.Lock()
	c.rdDead, c.rdErr, c.rdOnce = true, err, once
	c.mu.Unlock()
	c.Conn.SetReadDeadline(time.Now()) // wakes the Read blocked in the real connection
}

func (c *c11FaultConn) killWrite(err error) {
	c.mu.Lock()
	c.wrDead, c.wrErr = true, err
	c.mu.Unlock()
}

// c11Link: one established connection, client side wrapped as bus/net does it.
type c11Link struct {
	ep      net.EndPoint
	fc      *c11FaultConn                   // nil for pipe://
	rawDL   func(time.Time) error           // SetReadDeadline of the client's real connection
	events  map[string]func()               // real loss events this transport can produce
	wevents map[string]func() (then func()) // real events that make the client's Writes fail first
	cleanup func()
	peerR   io.Reader             // the peer's side of the connection: what the client writes ...
	peerW   io.Writer             // ... and what it reads
	peerDL  func(time.Time) error // SetReadDeadline of the peer's side
	swDone  chan struct{}         // closed when the goroutine of swallow has ended
}

// swallow: the peer reads whatever the client writes and never answers.
func (l *c11Link) swallow() {
	l.swDone = make(chan struct{})
	go func() { io.Copy(ioutil.Discard, l.peerR); close(l.swDone) }()
}

// stopSwallow: the peer stops reading (it is busy, or about to vanish); what the client writes from
// now on stays in the transport (net.Pipe: the Write blocks until the peer closes, and then fails).
func (l *c11Link) stopSwallow() {
	if l.swDone == nil {
		return
	}
	if err := l.peerDL(time.Now().Add(-time.Second)); err != nil {
		return
	}
	select {
	case <-l.swDone:
	case <-time.After(time.Second):
	}
}

var c11Cert struct {
	once sync.Once
	cert tls.Certificate
	err  error
}

func c11TLSCert() (tls.Certificate, error) {
	c11Cert.once.Do(func() {
		key, err := ecdsa.GenerateKey(elliptic.P256(), rand.Reader)
		if err != nil {
			c11Cert.err = err
			return
		}
		tpl := &x509.Certificate{SerialNumber: big.NewInt(11), Subject: pkix.Name{CommonName: "c11"},
			NotBefore: time.Now().Add(-time.Hour), NotAfter: time.Now().Add(24 * time.Hour),
			KeyUsage: x509.KeyUsageDigitalSignature, ExtKeyUsage: []x509.ExtKeyUsage{x509.ExtKeyUsageServerAuth}}
		der, err := x509.CreateCertificate(rand.Reader, tpl, tpl, &key.PublicKey, key)
		if err != nil {
			c11Cert.err = err
			return
		}
		c11Cert.cert = tls.Certificate{Certificate: [][]byte{der}, PrivateKey: key}
	})
	return c11Cert.cert, c11Cert.err
}

// c11CloseBounded: Close() of an endpoint at the end of a run.  It takes the handlers mutex; if the
// run left that mutex held for ever (which the oracles of the run have reported) it must not take
// the harness with it.
func c11CloseBounded(ep net.EndPoint) {
	done := make(chan struct{})
	go func() { ep.Close(); close(done) }()
	select {
	case <-done:
	case <-time.After(200 * time.Millisecond):
	}
}

// c11SockPair: a connected pair over a listener of the given network.
func c11SockPair(ln gonet.Listener) (client, peer gonet.Conn, err error) {
	type acc struct {
		c   gonet.Conn
		err error
	}
	ch := make(chan acc, 1)
	go func() { c, err := ln.Accept(); ch <- acc{c, err} }()
	client, err = gonet.DialTimeout(ln.Addr().Network(), ln.Addr().String(), 5*time.Second)
	if err != nil {
		return nil, nil, err
	}
	select {
	case a := <-ch:
		if a.err != nil {
			client.Close()
			return nil, nil, a.err
		}
		return client, a.c, nil
	case <-time.After(5 * time.Second):
		client.Close()
		return nil, nil, fmt.Errorf("accept: deadline")
	}
}

type c11Transports struct {
	dir  string
	unix gonet.Listener
	tcp  gonet.Listener
}

func newC11Transports() (*c11Transports, error) {
	dir, err := ioutil.TempDir("", "c11-")
	if err != nil {
		return nil, err
	}
	t := &c11Transports{dir: dir}
	if t.unix, err = gonet.Listen("unix", filepath.Join(dir, "s")); err != nil {
		t.close()
		return nil, err
	}
	if t.tcp, err = gonet.Listen("tcp", "127.0.0.1:0"); err != nil {
		t.close()
		return nil, err
	}
	return t, nil
}

func (t *c11Transports) close() {
	if t.unix != nil {
		t.unix.Close()
	}
	if t.tcp != nil {
		t.tcp.Close()
	}
	os.RemoveAll(t.dir)
}

var c11TransportNames = []string{"netpipe", "unix", "tcp", "tls", "pipe"}

func (t *c11Transports) link(name string) (*c11Link, error) {
	switch name {
	case "pipe":
		r1, w1, err := os.Pipe() // peer -> client
		if err != nil {
			return nil, err
		}
		r2, w2, err := os.Pipe() // client -> peer
		if err != nil {
			r1.Close()
			w1.Close()
			return nil, err
		}
		l := &c11Link{ep: net.NewEndPoint(net.PipeStream(r1, w2)), rawDL: r1.SetReadDeadline,
			peerR: r2, peerW: w1, peerDL: r2.SetReadDeadline}
		l.events = map[string]func(){
			"peer-close":       func() { w1.Close(); r2.Close() },
			"peer-close-write": func() { w1.Close() },
		}
		l.wevents = map[string]func() func(){
			"peer-close-read": func() func() { r2.Close(); return func() { w1.Close() } }, // EPIPE, then EOF
		}
		l.cleanup = func() { w1.Close(); r2.Close(); c11CloseBounded(l.ep) }
		return l, nil
	case "netpipe", "unix", "tcp", "tls":
		var cc, pc gonet.Conn
		var err error
		switch name {
		case "netpipe":
			cc, pc = gonet.Pipe()
		case "unix":
			cc, pc, err = c11SockPair(t.unix)
		default:
			cc, pc, err = c11SockPair(t.tcp)
		}
		if err != nil {
			return nil, err
		}
		fc := &c11FaultConn{Conn: cc}
		l := &c11Link{fc: fc, rawDL: cc.SetReadDeadline}
		var top gonet.Conn = fc
		var peerTop gonet.Conn = pc
		l.events = map[string]func(){"peer-close": func() { pc.Close() }}
		l.wevents = map[string]func() func(){}
		if name == "tls" {
			cert, err := c11TLSCert()
			if err != nil {
				cc.Close()
				pc.Close()
				return nil, err
			}
			srv := tls.Server(pc, &tls.Config{Certificates: []tls.Certificate{cert}})
			cli := tls.Client(fc, &tls.Config{InsecureSkipVerify: true}) // as dialTLS
			dl := time.Now().Add(5 * time.Second)
			cc.SetDeadline(dl)
			pc.SetDeadline(dl)
			hs := make(chan error, 1)
			go func() { hs <- srv.Handshake() }()
			err = cli.Handshake()
			if e2 := <-hs; err == nil {
				err = e2
			}
			if err != nil {
				cc.Close()
				pc.Close()
				return nil, fmt.Errorf("tls handshake: %v", err)
			}
			cc.SetDeadline(time.Time{})
			pc.SetDeadline(time.Time{})
			top, peerTop = cli, srv
			l.events["peer-close"] = func() { srv.Close() } // close_notify, then the socket
			l.events["peer-close-raw"] = func() { pc.Close() }
		}
		if u, ok := pc.(*gonet.UnixConn); ok {
			l.events["peer-close-write"] = func() { u.CloseWrite() }
		}
		if tc, ok := pc.(*gonet.TCPConn); ok {
			if name == "tcp" {
				l.events["peer-close-write"] = func() { tc.CloseWrite() }
			}
			l.events["peer-reset"] = func() { tc.SetLinger(0); tc.Close() }
		}
		l.peerR, l.peerW, l.peerDL = peerTop, peerTop, peerTop.SetReadDeadline
		l.ep = net.ConnEndPoint(top)
		l.cleanup = func() { pc.Close(); c11CloseBounded(l.ep); cc.Close() }
		return l, nil
	}
	return nil, fmt.Errorf("unknown transport %s", name)
}

// c11BusyService: what makes the endpoint write on its own.  The endpoint of the client also
// serves incoming calls (as the connections of a server, or a client that registered an object,
// do) through a handler whose queue is full: "queue0" — MakeHandler with a queue nobody drains;
// "queue10" — AddHandler (queue of 10 and a goroutine, what bus.NewContext-style consumers use) whose
// consumer is stuck in the first message.  dispatch answers every further call itself, with an
// Error message, from the reader goroutine and under the handlers mutex.
const c11BusyServiceID = 7

func c11BusyCall(k int) []byte {
	msg := net.NewMessage(net.NewHeader(net.Call, c11BusyServiceID, 1, 3, uint32(9001+2*k)), []byte{byte(k)})
	var buf bytes.Buffer
	if err := msg.Write(&buf); err != nil {
		panic(err)
	}
	return buf.Bytes()
}

// c11RealRun: callback + subscription + `pending` unanswered calls, then wfail (optional: the
// Writes start failing), then fail (the loss).  Between the two, what notices the failing Writes
// first: without a busy service a call made then (it must return an error on its own); with one
// (busy != ""), the endpoint itself — the peer sends calls to the busy service and the Error
// replies of dispatch are the Writes that fail (with wfail == nil the peer has merely stopped
// reading when it sends them, and fail is its disappearance).
func c11RealRun(res *hx.Result, desc string, l *c11Link, pending int, busy string, wfail func(), fail func(), hang time.Duration) bool {
	ok := true
	bad := func(format string, a ...interface{}) {
		res.Fail("c11-oracle", desc+": "+fmt.Sprintf(format, a...))
		ok = false
	}
	incoming := 0
	switch busy {
	case "queue0":
		l.ep.MakeHandler(func(h *net.Header) (bool, bool) { return h.Type == net.Call && h.Service == c11BusyServiceID, true },
			make(chan *net.Message), nil)
		incoming = 2
	case "queue10":
		stuck := make(chan struct{})
		defer close(stuck)
		l.ep.AddHandler(func(h *net.Header) (bool, bool) { return h.Type == net.Call && h.Service == c11BusyServiceID, true },
			func(*net.Message) error { <-stuck; return nil }, nil)
		incoming = 13 // one in the consumer, ten queued, two answered by dispatch
	case "events":
		// no service: the consumer that is blocked is the subscription of the client itself, which
		// nobody reads before the loss; the peer sends more events than its goroutine and its queue
		// hold (1 + 100): dispatch drops the others and goes on reading
		incoming = c11QueueCap + 5
	}
	frame := c11BusyCall
	if busy == "events" {
		one := c11Frame("sub", 0, net.Event, 0) // (c11SubService, 1, 200): the subscription below
		frame = func(int) []byte { return one }
	}
	cl := bus.NewClient(bus.NewContext(l.ep))
	var cb int32
	cl.OnDisconnect(func(err error) {
		if os.Getenv("C11_DEBUG") != "" {
			fmt.Fprintf(os.Stderr, "%s: callback error %T %v\n", desc, err, err)
		}
		atomic.AddInt32(&cb, 1)
	})
	_, ev, err := cl.Subscribe(2, 1, 200)
	if err != nil {
		res.Fail("c11-schedule", fmt.Sprintf("%s: Subscribe: %v", desc, err))
		return false
	}
	results := make(chan error, pending)
	for c := 0; c < pending; c++ {
		go func(c int) {
			_, err := cl.Call(nil, 1, 1, uint32(100+c), []byte{byte(c)})
			results <- err
		}(c)
	}
	time.Sleep(2 * time.Millisecond) // let the calls reach the wire (a call made after the loss must fail as well)
	if busy != "" {
		if wfail != nil {
			wfail()
		} else if busy != "events" {
			l.stopSwallow()
		}
		sent := make(chan error, 1)
		go func() {
			for k := 0; k < incoming; k++ {
				if _, err := l.peerW.Write(frame(k)); err != nil {
					sent <- err
					return
				}
			}
			sent <- nil
		}()
		// with a synchronous transport (net.Pipe) and a peer that does not read, the reader of the
		// client blocks in the Write of its first reply and the peer in its next Write: that is the
		// situation wanted, the peer vanishes from there
		wait := 10 * time.Millisecond
		if wfail != nil || busy == "events" {
			wait = hang / 4
		}
		// (an endpoint may also close the connection as soon as one of its Writes fails: then the
		// peer cannot send the rest, which is no failure; the loss and the oracles follow anyway)
		select {
		case <-sent:
		case <-time.After(wait):
		}
		// let the reader reach the Write of its reply (with an injected failure: until it has failed)
		end := time.Now().Add(20 * time.Millisecond)
		for time.Now().Before(end) && !(l.fc != nil && wfail != nil && l.fc.writeFailures() > 0) {
			time.Sleep(200 * time.Microsecond)
		}
	} else if wfail != nil {
		wfail()
		wr := make(chan error, 1)
		go func() { _, err := cl.Call(nil, 1, 1, 998, []byte{1}); wr <- err }()
		select {
		case err := <-wr:
			if err == nil {
				bad("a call whose Write failed returned no error")
			}
		case <-time.After(hang):
			bad("a call whose Write failed did not return within %v", hang)
		}
	}
	fail()
	for c := 0; c < pending && ok; c++ {
		select {
		case err := <-results:
			if err == nil {
				bad("a call returned no error although nobody replied")
			}
		case <-time.After(hang):
			bad("a pending call did not return within %v of the loss", hang)
		}
	}
	if ok {
		expect := 0
		if busy == "events" {
			expect = incoming
		}
		end := time.After(hang)
	drain:
		for got := 0; ; got++ {
			select {
			case _, open := <-ev:
				if !open {
					break drain
				}
				if got >= expect {
					bad("unexpected event")
					break drain
				}
			case <-end:
				bad("events channel not closed within %v of the loss", hang)
				break drain
			}
		}
	}
	if ok {
		end := time.Now().Add(hang)
		for atomic.LoadInt32(&cb) < 1 && time.Now().Before(end) {
			time.Sleep(100 * time.Microsecond)
		}
		time.Sleep(300 * time.Microsecond)
		if n := atomic.LoadInt32(&cb); n != 1 {
			bad("disconnect callback ran %d times", n)
		}
	}
	if ok {
		lr := make(chan error, 1)
		go func() { _, err := cl.Call(nil, 1, 1, 999, nil); lr <- err }()
		select {
		case err := <-lr:
			if err == nil {
				bad("a call made after the loss returned no error")
			}
		case <-time.After(hang):
			bad("a call made after the loss did not return within %v", hang)
		}
	}
	return ok
}

func c11RealKinds(res *hx.Result, hang time.Duration, tier string) {
	tr, err := newC11Transports()
	if err != nil {
		res.Fail("c11-schedule", fmt.Sprintf("real transports: %v", err))
		return
	}
	defer tr.close()
	failed, runs, slots := 0, 0, 0
	runB := func(name, what, busy string, mk func(l *c11Link) (wfail func(), fail func())) {
		if failed >= 3 {
			return // the violation is established; the remaining runs would only wait
		}
		pending := 1 + slots%3
		slots++
		desc := fmt.Sprintf("real transport=%s loss=%s pending=%d", name, what, pending)
		if busy == "events" {
			desc += " subscription-nobody-reads"
		} else if busy != "" {
			desc += " busy-service=" + busy
		}
		l, err := tr.link(name)
		if err != nil {
			res.Fail("c11-schedule", fmt.Sprintf("%s: cannot set the connection up: %v", desc, err))
			failed++
			return
		}
		l.swallow()
		wfail, fail := mk(l)
		if fail != nil {
			if !c11RealRun(res, desc, l, pending, busy, wfail, fail, hang) {
				failed++
			}
			runs++
			res.Count(desc, true)
			res.Dist("real:" + name)
		}
		l.cleanup()
	}
	run := func(name, what string, mk func(l *c11Link) (wfail func(), fail func())) { runB(name, what, "", mk) }
	busyKinds := []string{"queue0", "queue10"}
	reps := 1
	if tier == "thorough" {
		reps = 5
	}
	for rep := 0; rep < reps; rep++ {
		for _, name := range c11TransportNames {
			// real events
			for _, e := range []string{"peer-close", "peer-close-raw", "peer-close-write", "peer-reset"} {
				e := e
				run(name, e, func(l *c11Link) (func(), func()) { return nil, l.events[e] })
			}
			run(name, "read-deadline-expired", func(l *c11Link) (func(), func()) {
				return nil, func() { l.rawDL(time.Now().Add(-time.Second)) }
			})
			run(name, "client-close", func(l *c11Link) (func(), func()) { return nil, func() { l.ep.Close() } })
			run(name, "peer-close-read-then-write", func(l *c11Link) (func(), func()) {
				w := l.wevents["peer-close-read"]
				if w == nil {
					return nil, nil
				}
				var then func()
				return func() { then = w() }, func() { then() }
			})
			// the endpoint is the first to write into the lost connection: a busy service and a peer
			// that sends calls and vanishes without reading the answers (net.Pipe: the Write of the
			// reply fails; sockets: it may still be accepted by the kernel), or closes its reading
			// side first (pipe://: EPIPE)
			for bi, b := range busyKinds {
				for _, e := range []string{"peer-close", "peer-close-raw", "peer-reset"} {
					e := e
					runB(name, "calls-then-"+e, b, func(l *c11Link) (func(), func()) { return nil, l.events[e] })
				}
				runB(name, "peer-close-read-then-calls-then-write", b, func(l *c11Link) (func(), func()) {
					w := l.wevents["peer-close-read"]
					if w == nil {
						return nil, nil
					}
					var then func()
					return func() { then = w() }, func() { then() }
				})
				_ = bi
			}
			// the blocked consumer is the client's own subscription: more events than it holds, then the loss
			for _, e := range []string{"peer-close", "peer-close-write", "client-close"} {
				e := e
				runB(name, "events-then-"+e, "events", func(l *c11Link) (func(), func()) {
					if e == "client-close" {
						return nil, func() { go l.ep.Close() }
					}
					return nil, l.events[e]
				})
			}
			// injected kinds
			for ki, k := range c11ErrKinds {
				k := k
				runB(name, fmt.Sprintf("write[%s]-calls-then-read", k.name), busyKinds[(ki+rep)%2], func(l *c11Link) (func(), func()) {
					if l.fc == nil {
						return nil, nil
					}
					return func() { l.fc.killWrite(k.mk("write")) }, func() { l.fc.killRead(k.mk("read"), false) }
				})
				for _, once := range []bool{false, true} {
					once := once
					p := "persistent"
					if once {
						p = "once-then-EOF"
					}
					run(name, fmt.Sprintf("read[%s,%s]", k.name, p), func(l *c11Link) (func(), func()) {
						if l.fc == nil {
							return nil, nil
						}
						return nil, func() { l.fc.killRead(k.mk("read"), once) }
					})
				}
				run(name, fmt.Sprintf("write-then-read[%s]", k.name), func(l *c11Link) (func(), func()) {
					if l.fc == nil {
						return nil, nil
					}
					return func() { l.fc.killWrite(k.mk("write")) }, func() { l.fc.killRead(k.mk("read"), false) }
				})
			}
		}
	}
	res.Notes = append(res.Notes, fmt.Sprintf("%d runs over the real transports %v under net.ConnStream / net.PipeStream (oracles only)", runs, c11TransportNames))
}
