package main

// C20 — source values whose parts share storage.  The property speaks about values: a row that is
// buf[:2] next to a row that is buf[:3], a struct whose field Head is a prefix of its field All,
// one map stored under two keys, all convert element for element like separately allocated
// copies, and the model (Conv.val) cannot even tell them apart.  genVal allocates every slice and
// every map separately, so that an implementation that recognises "the same" slice or map by
// where its data lives (a memo of converted sub-values, a cycle guard, a cache keyed by pointer)
// was never shown two values it could confuse.  Here the source is generated as everywhere else
// and then laid out again (shareStorage): a slice may become a piece of the array of a slice of
// the same type built earlier (the same piece, a prefix — the empty one included —, a longer piece
// reaching into the spare capacity, a window starting further in), a map may become the very map
// built earlier.  What the source then *is* (its deep structure) goes to the oracles and to the
// model as before; the layout is part of the failure report.

import (
	"fmt"
	"reflect"
	"sort"
	"strings"

	"qv/internal/hx"
)

type c20part struct {
	v    reflect.Value
	path string
}

type c20layout struct {
	rng   *hx.Rng
	res   *hx.Result
	pool  map[reflect.Type][]c20part // slices and maps laid out so far, by Go type
	notes []string
	// sameStart: two slices of one type start at the same address with different lengths, both
	// non-empty (what a data pointer alone cannot tell apart)
	sameStart bool
}

// build lays out v : t again and returns the new value (same type; its deep structure differs from
// v's exactly where a part was taken from an earlier one)
func (l *c20layout) build(t *gt, v reflect.Value, path string) reflect.Value {
	rng := l.rng
	switch t.k {
	case gStruct:
		n := reflect.New(v.Type()).Elem()
		for i, f := range t.fields {
			n.Field(i).Set(l.build(f.t, v.Field(i), path+"."+f.name))
		}
		return n
	case gMap:
		if v.IsNil() {
			return v
		}
		if pool := l.pool[v.Type()]; len(pool) > 0 && rng.Chance(0.5) {
			d := pool[rng.Intn(len(pool))]
			l.notes = append(l.notes, fmt.Sprintf("%s is the very map %s", path, d.path))
			l.res.Dist("shared:same-map")
			return d.v
		}
		keys := v.MapKeys()
		sort.Slice(keys, func(i, j int) bool { return coqVal(t.key, keys[i]) < coqVal(t.key, keys[j]) })
		m := reflect.MakeMapWithSize(v.Type(), len(keys))
		for _, k := range keys {
			m.SetMapIndex(k, l.build(t.elem, v.MapIndex(k), path+"["+goKey(t.key, k)+"]"))
		}
		l.pool[v.Type()] = append(l.pool[v.Type()], c20part{m, path})
		return m
	case gSlice:
		if v.IsNil() {
			return v
		}
		if pool := l.pool[v.Type()]; len(pool) > 0 && rng.Chance(0.7) {
			d := pool[rng.Intn(len(pool))]
			dl, dc := d.v.Len(), d.v.Cap()
			i, j, how := 0, dl, ""
			for how == "" {
				switch rng.Intn(5) {
				case 0:
					how = "same-slice"
				case 1: // a prefix, the empty one included
					if dl >= 1 {
						j, how = rng.Intn(dl), "prefix"
						if dl >= 2 && rng.Chance(0.7) {
							j = 1 + rng.Intn(dl-1)
						}
					}
				case 2: // longer than the donor: rows grown by append in one buffer
					if dc > dl {
						j, how = dl+1+rng.Intn(dc-dl), "longer"
					}
				case 3: // starts further in
					if dl >= 1 {
						i = 1 + rng.Intn(dl)
						j, how = i+rng.Intn(dc-i+1), "window"
					}
				default: // the same piece, capacity cut (three-index slice)
					if dc > dl {
						how = "same-slice-cap-cut"
					}
				}
			}
			r := d.v.Slice(i, j)
			if how == "same-slice-cap-cut" {
				r = d.v.Slice3(i, j, j)
			}
			if how == "prefix" && j == 0 {
				how = "empty-prefix"
			}
			if i == 0 && j > 0 && dl > 0 && j != dl {
				l.sameStart = true
			}
			l.notes = append(l.notes, fmt.Sprintf("%s = (%s)[%d:%d] where %s has length %d, capacity %d", path, d.path, i, j, d.path, dl, dc))
			l.res.Dist("shared:" + how)
			l.pool[v.Type()] = append(l.pool[v.Type()], c20part{r, path})
			return r
		}
		n := v.Len()
		c := n + rng.Pick(0, 0, 1, 2)
		arr := reflect.MakeSlice(v.Type(), c, c)
		for i := 0; i < n; i++ {
			arr.Index(i).Set(l.build(t.elem, v.Index(i), fmt.Sprintf("%s[%d]", path, i)))
		}
		for i := n; i < c; i++ { // what a later, longer piece of this array will show
			genVal(rng, t.elem, arr.Index(i), false, 1)
		}
		r := arr.Slice(0, n)
		l.pool[v.Type()] = append(l.pool[v.Type()], c20part{r, path})
		return r
	}
	return v
}

func goKey(t *gt, k reflect.Value) string {
	switch t.k {
	case gString:
		return fmt.Sprintf("%q", k.String())
	case gF32, gF64:
		return fmt.Sprintf("%v", k.Float())
	}
	return fmt.Sprint(k.Interface())
}

// shareStorage lays the source out again with shared storage and sets e.built for the report of
// the next evaluate
func (e *c20env) shareStorage(t *gt, src reflect.Value) reflect.Value {
	l := &c20layout{rng: e.rng, res: e.res, pool: map[reflect.Type][]c20part{}}
	r := l.build(t, src, "value")
	e.built = strings.Join(l.notes, "; ")
	if l.sameStart {
		e.res.Dist("shared:same-start-different-length")
	}
	// slices of zero-size elements share their address without any help (runtime.zerobase)
	return r
}

// sharedSource: a value of type t with parts sharing storage (a few draws: a value with fewer
// than two non-nil slices or maps of one type has nothing to share)
func (e *c20env) sharedSource(t *gt, opt vopt) reflect.Value {
	for try := 0; ; try++ {
		src := reflect.New(t.rtype()).Elem()
		genValOpt(e.rng, t, src, false, 3, opt)
		src = e.shareStorage(t, src)
		if e.built != "" || try >= 3 {
			if e.built != "" {
				e.res.Dist("source:parts-share-storage")
			} else {
				e.res.Dist("source:nothing-to-share")
			}
			return src
		}
	}
}

func c20FreshName(rng *hx.Rng, taken map[string]bool) string {
	for {
		nm := genName(rng)
		if !taken[strings.ToLower(nm)] {
			taken[strings.ToLower(nm)] = true
			return nm
		}
	}
}

// c20GenSharingType: a source type that holds one slice or map type S at several places — rows
// of a table, two fields, the elements of a map, a field and a list of the same —, the shapes in
// which programs hand over pieces of one buffer.  One time in five any type of the universe.
func c20GenSharingType(rng *hx.Rng) *gt {
	if rng.Chance(0.2) {
		return c20GenType(rng, rng.Pick(2, 3))
	}
	var x *gt
	switch r := rng.Intn(10); {
	case r < 6:
		x = genScalarType(rng)
	case r < 7:
		// struct{}: all arrays of a zero-size type have one address, whatever their length,
		// without any slicing
		x = &gt{k: gStruct}
	default:
		x = c20GenType(rng, 1)
	}
	var s *gt
	if rng.Chance(0.7) {
		s = &gt{k: gSlice, elem: x}
	} else {
		s = &gt{k: gMap, key: genScalarType(rng), elem: x}
	}
	taken := map[string]bool{}
	fld := func(t *gt) gfield { return gfield{c20FreshName(rng, taken), t} }
	switch rng.Intn(7) {
	case 0:
		return &gt{k: gSlice, elem: s.clone()}
	case 1:
		return &gt{k: gMap, key: genScalarType(rng), elem: s.clone()}
	case 2:
		t := &gt{k: gStruct, fields: []gfield{fld(s.clone()), fld(s.clone())}}
		if rng.Bool() {
			t.fields = append(t.fields, fld(c20GenType(rng, 1)))
		}
		if rng.Bool() {
			t.fields = append(t.fields, fld(s.clone()))
		}
		return t
	case 3:
		return &gt{k: gSlice, elem: &gt{k: gStruct, fields: []gfield{fld(s.clone()), fld(genScalarType(rng))}}}
	case 4:
		return &gt{k: gStruct, fields: []gfield{fld(s.clone()), fld(&gt{k: gSlice, elem: s.clone()})}}
	case 5:
		return &gt{k: gStruct, fields: []gfield{fld(&gt{k: gMap, key: genScalarType(rng), elem: s.clone()}), fld(s.clone())}}
	default:
		return &gt{k: gSlice, elem: &gt{k: gSlice, elem: s.clone()}}
	}
}

// c20GenSharingPair: such a source type with a target derived as everywhere else; compatible
// pairs (the ones the oracles judge) are favoured
func c20GenSharingPair(rng *hx.Rng) (*gt, *gt, string) {
	t1 := c20GenSharingType(rng)
	if rng.Chance(0.5) {
		return t1, widen(rng, t1), "compatible"
	}
	return c20GenPairFrom(rng, t1)
}

// sharedStorage: n single conversions into a fresh destination and nReused chains into one
// destination variable, every source laid out with shared storage
func (e *c20env) sharedStorage(n, nReused int) {
	for i := 0; i < n; i++ {
		t1, t2, kind := c20GenSharingPair(e.rng)
		src := e.sharedSource(t1, vopt{})
		e.evaluate(t1, t2, src, reflect.New(t2.rtype()), false, "shared:"+kind)
		e.built = ""
	}
	for i := 0; i < nReused; i++ {
		e.reusedDestinationOf(true)
	}
}
