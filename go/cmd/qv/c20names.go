package main

// C20 — struct types declared in Go source.  The generated cases use reflect.StructOf types,
// whose String() spells the whole literal, so that two different types never print alike.  Types
// declared in source do: two function-local declarations `type point struct{...}` are different
// types and both print "main.point" (so do pkg1/model.T and pkg2/model.T).  Anything the
// conversion remembers about a type under its printed name (a field pairing, a decision
// "convertible") is then applied to the wrong type.  The families below are converted one after
// the other in this process, bare and under each container, in both directions.

import (
	"fmt"
	"reflect"
)

func c20PointA() reflect.Type {
	type point struct {
		X int32
		Y int32
	}
	return reflect.TypeOf(point{})
}

func c20PointB() reflect.Type {
	type point struct {
		Y int32
		X int32
	}
	return reflect.TypeOf(point{})
}

func c20PointC() reflect.Type {
	type point struct {
		Y   int16
		Tag string
		X   int8
	}
	return reflect.TypeOf(point{})
}

func c20PointD() reflect.Type {
	type point struct {
		Y []int8
		X map[string]uint8
	}
	return reflect.TypeOf(point{})
}

func c20WideA() reflect.Type {
	type wide struct {
		X int64
		Y int64
	}
	return reflect.TypeOf(wide{})
}

func c20WideB() reflect.Type {
	type wide struct {
		Y int64
		X int64
	}
	return reflect.TypeOf(wide{})
}

func c20WideC() reflect.Type {
	type wide struct {
		TAG string
		X   int64
		Y   int32
	}
	return reflect.TypeOf(wide{})
}

func c20WideD() reflect.Type {
	type wide struct {
		X map[string]uint32
		Y []int16
	}
	return reflect.TypeOf(wide{})
}

// gtOf describes a Go type of the universe of the model; structs that have a name keep their
// reflect.Type (rtype() must give back that very type, not a StructOf look-alike)
func gtOf(rt reflect.Type) *gt {
	switch rt.Kind() {
	case reflect.Bool:
		return &gt{k: gBool}
	case reflect.String:
		return &gt{k: gString}
	case reflect.Float32:
		return &gt{k: gF32}
	case reflect.Float64:
		return &gt{k: gF64}
	case reflect.Slice:
		return &gt{k: gSlice, elem: gtOf(rt.Elem())}
	case reflect.Map:
		return &gt{k: gMap, key: gtOf(rt.Key()), elem: gtOf(rt.Elem())}
	case reflect.Struct:
		t := &gt{k: gStruct}
		for i := 0; i < rt.NumField(); i++ {
			t.fields = append(t.fields, gfield{rt.Field(i).Name, gtOf(rt.Field(i).Type)})
		}
		if rt.Name() != "" {
			t.named = rt
		}
		return t
	}
	for i, k := range ikinds {
		if k.kind == rt.Kind() {
			return &gt{k: gInt, ik: i}
		}
	}
	panic("qv C20: type outside the universe of the model: " + rt.String())
}

// sameNameTypes converts every (point variant, wide variant) pair, bare and under each container,
// one after the other: the first pair of a given pair of printed names is converted correctly by
// any implementation, the later ones only by an implementation that looks at the types themselves
func (e *c20env) sameNameTypes() {
	points := []reflect.Type{c20PointA(), c20PointB(), c20PointC(), c20PointD()}
	wides := []reflect.Type{c20WideA(), c20WideB(), c20WideC(), c20WideD()}
	alike := 0
	for _, fam := range [][]reflect.Type{points, wides} {
		for i, a := range fam {
			for _, b := range fam[:i] {
				if a != b && a.String() == b.String() {
					alike++
				}
			}
		}
	}
	if alike != 12 {
		panic(fmt.Sprintf("qv C20: the source-declared struct types no longer print alike (%d pairs of 12)", alike))
	}
	for wrap := -1; wrap < 4; wrap++ {
		if wrap == 1 {
			continue // containers are not map keys
		}
		for _, w := range wides {
			for _, p := range points {
				t1, t2 := gtOf(p), gtOf(w)
				kind := "same-name-types"
				if wrap >= 0 {
					t1, t2 = wrap1(wrap, t1, t2)
					kind = fmt.Sprintf("same-name-types-under-%d", wrap)
				}
				for i := 0; i < 2; i++ {
					src := reflect.New(t1.rtype()).Elem()
					genVal(e.rng, t1, src, false, 2)
					e.evaluate(t1, t2, src, reflect.New(t2.rtype()), false, kind)
					e.res.Dist("types-printing-alike")
				}
			}
		}
	}
}
