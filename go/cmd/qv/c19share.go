package main

// C19, fourth part — what the goroutines sharing a session SEND and HAND IN.
//
// The scenarios of c19.go / c19life.go exchange tiny messages (the meta-objects of their services
// have no specific method) and every request builds its own arguments.  Two ordinary uses of a
// shared session were therefore never seen:
//
//   big : the services behind one endpoint have LARGE meta-objects (tens of KiB: 40–160 documented
//         methods) and the goroutines ask the one session for proxies to DIFFERENT services at
//         the same time, then call through them with arguments of up to 70 KB: large replies
//         (written by the mailbox goroutine of each service) and large calls (written by each
//         caller) share the single pooled connection of that endpoint;
//   ref : the goroutines call Session.Object with THE SAME reference value (as a worker pool does
//         with an object one remote call returned): a reference that lists the specific methods
//         only, an empty one, one with nil maps, a complete one, the meta-object of a proxy the
//         session returned before, two references sharing one meta-object, one reference used in
//         every round.
//
// Every scenario runs in a child process (qv C19share; scenario in QV_C19S; 25 s watchdog inside,
// 40 s kill outside).  The endpoint is pooled before the goroutines start (services on the
// directory's own server, or one warm-up request): no request dials, the known defect of the pinned
// code (two goroutines missing the pool together) is out of the picture.
// Oracles (implementation side; the pool machine has neither message sizes nor the caller's
// arguments): the process did not die; every request returned a proxy whose meta-object is the one
// the service registered / the reference carried, and a call through it came back with the bytes
// sent; the session still serves every service afterwards; one connection to the endpoint; the
// pool's lock is free; the caller's reference is what it was before the requests.

import (
	"bytes"
	"context"
	"encoding/json"
	"fmt"
	"os"
	"os/exec"
	"path/filepath"
	"reflect"
	"strings"
	"sync"
	"time"

	"github.com/lugu/qiloop/bus"
	"github.com/lugu/qiloop/bus/directory"
	"github.com/lugu/qiloop/bus/net"
	"github.com/lugu/qiloop/bus/services"
	"github.com/lugu/qiloop/bus/session"
	"github.com/lugu/qiloop/type/object"
	"qv/internal/hx"
)

func init() { props["C19share"] = runC19ShareChild }

type c19ShareSc struct {
	Kind    string `json:"kind"`    // big | ref
	Where   int    `json:"where"`   // 0: services on the directory's own server; 1: behind a second endpoint, pooled by one warm-up request
	Methods []int  `json:"methods"` // per service: documented methods of its meta-object (besides echo)
	Desc    int    `json:"desc"`    // length of every method description
	G       int    `json:"g"`       // goroutines
	Rounds  int    `json:"rounds"`  // requests per goroutine
	Echo    []int  `json:"echo"`    // per goroutine: size of the argument of the call made through every proxy
	Obj     []bool `json:"obj"`     // big: per goroutine: Session.Object (reference made from its first proxy) instead of Session.Proxy
	Ref     string `json:"ref"`     // ref: minimal | empty | nilmaps | complete | fromproxy | twin | reused
	Dir     string `json:"dir"`
}

type c19ShareResult struct {
	Errs     []string `json:"errs"`     // per goroutine: "" or its first failure
	Done     []int    `json:"done"`     // per goroutine: requests completed
	Modified string   `json:"modified"` // ref: "" or how the caller's reference differs from what it was
	Final    []string `json:"final"`    // per service: "" or the failure of the request made alone afterwards
	Bytes    int      `json:"bytes"`    // size of the largest meta-object reply
	Accepted int      `json:"accepted"` // where=1: connections the endpoint accepted
	Open     int      `json:"open"`     // where=1: still open
	PoolOK   bool     `json:"pool_ok"`
	Timeout  bool     `json:"timeout"`
}

type c19EchoActor struct{}

func (c19EchoActor) Receive(m *net.Message, from bus.Channel) error {
	return from.SendReply(m, m.Payload)
}
func (c19EchoActor) Activate(activation bus.Activation) error { return nil }
func (c19EchoActor) OnTerminate()                             {}

func c19ShareSvc(i int) string { return fmt.Sprintf("share_%d", i) }

// c19ShareMeta: the specific part of a meta-object: echo (100) and n documented methods
func c19ShareMeta(name string, n, desc int) object.MetaObject {
	m := object.MetaObject{
		Description: name,
		Methods:     map[uint32]object.MetaMethod{},
		Signals:     map[uint32]object.MetaSignal{},
		Properties:  map[uint32]object.MetaProperty{},
	}
	m.Methods[100] = object.MetaMethod{Uid: 100, ReturnSignature: "r", Name: "echo", ParametersSignature: "(r)"}
	for i := 0; i < n; i++ {
		id := uint32(101 + i)
		d := fmt.Sprintf("%s method %d. ", name, i)
		for len(d) < desc {
			d += "documentation "
		}
		m.Methods[id] = object.MetaMethod{
			Uid: id, ReturnSignature: "v", Name: fmt.Sprintf("%s_method_%d", name, i), ParametersSignature: "(i)",
			Description: d, Parameters: []object.MetaMethodParameter{{Name: "x", Description: "an argument"}}, ReturnDescription: "nothing",
		}
	}
	return m
}

func c19CopyMeta(m object.MetaObject) object.MetaObject {
	c := object.MetaObject{Description: m.Description}
	if m.Methods != nil {
		c.Methods = map[uint32]object.MetaMethod{}
		for k, v := range m.Methods {
			c.Methods[k] = v
		}
	}
	if m.Signals != nil {
		c.Signals = map[uint32]object.MetaSignal{}
		for k, v := range m.Signals {
			c.Signals[k] = v
		}
	}
	if m.Properties != nil {
		c.Properties = map[uint32]object.MetaProperty{}
		for k, v := range m.Properties {
			c.Properties[k] = v
		}
	}
	return c
}

func c19Payload(g, round, size int) []byte {
	if size < 8 {
		size = 8
	}
	b := make([]byte, size)
	for i := range b {
		b[i] = byte(i*7 + g*31 + round)
	}
	b[0], b[1] = byte(g), byte(round)
	return b
}

// c19Echo calls the echo method through p (by name when the meta-object the proxy was made from lists it) and
// compares the reply with what was sent
func c19Echo(p bus.Proxy, byName bool, g, round, size int) error {
	id := uint32(100)
	if byName {
		var err error
		id, _, err = p.MetaObject().MethodID("echo", "(r)")
		if err != nil {
			return fmt.Errorf("the proxy does not know the method echo of its meta-object: %v", err)
		}
	}
	out := c19Payload(g, round, size)
	in, err := p.CallID(id, out)
	if err != nil {
		return fmt.Errorf("call through the proxy: %v", err)
	}
	if !bytes.Equal(in, out) {
		return fmt.Errorf("call through the proxy: sent %d bytes, the reply has %d bytes and differs", len(out), len(in))
	}
	return nil
}

// ---------- the child ----------

func runC19ShareChild(res *hx.Result, rng *hx.Rng, tier string, outdir string) {
	var sc c19ShareSc
	if err := json.Unmarshal([]byte(os.Getenv("QV_C19S")), &sc); err != nil {
		fmt.Println("C19ERROR bad scenario:", err)
		os.Exit(4)
	}
	fail := func(what string, err error) {
		fmt.Printf("C19ERROR %s: %v\n", what, err)
		os.Exit(4)
	}
	stage := "set-up"
	time.AfterFunc(25*time.Second, func() {
		fmt.Printf("C19HANG the child was still in its %s phase after 25 s\n", stage)
		os.Exit(3)
	})
	dirAddr := "unix://" + filepath.Join(sc.Dir, "d.sock")
	dsrv, err := directory.NewServer(dirAddr, bus.Yes{})
	if err != nil {
		fail("directory", err)
	}
	var srv bus.Server = dsrv
	var gate *c19Gate
	if sc.Where == 1 {
		srvSess, err := session.NewSession(dirAddr)
		if err != nil {
			fail("server-side session", err)
		}
		coord := &c19Coord{release: make(chan struct{}), notify: make(chan struct{}, 256)}
		coord.open()
		addr := "unix://" + filepath.Join(sc.Dir, "e0.sock")
		inner, err := net.Listen(addr)
		if err != nil {
			fail("listen", err)
		}
		gate = newC19Gate(inner, coord)
		ns, err := services.Namespace(srvSess, []string{addr})
		if err != nil {
			fail("namespace", err)
		}
		srv, err = bus.StandAloneServer(gate, bus.Yes{}, ns)
		if err != nil {
			fail("server", err)
		}
	}
	nsvc := len(sc.Methods)
	metas := make([]object.MetaObject, nsvc) // what the service registered (specific part)
	for i := 0; i < nsvc; i++ {
		metas[i] = c19ShareMeta(c19ShareSvc(i), sc.Methods[i], sc.Desc)
		obj := bus.NewBasicObject(c19EchoActor{}, c19CopyMeta(metas[i]), func(string, []byte) error { return nil })
		if _, err := srv.NewService(c19ShareSvc(i), obj); err != nil {
			fail("new service", err)
		}
	}
	sess, err := session.NewSession(dirAddr)
	if err != nil {
		fail("client session", err)
	}
	infos := map[string]services.ServiceInfo{}
	deadline := time.Now().Add(5 * time.Second)
	for {
		infos = map[string]services.ServiceInfo{}
		for _, i := range session.VerifServices(sess) {
			if strings.HasPrefix(i.Name, "share_") {
				infos[i.Name] = i
			}
		}
		if len(infos) >= nsvc {
			break
		}
		if time.Now().After(deadline) {
			fail("service list", fmt.Errorf("%d of %d services listed after 5 s", len(infos), nsvc))
		}
		time.Sleep(20 * time.Millisecond)
	}
	r := c19ShareResult{Errs: make([]string, sc.G), Done: make([]int, sc.G), Final: make([]string, nsvc)}
	// a proxy whose meta-object must be the registered one
	checkMeta := func(p bus.Proxy, i int) error {
		want := object.FullMetaObject(metas[i])
		got := p.MetaObject()
		if len(got.Methods) != len(want.Methods) {
			return fmt.Errorf("the proxy's meta-object has %d methods, the service registered %d", len(got.Methods), len(want.Methods))
		}
		last := uint32(100 + sc.Methods[i])
		if !reflect.DeepEqual(got.Methods[last], want.Methods[last]) {
			return fmt.Errorf("method %d of the proxy's meta-object is not the registered one", last)
		}
		return nil
	}
	// warm-up, alone: pools the endpoint (where=1) and gives the size of the replies
	stage = "warm-up"
	first := make([]bus.Proxy, nsvc)
	for i := 0; i < nsvc; i++ {
		p, err := sess.Proxy(c19ShareSvc(i), 1)
		if err != nil {
			fail("warm-up request", err)
		}
		if err := checkMeta(p, i); err != nil {
			fail("warm-up request", err)
		}
		first[i] = p
		var buf bytes.Buffer
		if object.WriteMetaObject(*p.MetaObject(), &buf) == nil && buf.Len() > r.Bytes {
			r.Bytes = buf.Len()
		}
	}
	stage = "concurrent requests"
	start := make(chan struct{})
	var wg sync.WaitGroup
	switch sc.Kind {
	case "big":
		for g := 0; g < sc.G; g++ {
			wg.Add(1)
			go func(g int) {
				defer wg.Done()
				i := g % nsvc
				ref := bus.ObjectReference(first[i])
				ref.MetaObject = c19CopyMeta(ref.MetaObject) // this goroutine's own reference
				<-start
				for round := 0; round < sc.Rounds; round++ {
					var p bus.Proxy
					var err error
					if sc.Obj[g] {
						p, err = sess.Object(ref)
					} else {
						p, err = sess.Proxy(c19ShareSvc(i), 1)
					}
					if err == nil {
						err = checkMeta(p, i)
					}
					if err == nil {
						err = c19Echo(p, true, g, round, sc.Echo[g])
					}
					if err != nil {
						r.Errs[g] = fmt.Sprintf("request %d for %s: %v", round, c19ShareSvc(i), err)
						return
					}
					r.Done[g]++
				}
			}(g)
		}
		close(start)
	case "ref":
		var modMu sync.Mutex
		wg.Add(1)
		go func() {
			defer wg.Done()
			info0, info1 := infos[c19ShareSvc(0)], infos[c19ShareSvc(1%nsvc)]
			mk := func(round int) []object.ObjectReference {
				minimal := c19CopyMeta(metas[0])
				minimal.Description = fmt.Sprintf("round %d", round)
				ref := object.ObjectReference{ServiceID: info0.ServiceId, ObjectID: 1}
				switch sc.Ref {
				case "minimal", "reused":
					ref.MetaObject = minimal
				case "empty":
					ref.MetaObject = object.MetaObject{Methods: map[uint32]object.MetaMethod{}, Signals: map[uint32]object.MetaSignal{}, Properties: map[uint32]object.MetaProperty{}}
				case "nilmaps":
				case "complete":
					ref.MetaObject = object.FullMetaObject(minimal)
				case "fromproxy":
					ref.MetaObject = *first[0].MetaObject()
				case "twin":
					ref.MetaObject = minimal
					other := object.ObjectReference{MetaObject: minimal, ServiceID: info1.ServiceId, ObjectID: 1}
					return []object.ObjectReference{ref, other}
				}
				return []object.ObjectReference{ref}
			}
			// first one request alone with a reference of the same kind: is the caller's reference what it was?
			// (printed at once: the concurrent rounds may kill the process)
			for _, rf := range mk(-1) {
				was := c19CopyMeta(rf.MetaObject)
				if _, err := sess.Object(rf); err != nil {
					r.Errs[0] = fmt.Sprintf("alone, Object(reference to service %d): %v", rf.ServiceID, err)
				}
				if !reflect.DeepEqual(rf.MetaObject, was) {
					r.Modified = fmt.Sprintf("one Session.Object request, alone: the reference listed %d methods, %d signals, %d properties before the request and %d, %d, %d afterwards",
						len(was.Methods), len(was.Signals), len(was.Properties), len(rf.MetaObject.Methods), len(rf.MetaObject.Signals), len(rf.MetaObject.Properties))
					fmt.Println("C19MODIFIED " + r.Modified)
				}
			}
			var refs []object.ObjectReference
			for round := 0; round < sc.Rounds; round++ {
				if refs == nil || sc.Ref != "reused" {
					refs = mk(round)
				}
				before := make([]object.ObjectReference, len(refs))
				for i, rf := range refs {
					before[i] = rf
					before[i].MetaObject = c19CopyMeta(rf.MetaObject)
				}
				go2 := make(chan struct{})
				var rw sync.WaitGroup
				for g := 0; g < sc.G; g++ {
					if r.Errs[g] != "" {
						continue
					}
					rw.Add(1)
					go func(g int) {
						defer rw.Done()
						ref := refs[g%len(refs)] // the same reference value for every goroutine (two values sharing one meta-object for "twin")
						<-go2
						p, err := sess.Object(ref)
						if err == nil && (p.ServiceID() != ref.ServiceID || p.ObjectID() != ref.ObjectID) {
							err = fmt.Errorf("the proxy is for service %d object %d", p.ServiceID(), p.ObjectID())
						}
						if err == nil {
							// the proxy knows what the reference lists
							for id, m := range ref.MetaObject.Methods {
								if got, ok := p.MetaObject().Methods[id]; !ok || got.Name != m.Name {
									err = fmt.Errorf("method %d (%s) of the reference is not in the proxy's meta-object", id, m.Name)
									break
								}
							}
						}
						if err == nil {
							_, named := ref.MetaObject.Methods[100]
							err = c19Echo(p, named, g, round, sc.Echo[g])
						}
						if err != nil {
							r.Errs[g] = fmt.Sprintf("round %d, Object(reference to service %d): %v", round, ref.ServiceID, err)
							return
						}
						r.Done[g]++
					}(g)
				}
				close(go2)
				rw.Wait()
				for i, rf := range refs {
					if !reflect.DeepEqual(rf, before[i]) {
						modMu.Lock()
						if r.Modified == "" {
							r.Modified = fmt.Sprintf("round %d: the reference handed to Session.Object listed %d methods, %d signals, %d properties before the requests and %d, %d, %d afterwards",
								round, len(before[i].MetaObject.Methods), len(before[i].MetaObject.Signals), len(before[i].MetaObject.Properties),
								len(rf.MetaObject.Methods), len(rf.MetaObject.Signals), len(rf.MetaObject.Properties))
						}
						modMu.Unlock()
					}
				}
			}
		}()
	default:
		fail("scenario", fmt.Errorf("kind %q", sc.Kind))
	}
	done := make(chan struct{})
	go func() { wg.Wait(); close(done) }()
	select {
	case <-done:
	case <-time.After(15 * time.Second):
		r.Timeout = true
	}
	// afterwards, alone: the session still serves every service
	stage = "final requests"
	if !r.Timeout {
		for i := 0; i < nsvc; i++ {
			fd := make(chan string, 1)
			go func(i int) {
				p, err := sess.Proxy(c19ShareSvc(i), 1)
				if err == nil {
					err = checkMeta(p, i)
				}
				if err == nil {
					err = c19Echo(p, true, 99, i, 8)
				}
				if err != nil {
					fd <- err.Error()
					return
				}
				fd <- ""
			}(i)
			select {
			case r.Final[i] = <-fd:
			case <-time.After(4 * time.Second):
				r.Final[i] = "the request had not returned after 4 s"
			}
		}
	}
	poolCh := make(chan bool, 1)
	go func() { _, ok := session.VerifPool(sess); poolCh <- ok }()
	select {
	case r.PoolOK = <-poolCh:
	case <-time.After(2 * time.Second):
	}
	if gate != nil {
		stable := 0
		for i := 0; i < 100 && stable < 5; i++ {
			time.Sleep(10 * time.Millisecond)
			a, o := gate.counts()
			if a == r.Accepted && o == r.Open {
				stable++
			} else {
				stable = 0
			}
			r.Accepted, r.Open = a, o
		}
	}
	b, _ := json.Marshal(r)
	fmt.Println("C19SHARE " + string(b))
	os.Exit(0)
}

// ---------- the parent ----------

type c19ShareObs struct {
	class  string // ok | hang | crash | error
	res    c19ShareResult
	stderr string
}

func c19RunShare(sc c19ShareSc, workdir string, idx int) c19ShareObs {
	dir, err := os.MkdirTemp("", "qv19s-")
	if err != nil {
		return c19ShareObs{class: "error", stderr: err.Error()}
	}
	defer os.RemoveAll(dir)
	sc.Dir = dir
	b, _ := json.Marshal(sc)
	ctx, cancel := context.WithTimeout(context.Background(), 40*time.Second)
	defer cancel()
	out := filepath.Join(workdir, fmt.Sprintf("share%03d", idx))
	cmd := exec.CommandContext(ctx, os.Args[0], "--out", out, "C19share")
	cmd.Env = append(os.Environ(), "QV_C19S="+string(b))
	var so, se bytes.Buffer
	cmd.Stdout, cmd.Stderr = &so, &se
	err = cmd.Run()
	o := c19ShareObs{stderr: se.String()}
	os.RemoveAll(out)
	for _, line := range strings.Split(so.String(), "\n") {
		if strings.HasPrefix(line, "C19SHARE ") {
			if json.Unmarshal([]byte(strings.TrimPrefix(line, "C19SHARE ")), &o.res) == nil && err == nil {
				o.class = "ok"
				if o.res.Timeout {
					o.class = "hang"
				}
				return o
			}
		}
		if strings.HasPrefix(line, "C19ERROR") {
			o.class = "error"
			o.stderr = line + "\n" + o.stderr
			return o
		}
		if strings.HasPrefix(line, "C19HANG") {
			o.class = "hang"
			o.stderr = line
			return o
		}
		if strings.HasPrefix(line, "C19MODIFIED ") {
			o.res.Modified = strings.TrimPrefix(line, "C19MODIFIED ")
		}
	}
	if ctx.Err() != nil {
		o.class = "hang"
	} else {
		o.class = "crash"
	}
	return o
}

func (sc c19ShareSc) String() string {
	where := "on the directory's own server"
	if sc.Where == 1 {
		where = "behind a second endpoint (pooled by a request made alone before)"
	}
	if sc.Kind == "big" {
		return fmt.Sprintf("shared connection, large messages: %d services %s with meta-objects of %v documented methods (descriptions of %d bytes); %d goroutines, goroutine g asks the session %d times for service g mod %d (Session.Object instead of Session.Proxy: %v) and calls echo through each proxy with arguments of %v bytes",
			len(sc.Methods), where, sc.Methods, sc.Desc, sc.G, sc.Rounds, len(sc.Methods), sc.Obj, sc.Echo)
	}
	what := map[string]string{
		"minimal":   "a fresh reference per round whose meta-object lists the specific methods only",
		"empty":     "a fresh reference per round whose meta-object has three empty maps",
		"nilmaps":   "a fresh reference per round with the zero meta-object (nil maps)",
		"complete":  "a fresh reference per round with a complete meta-object (object.FullMetaObject)",
		"fromproxy": "a reference carrying the meta-object of a proxy the session returned before",
		"twin":      "two references (services share_0 and share_1) sharing one meta-object that lists the specific methods only, fresh per round",
		"reused":    "ONE reference, listing the specific methods only, used in every round",
	}[sc.Ref]
	return fmt.Sprintf("shared reference: %d services %s; %d rounds in which %d goroutines call Session.Object together with the same reference value — %s — and call echo through the proxy with arguments of %v bytes",
		len(sc.Methods), where, sc.Rounds, sc.G, what, sc.Echo)
}

func c19ShareScenarios(rng *hx.Rng, tier string) []c19ShareSc {
	fill := func(sc c19ShareSc, echo []int) c19ShareSc {
		sc.Echo = make([]int, sc.G)
		sc.Obj = make([]bool, sc.G)
		for g := range sc.Echo {
			sc.Echo[g] = echo[g%len(echo)]
		}
		return sc
	}
	var scs []c19ShareSc
	// directed: about 100 documented methods per service, as many goroutines as services
	scs = append(scs,
		fill(c19ShareSc{Kind: "big", Where: 0, Methods: []int{100, 100, 100, 100, 100, 100, 100, 100}, Desc: 168, G: 8, Rounds: 500}, []int{8}),
		fill(c19ShareSc{Kind: "big", Where: 1, Methods: []int{100, 120, 140, 160}, Desc: 200, G: 6, Rounds: 400}, []int{8, 6000}),
		fill(c19ShareSc{Kind: "big", Where: 1, Methods: []int{2, 2, 2}, Desc: 10, G: 6, Rounds: 400}, []int{5000, 70000, 20000}),
	)
	scs[1].Obj[4], scs[1].Obj[5] = true, true
	for _, kind := range []string{"minimal", "empty", "nilmaps", "complete", "fromproxy", "twin", "reused"} {
		scs = append(scs, fill(c19ShareSc{Kind: "ref", Where: len(scs) % 2, Methods: []int{3, 3}, Desc: 20, G: 8, Rounds: 60, Ref: kind}, []int{8}))
	}
	n := 4
	if tier == "thorough" {
		n = 60
	}
	kinds := []string{"minimal", "empty", "nilmaps", "complete", "fromproxy", "twin", "reused"}
	for i := 0; i < n; i++ {
		if i%2 == 0 {
			ns := 2 + rng.Intn(5)
			sc := c19ShareSc{Kind: "big", Where: rng.Intn(2), Desc: 60 + rng.Intn(200), G: 2 + rng.Intn(5), Rounds: 250}
			for s := 0; s < ns; s++ {
				m := 40 + rng.Intn(121)
				if rng.Chance(0.2) {
					m = rng.Intn(5)
				}
				sc.Methods = append(sc.Methods, m)
			}
			sc = fill(sc, []int{8})
			for g := range sc.Echo {
				sc.Obj[g] = rng.Chance(0.25)
				if rng.Chance(0.4) {
					sc.Echo[g] = []int{4000, 4096, 4097, 9000, 33000, 70000}[rng.Intn(6)]
				}
			}
			scs = append(scs, sc)
		} else {
			sc := c19ShareSc{Kind: "ref", Where: rng.Intn(2), Methods: []int{rng.Intn(6), rng.Intn(6)}, Desc: 20, G: 2 + rng.Intn(7), Rounds: 40 + rng.Intn(40), Ref: kinds[rng.Intn(len(kinds))]}
			sc = fill(sc, []int{8})
			for g := range sc.Echo {
				if rng.Chance(0.2) {
					sc.Echo[g] = 5000
				}
			}
			scs = append(scs, sc)
		}
	}
	return scs
}

func runC19Share(res *hx.Result, rng *hx.Rng, tier string, outdir string) {
	scs := c19ShareScenarios(rng, tier)
	obs := make([]c19ShareObs, len(scs))
	var wg sync.WaitGroup
	sem := make(chan struct{}, 4)
	for i := range scs {
		wg.Add(1)
		go func(i int) {
			defer wg.Done()
			sem <- struct{}{}
			defer func() { <-sem }()
			obs[i] = c19RunShare(scs[i], outdir, i)
			if obs[i].class == "error" {
				obs[i] = c19RunShare(scs[i], outdir, i)
			}
		}(i)
	}
	wg.Wait()
	for i, sc := range scs {
		o := obs[i]
		desc := sc.String()
		res.Count(desc, true)
		res.Dist("share:" + sc.Kind + ":outcome:" + o.class)
		if sc.Kind == "ref" {
			res.Dist("share:reference:" + sc.Ref)
		} else {
			res.Dist(fmt.Sprintf("share:largest-meta-object-reply:%d-KiB", (o.res.Bytes+512)/1024))
		}
		res.Sample(fmt.Sprintf("%s => %s done=%v largest meta-object %d bytes", desc, o.class, o.res.Done, o.res.Bytes))
		if o.class != "ok" && o.res.Modified != "" {
			res.Fail("reference-modified", desc+": "+o.res.Modified)
		}
		switch o.class {
		case "crash":
			res.Fail("process-crashed", fmt.Sprintf("%s: the process died: %s", desc, c19Tail(o.stderr, 400)))
		case "hang":
			res.Fail("request-never-returned", fmt.Sprintf("%s: %s", desc, c19Tail(o.stderr, 200)))
		case "error":
			res.Notes = append(res.Notes, "scenario could not be set up: "+desc+": "+c19Tail(o.stderr, 200))
		case "ok":
			for g, e := range o.res.Errs {
				if e == "" {
					continue
				}
				detail := fmt.Sprintf("%s: goroutine %d, after %d good requests: %s", desc, g, o.res.Done[g], e)
				if strings.Contains(e, net.ErrConsumerBlocked.Error()) {
					res.FailKnown("request-failed", detail, "consumer_queue_overflow")
				} else {
					res.Fail("request-failed", detail)
				}
			}
			for s, e := range o.res.Final {
				if e != "" {
					res.Fail("request-failed", fmt.Sprintf("%s: afterwards, alone, the request for %s failed: %s", desc, c19ShareSvc(s), e))
				}
			}
			if o.res.Modified != "" {
				res.Fail("reference-modified", desc+": "+o.res.Modified)
			}
			if sc.Where == 1 && o.res.Open > 1 {
				res.Fail("connections-per-endpoint", fmt.Sprintf("%s: %d connections to the endpoint are still open (accepted %d)", desc, o.res.Open, o.res.Accepted))
			}
			if !o.res.PoolOK {
				res.Fail("pool-lock", desc+": the pool's lock could not be taken for reading after every request returned")
			}
		}
	}
}
