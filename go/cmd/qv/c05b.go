package main

import (
	"fmt"
	"strings"
	"sync"

	"qv/internal/c05"
	"qv/internal/c05rt"
	"qv/internal/hx"
)

// ---------- defect probes ----------

type c05probe struct {
	key, what string
	pkg       *c05.Package
	run       bool // the witness compiles; the defect shows when the driver runs it
}

func c05witnesses() []c05probe {
	i32, str := c05.Sc("int32"), c05.Sc("str")
	zz := func() *c05.Action {
		return &c05.Action{Kind: "fn", Name: "zz", Params: []c05.Param{{Name: "a", T: i32}}, Ret: i32}
	}
	mk := func(name string, iface string, structs []*c05.StructDecl, acts ...*c05.Action) *c05.Package {
		p := &c05.Package{Name: name, Structs: structs, Ifaces: []*c05.Iface{{Name: iface, Actions: acts}}, Stream: "probe"}
		p.Number()
		return p
	}
	fn := func(name string, ret *c05.IType, ps ...c05.Param) *c05.Action {
		return &c05.Action{Kind: "fn", Name: name, Params: ps, Ret: ret}
	}
	act := func(kind, name string, ps ...c05.Param) *c05.Action {
		return &c05.Action{Kind: kind, Name: name, Params: ps}
	}
	par := func(n string, t *c05.IType) c05.Param { return c05.Param{Name: n, T: t} }
	tup := c05.TupleOf(c05.Sc("int8"), str)
	sany := &c05.StructDecl{Name: "S", Fields: []c05.Field{{Name: "a", T: c05.Sc("any")}}}
	sfoo := &c05.StructDecl{Name: "S", Fields: []c05.Field{{Name: "foo", T: i32}, {Name: "Foo", T: str}}}
	return []c05probe{
		{"import_basic_missing", "a method that only returns a string", mk("w0", "A", nil, fn("f", str)), false},
		{"prop_param_count", "a property with two parameters", mk("w1", "A", nil, zz(), act("prop", "s", par("a", i32), par("b", str))), false},
		{"tuple_marshal_err_scope", "a parameterless method returning a tuple", mk("w2", "A", nil, zz(), fn("f", tup)), false},
		{"tuple_marshal_err_scope", "a signal with a tuple parameter", mk("w3", "A", nil, zz(), act("sig", "s", par("a", tup))), false},
		{"iface_name_lowercase", "an interface named foo", mk("w4", "foo", nil, zz()), false},
		{"ident_keyword_raw", "a method parameter named type", mk("w5", "A", nil, zz(), fn("f", nil, par("type", i32))), false},
		{"ident_keyword_raw", "a signal parameter named type", mk("w6", "A", nil, zz(), act("sig", "s", par("type", i32))), false},
		{"ident_receiver_shadow", "a method parameter named p", mk("w7", "A", nil, zz(), fn("f", nil, par("p", i32))), false},
		{"ident_generated_collision", "a method parameter named buf", mk("w8", "A", nil, zz(), fn("f", i32, par("buf", i32))), false},
		{"ident_title_collision", "a struct with fields foo and Foo", mk("w9", "A", []*c05.StructDecl{sfoo}, zz(), fn("f", nil, par("a", c05.RefTo(sfoo)))), false},
		{"method_reserved_name", "a method named proxy", mk("w10", "A", nil, zz(), fn("proxy", nil)), false},
		{"result_any_member", "a method returning a struct with a field of type any", mk("w12", "A", []*c05.StructDecl{sany}, zz(), fn("f", c05.RefTo(sany))), true},
		{"prop_any_roundtrip", "a property of type any, set through the proxy and read back", mk("w13", "A", nil, zz(), act("prop", "s", par("a", c05.Sc("any")))), true},
		{"objref_property", "a property holding an object of another interface", c05objWitness("w14", "prop"), false},
		{"objref_in_struct", "a two-parameter signal carrying an object", c05objWitness("w15", "sig2"), false},
		{"objref_in_struct", "a struct with an object field", c05objWitness("w16", "struct"), false},
		{"obj_plain_param", "a method parameter of type obj", mk("w17", "A", nil, zz(), fn("f", nil, par("b", c05.Sc("obj")))), false},
		{"objref_package_path", "a method returning an object, generated with a package path (stub --path)", c05objWitness("w18", "path"), false},
		{"objref_lowercase_iface", "a method returning an object of an interface named bomb", c05objWitness("w19", "lower"), false},
		{"method_shadows_generic", "a method property(any) next to four properties (which of the two methods a call reaches is decided per call by map iteration order)", mk("w20", "A", nil, zz(), fn("property", i32, par("a", c05.Sc("any"))), act("prop", "s", par("a", i32)), act("prop", "t", par("a", str)), act("prop", "u", par("a", i32)), act("prop", "v", par("a", str))), true},
		{"prop_any_value_shadow", "a property of type any", mk("w11", "A", nil, zz(), act("prop", "s", par("a", c05.Sc("any")))), false},
	}
}

// c05objWitness: interface Bomb handed around by interface A in the given shape.
func c05objWitness(name, shape string) *c05.Package {
	i32 := c05.Sc("int32")
	bomb := &c05.Iface{Name: "Bomb", Actions: []*c05.Action{{Kind: "fn", Name: "arm", Params: []c05.Param{{Name: "a", T: i32}}, Ret: i32}}}
	a := &c05.Iface{Name: "A", Actions: []*c05.Action{{Kind: "fn", Name: "zz", Params: []c05.Param{{Name: "a", T: i32}}, Ret: i32}}}
	p := &c05.Package{Name: name, Ifaces: []*c05.Iface{bomb, a}, Stream: "probe"}
	switch shape {
	case "prop":
		a.Actions = append(a.Actions, &c05.Action{Kind: "prop", Name: "cur", Params: []c05.Param{{Name: "b", T: c05.ObjOf(bomb)}}})
	case "sig2":
		a.Actions = append(a.Actions, &c05.Action{Kind: "sig", Name: "sent", Params: []c05.Param{{Name: "x", T: i32}, {Name: "b", T: c05.ObjOf(bomb)}}})
	case "struct":
		s := &c05.StructDecl{Name: "Cargo", Fields: []c05.Field{{Name: "b", T: c05.ObjOf(bomb)}, {Name: "n", T: i32}}}
		p.Structs = append(p.Structs, s)
		a.Actions = append(a.Actions, &c05.Action{Kind: "fn", Name: "load", Params: []c05.Param{{Name: "c2", T: c05.RefTo(s)}}})
	case "lower":
		bomb.Name = "bomb"
		a.Actions = append(a.Actions, &c05.Action{Kind: "fn", Name: "shoot", Ret: c05.ObjOf(bomb)})
	case "path":
		a.Actions = append(a.Actions, &c05.Action{Kind: "fn", Name: "shoot", Ret: c05.ObjOf(bomb)})
		p.GenPath = "qv/pkgs/" + name + "/" + name
	}
	p.Number()
	return p
}

// c05probes builds each witness package; a switch is on when a witness does not compile.
func c05probes(res *hx.Result, env *c05.Env) (map[string]bool, c05.Outcome) {
	ws := c05witnesses()
	ow := c05overWitness()
	var over c05.Outcome
	var owg sync.WaitGroup
	owg.Add(1)
	go func() {
		defer owg.Done()
		over = env.Run(ow.Name, ow, 7, 2, false)
	}()
	outs := make([]c05.Outcome, len(ws))
	var wg sync.WaitGroup
	sem := make(chan struct{}, 8)
	for i := range ws {
		i := i
		wg.Add(1)
		sem <- struct{}{}
		go func() {
			defer wg.Done()
			defer func() { <-sem }()
			outs[i] = env.Run(ws[i].pkg.Name, ws[i].pkg, 7, 2, !ws[i].run)
		}()
	}
	wg.Wait()
	sw := map[string]bool{}
	detail := map[string]string{}
	for i, w := range ws {
		if _, seen := sw[w.key]; !seen {
			sw[w.key] = false
		}
		e := outs[i].GenErr + outs[i].BuildErr
		if w.run && e == "" {
			_, e = c05failure(w.pkg, outs[i])
		}
		if e != "" {
			sw[w.key] = true
			if detail[w.key] == "" {
				detail[w.key] = fmt.Sprintf("%s. IDL: %s -- %s", w.what,
					strings.ReplaceAll(strings.TrimSpace(w.pkg.Text()), "\n", " | "), strings.ReplaceAll(e, "\n", " | "))
			}
		}
	}
	owg.Wait()
	on, d, other := c05overVerdict(ow, over)
	sw["result_over_4096"], detail["result_over_4096"] = on, d
	if other != "" {
		res.Fail("probe", fmt.Sprintf("IDL package (%s):\n%s-- %s", ow.String(), ow.Text(), other))
	}
	for k, on := range sw {
		res.Switch(k, on, detail[k])
	}
	return sw, over
}

// c05overWitness: lists and maps one entry beyond the bound of the reflection decoder
// (finding refl_list_over_4096 of C03), as arguments and as results of generated methods.
func c05overWitness() *c05.Package {
	u8 := c05.Sc("uint8")
	l, m := c05.Vec(u8), c05.MapOf(c05.Sc("uint16"), u8)
	p := &c05.Package{Name: "w21", Stream: "probe", Sizes: "4097", Ifaces: []*c05.Iface{{Name: "A", Actions: []*c05.Action{
		{Kind: "fn", Name: "f", Params: []c05.Param{{Name: "a", T: l}}, Ret: l},
		{Kind: "fn", Name: "g", Params: []c05.Param{{Name: "a", T: m}}, Ret: m},
	}}}}
	p.Number()
	return p
}

// c05overVerdict: on = with 4097 entries the arguments reach the implementation unchanged and
// the stub answers with the documented encoding of the result, which the proxy then refuses
// (exactly the recorded weakness).  Anything else that goes wrong is reported in other.
func c05overVerdict(p *c05.Package, o c05.Outcome) (on bool, detail, other string) {
	if e := o.GenErr + o.BuildErr + o.RunErr; e != "" {
		return false, "", "the witness package of result_over_4096 cannot be driven: " + e
	}
	var first c05.Outcome
	sized := 0
	for _, r := range o.Records {
		if r.Note == "" {
			first.Records = append(first.Records, r)
			continue
		}
		sized++
		refused := r.Kind == "fn" && r.Err != "" && len(r.Legs) == 2 && r.Legs[0].ValueOK && r.Legs[0].Seen && r.Legs[1].Seen && r.Legs[1].BytesOK
		switch k, d := c05recordFailure(r); {
		case refused:
			on = true
			if detail == "" {
				detail = fmt.Sprintf("a result with 4097 entries. IDL: %s -- %s", strings.ReplaceAll(strings.TrimSpace(p.Text()), "\n", " | "), d)
			}
		case k != "":
			other = k + ": " + d
		}
	}
	if k, d := c05failure(p, first); k != "" {
		other = k + ": " + d
	}
	if sized != 2 && other == "" {
		other = fmt.Sprintf("%d records with 4097 entries for 2 methods", sized)
	}
	return on, detail, other
}

// c05overCases: the passages of the witness as correspondence cases; a refused result is a
// case of kind 3 (the model's reflection decoder refuses it as well).
func c05overCases(res *hx.Result, cs *hx.Cases, o c05.Outcome) {
	for _, r := range o.Records {
		c05addCases(res, cs, "w21", r, r.Note != "" && r.Err != "")
	}
}

// ---------- correspondence cases ----------

func c05cases(res *hx.Result, outdir string, sw map[string]bool) *hx.Cases {
	cfg, wsw := wireSwitches(res, "refl_drop8")
	for k, v := range wsw {
		if k == "refl_drop8" {
			sw[k] = v
		}
	}
	cs := hx.NewCases(outdir, "C05", "From QV Require Import Wire ParseOpt GenCodec C05Run.", "mismatches cfg cases", res, "cases", "c05case")
	cs.Extra = append(cs.Extra, cfg)
	return cs
}

// c05addCases: refused = the call failed although the reply arrived (results become kind 3).
func c05addCases(res *hx.Result, cs *hx.Cases, id string, r c05rt.Record, refused bool) {
	note := ""
	if r.Note != "" {
		note = " [" + r.Note + "]"
	}
	for _, l := range r.Legs {
		res.Dist("leg:" + l.What)
		if !l.Seen {
			continue // no frame was observed: nothing to compare (the oracle has spoken)
		}
		if l.Raw {
			res.Dist("leg-with-raw-data-oracle-only")
			continue
		}
		if l.NoModel {
			res.Dist("leg-too-large-for-a-case")
			continue
		}
		if l.InSeq {
			continue // a step of the sequence case below
		}
		kind := l.Kind
		if refused && kind == 1 {
			kind = 3
		}
		canon := l.Canon
		if len(canon) > 300 {
			canon = canon[:300] + "..."
		}
		cs.Add("cases", fmt.Sprintf("{| k_kind := %d; k_tys := %s; k_vals := %s; k_bytes := %s; k_seq := [] |}",
			kind, hx.List(l.Tys), hx.List(l.Vals), "\""+l.Bytes+"\"%string"),
			fmt.Sprintf("package %s %s %s.%s%s leg %s sig=%s values=%s", id, r.Kind, r.Iface, r.Name, note, l.What, strings.Join(l.Sigs, " "), canon))
	}
	if len(r.Seq) > 0 {
		steps := make([]string, len(r.Seq))
		for i, s := range r.Seq {
			steps[i] = fmt.Sprintf("{| s_op := %d; s_id := %d; s_ty := %s; s_val := %s; s_bytes := \"%s\"%%string |}", s.Op, s.ID, s.Ty, s.Val, s.Bytes)
		}
		res.Dist("sequence-cases")
		cs.Add("cases", fmt.Sprintf("{| k_kind := 4; k_tys := []; k_vals := []; k_bytes := \"\"%%string; k_seq := %s |}", hx.List(steps)),
			fmt.Sprintf("package %s sequence on %s: %s", id, r.Iface, strings.Join(r.Trace, "; ")))
	}
}
