package main

import (
	"fmt"
	"strings"
	"sync"

	"qv/internal/c05"
	"qv/internal/c05rt"
	"qv/internal/hx"
)

// ---------- defect probes ----------

type c05probe struct {
	key, what string
	pkg       *c05.Package
	run       bool // the witness compiles; the defect shows when the driver runs it
}

func c05witnesses() []c05probe {
	i32, str := c05.Sc("int32"), c05.Sc("str")
	zz := func() *c05.Action {
		return &c05.Action{Kind: "fn", Name: "zz", Params: []c05.Param{{Name: "a", T: i32}}, Ret: i32}
	}
	mk := func(name string, iface string, structs []*c05.StructDecl, acts ...*c05.Action) *c05.Package {
		p := &c05.Package{Name: name, Structs: structs, Ifaces: []*c05.Iface{{Name: iface, Actions: acts}}, Stream: "probe"}
		p.Number()
		return p
	}
	fn := func(name string, ret *c05.IType, ps ...c05.Param) *c05.Action {
		return &c05.Action{Kind: "fn", Name: name, Params: ps, Ret: ret}
	}
	act := func(kind, name string, ps ...c05.Param) *c05.Action {
		return &c05.Action{Kind: kind, Name: name, Params: ps}
	}
	par := func(n string, t *c05.IType) c05.Param { return c05.Param{Name: n, T: t} }
	tup := c05.TupleOf(c05.Sc("int8"), str)
	sany := &c05.StructDecl{Name: "S", Fields: []c05.Field{{Name: "a", T: c05.Sc("any")}}}
	sfoo := &c05.StructDecl{Name: "S", Fields: []c05.Field{{Name: "foo", T: i32}, {Name: "Foo", T: str}}}
	return []c05probe{
		{"import_basic_missing", "a method that only returns a string", mk("w0", "A", nil, fn("f", str)), false},
		{"prop_param_count", "a property with two parameters", mk("w1", "A", nil, zz(), act("prop", "s", par("a", i32), par("b", str))), false},
		{"tuple_marshal_err_scope", "a parameterless method returning a tuple", mk("w2", "A", nil, zz(), fn("f", tup)), false},
		{"tuple_marshal_err_scope", "a signal with a tuple parameter", mk("w3", "A", nil, zz(), act("sig", "s", par("a", tup))), false},
		{"iface_name_lowercase", "an interface named foo", mk("w4", "foo", nil, zz()), false},
		{"ident_keyword_raw", "a method parameter named type", mk("w5", "A", nil, zz(), fn("f", nil, par("type", i32))), false},
		{"ident_keyword_raw", "a signal parameter named type", mk("w6", "A", nil, zz(), act("sig", "s", par("type", i32))), false},
		{"ident_receiver_shadow", "a method parameter named p", mk("w7", "A", nil, zz(), fn("f", nil, par("p", i32))), false},
		{"ident_generated_collision", "a method parameter named buf", mk("w8", "A", nil, zz(), fn("f", i32, par("buf", i32))), false},
		{"ident_title_collision", "a struct with fields foo and Foo", mk("w9", "A", []*c05.StructDecl{sfoo}, zz(), fn("f", nil, par("a", c05.RefTo(sfoo)))), false},
		{"method_reserved_name", "a method named proxy", mk("w10", "A", nil, zz(), fn("proxy", nil)), false},
		{"result_any_member", "a method returning a struct with a field of type any", mk("w12", "A", []*c05.StructDecl{sany}, zz(), fn("f", c05.RefTo(sany))), true},
		{"prop_any_roundtrip", "a property of type any, set through the proxy and read back", mk("w13", "A", nil, zz(), act("prop", "s", par("a", c05.Sc("any")))), true},
		{"objref_property", "a property holding an object of another interface", c05objWitness("w14", "prop"), false},
		{"objref_in_struct", "a two-parameter signal carrying an object", c05objWitness("w15", "sig2"), false},
		{"objref_in_struct", "a struct with an object field", c05objWitness("w16", "struct"), false},
		{"obj_plain_param", "a method parameter of type obj", mk("w17", "A", nil, zz(), fn("f", nil, par("b", c05.Sc("obj")))), false},
		{"objref_package_path", "a method returning an object, generated with a package path (stub --path)", c05objWitness("w18", "path"), false},
		{"objref_lowercase_iface", "a method returning an object of an interface named bomb", c05objWitness("w19", "lower"), false},
		{"method_shadows_generic", "a method property(any) next to four properties (which of the two methods a call reaches is decided per call by map iteration order)", mk("w20", "A", nil, zz(), fn("property", i32, par("a", c05.Sc("any"))), act("prop", "s", par("a", i32)), act("prop", "t", par("a", str)), act("prop", "u", par("a", i32)), act("prop", "v", par("a", str))), true},
		{"prop_any_value_shadow", "a property of type any", mk("w11", "A", nil, zz(), act("prop", "s", par("a", c05.Sc("any")))), false},
	}
}

// c05objWitness: interface Bomb handed around by interface A in the given shape.
func c05objWitness(name, shape string) *c05.Package {
	i32 := c05.Sc("int32")
	bomb := &c05.Iface{Name: "Bomb", Actions: []*c05.Action{{Kind: "fn", Name: "arm", Params: []c05.Param{{Name: "a", T: i32}}, Ret: i32}}}
	a := &c05.Iface{Name: "A", Actions: []*c05.Action{{Kind: "fn", Name: "zz", Params: []c05.Param{{Name: "a", T: i32}}, Ret: i32}}}
	p := &c05.Package{Name: name, Ifaces: []*c05.Iface{bomb, a}, Stream: "probe"}
	switch shape {
	case "prop":
		a.Actions = append(a.Actions, &c05.Action{Kind: "prop", Name: "cur", Params: []c05.Param{{Name: "b", T: c05.ObjOf(bomb)}}})
	case "sig2":
		a.Actions = append(a.Actions, &c05.Action{Kind: "sig", Name: "sent", Params: []c05.Param{{Name: "x", T: i32}, {Name: "b", T: c05.ObjOf(bomb)}}})
	case "struct":
		s := &c05.StructDecl{Name: "Cargo", Fields: []c05.Field{{Name: "b", T: c05.ObjOf(bomb)}, {Name: "n", T: i32}}}
		p.Structs = append(p.Structs, s)
		a.Actions = append(a.Actions, &c05.Action{Kind: "fn", Name: "load", Params: []c05.Param{{Name: "c2", T: c05.RefTo(s)}}})
	case "lower":
		bomb.Name = "bomb"
		a.Actions = append(a.Actions, &c05.Action{Kind: "fn", Name: "shoot", Ret: c05.ObjOf(bomb)})
	case "path":
		a.Actions = append(a.Actions, &c05.Action{Kind: "fn", Name: "shoot", Ret: c05.ObjOf(bomb)})
		p.GenPath = "qv/pkgs/" + name + "/" + name
	}
	p.Number()
	return p
}

// c05probes builds each witness package; a switch is on when a witness does not compile.
func c05probes(res *hx.Result, env *c05.Env) map[string]bool {
	ws := c05witnesses()
	outs := make([]c05.Outcome, len(ws))
	var wg sync.WaitGroup
	sem := make(chan struct{}, 8)
	for i := range ws {
		i := i
		wg.Add(1)
		sem <- struct{}{}
		go func() {
			defer wg.Done()
			defer func() { <-sem }()
			outs[i] = env.Run(ws[i].pkg.Name, ws[i].pkg, 7, 2, !ws[i].run)
		}()
	}
	wg.Wait()
	sw := map[string]bool{}
	detail := map[string]string{}
	for i, w := range ws {
		if _, seen := sw[w.key]; !seen {
			sw[w.key] = false
		}
		e := outs[i].GenErr + outs[i].BuildErr
		if w.run && e == "" {
			_, e = c05failure(w.pkg, outs[i])
		}
		if e != "" {
			sw[w.key] = true
			if detail[w.key] == "" {
				detail[w.key] = fmt.Sprintf("%s. IDL: %s -- %s", w.what,
					strings.ReplaceAll(strings.TrimSpace(w.pkg.Text()), "\n", " | "), strings.ReplaceAll(e, "\n", " | "))
			}
		}
	}
	for k, on := range sw {
		res.Switch(k, on, detail[k])
	}
	return sw
}

// ---------- correspondence cases ----------

func c05cases(res *hx.Result, outdir string, sw map[string]bool) *hx.Cases {
	cfg, wsw := wireSwitches(res, "refl_drop8")
	for k, v := range wsw {
		if k == "refl_drop8" {
			sw[k] = v
		}
	}
	cs := hx.NewCases(outdir, "C05", "From QV Require Import Wire ParseOpt GenCodec C05Run.", "mismatches cfg cases", res, "cases", "c05case")
	cs.Extra = append(cs.Extra, cfg)
	return cs
}

func c05addCases(res *hx.Result, cs *hx.Cases, j *c05job, r c05rt.Record) {
	for _, l := range r.Legs {
		res.Dist("leg:" + l.What)
		if !l.Seen {
			continue // no frame was observed: nothing to compare (the oracle has spoken)
		}
		cs.Add("cases", fmt.Sprintf("{| k_kind := %d; k_tys := %s; k_vals := %s; k_bytes := %s |}",
			l.Kind, hx.List(l.Tys), hx.List(l.Vals), "\""+l.Bytes+"\"%string"),
			fmt.Sprintf("package %s %s %s.%s leg %s sig=%s values=%s", j.id, r.Kind, r.Iface, r.Name, l.What, strings.Join(l.Sigs, " "), l.Canon))
	}
}
