package main

import (
	"bytes"
	"encoding/binary"
	"fmt"
	"io"

	"github.com/lugu/qiloop/bus/net"
	"qv/internal/hx"
)

func init() { props["C01"] = runC01 }

type schedEntry struct {
	k   int
	eof bool
}

// schedReader is the harness-owned io.Reader the model's read1 describes.
type schedReader struct {
	data  []byte
	sched []schedEntry
	reads int
}

func (r *schedReader) Read(p []byte) (int, error) {
	r.reads++
	k, e := len(p), false
	if len(r.sched) > 0 {
		k, e = r.sched[0].k, r.sched[0].eof
		r.sched = r.sched[1:]
	}
	if len(r.data) == 0 {
		return 0, io.EOF
	}
	m := k
	if len(p) < m {
		m = len(p)
	}
	if len(r.data) < m {
		m = len(r.data)
	}
	copy(p, r.data[:m])
	r.data = r.data[m:]
	if len(r.data) == 0 && e {
		return m, io.EOF
	}
	return m, nil
}

// schedWriter accepts sched[i] bytes on the i-th call, then everything.
type schedWriter struct {
	calls [][]byte
	sched []int
}

func (w *schedWriter) Write(p []byte) (int, error) {
	m := len(p)
	if len(w.sched) > 0 {
		if w.sched[0] < m {
			m = w.sched[0]
		}
		w.sched = w.sched[1:]
	}
	w.calls = append(w.calls, append([]byte(nil), p[:m]...))
	return m, nil
}

// docFrame: the frame as documented in doc/about-qimessaging.md, written
// independently of the implementation.
func docFrame(h net.Header, payload []byte) []byte {
	b := []byte{0x42, 0xde, 0xad, 0x42}
	le32 := func(v uint32) { var t [4]byte; binary.LittleEndian.PutUint32(t[:], v); b = append(b, t[:]...) }
	le32(h.ID)
	le32(h.Size)
	b = append(b, byte(h.Version), byte(h.Version>>8), h.Type, h.Flags)
	le32(h.Service)
	le32(h.Object)
	le32(h.Action)
	return append(b, payload...)
}

func hdrFields(h net.Header) []uint64 {
	return []uint64{uint64(h.Magic), uint64(h.ID), uint64(h.Size), uint64(h.Version), uint64(h.Type),
		uint64(h.Flags), uint64(h.Service), uint64(h.Object), uint64(h.Action)}
}

func genHeader(rng *hx.Rng) net.Header {
	return net.Header{Magic: net.Magic, ID: rng.U32Boundary(), Version: net.Version,
		Type: uint8(1 + rng.Intn(8)), Flags: uint8(rng.U64()), Service: rng.U32Boundary(),
		Object: rng.U32Boundary(), Action: rng.U32Boundary()}
}

func genPayloadLen(rng *hx.Rng, tier string) int {
	switch rng.Intn(10) {
	case 0:
		return 0
	case 1:
		return 1
	case 2:
		return rng.Pick(2, 27, 28, 29)
	case 3:
		if rng.Chance(0.2) {
			return rng.Intn(3000)
		}
		return rng.Intn(300)
	default:
		return rng.Intn(40)
	}
}

// seg is a run of `n` identical schedule entries (run-length form keeps case files small).
type seg struct {
	n, k int
	eof  bool
}

func expand(segs []seg) []schedEntry {
	var s []schedEntry
	for _, g := range segs {
		for i := 0; i < g.n; i++ {
			s = append(s, schedEntry{g.k, g.eof})
		}
	}
	return s
}

func genSched(rng *hx.Rng, total int, allowZero bool) ([]seg, string) {
	var s []seg
	kind := rng.Intn(7)
	name := ""
	switch kind {
	case 0:
		name = "whole"
	case 1:
		name = "bytewise"
		for n := 0; n < total+2; {
			c := 1 + rng.Intn(total+2)
			s = append(s, seg{c, 1, rng.Bool()})
			n += c
		}
	case 2:
		name = "random-chunks"
		for n := 0; n < total && len(s) < 40; {
			k := 1 + rng.Intn(40)
			c := 1 + rng.Intn(3)
			s = append(s, seg{c, k, rng.Bool()})
			n += k * c
		}
	case 3:
		name = "header-edge"
		s = append(s, seg{1, rng.Pick(27, 28, 29), rng.Bool()})
		for i := 0; i < 3+rng.Intn(4); i++ {
			s = append(s, seg{1, 1 + rng.Intn(30), rng.Bool()})
		}
	case 4:
		name = "eof-with-data"
		for n := 0; n < total && len(s) < 40; {
			k := 1 + rng.Intn(60)
			s = append(s, seg{1, k, true})
			n += k
		}
	case 5:
		name = "short-schedule"
		for i := 0; i < rng.Intn(4); i++ {
			s = append(s, seg{1, 1 + rng.Intn(10), rng.Bool()})
		}
	case 6:
		name = "large-chunks"
		for i := 0; i < 1+rng.Intn(5); i++ {
			s = append(s, seg{1, 20 + rng.Intn(5000), rng.Bool()})
		}
	}
	if allowZero && len(s) > 0 && rng.Chance(0.15) {
		s = append(s[:rng.Intn(len(s))+1], seg{1, 0, rng.Bool()})
		name += "+zero"
	}
	return s, name
}

func schedTerm(s []seg) string {
	it := make([]string, len(s))
	for i, e := range s {
		it[i] = fmt.Sprintf("(%d, %d, %s)", e.n, e.k, hx.Bool(e.eof))
	}
	return "[" + joinSemi(it) + "]%N"
}

func joinSemi(it []string) string {
	var b bytes.Buffer
	for i, s := range it {
		if i > 0 {
			b.WriteString("; ")
		}
		b.WriteString(s)
	}
	return b.String()
}

type readObs struct {
	msgs  []net.Message
	errc  int
	left  int
	sleft int
}

func runRead(data []byte, segs []seg) readObs {
	r := &schedReader{data: append([]byte(nil), data...), sched: expand(segs)}
	var o readObs
	for {
		var m net.Message
		err := m.Read(r)
		if err != nil {
			if err == io.EOF {
				o.errc = 0
			} else {
				o.errc = 1
			}
			break
		}
		o.msgs = append(o.msgs, m)
	}
	o.left, o.sleft = len(r.data), len(r.sched)
	return o
}

// runReadShared reads the same stream into ONE Message variable, keeping a copy of the struct per
// frame (what a caller that queues the messages it reads does): a Read that reuses the storage
// of the previous payload corrupts the frames already handed out.
func runReadShared(data []byte, segs []seg) []net.Message {
	r := &schedReader{data: append([]byte(nil), data...), sched: expand(segs)}
	var kept []net.Message
	var m net.Message
	for {
		if err := m.Read(r); err != nil {
			break
		}
		kept = append(kept, m)
	}
	return kept
}

// failWriter accepts n bytes in all, then fails every call with err (returning 0 bytes).
type failWriter struct {
	n   int
	err error
	got []byte
}

func (w *failWriter) Write(p []byte) (int, error) {
	if w.n <= 0 {
		return 0, w.err
	}
	m := len(p)
	if m > w.n {
		m = w.n
	}
	w.n -= m
	w.got = append(w.got, p[:m]...)
	if m < len(p) {
		return m, w.err
	}
	return m, nil
}

func obsTerm(o readObs) string {
	it := make([]string, len(o.msgs))
	for i, m := range o.msgs {
		it[i] = fmt.Sprintf("(%s, %s)", hx.NList(hdrFields(m.Header)), hx.Hex(m.Payload))
	}
	return hx.List(it)
}

func allPositive(s []seg) bool {
	for _, e := range s {
		if e.k < 1 {
			return false
		}
	}
	return true
}

func runC01(res *hx.Result, rng *hx.Rng, tier string, outdir string) {
	res.Rule = "streams = 1..6 valid frames (boundary/random header fields, payload 0,1,2,27,28,29,random) + optional tail " +
		"(truncated frame, refused header + trailing bytes) read through a fragmentation schedule; " +
		"non-trivial = some frame has payload >= 1 and the schedule forces >= 2 reads inside one frame, or the stream holds a refused header; " +
		"distinct by sha256 of (bytes, schedule)"
	nStreams, nWrites := 500, 150
	if tier == "thorough" {
		nStreams, nWrites = 20000, 4000
	}
	cf := hx.NewCases(outdir, "C01", "From QV Require Import Reader Message C01Run.", "mismatches rcases wcases", res,
		"rcases", "rcase", "wcases", "wcase")
	for i := 0; i < nStreams; i++ {
		var stream []byte
		var sent []net.Message
		n := 1 + rng.Intn(6)
		hasPayload := false
		for j := 0; j < n; j++ {
			h := genHeader(rng)
			p := rng.Bytes(genPayloadLen(rng, tier))
			m := net.NewMessage(h, p)
			var buf bytes.Buffer
			w := &schedWriter{}
			if err := m.Write(w); err != nil {
				res.Fail("write-valid", fmt.Sprintf("Message.Write failed on a valid message %v: %v", m.Header, err))
				continue
			}
			// oracle: exactly one Write call carrying the documented frame
			if len(w.calls) != 1 {
				res.Fail("one-write", fmt.Sprintf("Message.Write issued %d Write calls for %v (payload %d bytes)", len(w.calls), m.Header, len(p)))
			}
			for _, c := range w.calls {
				buf.Write(c)
			}
			if !bytes.Equal(buf.Bytes(), docFrame(m.Header, p)) {
				res.Fail("layout", fmt.Sprintf("bytes written for header %+v payload %x are %x, documented layout is %x", m.Header, p, buf.Bytes(), docFrame(m.Header, p)))
			}
			stream = append(stream, buf.Bytes()...)
			sent = append(sent, m)
			if len(p) > 0 {
				hasPayload = true
			}
		}
		tail := rng.Intn(6)
		tailName := "none"
		refused := false
		var rest []byte
		switch tail {
		case 0, 1:
		case 2: // truncated frame
			tailName = "truncated"
			h := genHeader(rng)
			p := rng.Bytes(1 + rng.Intn(40))
			f := docFrame(net.NewMessage(h, p).Header, p)
			stream = append(stream, f[:rng.Intn(len(f))]...)
		default: // refused header followed by bytes that must not be consumed
			refused = true
			h := genHeader(rng)
			h.Size = uint32(rng.Intn(16))
			switch rng.Intn(5) {
			case 0:
				tailName = "bad-magic"
				h.Magic = rng.U32Boundary()
				if h.Magic == net.Magic {
					h.Magic++
				}
			case 1:
				tailName = "bad-version"
				h.Version = uint16(1 + rng.Intn(65535))
			case 2:
				tailName = "bad-type"
				h.Type = uint8(rng.Pick(0, 9, 10, 255, 9+rng.Intn(246)))
			case 3:
				tailName = "over-limit"
				h.Size = uint32(rng.Pick(int(net.MaxPayloadSize)+1, int(net.MaxPayloadSize)+2, 0x7fffffff, 0x80000000, 0xffffffff))
			case 4:
				tailName = "bad-several"
				h.Magic ^= 1 << uint(rng.Intn(32))
				h.Type = 0
				h.Size = 0xffffffff
			}
			var hb bytes.Buffer
			h.Write(&hb)
			stream = append(stream, hb.Bytes()...)
			rest = rng.Bytes(rng.Intn(70))
			stream = append(stream, rest...)
		}
		sched, sname := genSched(rng, len(stream), true)
		o := runRead(stream, sched)
		// oracle: the frames a caller keeps stay what they were when later frames are read into the same variable
		if kept := runReadShared(stream, sched); len(kept) != len(o.msgs) {
			res.Fail("sequence-into-one-variable", fmt.Sprintf("stream %x schedule %v: %d frames read into one Message variable, %d into fresh ones", stream, sched, len(kept), len(o.msgs)))
		} else {
			for j := range kept {
				if kept[j].Header != o.msgs[j].Header || !bytes.Equal(kept[j].Payload, o.msgs[j].Payload) {
					res.Fail("sequence-into-one-variable", fmt.Sprintf("stream %x schedule %v: frame %d, kept while the following frames were read into the same Message variable, now reads %+v/%x; it was %+v/%x",
						stream, sched, j, kept[j].Header, kept[j].Payload, o.msgs[j].Header, o.msgs[j].Payload))
					break
				}
			}
		}
		// property oracles on the implementation's own behaviour (positive chunks only)
		if allPositive(sched) {
			if len(o.msgs) < len(sent) {
				res.Fail("roundtrip", fmt.Sprintf("stream %x schedule %v: %d of %d frames read back", stream, sched, len(o.msgs), len(sent)))
			}
			for j := range sent {
				if j < len(o.msgs) && (o.msgs[j].Header != sent[j].Header || !bytes.Equal(o.msgs[j].Payload, sent[j].Payload)) {
					res.Fail("roundtrip", fmt.Sprintf("stream %x schedule %v: frame %d read back as %+v/%x, sent %+v/%x", stream, sched, j, o.msgs[j].Header, o.msgs[j].Payload, sent[j].Header, sent[j].Payload))
				}
			}
			if len(o.msgs) > len(sent) {
				res.Fail("roundtrip", fmt.Sprintf("stream %x schedule %v: %d frames read, %d sent", stream, sched, len(o.msgs), len(sent)))
			}
			if refused && len(o.msgs) == len(sent) && o.left != len(rest) {
				res.Fail("refuse-before-payload", fmt.Sprintf("stream %x schedule %v (%s): %d bytes left after the refused header, %d follow it", stream, sched, tailName, o.left, len(rest)))
			}
			if tail <= 1 && (o.errc != 0 || o.left != 0) {
				res.Fail("self-delimiting", fmt.Sprintf("stream %x schedule %v: ended with error class %d, %d bytes left", stream, sched, o.errc, o.left))
			}
		}
		multi := o.sleft < len(expand(sched))-len(sent) // more reads than frames
		desc := fmt.Sprintf("frames=%d tail=%s sched=%s bytes=%d", len(sent), tailName, sname, len(stream))
		res.Count(fmt.Sprintf("%x|%v", stream, sched), (hasPayload && multi) || refused)
		res.Dist("tail:" + tailName)
		res.Dist("sched:" + sname)
		res.Dist(fmt.Sprintf("frames:%d", len(sent)))
		res.Sample(desc + fmt.Sprintf(" -> read %d frames, err class %d, %d bytes left", len(o.msgs), o.errc, o.left))
		cf.Add("rcases", fmt.Sprintf("{| rc_data := %s; rc_sched := %s; rc_msgs := %s; rc_err := %d%%N; rc_left := %d%%N; rc_sleft := %d%%N |}",
			hx.Hex(stream), schedTerm(sched), obsTerm(o), o.errc, o.left, o.sleft), desc)
	}
	// write side
	for i := 0; i < nWrites; i++ {
		h := genHeader(rng)
		p := rng.Bytes(genPayloadLen(rng, "quick") % 300)
		h.Size = uint32(len(p))
		kind := "match"
		if rng.Chance(0.25) {
			kind = "size-mismatch"
			h.Size = uint32(int(h.Size) + rng.Pick(1, -1, 28, 1000))
		}
		var ws []int
		if rng.Chance(0.6) {
			for n := 0; n < len(p)+28; {
				k := 1 + rng.Intn(50)
				if rng.Chance(0.05) {
					k = 0
				}
				ws = append(ws, k)
				n += k + 1
			}
			kind += "+short-writes"
		}
		m := net.Message{Header: h, Payload: p}
		w := &schedWriter{sched: append([]int(nil), ws...)}
		err := m.Write(w)
		calls := make([]string, len(w.calls))
		var cat []byte
		for j, c := range w.calls {
			calls[j] = hx.Hex(c)
			cat = append(cat, c...)
		}
		if err == nil && !bytes.Equal(cat, docFrame(h, p)) {
			res.Fail("write-concat", fmt.Sprintf("header %+v payload %x writer schedule %v: accepted bytes %x differ from the frame", h, p, ws, cat))
		}
		if uint32(len(p)) != h.Size && (err == nil || len(w.calls) != 0) {
			res.Fail("write-size-mismatch", fmt.Sprintf("header %+v with %d payload bytes: err=%v, %d Write calls", h, len(p), err, len(w.calls)))
		}
		res.Count(fmt.Sprintf("W%v|%x|%v", hdrFields(h), p, ws), len(ws) > 0 || uint32(len(p)) != h.Size)
		res.Dist("write:" + kind)
		cf.Add("wcases", fmt.Sprintf("{| wc_hdr := %s; wc_payload := %s; wc_sched := %s; wc_ok := %s; wc_calls := %s |}",
			hx.NList(hdrFields(h)), hx.Hex(p), hx.NListInt(ws), hx.Bool(err == nil), hx.List(calls)), "write "+kind)
	}
	// a Write that failed must leave nothing behind: the next message written (to any stream) is its own frame only
	werrs := []error{io.EOF, io.ErrShortWrite, io.ErrClosedPipe, io.ErrUnexpectedEOF, fmt.Errorf("injected")}
	for i := 0; i < nWrites; i++ {
		h := genHeader(rng)
		p := rng.Bytes(rng.Intn(120))
		h.Size = uint32(len(p))
		fw := &failWriter{n: rng.Pick(0, 0, 1, 27, 28, 29, rng.Intn(28+len(p)+1)), err: werrs[i%len(werrs)]}
		m := net.Message{Header: h, Payload: p}
		err := m.Write(fw)
		frame := docFrame(h, p)
		if fw.n > 0 || len(fw.got) == len(frame) {
			if err != nil || !bytes.Equal(fw.got, frame) {
				res.Fail("write-valid", fmt.Sprintf("Message.Write into a writer with room for the frame: err=%v, bytes %x, frame %x", err, fw.got, frame))
			}
		} else {
			if err == nil {
				res.Fail("write-error-lost", fmt.Sprintf("Message.Write returned nil although the writer accepted %d of %d bytes and then failed with %v", len(fw.got), len(frame), fw.err))
			}
			if !bytes.Equal(fw.got, frame[:len(fw.got)]) {
				res.Fail("write-concat", fmt.Sprintf("bytes accepted before the failure %x are not a prefix of the frame %x", fw.got, frame))
			}
		}
		h2 := genHeader(rng)
		p2 := rng.Bytes(rng.Intn(60))
		h2.Size = uint32(len(p2))
		m2 := net.Message{Header: h2, Payload: p2}
		var b2 bytes.Buffer
		err2 := m2.Write(&b2)
		if err2 != nil || !bytes.Equal(b2.Bytes(), docFrame(h2, p2)) {
			res.Fail("write-after-failed-write", fmt.Sprintf("after a Write that failed with %v (writer took %d of %d bytes), the next message %+v/%x was written as %x (err %v); its frame is %x",
				fw.err, len(fw.got), len(frame), h2, p2, b2.Bytes(), err2, docFrame(h2, p2)))
		}
		res.Dist(fmt.Sprintf("write-failure:%v", fw.err))
	}
	cf.Flush()
	// limit-sized payloads: implementation-only oracle (too large for the in-Coq evaluation)
	{
		// large payloads, and the window just below the limit (a frame-size test that forgets the
		// header would refuse the last 28 legal lengths)
		sizes := []int{4095, 4096, 4097, 8192, 32768, 65535, 65536, 65537, 70000, 1 << 20, int(net.MaxPayloadSize) - 28, int(net.MaxPayloadSize) - 27, int(net.MaxPayloadSize) - 1, int(net.MaxPayloadSize)}
		for _, n := range sizes {
			h := genHeader(rng)
			p := rng.Bytes(n)
			m := net.NewMessage(h, p)
			var buf bytes.Buffer
			if err := m.Write(&buf); err != nil {
				res.Fail("limit", fmt.Sprintf("write of %d-byte payload failed: %v", n, err))
				continue
			}
			// whatever the size: one Write call carrying the whole frame (concurrent senders rely on it)
			ow := &schedWriter{}
			if err := m.Write(ow); err != nil || len(ow.calls) != 1 || !bytes.Equal(ow.calls[0], buf.Bytes()) {
				res.Fail("one-write", fmt.Sprintf("Message.Write of a %d-byte payload issued %d Write calls (err %v)", n, len(ow.calls), err))
			}
			sched, _ := genSched(rng, 100000, false)
			o := runRead(buf.Bytes(), sched)
			if len(o.msgs) != 1 || !bytes.Equal(o.msgs[0].Payload, p) || o.msgs[0].Header != m.Header || o.left != 0 {
				res.Fail("limit", fmt.Sprintf("%d-byte payload did not round-trip", n))
			}
			// two such frames back to back, then a frame cut in its payload: exactly two come back
			two := append(append(append([]byte(nil), buf.Bytes()...), buf.Bytes()...), buf.Bytes()[:28+n/2]...)
			o2 := runRead(two, sched)
			if len(o2.msgs) != 2 || o2.errc != 1 {
				res.Fail("limit", fmt.Sprintf("two %d-byte frames and half a third: %d frames read, error class %d", n, len(o2.msgs), o2.errc))
			}
			res.Count(fmt.Sprintf("limit%d", n), true)
			res.Dist("limit-sized")
		}
	}
}
