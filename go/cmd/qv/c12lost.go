package main

// C12, clients that are gone before their answers are written — on EVERY transport — followed by
// fresh clients on every transport.
//
// The other families talk to the server over unix:// only, and their disconnects are judged by a
// probe on the same socket.  Here the server child accepts connections on all four transports of
// bus/net at once (unix://, tcp://, tcps://, pipe://: one bus.Server over a listener that merges
// them).  One LOST-REPLY script, on one transport T and for one object O (service 0, the
// directory, the two generic objects): 3..6 connections one after the other, each authenticates,
// writes 2..12 calls for O in one write (metaObject: answers of a few kB; for service 0 another
// authenticate call) and is gone — closed right behind the write, or after the first bytes of the
// first answer, over tcp also with a reset (SO_LINGER 0) — so that the object's goroutine finds the
// connection closed when it writes.  AFTERWARDS a fresh client on T, then one on each other
// transport, and — what a server sees when an address comes back — over tcp:// a fresh client from
// the SAME source address (host:port) as the last connection that was reset: each connects,
// authenticates, and calls the directory and both generic objects.  Oracle as everywhere: server
// alive, authentication "done", three Replies.
//
// One server child serves the four objects' scripts of a transport in a row (state that survives
// is the point); a failure retires it.  The scripts are cases of coq/run/C12Run.v (pmismatches: the
// model runs the frames, a disconnect is an unreadable frame, and only the probes are compared —
// what a vanishing client still received is a race; the model has no notion of transport).

import (
	"crypto/tls"
	"fmt"
	gonet "net"
	"os"
	"strings"
	"syscall"
	"time"

	"github.com/lugu/qiloop/bus"
	"github.com/lugu/qiloop/bus/directory"
	"github.com/lugu/qiloop/bus/net"
	"qv/internal/hx"
)

// ---- the server side: one listener over all transports ----

type c12accepted struct {
	s   net.Stream
	err error
}

type c12multiListener struct {
	ls   []net.Listener
	ch   chan c12accepted
	done chan struct{}
}

func (m *c12multiListener) Accept() (net.Stream, error) {
	select {
	case a := <-m.ch:
		return a.s, a.err
	case <-m.done:
		return nil, fmt.Errorf("listener closed")
	}
}

func (m *c12multiListener) Close() error {
	select {
	case <-m.done:
	default:
		close(m.done)
	}
	for _, l := range m.ls {
		l.Close()
	}
	return nil
}

func c12multiServer(dir string, auth bus.Authenticator) (bus.Server, string, error) {
	if auth == nil {
		auth = bus.Yes{} // (what directory.NewServer does)
	}
	addrs := []string{"unix://" + dir + "/sock", "tcp://127.0.0.1:0", "tcps://127.0.0.1:0", "pipe://" + dir + "/psock"}
	m := &c12multiListener{ch: make(chan c12accepted), done: make(chan struct{})}
	var bound []string
	for _, a := range addrs {
		l, err := net.Listen(a)
		if err != nil {
			m.Close()
			return nil, "", fmt.Errorf("listen %s: %v", a, err)
		}
		m.ls = append(m.ls, l)
		bound = append(bound, net.VerifListenerAddr(l))
		go func(l net.Listener) {
			for {
				s, err := l.Accept()
				select {
				case m.ch <- c12accepted{s, err}:
				case <-m.done:
					return
				}
				if err != nil {
					return
				}
			}
		}(l)
	}
	d := directory.VerifNewDirectory()
	srv, err := bus.NewServer(m, auth, d.Namespace(addrs[0]), d.Object())
	if err != nil {
		m.Close()
		return nil, "", err
	}
	return srv, bound[1] + " " + bound[2], nil
}

// ---- the client side ----

var c12transports = []string{"unix", "tcp", "tcps", "pipe"}

// c12pipeConn: the client's end of a pipe:// connection (bus/net dialPipe): two pipes whose
// descriptors were exchanged over a unix socket.
type c12pipeConn struct {
	r, w *os.File
	u    *gonet.UnixConn
}

func (p *c12pipeConn) Read(b []byte) (int, error)         { return p.r.Read(b) }
func (p *c12pipeConn) Write(b []byte) (int, error)        { return p.w.Write(b) }
func (p *c12pipeConn) SetReadDeadline(t time.Time) error  { return p.r.SetReadDeadline(t) }
func (p *c12pipeConn) SetWriteDeadline(t time.Time) error { return p.w.SetWriteDeadline(t) }
func (p *c12pipeConn) Close() error {
	p.w.Close()
	p.r.Close()
	return p.u.Close()
}

func c12reuseAddr(network, address string, c syscall.RawConn) error {
	return c.Control(func(fd uintptr) { syscall.SetsockoptInt(int(fd), syscall.SOL_SOCKET, syscall.SO_REUSEADDR, 1) })
}

// c12open connects over one transport of a "multi" server child; localPort != 0 (tcp): from that source port.
func c12open(ch *c12child, transport string, localPort int) (c12conn, error) {
	d := gonet.Dialer{Timeout: 2 * time.Second}
	if localPort != 0 {
		d.LocalAddr = &gonet.TCPAddr{IP: gonet.IPv4(127, 0, 0, 1), Port: localPort}
		d.Control = c12reuseAddr
	}
	switch transport {
	case "unix":
		return d.Dial("unix", ch.dir+"/sock")
	case "tcp":
		return d.Dial("tcp", ch.tcp)
	case "tcps":
		return tls.DialWithDialer(&d, "tcp", ch.tls, &tls.Config{InsecureSkipVerify: true})
	case "pipe":
		u, err := gonet.DialUnix("unix", nil, &gonet.UnixAddr{Name: ch.dir + "/psock", Net: "unix"})
		if err != nil {
			return nil, err
		}
		u.SetDeadline(time.Now().Add(2 * time.Second))
		r, w, err := os.Pipe()
		if err != nil {
			u.Close()
			return nil, err
		}
		// the descriptor exchange of bus/net dialPipe (SCM_RIGHTS, one descriptor each way), with the socket's deadline
		_, _, err = u.WriteMsgUnix(nil, syscall.UnixRights(int(r.Fd())), nil)
		r.Close() // (the server holds it now)
		if err != nil {
			w.Close()
			u.Close()
			return nil, err
		}
		oob := make([]byte, syscall.CmsgSpace(4))
		_, oobn, _, _, err := u.ReadMsgUnix(nil, oob)
		var fds []int
		if err == nil {
			var msgs []syscall.SocketControlMessage
			if msgs, err = syscall.ParseSocketControlMessage(oob[:oobn]); err == nil && len(msgs) == 1 {
				fds, err = syscall.ParseUnixRights(&msgs[0])
			}
		}
		if err != nil || len(fds) != 1 {
			for _, x := range fds {
				syscall.Close(x)
			}
			w.Close()
			u.Close()
			return nil, fmt.Errorf("pipe:// descriptor exchange: %v", err)
		}
		// non-blocking, so that reads have deadlines (the server never reads from this pipe, it only keeps its end open)
		nfd := fds[0]
		syscall.SetNonblock(nfd, true)
		p := &c12pipeConn{r: os.NewFile(uintptr(nfd), "pipe-from-server"), w: w, u: u}
		if err := p.SetReadDeadline(time.Now().Add(time.Second)); err != nil {
			p.Close()
			return nil, fmt.Errorf("pipe:// descriptor without deadlines: %v", err)
		}
		return p, nil
	}
	return nil, fmt.Errorf("unknown transport %q", transport)
}

type c12lostSpec struct {
	transport string
	target    int // 0 directory, 1 generic object, 2 second generic object, 3 service 0
	conns     int
	calls     int
	closing   int // 0 closed behind the write, 1 closed after the first bytes of the first answer, 2 (tcp) reset behind the write, 3 (tcp) reset after the first bytes
}

func (sp c12lostSpec) String() string {
	return fmt.Sprintf("lost-replies[transport=%s:// object=%s connections=%d calls-per-connection=%d the-client=%s]", sp.transport,
		[]string{"directory", "generic-object", "second-generic-object", "service-0"}[sp.target], sp.conns, sp.calls,
		[]string{"closes-behind-its-write", "closes-after-the-first-bytes-of-the-first-answer", "resets-behind-its-write", "resets-after-the-first-bytes-of-the-first-answer"}[sp.closing])
}

type c12lostFresh struct {
	how    string // transport, or "tcp from the source port of the connection that was reset"
	err    string
	probes [3]int
}

type c12lostRun struct {
	frames []c12frame // model numbering, with the disconnects
	sent   string
	fresh  []c12lostFresh
	alive  bool
}

// c12freshOver: a fresh client over one transport of a "multi" server child connects, authenticates with the real
// capability map and calls the directory and both generic objects.  tried = false: the source address asked for
// (port != 0) is not free yet, nothing to observe.
func c12freshOver(ch *c12child, how, transport string, port int) (fr c12lostFresh, tried bool) {
	fr = c12lostFresh{how: how}
	c, err := c12open(ch, transport, port)
	if err != nil {
		if port != 0 {
			return fr, false
		}
		fr.err = "cannot connect: " + err.Error()
		return fr, true
	}
	defer c.Close()
	r, err := c12handshake(c, "", "")
	if err != nil {
		fr.err = err.Error()
		return fr, true
	}
	for i, t := range [][2]uint32{{1, 1}, {ch.svc, 1}, {ch.svc, ch.obj2}} {
		id := uint32(3 + 2*i)
		if r.writeFrame(net.Call, t[0], t[1], 2, id, c12le32(t[1])) != nil {
			break
		}
		if r.await(id, c12Probe) {
			fr.probes[i] = int(r.got[len(r.got)-1][0])
		} else {
			break
		}
	}
	return fr, true
}

func c12lostPlay(ch *c12child, sp c12lostSpec) *c12lostRun {
	run := &c12lostRun{}
	lastPort := 0
	var sent []string
	for k := 0; k < sp.conns; k++ {
		c, err := c12open(ch, sp.transport, 0)
		if err != nil {
			continue
		}
		h, err := c12handshake(c, "", "")
		if err != nil {
			continue // (the fresh clients below will tell)
		}
		var all []byte
		for j := 0; j < sp.calls; j++ {
			id := uint32(101 + 2*j)
			var f c12frame
			switch sp.target {
			case 3:
				f = c12frame{conn: k, typ: net.Call, svc: 0, obj: 0, act: 8, id: id, payload: c12cap(), cls: c12PGood}
			case 0:
				f = c12frame{conn: k, typ: net.Call, svc: 1, obj: 1, act: 2, id: id, payload: c12le32(1), cls: c12pack(1, 0, 0)}
			case 1:
				f = c12frame{conn: k, typ: net.Call, svc: 2, obj: 1, act: 2, id: id, payload: c12le32(1), cls: c12pack(1, 0, 0)}
			default:
				f = c12frame{conn: k, typ: net.Call, svc: 2, obj: ch.obj2, act: 2, id: id, payload: c12le32(ch.obj2), cls: c12pack(ch.obj2, 0, 0)}
			}
			run.frames = append(run.frames, f)
			all = append(all, c12wire(ch, f)...)
		}
		run.frames = append(run.frames, c12frame{conn: k, raw: []byte{}})
		h.write(all, time.Second)
		if sp.closing == 1 || sp.closing == 3 {
			h.c.SetReadDeadline(time.Now().Add(c12Short))
			h.c.Read(make([]byte, 16))
		}
		if t, ok := c.(*gonet.TCPConn); ok && sp.closing >= 2 {
			lastPort = t.LocalAddr().(*gonet.TCPAddr).Port
			t.SetLinger(0)
		}
		h.c.Close()
		sent = append(sent, fmt.Sprintf("connection %d authenticated, wrote %s and was gone", k, strings.Join(h.sent, " ")))
		time.Sleep(15 * time.Millisecond)
	}
	run.sent = strings.Join(sent, "; ")
	run.alive = ch.alive()
	fresh := func(how, transport string, port int) {
		if fr, tried := c12freshOver(ch, how, transport, port); tried {
			run.fresh = append(run.fresh, fr)
		}
	}
	fresh(sp.transport+"://", sp.transport, 0)
	if lastPort != 0 {
		fresh(fmt.Sprintf("tcp:// from the source address of the connection that was reset (127.0.0.1:%d)", lastPort), "tcp", lastPort)
	}
	for _, t := range c12transports {
		if t != sp.transport {
			fresh(t+"://", t, 0)
		}
	}
	run.alive = run.alive && ch.alive()
	return run
}

func (run *c12lostRun) ok() bool {
	if !run.alive {
		return false
	}
	for _, f := range run.fresh {
		if f.err != "" || f.probes != [3]int{int(net.Reply), int(net.Reply), int(net.Reply)} {
			return false
		}
	}
	return true
}

func (run *c12lostRun) judge(res *hx.Result, desc string) {
	if !run.alive {
		res.Fail("server-died", "the server process exited during: "+desc)
	}
	names := []string{"the service directory (service 1, object 1)", "the generic object (service 2, object 1)", "the second object of the generic service (service 2)"}
	for _, f := range run.fresh {
		if f.err != "" {
			res.Fail("fresh-client-refused", fmt.Sprintf("a fresh client over %s: %s; after: %s", f.how, f.err, desc))
			continue
		}
		for i, p := range f.probes {
			if p != int(net.Reply) {
				res.Fail("probe-unanswered", fmt.Sprintf("a fresh client over %s authenticated, but %s gave it %s to metaObject within %v; after: %s",
					f.how, names[i], map[int]string{0: "no answer", 3: "an error"}[p], c12Probe, desc))
				break
			}
		}
	}
}

func (run *c12lostRun) caseTerm(sp c12lostSpec, obj2 uint32) string {
	var fs, gs []string
	for _, f := range run.frames {
		fs = append(fs, f.term())
	}
	for k := 0; k < sp.conns; k++ {
		gs = append(gs, "[]")
	}
	// per object: a Reply if every fresh client got one, otherwise what the first one that did not got
	probes := [3]int{int(net.Reply), int(net.Reply), int(net.Reply)}
	for _, f := range run.fresh {
		for i := range probes {
			if probes[i] == int(net.Reply) && f.probes[i] != int(net.Reply) {
				probes[i] = f.probes[i]
			}
		}
	}
	return fmt.Sprintf("{| h_frames := [%s]%%N; h_got := %s%%N; h_probes := (%d, %d, %d)%%N; h_obj2 := %d%%N |}",
		strings.Join(fs, "; "), hx.List(gs), probes[0], probes[1], probes[2], obj2)
}

func c12lost(res *hx.Result, rng *hx.Rng, root, outdir, cfg string, rounds int) {
	lf := hx.NewCases(outdir, "C12l", "From QV Require Import Hostile C12Run.", "pmismatches g lost", res, "lost", "hcase")
	lf.Extra = append(lf.Extra, cfg)
	for round := 0; round < rounds; round++ {
		for _, transport := range c12transports {
			var ch *c12child
			var history []string
			r0 := rng.Intn(4)
			for i, target := range []int{3, 0, 1, 2} {
				// every way of vanishing once per transport and run
				sp := c12lostSpec{transport: transport, target: target, conns: 3 + rng.Intn(4), calls: 2 + rng.Intn(11), closing: (i + r0) % 2}
				if transport == "tcp" {
					sp.closing = (i + r0) % 4
				}
				if ch == nil {
					var err error
					if ch, err = c12startOpts(root, "multi"); err != nil {
						res.Notes = append(res.Notes, "lost replies: "+err.Error())
						ch = nil
						continue
					}
					history = nil
				}
				obj2 := ch.obj2
				run := c12lostPlay(ch, sp)
				desc := sp.String() + ": " + run.sent
				if !run.ok() {
					if len(history) > 0 {
						if ch2, err := c12startOpts(root, "multi"); err == nil {
							run2 := c12lostPlay(ch2, sp)
							ch2.stop()
							if !run2.ok() {
								run, desc = run2, sp.String()+": "+run2.sent
							} else {
								desc = "a server that had served, in this order, " + strings.Join(history, ", ") + " and then " + desc
							}
						}
					}
					run.judge(res, desc)
					ch.stop()
					ch = nil
				} else {
					history = append(history, sp.String())
				}
				short := desc
				if len(short) > 1500 {
					short = short[:1500] + "..."
				}
				res.Count(short, true)
				res.Dist("kind:lost-replies/" + transport)
				for _, f := range run.fresh {
					if strings.Contains(f.how, "source address") {
						res.Dist("lost-replies:fresh-client-from-the-reset-connections-address")
					}
				}
				res.Sample(fmt.Sprintf("%s: %d fresh clients, ok=%v", sp.String(), len(run.fresh), run.ok()))
				for _, f := range run.frames { // (a run repeated on another server: its frames carry that server's id)
					if f.svc == 2 && f.obj != 1 && f.raw == nil {
						obj2 = f.obj
					}
				}
				lf.Add("lost", run.caseTerm(sp, obj2), short)
			}
			if ch != nil {
				ch.stop()
			}
		}
	}
	lf.Flush()
}
