package main

// c11many.go — endpoints with MANY live handlers at the moment of the loss.
//
// Every run of c11.go has at most seven handlers on its endpoint: the table of ten slots the
// endpoint starts with never grows.  A long session accumulates them: one per subscription, one per
// disconnect callback, one per pending call, and one per CANCELLED call (client.Call leaves its
// handler registered on that path), with holes where a call was answered or a subscription
// cancelled.  C11 holds for every one of them, whatever their number: all are notified when the
// connection is lost, and a call made while that many are live gets its reply, or its error.
//
//  (a) sessions over the real transports (oracles only; the model is not evaluated on thousands of
//      handlers): a session is a sequence of operations drawn from the seed until `live` handlers
//      are registered (60 .. 2600 in the quick tier, up to 6000 in the thorough one), in four
//      profiles (mostly subscriptions / callbacks / calls, mixed), then calls, a subscription and a
//      callback made on top, then the loss (peer closes, client closes, reads fail, writes fail
//      first).  The peer is the harness: it answers the calls of one action range and lets the
//      others pend.
//  (b) scenarios of a few dozen handlers on the gated stream, compared with the model like the
//      others (the table grows past its ten slots in both; the freed slots are reused).

import (
	"bytes"
	"fmt"
	"sort"
	"strings"
	"sync"
	"sync/atomic"
	"time"

	"github.com/lugu/qiloop/bus"
	"github.com/lugu/qiloop/bus/net"

	"qv/internal/hx"
)

// ---------- (b) model-compared scenarios ----------

// c11ManyScenario: m subscriptions and d callbacks registered in an order drawn from rng, n >= 3
// calls spread over the registrations: call 0 is answered half way (its slot is freed and reused),
// the last call is still inside its Write at the end, the others pend; a few events.
func c11ManyScenario(rng *hx.Rng, name string, n, m, d int) c11Scenario {
	R, V := uint8(net.Reply), uint8(net.Event)
	sc := c11Scenario{name: name, n: n, m: m, d: d}
	var regs []c11Step
	for i := 0; i < m; i++ {
		regs = append(regs, stSub(i))
	}
	for j := 0; j < d; j++ {
		regs = append(regs, stOnDisc(j))
	}
	for k := len(regs) - 1; k > 0; k-- {
		x := rng.Intn(k + 1)
		regs[k], regs[x] = regs[x], regs[k]
	}
	total := len(regs)
	callAt := func(c int) int { return (c + 1) * total / (n + 1) }
	next := 0
	for k, st := range regs {
		for next < n-1 && callAt(next) == k {
			sc.script = append(sc.script, stStart(next), stFinish(next))
			next++
		}
		if k == total/2+1 {
			sc.script = append(sc.script, stFrame("call", 0, R, 28, 0))
		}
		sc.script = append(sc.script, st)
		if st.kind == "sub" && rng.Chance(0.15) {
			sc.script = append(sc.script, stFrame("sub", st.idx, V))
			if rng.Bool() {
				sc.script = append(sc.script, stRead(st.idx))
			}
		}
	}
	for ; next < n-1; next++ {
		sc.script = append(sc.script, stStart(next), stFinish(next))
	}
	sc.script = append(sc.script, stStart(n-1))
	return sc
}

// c11ManyJobs: the loss at `npos` positions of the script (the end, where every handler is live,
// first), in the position kinds and in two error kinds through net.ConnStream.
func c11ManyJobs(rng *hx.Rng, sc c11Scenario, npos int) []c11Job {
	var jobs []c11Job
	pos := []int{len(sc.script)}
	for len(pos) < npos {
		pos = append(pos, len(sc.script)/2+rng.Intn(len(sc.script)/2))
	}
	for pi, p := range pos {
		for ki, k := range []string{"rerr", "reof", "lclose", "half"} {
			hold := (pi+ki)%2 == 0 || k == "half"
			jobs = append(jobs, c11Job{sc: sc, f: c11Fault{pos: p, kind: k}, hold: hold, fam: 2})
			if pi == 0 && k != "half" {
				jobs = append(jobs, c11Job{sc: sc, f: c11Fault{pos: p, kind: k}, hold: !hold, fam: 2, wrap: "conn"})
			}
		}
		if pi == 0 {
			jobs = append(jobs, c11Job{sc: sc, f: c11Fault{pos: p, kind: "wpart"}, hold: false, fam: 2})
			jobs = append(jobs, c11Job{sc: sc, f: c11Fault{pos: p, kind: "wkindp", ek: "epipe"}, hold: false, fam: 2, wrap: "conn"})
			jobs = append(jobs, c11Job{sc: sc, f: c11Fault{pos: p, kind: "rkind", ek: "timedout"}, hold: true, fam: 2, wrap: "conn"})
		}
	}
	return jobs
}

// ---------- (a) sessions over the real transports ----------

const (
	c11ActPending  = 8000 // calls of actions 8000.. are never answered
	c11ActAnswered = 9000 // calls of actions 9000.. are answered with their own payload
)

// c11Peer: the other side of the connection, run by the harness.
type c11Peer struct {
	l       *c11Link
	wmu     sync.Mutex
	arrived int32 // calls of the pending range read so far
	done    chan struct{}
}

func c11ServePeer(l *c11Link) *c11Peer {
	p := &c11Peer{l: l, done: make(chan struct{})}
	go func() {
		defer close(p.done)
		for {
			var m net.Message
			if err := m.Read(l.peerR); err != nil {
				return
			}
			if m.Header.Type != net.Call {
				continue
			}
			if m.Header.Action >= c11ActAnswered {
				hdr := net.NewHeader(net.Reply, m.Header.Service, m.Header.Object, m.Header.Action, m.Header.ID)
				rep := net.NewMessage(hdr, m.Payload)
				var buf bytes.Buffer
				if rep.Write(&buf) == nil {
					p.wmu.Lock()
					l.peerW.Write(buf.Bytes())
					p.wmu.Unlock()
				}
			} else {
				atomic.AddInt32(&p.arrived, 1)
			}
		}
	}()
	return p
}

func (p *c11Peer) waitArrived(n int32, d time.Duration) bool {
	end := time.Now().Add(d)
	for atomic.LoadInt32(&p.arrived) < n {
		if time.Now().After(end) {
			return false
		}
		time.Sleep(30 * time.Microsecond)
	}
	return true
}

type c11SessionSpec struct {
	transport string
	live      int    // handlers registered (and not removed) before the calls made on top
	profile   string // subs callbacks calls mixed
	loss      string // peer-close client-close read[kind] write[kind]-then-read
	seed      uint64
}

func (s c11SessionSpec) String() string {
	return fmt.Sprintf("session transport=%s profile=%s live-handlers>=%d loss=%s ops-seed=%d", s.transport, s.profile, s.live, s.loss, s.seed)
}

var c11Profiles = map[string][6]int{ // weights: subscribe, unsubscribe, callback, answered call, cancelled call, pending call
	"subs":      {80, 6, 5, 4, 2, 3},
	"callbacks": {15, 2, 70, 4, 4, 5},
	"calls":     {10, 2, 5, 8, 25, 50},
	"mixed":     {35, 8, 25, 8, 10, 14},
}

type c11SessSub struct {
	ev     chan []byte
	cancel func()
	at     int // live handlers when it was registered
}

type c11SessCall struct {
	res chan error
	at  int
}

// c11Session runs one session and reports what it found; false: an oracle failed.
func c11Session(res *hx.Result, tr *c11Transports, spec c11SessionSpec, hang time.Duration) bool {
	desc := spec.String()
	l, err := tr.link(spec.transport)
	if err != nil {
		res.Fail("c11-schedule", fmt.Sprintf("%s: cannot set the connection up: %v", desc, err))
		return false
	}
	defer l.cleanup()
	release := make(chan struct{})
	defer close(release)
	peer := c11ServePeer(l)
	cl := bus.NewClient(bus.NewContext(l.ep))
	rng := hx.NewRng(spec.seed)
	var fails []string
	bad := func(format string, a ...interface{}) { fails = append(fails, fmt.Sprintf(format, a...)) }
	bounded := func(f func()) bool {
		done := make(chan struct{})
		go func() { f(); close(done) }()
		select {
		case <-done:
			return true
		case <-time.After(hang):
			return false
		}
	}
	var subs []c11SessSub
	var cbCount []int32
	var cbAt []int
	var pend []c11SessCall
	live, cancelledH, holes, answered := 0, 0, 0, 0
	var sent int32 // calls of the pending range sent so far
	broken := false

	subscribe := func() {
		var s c11SessSub
		ok := bounded(func() { s.cancel, s.ev, _ = cl.Subscribe(c11SubService, 1, uint32(1000+len(subs)+holes)) })
		if !ok {
			bad("Subscribe did not return within %v with %d handlers live", hang, live)
			broken = true
			return
		}
		s.at = live
		subs = append(subs, s)
		live++
	}
	callback := func() {
		cbCount = append(cbCount, 0)
		k := len(cbCount) - 1
		// cbCount is never re-allocated while callbacks may run: see the capacity below.  One callback
		// in sixteen, the first included, does not return (a user's callback may take its time): the
		// others, the calls and the subscriptions are notified all the same.
		ok := bounded(func() {
			cl.OnDisconnect(func(error) {
				atomic.AddInt32(&cbCount[k], 1)
				if k%16 == 0 {
					<-release
				}
			})
		})
		if !ok {
			bad("OnDisconnect did not return within %v with %d handlers live", hang, live)
			broken = true
			return
		}
		cbAt = append(cbAt, live)
		live++
	}
	answeredCall := func() {
		payload := []byte{byte(answered), byte(answered >> 8), 0x5a}
		type ret struct {
			p   []byte
			err error
		}
		ch := make(chan ret, 1)
		act := uint32(c11ActAnswered + answered)
		answered++
		go func() { p, err := cl.Call(nil, c11Service, 1, act, payload); ch <- ret{p, err} }()
		select {
		case r := <-ch:
			if r.err != nil {
				bad("a call made with %d handlers live, which the peer answered, returned the error %q", live, r.err.Error())
				broken = true
			} else if !bytes.Equal(r.p, payload) {
				bad("a call made with %d handlers live returned a payload that is not its reply", live)
				broken = true
			}
		case <-time.After(hang):
			bad("a call made with %d handlers live did not return within %v although the peer sent its reply", live, hang)
			broken = true
		}
	}
	pendingCall := func(cancel chan struct{}) chan error {
		ch := make(chan error, 1)
		act := uint32(c11ActPending + int(sent)%1000)
		go func() { _, err := cl.Call(cancel, c11Service, 1, act, []byte{1}); ch <- err }()
		sent++
		if !peer.waitArrived(sent, hang) {
			bad("a call made with %d handlers live did not reach the peer within %v", live, hang)
			broken = true
		}
		return ch
	}
	cancelledCall := func() {
		cancel := make(chan struct{})
		ch := pendingCall(cancel)
		if broken {
			return
		}
		close(cancel)
		select {
		case <-ch:
			cancelledH++ // client.Call leaves the handler of a cancelled call registered
			live++
		case <-time.After(hang):
			bad("a cancelled call did not return within %v with %d handlers live", hang, live)
			broken = true
		}
	}
	unsubscribe := func() {
		if len(subs) == 0 {
			return
		}
		k := rng.Intn(len(subs))
		s := subs[k]
		subs = append(subs[:k], subs[k+1:]...)
		s.cancel()
		select {
		case _, open := <-s.ev:
			if open {
				bad("an event nobody sent")
				broken = true
			}
		case <-time.After(hang):
			bad("events channel of a cancelled subscription not closed within %v", hang)
			broken = true
		}
		holes++
		live--
	}

	w := c11Profiles[spec.profile]
	wsum := 0
	for _, x := range w {
		wsum += x
	}
	cbCount = make([]int32, 0, spec.live+8)
	for live < spec.live && !broken {
		x := rng.Intn(wsum)
		op := 0
		for x >= w[op] {
			x -= w[op]
			op++
		}
		switch op {
		case 0:
			subscribe()
		case 1:
			unsubscribe()
		case 2:
			callback()
		case 3:
			answeredCall()
		case 4:
			cancelledCall()
		case 5:
			ch := pendingCall(nil)
			pend = append(pend, c11SessCall{ch, live})
			live++
		}
	}
	// on top: calls, a subscription and a callback made while that many handlers are live
	if !broken {
		for k := 0; k < 3 && !broken; k++ {
			ch := pendingCall(nil)
			pend = append(pend, c11SessCall{ch, live})
			live++
		}
	}
	if !broken {
		answeredCall()
	}
	if !broken {
		subscribe()
	}
	if !broken {
		callback()
	}
	if !broken {
		answeredCall()
	}
	shape := fmt.Sprintf("%d handlers live at the loss: %d subscriptions, %d callbacks, %d pending calls, %d left by cancelled calls; %d subscriptions cancelled and %d calls answered on the way",
		live, len(subs), len(cbAt), len(pend), cancelledH, holes, answered)

	// ---- the loss ----
	var kind c11ErrKind
	if i := strings.Index(spec.loss, "["); i >= 0 {
		kind = c11KindByName(spec.loss[i+1 : strings.Index(spec.loss, "]")])
	}
	lossAt := time.Now()
	switch {
	case spec.loss == "peer-close":
		l.events["peer-close"]()
	case spec.loss == "client-close":
		go l.ep.Close()
	case strings.HasPrefix(spec.loss, "read["):
		l.fc.killRead(kind.mk("read"), false)
	case strings.HasPrefix(spec.loss, "write["):
		// the Writes fail first: a call made then returns an error on its own
		l.fc.killWrite(kind.mk("write"))
		wr := make(chan error, 1)
		go func() { _, err := cl.Call(nil, c11Service, 1, c11ActPending+998, []byte{1}); wr <- err }()
		select {
		case err := <-wr:
			if err == nil {
				bad("a call whose Write failed returned no error")
			}
		case <-time.After(hang):
			bad("a call whose Write failed, made with %d handlers live, did not return within %v", live, hang)
		}
		lossAt = time.Now()
		l.fc.killRead(kind.mk("read"), false)
	}
	deadline := lossAt.Add(hang)
	left := func() time.Duration {
		if d := time.Until(deadline); d > 0 {
			return d
		}
		return 0
	}
	// every pending call returns an error
	hungCalls, firstHung, nilCalls := 0, -1, 0
	for _, c := range pend {
		var err error
		got := false
		select { // what is there is taken first: once the bound has passed a timer is always ready as well
		case err = <-c.res:
			got = true
		default:
			select {
			case err = <-c.res:
				got = true
			case <-time.After(left()):
			}
		}
		if !got {
			hungCalls++
			if firstHung < 0 {
				firstHung = c.at
			}
		} else if err == nil {
			nilCalls++
		}
	}
	if hungCalls > 0 {
		bad("%d of the %d pending calls did not return within %v of the loss (the first of them was made when %d handlers were live)", hungCalls, len(pend), hang, firstHung)
	}
	if nilCalls > 0 {
		bad("%d pending calls returned no error although nobody replied", nilCalls)
	}
	// every events channel is closed
	open, firstOpen := 0, -1
	for _, s := range subs {
		got, isOpen := false, false
		select {
		case _, isOpen = <-s.ev:
			got = true
		default:
			select {
			case _, isOpen = <-s.ev:
				got = true
			case <-time.After(left()):
			}
		}
		if !got {
			open++
			if firstOpen < 0 {
				firstOpen = s.at
			}
		} else if isOpen {
			bad("an event nobody sent")
		}
	}
	if open > 0 {
		bad("%d of the %d events channels were not closed within %v of the loss (the first of them was subscribed when %d handlers were live)", open, len(subs), hang, firstOpen)
	}
	// every callback has run exactly once
	for {
		all := true
		for k := range cbAt {
			if atomic.LoadInt32(&cbCount[k]) < 1 {
				all = false
				break
			}
		}
		if all || left() == 0 {
			break
		}
		time.Sleep(100 * time.Microsecond)
	}
	time.Sleep(300 * time.Microsecond)
	never, twice, firstNever := 0, 0, -1
	for k := range cbAt {
		switch n := atomic.LoadInt32(&cbCount[k]); {
		case n == 0:
			never++
			if firstNever < 0 {
				firstNever = cbAt[k]
			}
		case n > 1:
			twice++
		}
	}
	if never > 0 {
		bad("%d of the %d disconnect callbacks did not run within %v of the loss (the first of them was registered when %d handlers were live)", never, len(cbAt), hang, firstNever)
	}
	if twice > 0 {
		bad("%d disconnect callbacks ran more than once", twice)
	}
	if len(fails) == 0 {
		lr := make(chan error, 1)
		go func() { _, err := cl.Call(nil, c11Service, 1, c11ActPending+999, nil); lr <- err }()
		select {
		case err := <-lr:
			if err == nil {
				bad("a call made after the loss returned no error")
			}
		case <-time.After(hang):
			bad("a call made after the loss did not return within %v", hang)
		}
	}
	res.Count(desc, len(pend) > 0)
	res.Dist("session:" + spec.profile)
	res.Dist(fmt.Sprintf("session-live:%d", (live/500)*500))
	for _, f := range fails {
		res.Fail("c11-oracle", fmt.Sprintf("%s [%s]: %s", desc, shape, f))
	}
	return len(fails) == 0
}

func c11Sessions(res *hx.Result, rng *hx.Rng, hang time.Duration, tier string) {
	tr, err := newC11Transports()
	if err != nil {
		res.Fail("c11-schedule", fmt.Sprintf("real transports: %v", err))
		return
	}
	defer tr.close()
	specs := []c11SessionSpec{
		{transport: "netpipe", live: 60, profile: "mixed", loss: "peer-close"},
		{transport: "unix", live: 300, profile: "subs", loss: "read[reset]"},
		{transport: "netpipe", live: 700, profile: "calls", loss: "client-close"},
		{transport: "tcp", live: 700, profile: "callbacks", loss: "peer-close"},
		{transport: "netpipe", live: 1500, profile: "mixed", loss: "write[epipe]-then-read"},
		{transport: "unix", live: 1500, profile: "subs", loss: "peer-close"},
		{transport: "netpipe", live: 2600, profile: "subs", loss: "read[timedout]"},
		{transport: "tcp", live: 2600, profile: "mixed", loss: "client-close"},
	}
	nrand, maxLive := 2, 3000
	if tier == "thorough" {
		nrand, maxLive = 40, 6000
	}
	profiles := []string{"subs", "callbacks", "calls", "mixed"}
	losses := []string{"peer-close", "client-close", "read[eof]", "read[reset]", "read[timedout]", "write[epipe]-then-read", "write[reset]-then-read"}
	transports := []string{"netpipe", "unix", "tcp"}
	for k := 0; k < nrand; k++ {
		specs = append(specs, c11SessionSpec{transport: transports[rng.Intn(len(transports))], live: 100 + rng.Intn(maxLive-100),
			profile: profiles[rng.Intn(len(profiles))], loss: losses[rng.Intn(len(losses))]})
	}
	sort.SliceStable(specs, func(a, b int) bool { return specs[a].live < specs[b].live })
	ran, most := 0, 0
	for k := range specs {
		specs[k].seed = rng.U64()
		ran++
		if specs[k].live > most {
			most = specs[k].live
		}
		if !c11Session(res, tr, specs[k], hang) {
			break // the violation is established; larger sessions would only wait
		}
	}
	res.Notes = append(res.Notes, fmt.Sprintf("%d sessions with 60 .. %d live handlers over the real transports (oracles only)", ran, most))
}
