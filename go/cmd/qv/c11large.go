package main

// c11large.go — the loss strictly INSIDE a large incoming frame.
// Every frame of the other scenarios carries two or three bytes of payload: a message was cut inside
// its header, or right behind it.  Here the reply of a call in flight and an event of a subscription
// carry payloads from 1 byte to several hundred KiB (around 64 KiB in steps of one byte: a reader may
// well treat "large" payloads differently), and are cut
//   - inside the header, at the header/payload boundary, one byte into the payload, in the middle,
//     at byte 65536 and 65537 of the payload, one byte before the end,
//   - by every kind of loss the enumeration knows: a Read that fails (rerr, and the 19 kinds of
//     c11kinds.go through net.ConnStream), a clean EOF (reof, half), EOF or an error returned together
//     with the last bytes received (dataeof, dkind), a local Close.
// A frame that was not received completely is no message: the call it was meant for fails like the
// other pending one (it must never return the truncated reply as a success), the subscription gets
// no event and is closed.  A frame that was received completely — the same sizes — is delivered
// intact (the payload a call returns is compared byte by byte).
// The runs go through the ordinary step interpreter: the labels are those of the model (a Read that
// fails inside a frame is LReadFail without LPeerMsg), and the cases are compared with it.

import (
	"bytes"
	"fmt"
	"sort"

	"github.com/lugu/qiloop/bus/net"
)

// c11BigPayload: psize bytes that depend on the owner and on the position (a truncated, shifted or
// repeated piece is not a prefix-free match of the whole).
func c11BigPayload(owner string, idx int, psize int) []byte {
	p := make([]byte, psize)
	salt := 17 * (idx + 1)
	if owner == "sub" {
		salt += 101
	}
	for k := range p {
		p[k] = byte((k*7 + k/251 + salt) % 253)
	}
	return p
}

// c11StepFrame: the bytes of the frame of a frame step.
func c11StepFrame(st c11Step, id uint32) []byte {
	if st.psize == 0 {
		return c11Frame(st.owner, st.idx, st.mtype, id)
	}
	var hdr net.Header
	switch st.owner {
	case "call":
		hdr = net.NewHeader(st.mtype, c11Service, 1, uint32(100+st.idx), id)
	case "sub":
		hdr = net.NewHeader(st.mtype, c11SubService, 1, uint32(200+st.idx), 0)
	default:
		hdr = net.NewHeader(st.mtype, 9, 9, 9, 0)
	}
	msg := net.NewMessage(hdr, c11BigPayload(st.owner, st.idx, st.psize))
	var buf bytes.Buffer
	if err := msg.Write(&buf); err != nil {
		panic(err)
	}
	return buf.Bytes()
}

// c11ReplyPayload: what call c returns when its Reply frame of the script was delivered.
func c11ReplyPayload(sc c11Scenario, c int) []byte {
	for _, st := range sc.script {
		if st.kind == "frame" && st.owner == "call" && st.idx == c && st.mtype == net.Reply && st.psize > 0 {
			return c11BigPayload("call", c, st.psize)
		}
	}
	return []byte{byte(c), 0x55, 0x66}
}

// c11CutFrags: fragment sizes that cut a frame of 28+psize bytes at every kind of position.
func c11CutFrags(psize int) []int {
	total := 28 + psize
	offs := []int{10, 28, 29, 28 + psize/2, 28 + 65536, 28 + 65537, total - 1}
	sort.Ints(offs)
	var frags []int
	prev := 0
	for _, o := range offs {
		if o <= prev || o >= total {
			continue
		}
		frags = append(frags, o-prev)
		prev = o
	}
	return append(frags, 0)
}

var c11LargeSizesQuick = []int{1, 1000, 65535, 65536, 65537, 100000, 300000}

func c11LargeScenarios(tier string) []c11Scenario {
	sizes := c11LargeSizesQuick
	if tier == "thorough" {
		sizes = append(append([]int{}, sizes...), 2, 27, 28, 4096, 32768, 65538, 131072, 131073, 700000)
	}
	var scs []c11Scenario
	for _, n := range sizes {
		big := func(owner string, idx int, t uint8) c11Step {
			return c11Step{kind: "frame", owner: owner, idx: idx, mtype: t, frags: c11CutFrags(n), psize: n}
		}
		scs = append(scs, c11Scenario{fmt.Sprintf("large-frames-%d", n), 2, 1, 1, []c11Step{
			stOnDisc(0), stSub(0), stStart(0), stFinish(0), stStart(1), stFinish(1),
			big("call", 0, net.Reply), big("sub", 0, net.Event), stRead(0)}})
	}
	return scs
}

// c11LargeJobs: the whole enumeration of c11Jobs on the gated stream and through net.ConnStream, and
// the loss in every kind of error inside the frames (after every fragment, and together with the last
// byte of every fragment).
func c11LargeJobs(sc c11Scenario, salt int) []c11Job {
	js := c11Jobs(sc)
	conn := c11Jobs(sc)
	for k := range conn {
		conn[k].wrap = "conn"
	}
	js = append(js, conn...)
	for _, j := range c11KindJobs(sc, salt) {
		if j.f.frag > 0 {
			js = append(js, j)
		}
	}
	for k := range js {
		js[k].fam = 3
		js[k].dedup = true
	}
	sort.SliceStable(js, func(a, b int) bool {
		if js[a].f.pos != js[b].f.pos {
			return js[a].f.pos > js[b].f.pos
		}
		return js[a].f.frag > js[b].f.frag
	})
	return js
}
