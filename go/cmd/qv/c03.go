package main

import (
	"bytes"
	"fmt"

	"qv/internal/hx"
	"qv/internal/wg"
)

func init() { props["C03"] = runC03 }

func valOrNil(v *wg.Val) string {
	if v == nil {
		return "VTup []"
	}
	return v.Coq()
}

func runC03(res *hx.Result, rng *hx.Rng, tier string, outdir string) {
	res.Rule = "type-directed: draw a signature (all scalar kinds, lists, maps, tuples, structs, dynamic values, depth <= 4/6), then a well-typed value with boundary scalars; " +
		"non-trivial = type depth >= 2, or an 8/16-bit scalar, or a map; distinct by sha256 of (signature, canonical value, trailing bytes)"
	n := 700
	opts := wg.GenOpts{MaxDepth: 4, Scalars: "cCwWiIlLfdbsmov", KeyScalar: "sIiLlwcb", MaxWidth: 4, Template: true}
	if tier == "thorough" {
		n, opts.MaxDepth = 25000, 6
	}
	cfg, sw := wireSwitches(res, "value_reader_no_len", "refl_drop8")
	cs := hx.NewCases(outdir, "C03", "From QV Require Import Wire ParseOpt C03Run.", "mismatches cfg cases", res, "cases", "c03case")
	cs.Extra = append(cs.Extra, cfg)
	for i := 0; i < n; i++ {
		t := wg.GenTy(rng, opts, 0)
		if rng.Chance(0.1) {
			// scalars at top level get their share
			t = wg.Scalar(string(opts.Scalars[rng.Intn(len(opts.Scalars))]))
		}
		maxLen := 3
		has8 := t.HasScalar("cC")
		if has8 && sw["refl_drop8"] {
			maxLen = 1 // the map order an encoder picked cannot be learnt from bytes that miss fields
		}
		v := wg.GenVal(rng, t, maxLen)
		sig := t.Sig()
		inRefl := !t.HasScalar("mX")
		rt, okT := goType(sig)
		if !okT {
			inRefl = false
			if _, parsed := goTypeParsed(sig); !parsed {
				res.Fail("parse", fmt.Sprintf("signature.Parse rejects the grammar signature %q", sig))
				continue
			}
		}
		doc := v.Enc()
		enc := doc
		ordered := v
		if inRefl {
			e, class := reflEnc(rt, v)
			if class != ocOK {
				res.Fail("refl-enc", fmt.Sprintf("reflection encoder failed (class %d) on signature %q value %s", class, sig, v.Canon()))
				continue
			}
			enc = e
			vv, rest, ok := wg.Decode(t, e)
			if ok && len(rest) == 0 && vv.Canon() == v.Canon() {
				ordered = vv
			} else {
				detail := fmt.Sprintf("signature %q value %s: reflection encoder wrote %x, documented serialization is %x", sig, v.Canon(), e, doc)
				if has8 && sw["refl_drop8"] {
					res.FailKnown("refl-enc-layout", detail, "refl_drop8")
				} else {
					res.Fail("refl-enc-layout", detail)
				}
			}
		}
		trail := rng.Bytes(rng.Pick(0, 0, 1, 3, 7))
		// the decoders are fed the documented bytes (what a correct peer sends); bytes an encoder got
		// wrong are not fed back: misaligned counts are hostile input, which is C07's subject
		input := append(append([]byte(nil), doc...), trail...)
		docInput := input
		rd := sigRead(sig, input)
		// oracle: the signature-driven reader accepts exactly the documented bytes and returns them unchanged
		rdDoc := rd
		if !t.HasScalar("X") && (rdDoc.class != ocOK || !bytes.Equal(rdDoc.data, doc) || rdDoc.left != len(trail)) {
			detail := fmt.Sprintf("signature %q: reader on %x + %d trailing bytes: class %d, returned %x, %d left", sig, doc, len(trail), rdDoc.class, rdDoc.data, rdDoc.left)
			if t.HasScalar("m") && sw["value_reader_no_len"] {
				res.FailKnown("reader-unchanged", detail, "value_reader_no_len")
			} else {
				res.Fail("reader-unchanged", detail)
			}
		}
		var de decOut
		if inRefl {
			de = reflDec(rt, t, input)
			// oracle: the reflection decoder recovers the value from the documented bytes
			dd := de
			_ = docInput
			if dd.class != ocOK || dd.val.Canon() != v.Canon() || dd.left != len(trail) {
				got := "<none>"
				if dd.val != nil {
					got = dd.val.Canon()
				}
				detail := fmt.Sprintf("signature %q: reflection decoder on %x + %d trailing: class %d, value %s, expected %s, %d left", sig, doc, len(trail), dd.class, got, v.Canon(), dd.left)
				if has8 && sw["refl_drop8"] {
					res.FailKnown("refl-dec", detail, "refl_drop8")
				} else {
					res.Fail("refl-dec", detail)
				}
			}
		}
		nontrivial := t.Depth() >= 2 || t.HasScalar("cCwW") || t.Has(func(x *wg.Ty) bool { return x.K == wg.KMap })
		res.Count(sig+"|"+v.Canon()+"|"+fmt.Sprintf("%x", trail), nontrivial)
		res.Dist(fmt.Sprintf("depth:%d", t.Depth()))
		res.Dist(fmt.Sprintf("refl:%v", inRefl))
		if len(enc) < 200 {
			res.Sample(fmt.Sprintf("%s %s -> %x", sig, v.Canon(), enc))
		}
		cs.Add("cases", fmt.Sprintf("{| k_ty := %s; k_val := %s; k_refl := %v; k_enc := %s; k_input := %s; k_rd := %d; k_rd_data := %s; k_rd_left := %d; k_dec := %d; k_dec_val := %s; k_dec_left := %d |}",
			t.Coq(), ordered.Coq(), inRefl, hx.Hex(enc), hx.Hex(input), rd.class, hx.Hex(rd.data), rd.left, de.class, valOrNil(de.val), de.left),
			fmt.Sprintf("sig=%s val=%s trail=%x", sig, v.Canon(), trail))
	}
	for _, r := range readerAliasReports {
		res.Fail("reader-result-overwritten", r)
	}
	cs.Flush()
}

func goTypeParsed(sig string) (struct{}, bool) {
	o := sigRead(sig, nil)
	_ = o
	// sigRead reports ocErr both for parse errors and read errors; re-parse explicitly
	return struct{}{}, parses(sig)
}
