package main

import (
	"bytes"
	"fmt"
	"github.com/lugu/qiloop/type/encoding"
	"github.com/lugu/qiloop/type/value"
	"io"
	"reflect"
	"strings"

	"qv/internal/hx"
	"qv/internal/wg"
)

func init() { props["C03"] = runC03 }

func valOrNil(v *wg.Val) string {
	if v == nil {
		return "VTup []"
	}
	return v.Coq()
}

func runC03(res *hx.Result, rng *hx.Rng, tier string, outdir string) {
	res.Rule = "type-directed: draw a signature (all scalar kinds, lists, maps, tuples, structs, dynamic values, depth <= 4/6), then a well-typed value with boundary scalars; " +
		"non-trivial = type depth >= 2, or an 8/16-bit scalar, or a map; distinct by sha256 of (signature, canonical value, trailing bytes)"
	n := 700
	opts := wg.GenOpts{MaxDepth: 4, Scalars: "cCwWiIlLfdbsmov", KeyScalar: "sIiLlwcb", MaxWidth: 4, Template: true}
	if tier == "thorough" {
		n, opts.MaxDepth = 25000, 6
	}
	cfg, sw := wireSwitches(res, "value_reader_no_len", "refl_drop8")
	// the decoder's bound on list and map sizes is not applied by the encoder: the largest list the
	// decoder must accept, and the smallest one the encoder writes and the decoder refuses
	for _, k := range []int{4096, 4097} {
		lt := wg.List(wg.Scalar("C"))
		lv := &wg.Val{K: wg.VList}
		for i := 0; i < k; i++ {
			lv.L = append(lv.L, &wg.Val{K: wg.VNum, W: 1, Bits: uint64(i % 251)})
		}
		if sw["refl_drop8"] {
			break
		}
		e, class := reflEnc(rt2("[C]"), lv)
		if class != ocOK || !bytes.Equal(e, lv.Enc()) {
			res.Fail("refl-enc-layout", fmt.Sprintf("reflection encoder on a list of %d bytes: class %d, %d bytes written, documented %d", k, class, len(e), len(lv.Enc())))
			continue
		}
		d := reflDec(rt2("[C]"), lt, e)
		back := d.class == ocOK && d.left == 0 && d.val.Canon() == lv.Canon()
		if k == 4096 {
			if !back {
				res.Fail("refl-dec", fmt.Sprintf("a list of 4096 bytes (the decoder's limit) does not come back: class %d", d.class))
			}
			res.Count("limit-4096", true)
		} else {
			res.Switch("refl_list_over_4096", !back, "a list of 4097 elements ([C], any element type; maps alike) is written by the reflection encoder exactly as documented and refused by the reflection decoder (list too long: 4097)")
		}
	}
	cs := hx.NewCases(outdir, "C03", "From QV Require Import Wire ParseOpt C03Run.", "mismatches cfg cases", res, "cases", "c03case")
	cs.Extra = append(cs.Extra, cfg)
	// directed: every scalar kind in every container position, and the containers of zero-width
	// elements, each with a value whose containers are all non-empty and with a random one
	type tyVal struct {
		t *wg.Ty
		v *wg.Val
	}
	var pre []tyVal
	for _, t := range wg.DirectedTys(opts.Scalars, opts.KeyScalar, true) {
		if t.HasScalar("cC") && sw["refl_drop8"] {
			continue
		}
		pre = append(pre, tyVal{t, wg.GenValFull(rng, t, 2)}, tyVal{t, wg.GenVal(rng, t, 3)})
	}
	// types that differ but look alike to a cache keyed by part of a type, used one after the other
	for _, t := range wg.CollidingTys() {
		pre = append(pre, tyVal{t, wg.GenValFull(rng, t, 2)})
	}
	for i := 0; i < n+len(pre); i++ {
		var t *wg.Ty
		var v *wg.Val
		has8 := false
		if i < len(pre) {
			t, v = pre[i].t, pre[i].v
			has8 = t.HasScalar("cC")
			res.Dist("directed")
		} else {
			o := opts
			o.ZeroWidthElems = rng.Chance(0.15)
			t = wg.GenTy(rng, o, 0)
			if rng.Chance(0.1) {
				// scalars at top level get their share
				t = wg.Scalar(string(opts.Scalars[rng.Intn(len(opts.Scalars))]))
			}
			maxLen := 3
			has8 = t.HasScalar("cC")
			if has8 && sw["refl_drop8"] {
				maxLen = 1 // the map order an encoder picked cannot be learnt from bytes that miss fields
			}
			v = wg.GenVal(rng, t, maxLen)
		}
		sig := t.Sig()
		inRefl := !t.HasScalar("mX")
		rt, okT := goType(sig)
		if !okT {
			inRefl = false
			if _, parsed := goTypeParsed(sig); !parsed {
				res.Fail("parse", fmt.Sprintf("signature.Parse rejects the grammar signature %q", sig))
				continue
			}
		}
		doc := v.Enc()
		enc := doc
		ordered := v
		if inRefl {
			e, class := reflEnc(rt, v)
			if class != ocOK {
				res.Fail("refl-enc", fmt.Sprintf("reflection encoder failed (class %d) on signature %q value %s", class, sig, v.Canon()))
				continue
			}
			enc = e
			vv, rest, ok := wg.Decode(t, e)
			if ok && len(rest) == 0 && vv.Canon() == v.Canon() {
				ordered = vv
			} else {
				detail := fmt.Sprintf("signature %q value %s: reflection encoder wrote %x, documented serialization is %x", sig, v.Canon(), e, doc)
				if has8 && sw["refl_drop8"] {
					res.FailKnown("refl-enc-layout", detail, "refl_drop8")
				} else {
					res.Fail("refl-enc-layout", detail)
				}
			}
		}
		trail := rng.Bytes(rng.Pick(0, 0, 1, 3, 7))
		// the decoders are fed the documented bytes (what a correct peer sends); bytes an encoder got
		// wrong are not fed back: misaligned counts are hostile input, which is C07's subject
		input := append(append([]byte(nil), doc...), trail...)
		docInput := input
		rd := sigRead(sig, input)
		// oracle: the signature-driven reader accepts exactly the documented bytes and returns them unchanged
		rdDoc := rd
		if !t.HasScalar("X") && (rdDoc.class != ocOK || !bytes.Equal(rdDoc.data, doc) || rdDoc.left != len(trail)) {
			detail := fmt.Sprintf("signature %q: reader on %x + %d trailing bytes: class %d, returned %x, %d left", sig, doc, len(trail), rdDoc.class, rdDoc.data, rdDoc.left)
			if t.HasScalar("m") && sw["value_reader_no_len"] {
				res.FailKnown("reader-unchanged", detail, "value_reader_no_len")
			} else {
				res.Fail("reader-unchanged", detail)
			}
		}
		// "accepts exactly those bytes": one strict prefix per case must be refused (every prefix is C08's subject)
		if len(doc) > 0 && !t.HasScalar("X") {
			k := rng.Intn(len(doc))
			if p := sigRead(sig, doc[:k]); p.class == ocOK {
				detail := fmt.Sprintf("signature %q: the reader accepts the first %d of the %d bytes %x and returns %x", sig, k, len(doc), doc, p.data)
				if sw["string_reader_drops_err"] {
					res.FailKnown("reader-accepts-prefix", detail, "string_reader_drops_err")
				} else {
					res.Fail("reader-accepts-prefix", detail)
				}
			}
		}
		var de decOut
		if inRefl {
			de = reflDec(rt, t, input)
			// oracle: the reflection decoder recovers the value from the documented bytes
			dd := de
			_ = docInput
			if dd.class != ocOK || dd.val.Canon() != v.Canon() || dd.left != len(trail) {
				got := "<none>"
				if dd.val != nil {
					got = dd.val.Canon()
				}
				detail := fmt.Sprintf("signature %q: reflection decoder on %x + %d trailing: class %d, value %s, expected %s, %d left", sig, doc, len(trail), dd.class, got, v.Canon(), dd.left)
				if has8 && sw["refl_drop8"] {
					res.FailKnown("refl-dec", detail, "refl_drop8")
				} else {
					res.Fail("refl-dec", detail)
				}
			}
		}
		// oracle: what the stream hands out per Read call does not matter (a bytes.Buffer as the bus
		// passes, one byte per call, the last bytes together with io.EOF)
		for rk := 1; rk <= 3; rk++ {
			readerKind = rk
			rd2 := sigRead(sig, input)
			if rd2.class != rd.class || !bytes.Equal(rd2.data, rd.data) || rd2.left != rd.left {
				res.Fail("reader-fragmentation", fmt.Sprintf("signature %q input %x: the reader returns class %d, %x, %d left from a *bytes.Reader and class %d, %x, %d left from reader kind %d (1 = *bytes.Buffer, 2 = one byte per Read, 3 = data together with EOF)",
					sig, input, rd.class, rd.data, rd.left, rd2.class, rd2.data, rd2.left, rk))
			}
			if inRefl {
				de2 := reflDec(rt, t, input)
				if de2.class != de.class || de2.left != de.left || (de.val != nil && de2.val != nil && de2.val.Canon() != de.val.Canon()) {
					got := "<none>"
					if de2.val != nil {
						got = de2.val.Canon()
					}
					res.Fail("decoder-fragmentation", fmt.Sprintf("signature %q input %x: the reflection decoder gives class %d, %s, %d left from a *bytes.Reader and class %d, %s, %d left from reader kind %d (1 = *bytes.Buffer, 2 = one byte per Read, 3 = data together with EOF)",
						sig, input, de.class, valOrNil(de.val), de.left, de2.class, got, de2.left, rk))
				}
			}
		}
		readerKind = 0
		nontrivial := t.Depth() >= 2 || t.HasScalar("cCwW") || t.Has(func(x *wg.Ty) bool { return x.K == wg.KMap })
		res.Count(sig+"|"+v.Canon()+"|"+fmt.Sprintf("%x", trail), nontrivial)
		res.Dist(fmt.Sprintf("depth:%d", t.Depth()))
		res.Dist(fmt.Sprintf("refl:%v", inRefl))
		if len(enc) < 200 {
			res.Sample(fmt.Sprintf("%s %s -> %x", sig, v.Canon(), enc))
		}
		cs.Add("cases", fmt.Sprintf("{| k_ty := %s; k_val := %s; k_refl := %v; k_enc := %s; k_input := %s; k_rd := %d; k_rd_data := %s; k_rd_left := %d; k_dec := %d; k_dec_val := %s; k_dec_left := %d |}",
			t.Coq(), ordered.Coq(), inRefl, hx.Hex(enc), hx.Hex(input), rd.class, hx.Hex(rd.data), rd.left, de.class, valOrNil(de.val), de.left),
			fmt.Sprintf("sig=%s val=%s trail=%x", sig, v.Canon(), trail))
	}
	c03DynMembers(res)
	for _, r := range readerAliasReports {
		res.Fail("reader-result-overwritten", r)
	}
	cs.Flush()
}

func goTypeParsed(sig string) (struct{}, bool) {
	o := sigRead(sig, nil)
	_ = o
	// sigRead reports ocErr both for parse errors and read errors; re-parse explicitly
	return struct{}{}, parses(sig)
}

// c03DynMembers: Go types written by hand (what generated code declares for `any`) in which a dynamic
// value is FOLLOWED by something else: a struct member after it, the next list element, the next map
// entry.  The reflection decoder hands the stream to value.NewValue for the member and must find the
// stream exactly behind the value afterwards, whatever kind of reader it was given (a decoder that
// buffers ahead on a reader without ReadByte loses what it read ahead).
func c03DynMembers(res *hx.Result) {
	type event struct {
		ID   uint32
		Data value.Value
		Name string
	}
	type pair struct {
		A value.Value
		B value.Value
		N int32
	}
	str := func(s string) []byte { return append([]byte{byte(len(s)), 0, 0, 0}, s...) }
	dynInt := append(str("i"), 5, 0, 0, 0)
	dynStr := append(str("s"), str("ab")...)
	dynList := append(append(str("[m]"), 2, 0, 0, 0), append(append([]byte{}, dynInt...), dynStr...)...)
	cat := func(parts ...[]byte) []byte {
		var b []byte
		for _, p := range parts {
			b = append(b, p...)
		}
		return b
	}
	u32 := func(n uint32) []byte { return []byte{byte(n), byte(n >> 8), byte(n >> 16), byte(n >> 24)} }
	cases := []struct {
		name string
		doc  []byte
		mk   func() interface{}
		want interface{}
	}{
		{"struct{ID uint32; Data any; Name string} = (Ims)", cat(u32(7), dynInt, str("left")), func() interface{} { return new(event) }, &event{7, value.Int(5), "left"}},
		{"struct{ID uint32; Data any; Name string} with a list value", cat(u32(9), dynList, str("x")), func() interface{} { return new(event) },
			&event{9, value.List([]value.Value{value.Int(5), value.String("ab")}), "x"}},
		{"struct{A any; B any; N int32} = (mmi)", cat(dynStr, dynInt, u32(3)), func() interface{} { return new(pair) }, &pair{value.String("ab"), value.Int(5), 3}},
		{"[]any = [m] with three elements", cat(u32(3), dynInt, dynStr, dynInt), func() interface{} { return new([]value.Value) },
			&[]value.Value{value.Int(5), value.String("ab"), value.Int(5)}},
		{"map[string]any = {sm} with two entries", cat(u32(2), str("k1"), dynInt, str("k2"), dynStr), func() interface{} { return new(map[string]value.Value) },
			&map[string]value.Value{"k1": value.Int(5), "k2": value.String("ab")}},
		{"[]struct{ID; Data any; Name} with two elements", cat(u32(2), u32(1), dynInt, str("a"), u32(2), dynStr, str("b")), func() interface{} { return new([]event) },
			&[]event{{1, value.Int(5), "a"}, {2, value.String("ab"), "b"}}},
	}
	for _, c := range cases {
		// the encoder writes the documented bytes
		var buf bytes.Buffer
		if err := encoding.NewEncoder(encoding.DefaultCap(), &buf).Encode(c.want); err != nil {
			res.Fail("refl-enc", fmt.Sprintf("%s: reflection encoder fails: %v", c.name, err))
		} else if !bytes.Equal(buf.Bytes(), c.doc) && !strings.HasPrefix(c.name, "map") {
			res.Fail("refl-enc-layout", fmt.Sprintf("%s: reflection encoder wrote %x, documented serialization is %x", c.name, buf.Bytes(), c.doc))
		}
		for rk := 0; rk <= 4; rk++ {
			trail := []byte{0xaa, 0xbb, 0xcc}
			input := append(append([]byte(nil), c.doc...), trail...)
			var r io.Reader
			var left func() int
			if rk == 4 {
				// a plain io.Reader: no Len, no ReadByte (a connection, a file, a pipe)
				br := bytes.NewReader(input)
				r, left = struct{ io.Reader }{br}, br.Len
			} else {
				readerKind = rk
				lr := mkReader(input)
				r, left = lr, lr.Len
			}
			got := c.mk()
			err := encoding.NewDecoder(encoding.DefaultCap(), r).Decode(got)
			readerKind = 0
			if err != nil || !reflect.DeepEqual(got, c.want) || left() != len(trail) {
				res.Fail("refl-dec", fmt.Sprintf("%s: reflection decoder on %x + 3 trailing bytes through reader kind %d (0 *bytes.Reader, 1 *bytes.Buffer, 2 one byte per Read, 3 data with EOF, 4 plain io.Reader): err=%v, value %+v, expected %+v, %d bytes left (want 3)",
					c.name, c.doc, rk, err, reflect.Indirect(reflect.ValueOf(got)).Interface(), reflect.Indirect(reflect.ValueOf(c.want)).Interface(), left()))
			}
		}
		res.Count("dyn-member|"+c.name, true)
		res.Dist("dynamic value followed by more data (hand-written Go types)")
	}
}
