package main

// c11exec.go — the step interpreter of a C11 run, the end-of-run collection and the oracles.

import (
	"bytes"
	"fmt"
	gonet "net"
	"strings"
	"sync/atomic"
	"time"

	"github.com/lugu/qiloop/bus"
	"github.com/lugu/qiloop/bus/net"
)

func c11Exec(sc c11Scenario, f c11Fault, hold bool, wrap string, fam int, hang time.Duration) *c11Obs {
	o := &c11Obs{calls: make([]int, sc.n), callLat: make([]time.Duration, sc.n), subClosed: make([]bool, sc.m),
		subRead: make([]int, sc.m), subEarly: make([]bool, sc.m), cbEarly: make([]bool, sc.d), cbCount: make([]int, sc.d),
		replied: make([]bool, sc.n), early: make([]bool, sc.n), payloadOK: make([]bool, sc.n)}
	r := &c11Runner{sc: sc, f: f, hold: hold, fam: fam, hang: hang, full: hang, obs: o, nextID: 1,
		callRes: make([]chan c11CallRes, sc.n), callGot: make([]*c11CallRes, sc.n), callID: make([]uint32, sc.n),
		started: make([]bool, sc.n), held: make([]bool, sc.n), wrote: make([]bool, sc.n),
		cheld: make([]bool, sc.n), cancelCh: make([]chan struct{}, sc.n), cancelled: make([]bool, sc.n),
		subEv: make([]chan []byte, sc.m), subReg: make([]bool, sc.m), cbReg: make([]bool, sc.d), cb: make([]int32, sc.d)}
	for c := range r.callRes {
		r.callRes[c] = make(chan c11CallRes, 1)
		r.cancelCh[c] = make(chan struct{})
	}
	r.st = newC11Stream(20*hang + 30*time.Second)
	if wrap == "conn" {
		// what dialTCP/dialTLS/dialUNIX and connListener.Accept build for every connection
		r.st.clErr = &gonet.OpError{Op: "read", Net: "c11", Err: gonet.ErrClosed}
		r.ep = net.ConnEndPoint(c11Conn{r.st})
	} else {
		r.ep = net.NewEndPoint(r.st)
	}
	r.cl = bus.NewClient(bus.NewContext(r.ep))
	for pos, step := range sc.script {
		if o.aborted != "" {
			break
		}
		if !r.faulted && f.pos == pos && f.frag == 0 && !c11InDispatch(f.kind) {
			if r.waitIdle("before fault") {
				r.fire()
			}
		}
		r.step(pos, step)
	}
	if !r.faulted && o.aborted == "" {
		if r.waitIdle("before final fault") {
			r.fire()
		}
	}
	r.finish()
	r.tally()
	return o
}

func (r *c11Runner) halfOpen() bool { return r.faulted && r.f.kind == "half" && r.hold }

func (r *c11Runner) step(pos int, step c11Step) {
	i := step.idx
	switch step.kind {
	case "ondisc":
		if r.faulted && !r.hold {
			return
		}
		j := i
		if !r.bounded(func() { r.cl.OnDisconnect(func(error) { atomic.AddInt32(&r.cb[j], 1) }) }) {
			r.abort("OnDisconnect(%d) did not return within %v", j, r.full)
			return
		}
		r.cbReg[j] = true
		r.lab("LOnDisc %d", j)
	case "sub":
		if r.faulted && !r.hold {
			return
		}
		var ev chan []byte
		var err error
		if !r.bounded(func() { _, ev, err = r.cl.Subscribe(c11SubService, 1, uint32(200+i)) }) {
			r.abort("Subscribe(%d) did not return within %v", i, r.full)
			return
		}
		if err != nil {
			r.abort("Subscribe: %v", err)
			return
		}
		r.subEv[i] = ev
		r.subReg[i] = true
		r.lab("LSubscribe %d", i)
	case "fill":
		r.fill(i)
	case "svccall":
		r.svcCall(pos, i)
	case "start":
		r.startCall(i)
		if r.cancelled[i] {
			r.lab("LCallMake %d", i)
			r.waitCall(i, r.hang)
			return
		}
		if !r.faulted || r.halfOpen() {
			id := r.callID[i]
			if !r.st.poll(r.hang, func() bool { return r.st.pendingWrite(id, net.Call) != nil }) {
				r.abort("call %d: Write not entered", i)
				return
			}
			r.held[i] = true
			r.lab("LCallMake %d", i)
			return
		}
		r.lab("LCallMake %d", i)
		r.lab("LCallSendFail %d", i)
		r.waitCall(i, r.hang)
	case "finish":
		if !r.started[i] || !r.held[i] || (r.faulted && !r.halfOpen()) {
			return
		}
		id := r.callID[i]
		r.st.releaseWrite(id, net.Call, -1, nil)
		if !r.st.poll(r.hang, func() bool { return r.st.wasSent(id, net.Call) }) {
			r.abort("call %d: Write did not return", i)
			return
		}
		r.held[i] = false
		r.wrote[i] = true
		r.lab("LCallSend %d", i)
	case "cancel":
		if r.faulted || r.cancelled[i] {
			return
		}
		if !r.started[i] { // cancelled before the call is made
			r.cancelled[i] = true
			close(r.cancelCh[i])
			r.lab("LCancel %d", i)
			return
		}
		if !r.wrote[i] || r.obs.replied[i] || r.tryCollect(i) {
			return // only a call waiting in its select, with nothing else ready, is cancelled
		}
		r.cancelled[i] = true
		close(r.cancelCh[i])
		id := r.callID[i]
		if !r.st.poll(r.hang, func() bool { return r.st.pendingWrite(id, net.Cancel) != nil }) {
			r.abort("call %d: Cancel message not written", i)
			return
		}
		r.cheld[i] = true
		r.lab("LCancel %d", i)
		r.lab("LCallSel %d BCancel", i)
	case "fincancel":
		if !r.cheld[i] || (r.faulted && !r.halfOpen()) {
			return
		}
		r.st.releaseWrite(r.callID[i], net.Cancel, -1, nil)
		r.cheld[i] = false
		r.lab("LCallCancelSend %d", i)
		r.waitCall(i, r.hang)
	case "frame":
		if r.faulted {
			return
		}
		if step.owner == "call" && r.cancelled[step.idx] {
			return // reply and cancel both ready: the select is a coin toss, not scripted
		}
		r.frame(step, pos)
	case "readsub":
		if r.faulted || !r.subReg[i] {
			return
		}
		select {
		case _, ok := <-r.subEv[i]:
			if !ok {
				r.obs.subClosed[i] = true
				r.lab("LSubClosed %d", i)
				return
			}
			r.obs.subRead[i]++
			r.lab("LSubTake %d", i)
			r.lab("LSubRead %d", i)
		case <-time.After(r.hang):
			r.abort("sub %d: no event to read", i)
		}
	}
}

func (r *c11Runner) finish() {
	o := r.obs
	full := r.full
	r.st.mu.Lock()
	r.st.holdCl = false
	r.st.mu.Unlock()
	released := time.Now()
	r.failHeld()
	ref := r.faultAt
	if r.hold {
		ref = released
	}
	for c := range r.started {
		if !r.started[c] {
			continue
		}
		if !r.waitCall(c, r.hang) {
			o.calls[c] = 3
			continue
		}
		g := r.callGot[c]
		o.callLat[c] = g.at.Sub(ref)
		if g.err == nil {
			o.calls[c] = 1
			o.payloadOK[c] = bytes.Equal(g.payload, c11ReplyPayload(r.sc, c))
		} else {
			o.calls[c] = 2
		}
	}
	for i := range r.subReg {
		if !r.subReg[i] || o.subClosed[i] {
			continue
		}
		end := time.After(r.hang)
	loop:
		for {
			select {
			case _, ok := <-r.subEv[i]:
				if !ok {
					o.subClosed[i] = true
					break loop
				}
				o.subRead[i]++
			case <-end:
				r.missed()
				break loop
			}
		}
	}
	for j := range r.cbReg {
		if r.cbReg[j] {
			jj := j
			if !r.st.poll(r.hang, func() bool { return atomic.LoadInt32(&r.cb[jj]) >= 1 }) {
				r.missed()
			}
		}
	}
	time.Sleep(500 * time.Microsecond)
	for j := range r.cb {
		o.cbCount[j] = int(atomic.LoadInt32(&r.cb[j]))
	}
	r.st.mu.Lock()
	o.opsTotal = len(r.st.ops)
	r.st.mu.Unlock()
	// ---- property oracles, on what the implementation did ----
	if !r.faulted {
		return
	}
	for c := range r.started {
		if !r.started[c] {
			continue
		}
		switch {
		case o.calls[c] == 3:
			r.failf("call %d did not return within %v after the connection was lost", c, full)
		case o.replied[c] && r.wrote[c] && o.calls[c] != 1:
			r.failf("call %d: its reply was delivered (early=%v) and its send succeeded, yet it returned an error", c, o.early[c])
		case o.replied[c] && r.wrote[c] && !o.payloadOK[c]:
			r.failf("call %d returned a payload that is not its reply", c)
		case !o.replied[c] && o.calls[c] == 1:
			r.failf("call %d returned no error although no reply was delivered to it", c)
		}
	}
	for i := range o.subEarly {
		if o.subEarly[i] && !o.subClosed[i] {
			r.failf("subscription %d: events channel not closed within %v after the connection was lost", i, full)
		}
	}
	for j := range o.cbCount {
		if o.cbEarly[j] && o.cbCount[j] != 1 {
			r.failf("disconnect callback %d registered before the loss ran %d times", j, o.cbCount[j])
		} else if o.cbCount[j] > 1 {
			r.failf("disconnect callback %d ran %d times", j, o.cbCount[j])
		}
	}
}

func (r *c11Runner) tally() {
	if r.hang != r.full && len(r.obs.fail) > 0 {
		atomic.AddInt32(&c11HungFail, 1)
	}
}

func c11CaseTerm(sc c11Scenario, o *c11Obs) string {
	calls := make([]string, sc.n)
	for c, v := range o.calls {
		switch v {
		case 0:
			calls[c] = "None"
		case 1:
			calls[c] = "Some true"
		default:
			calls[c] = "Some false"
		}
	}
	subs := make([]string, sc.m)
	for i := range subs {
		subs[i] = fmt.Sprintf("(%v, %d)", o.subClosed[i], o.subRead[i])
	}
	cbs := make([]string, sc.d)
	for j := range cbs {
		cbs[j] = fmt.Sprintf("%d", o.cbCount[j])
	}
	return fmt.Sprintf("{| k_n := %d; k_m := %d; k_d := %d; k_trace := %s; k_calls := [%s]; k_subs := [%s]; k_cbs := [%s] |}",
		sc.n, sc.m, sc.d, c11TraceTerm(o.labels), strings.Join(calls, "; "), strings.Join(subs, "; "), strings.Join(cbs, "; "))
}
