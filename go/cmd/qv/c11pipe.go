package main

// c11pipe.go — oracle-only runs of C11 over the real in-memory transport: two real endpoints
// joined by net.Pipe(); one side (a real endPoint, as bus/server.go's closeAll does for every
// connection) or the client itself closes while calls are pending.

import (
	"fmt"
	"sync/atomic"
	"time"

	"github.com/lugu/qiloop/bus"
	"github.com/lugu/qiloop/bus/net"

	"qv/internal/hx"
)

func c11RealPipe(res *hx.Result, hang time.Duration, reps int) {
	for rep := 0; rep < reps; rep++ {
		for _, side := range []string{"peer", "client"} {
			for pending := 1; pending <= 3; pending++ {
				desc := fmt.Sprintf("real-pipe close=%s pending=%d rep=%d", side, pending, rep)
				peer, clientEP := net.Pipe()
				// the peer swallows every call and never answers
				peer.MakeHandler(func(h *net.Header) (bool, bool) { return true, true }, make(chan *net.Message, 100), nil)
				cl := bus.NewClient(bus.NewContext(clientEP))
				var cb int32
				cl.OnDisconnect(func(error) { atomic.AddInt32(&cb, 1) })
				_, ev, _ := cl.Subscribe(2, 1, 200)
				results := make(chan error, pending)
				for c := 0; c < pending; c++ {
					go func(c int) {
						_, err := cl.Call(nil, 1, 1, uint32(100+c), []byte{byte(c)})
						results <- err
					}(c)
				}
				time.Sleep(2 * time.Millisecond) // let the calls reach the wire (a call made after the close must fail as well)
				t0 := time.Now()
				if side == "peer" {
					peer.Close()
				} else {
					clientEP.Close()
				}
				ok := true
				for c := 0; c < pending; c++ {
					select {
					case err := <-results:
						if err == nil {
							res.Fail("c11-oracle", desc+": a call returned no error although nobody replied")
							ok = false
						}
					case <-time.After(hang):
						res.Fail("c11-oracle", fmt.Sprintf("%s: a pending call did not return within %v of the close", desc, hang))
						ok = false
						c = pending
					}
				}
				if ok {
					select {
					case _, open := <-ev:
						if open {
							res.Fail("c11-oracle", desc+": unexpected event")
						}
					case <-time.After(hang):
						res.Fail("c11-oracle", fmt.Sprintf("%s: events channel not closed within %v", desc, hang))
					}
					end := time.Now().Add(hang)
					for atomic.LoadInt32(&cb) < 1 && time.Now().Before(end) {
						time.Sleep(100 * time.Microsecond)
					}
					time.Sleep(300 * time.Microsecond)
					if n := atomic.LoadInt32(&cb); n != 1 {
						res.Fail("c11-oracle", fmt.Sprintf("%s: disconnect callback ran %d times", desc, n))
					}
					// a later call fails too
					lr := make(chan error, 1)
					go func() { _, err := cl.Call(nil, 1, 1, 999, nil); lr <- err }()
					select {
					case err := <-lr:
						if err == nil {
							res.Fail("c11-oracle", desc+": a call made after the close returned no error")
						}
					case <-time.After(hang):
						res.Fail("c11-oracle", fmt.Sprintf("%s: a call made after the close did not return within %v", desc, hang))
					}
				}
				_ = t0
				c11CloseBounded(peer)
				c11CloseBounded(clientEP)
				res.Count(desc, true)
				res.Dist("real-pipe:" + side)
			}
		}
	}
}
