package main

// C19 — a session shared by goroutines.  Every scenario runs in a CHILD process (this binary
// re-executed with the sub-command C19child): the failure looked for is a Go fatal error, which
// no recover() catches.  The child builds a real directory server, real servers behind one to
// three further endpoints whose listeners belong to the harness, one client session, and k
// goroutines that ask the session for proxies (public path) or call Session.client directly
// (hook path, to see the identity of the client).  The harness listeners hold every accepted
// connection — so the authentication reply does not arrive — until all goroutines that must
// dial have connected: at that moment each of them is past its first lookup and none has
// reached the write-locked section.  Then they are released together.
// Observed: exit status of the child, connections accepted / still open per endpoint,
// identity classes of the returned clients, the pool.

import (
	"bytes"
	"context"
	"encoding/json"
	"fmt"
	"os"
	"os/exec"
	"path/filepath"
	"strings"
	"sync"
	"time"

	"github.com/lugu/qiloop/bus"
	"github.com/lugu/qiloop/bus/directory"
	"github.com/lugu/qiloop/bus/net"
	"github.com/lugu/qiloop/bus/services"
	"github.com/lugu/qiloop/bus/session"
	"github.com/lugu/qiloop/type/object"
	"qv/internal/hx"
)

func init() {
	props["C19"] = runC19
	props["C19child"] = runC19Child
}

type c19Scenario struct {
	Eps  []int  `json:"eps"`  // per goroutine: index of the endpoint its service lives behind
	Warm []int  `json:"warm"` // goroutines that run alone, one after the other, before the rest
	Hook []bool `json:"hook"` // per goroutine: call Session.client directly (identity observable)
	NEnd int    `json:"nend"` // number of service endpoints (besides the directory's)
	Dir  string `json:"dir"`  // directory for the unix sockets
}

type c19Result struct {
	Errs     []string `json:"errs"`  // per goroutine: "" or the error
	IDs      []int    `json:"ids"`   // per goroutine: identity class of the client (hook path), -1 otherwise
	Works    []bool   `json:"works"` // per goroutine: a call through the returned proxy / client succeeded
	Accepted []int    `json:"accepted"`
	Open     []int    `json:"open"`
	PoolOK   bool     `json:"pool_ok"`   // the pool could be read
	PoolSize int      `json:"pool_size"` // entries besides the directory's
	PoolSame bool     `json:"pool_same"` // every hook-path client is the pooled one of its endpoint
	Timeout  bool     `json:"timeout"`   // some goroutine did not return within the child's deadline
	Held     int      `json:"held"`      // connections that were held at the moment of the release
	Expected int      `json:"expected"`  // connections the release waited for
}

// ---------- harness-owned listener ----------

type c19Coord struct {
	mu       sync.Mutex
	release  chan struct{}
	arrivals int
	notify   chan struct{}
}

func (c *c19Coord) hold() {
	c.mu.Lock()
	c.release = make(chan struct{})
	c.arrivals = 0
	c.mu.Unlock()
}
func (c *c19Coord) open() {
	c.mu.Lock()
	select {
	case <-c.release:
	default:
		close(c.release)
	}
	c.mu.Unlock()
}
func (c *c19Coord) gate() chan struct{} {
	c.mu.Lock()
	defer c.mu.Unlock()
	return c.release
}

type c19Gate struct {
	inner    net.Listener
	coord    *c19Coord
	ready    chan net.Stream
	mu       sync.Mutex
	accepted int
	open     int
	streams  []*c19Stream // every connection accepted so far (server side)
}

type c19Stream struct {
	net.Stream
	g      *c19Gate
	once   sync.Once
	closed bool // under g.mu
}

func (s *c19Stream) Close() error {
	s.once.Do(func() { s.g.mu.Lock(); s.g.open--; s.closed = true; s.g.mu.Unlock() })
	return s.Stream.Close()
}

func newC19Gate(inner net.Listener, coord *c19Coord) *c19Gate {
	g := &c19Gate{inner: inner, coord: coord, ready: make(chan net.Stream, 64)}
	go func() {
		for {
			s, err := inner.Accept()
			if err != nil {
				close(g.ready)
				return
			}
			w := &c19Stream{Stream: s, g: g}
			g.mu.Lock()
			g.accepted++
			g.open++
			g.streams = append(g.streams, w)
			g.mu.Unlock()
			rel := coord.gate()
			coord.mu.Lock()
			coord.arrivals++
			coord.mu.Unlock()
			select {
			case coord.notify <- struct{}{}:
			default:
			}
			go func() {
				<-rel
				g.ready <- w
			}()
		}
	}()
	return g
}

func (g *c19Gate) Accept() (net.Stream, error) {
	s, ok := <-g.ready
	if !ok {
		return nil, fmt.Errorf("listener closed")
	}
	return s, nil
}
func (g *c19Gate) Close() error { return g.inner.Close() }
func (g *c19Gate) counts() (int, int) {
	g.mu.Lock()
	defer g.mu.Unlock()
	return g.accepted, g.open
}

type c19Actor struct{}

func (c19Actor) Receive(m *net.Message, from bus.Channel) error { return nil }
func (c19Actor) Activate(activation bus.Activation) error       { return nil }
func (c19Actor) OnTerminate()                                   {}

func c19Object() bus.BasicObject {
	return bus.NewBasicObject(c19Actor{}, object.MetaObject{
		Description: "",
		Methods:     make(map[uint32]object.MetaMethod),
		Signals:     make(map[uint32]object.MetaSignal),
		Properties:  make(map[uint32]object.MetaProperty),
	}, func(string, []byte) error { return nil })
}

func c19SvcName(e, j int) string { return fmt.Sprintf("svc_%d_%d", e, j) }

// ---------- the child ----------

func runC19Child(res *hx.Result, rng *hx.Rng, tier string, outdir string) {
	var sc c19Scenario
	if err := json.Unmarshal([]byte(os.Getenv("QV_C19")), &sc); err != nil {
		fmt.Println("C19ERROR bad scenario:", err)
		os.Exit(4)
	}
	fail := func(what string, err error) {
		fmt.Printf("C19ERROR %s: %v\n", what, err)
		os.Exit(4)
	}
	// nothing below may outlive this: a blocked set-up or a blocked request ends the child
	stage := "set-up"
	time.AfterFunc(20*time.Second, func() {
		fmt.Printf("C19HANG the child was still in its %s phase after 20 s\n", stage)
		os.Exit(3)
	})
	dirAddr := "unix://" + filepath.Join(sc.Dir, "d.sock")
	dsrv, err := directory.NewServer(dirAddr, bus.Yes{})
	if err != nil {
		fail("directory", err)
	}
	_ = dsrv
	srvSess, err := session.NewSession(dirAddr)
	if err != nil {
		fail("server-side session", err)
	}
	coord := &c19Coord{release: make(chan struct{}), notify: make(chan struct{}, 256)}
	coord.open()
	gates := make([]*c19Gate, sc.NEnd)
	addrs := make([]string, sc.NEnd)
	for e := 0; e < sc.NEnd; e++ {
		addrs[e] = "unix://" + filepath.Join(sc.Dir, fmt.Sprintf("e%d.sock", e))
		inner, err := net.Listen(addrs[e])
		if err != nil {
			fail("listen", err)
		}
		gates[e] = newC19Gate(inner, coord)
		ns, err := services.Namespace(srvSess, []string{addrs[e]})
		if err != nil {
			fail("namespace", err)
		}
		srv, err := bus.StandAloneServer(gates[e], bus.Yes{}, ns)
		if err != nil {
			fail("server", err)
		}
		for j := 0; j < 2; j++ {
			if _, err := srv.NewService(c19SvcName(e, j), c19Object()); err != nil {
				fail("new service", err)
			}
		}
	}
	// the client session is created after every service is ready: its initial list has them all
	sess, err := session.NewSession(dirAddr)
	if err != nil {
		fail("client session", err)
	}
	infos := map[string]services.ServiceInfo{}
	deadline := time.Now().Add(5 * time.Second)
	for {
		infos = map[string]services.ServiceInfo{}
		for _, i := range session.VerifServices(sess) {
			infos[i.Name] = i
		}
		if len(infos) >= 1+2*sc.NEnd || time.Now().After(deadline) {
			break
		}
		time.Sleep(20 * time.Millisecond)
	}
	k := len(sc.Eps)
	r := c19Result{Errs: make([]string, k), IDs: make([]int, k), Works: make([]bool, k)}
	clients := make([]bus.Client, k)
	one := func(g int) {
		name := c19SvcName(sc.Eps[g], g%2)
		if sc.Hook[g] {
			info, ok := infos[name]
			if !ok {
				r.Errs[g] = "service not in the session's list: " + name
				return
			}
			c, err := session.VerifClient(sess, info)
			if err != nil {
				r.Errs[g] = err.Error()
				return
			}
			clients[g] = c
			if _, err := bus.GetMetaObject(c, info.ServiceId, 1); err == nil {
				r.Works[g] = true
			} else {
				r.Errs[g] = "call through the client: " + err.Error()
			}
			return
		}
		p, err := sess.Proxy(name, 1)
		if err != nil {
			r.Errs[g] = err.Error()
			return
		}
		if _, err := bus.MakeObject(p).IsStatsEnabled(); err == nil {
			r.Works[g] = true
		} else {
			r.Errs[g] = "call through the proxy: " + err.Error()
		}
	}
	stage = "warm-up"
	isWarm := map[int]bool{}
	warmEnd := map[int]bool{}
	for _, g := range sc.Warm {
		isWarm[g] = true
		warmEnd[sc.Eps[g]] = true
		if r.Timeout {
			continue
		}
		wd := make(chan struct{})
		go func(g int) { one(g); close(wd) }(g)
		select {
		case <-wd:
		case <-time.After(8 * time.Second):
			r.Timeout = true
		}
	}
	// hold phase
	stage = "concurrent requests"
	coord.hold()
	expected := 0
	var wg, wgHit sync.WaitGroup
	for g := 0; g < k; g++ {
		if isWarm[g] {
			continue
		}
		hit := warmEnd[sc.Eps[g]]
		if !hit {
			expected++
		} else {
			wgHit.Add(1)
		}
		wg.Add(1)
		go func(g int, hit bool) {
			defer wg.Done()
			one(g)
			if hit {
				wgHit.Done()
			}
		}(g, hit)
	}
	r.Expected = expected
	// goroutines whose endpoint was pooled by a warm-up request never dial: wait until they are done,
	// so that nobody is inside or in front of the read-locked section when the others are released
	hitDone := make(chan struct{})
	go func() { wgHit.Wait(); close(hitDone) }()
	select {
	case <-hitDone:
	case <-time.After(4 * time.Second):
	}
	waitArr := time.After(4 * time.Second)
wait:
	for {
		coord.mu.Lock()
		n := coord.arrivals
		coord.mu.Unlock()
		if n >= expected {
			break
		}
		select {
		case <-coord.notify:
		case <-waitArr:
			break wait
		}
	}
	coord.mu.Lock()
	r.Held = coord.arrivals
	coord.mu.Unlock()
	coord.open()
	done := make(chan struct{})
	go func() { wg.Wait(); close(done) }()
	select {
	case <-done:
	case <-time.After(8 * time.Second):
		r.Timeout = true
	}
	// identity classes and the pool
	classes := map[bus.Client]int{}
	for g := 0; g < k; g++ {
		r.IDs[g] = -1
		if clients[g] != nil {
			if _, ok := classes[clients[g]]; !ok {
				classes[clients[g]] = len(classes)
			}
			r.IDs[g] = classes[clients[g]]
		}
	}
	poolCh := make(chan bool, 1)
	go func() {
		pool, ok := session.VerifPool(sess)
		if ok {
			r.PoolSize = len(pool) - 1
			r.PoolSame = true
			for g := 0; g < k; g++ {
				if clients[g] != nil && pool[addrs[sc.Eps[g]]] != clients[g] {
					r.PoolSame = false
				}
			}
		}
		poolCh <- ok
	}()
	select {
	case ok := <-poolCh:
		r.PoolOK = ok
	case <-time.After(2 * time.Second):
	}
	// let the closes of the redundant connections reach the servers
	r.Accepted, r.Open = make([]int, sc.NEnd), make([]int, sc.NEnd)
	stable := 0
	for i := 0; i < 100 && stable < 5; i++ {
		time.Sleep(20 * time.Millisecond)
		same := true
		for e, g := range gates {
			a, o := g.counts()
			if a != r.Accepted[e] || o != r.Open[e] {
				same = false
			}
			r.Accepted[e], r.Open[e] = a, o
		}
		if same {
			stable++
		} else {
			stable = 0
		}
	}
	b, _ := json.Marshal(r)
	fmt.Println("C19RESULT " + string(b))
	os.Exit(0)
}

// ---------- the parent ----------

type c19Obs struct {
	class  string // ok | fatal | hang | crash | error
	res    c19Result
	stderr string
}

func c19RunChild(sc c19Scenario, workdir string, idx int) c19Obs {
	dir, err := os.MkdirTemp("", "qv19-")
	if err != nil {
		return c19Obs{class: "error", stderr: err.Error()}
	}
	defer os.RemoveAll(dir)
	sc.Dir = dir
	b, _ := json.Marshal(sc)
	ctx, cancel := context.WithTimeout(context.Background(), 40*time.Second)
	defer cancel()
	out := filepath.Join(workdir, fmt.Sprintf("child%03d", idx))
	cmd := exec.CommandContext(ctx, os.Args[0], "--out", out, "C19child")
	cmd.Env = append(os.Environ(), "QV_C19="+string(b))
	var so, se bytes.Buffer
	cmd.Stdout, cmd.Stderr = &so, &se
	err = cmd.Run()
	o := c19Obs{stderr: se.String()}
	os.RemoveAll(out)
	for _, line := range strings.Split(so.String(), "\n") {
		if strings.HasPrefix(line, "C19RESULT ") {
			if json.Unmarshal([]byte(strings.TrimPrefix(line, "C19RESULT ")), &o.res) == nil && err == nil {
				o.class = "ok"
				if o.res.Timeout {
					o.class = "hang"
				}
				return o
			}
		}
		if strings.HasPrefix(line, "C19ERROR") {
			o.class = "error"
			o.stderr = line + "\n" + o.stderr
			return o
		}
		if strings.HasPrefix(line, "C19HANG") {
			o.class = "hang"
			o.stderr = line
			return o
		}
	}
	switch {
	case ctx.Err() != nil:
		o.class = "hang"
	case strings.Contains(o.stderr, "fatal error: sync: RUnlock of unlocked RWMutex"):
		o.class = "fatal"
	default:
		o.class = "crash"
	}
	return o
}

func c19Tail(s string, n int) string {
	// the first lines of a Go crash report name the error
	if i := strings.Index(s, "fatal error:"); i >= 0 {
		s = s[i:]
	} else if i := strings.Index(s, "panic:"); i >= 0 {
		s = s[i:]
	}
	if len(s) > n {
		s = s[:n]
	}
	return s
}

func (sc c19Scenario) String() string {
	return fmt.Sprintf("%d goroutines, endpoints of their services %v (of %d), warm-up requests %v, Session.client called directly by %v",
		len(sc.Eps), sc.Eps, sc.NEnd, sc.Warm, sc.Hook)
}

// twoMiss: two goroutines that are held together ask for services behind the same endpoint, and
// no warm-up request pooled that endpoint before: the trigger of the known defect
func (sc c19Scenario) twoMiss() bool {
	warm := map[int]bool{}
	warmEnd := map[int]bool{}
	for _, g := range sc.Warm {
		warm[g] = true
		warmEnd[sc.Eps[g]] = true
	}
	cnt := map[int]int{}
	for g, e := range sc.Eps {
		if !warm[g] && !warmEnd[e] {
			cnt[e]++
		}
	}
	for _, n := range cnt {
		if n >= 2 {
			return true
		}
	}
	return false
}

func c19Term(sc c19Scenario, o c19Obs) string {
	ids := make([]string, len(sc.Eps))
	for g := range ids {
		ids[g] = "None"
		if o.class == "ok" && g < len(o.res.IDs) && o.res.IDs[g] >= 0 {
			ids[g] = fmt.Sprintf("Some %d", o.res.IDs[g])
		}
	}
	acc, op := make([]int, sc.NEnd), make([]int, sc.NEnd)
	if o.class == "ok" {
		copy(acc, o.res.Accepted)
		copy(op, o.res.Open)
	}
	return fmt.Sprintf("{| sc_eps := %s; sc_warm := %s; sc_fatal := %s; sc_ids := %s; sc_accepted := %s; sc_open := %s |}",
		hx.NatList(sc.Eps), hx.NatList(sc.Warm), hx.Bool(o.class == "fatal"), hx.List(ids), hx.NatList(acc), hx.NatList(op))
}

func runC19(res *hx.Result, rng *hx.Rng, tier string, outdir string) {
	rng = hx.NewRng(rng.U64())
	res.Rule = "scenario = k goroutines (2..16) asking one session for proxies of services behind 1..3 endpoints other than the directory's, " +
		"some after warm-up requests; harness listeners hold the authentication reply until every goroutine that must dial has connected " +
		"(all past the first lookup, none in the write-locked section), then release them together; each scenario in a child process; " +
		"non-trivial = at least two goroutines miss the first lookup for the same endpoint; distinct by scenario text. " +
		"life = 3..10 phases on one session (1..3 endpoints, 1..5 services): bursts of 1..6 Proxy / Object / Session.client requests (in turn, or together under the same forced schedule), " +
		"losses of a pooled connection with the services still registered (server closes the socket / server sends garbage / client endpoint closed; the harness waits until the pool dropped it), " +
		"services unregistered and registered again behind another endpoint, a final Object + Proxy request per service; connections accepted/open and pooled endpoints recorded after every phase; " +
		"non-trivial = some request asks for a service behind an endpoint whose connection was lost before. " +
		"view life = 8..16 times: a burst of 2..5 directory changes microseconds apart (services becoming ready behind the endpoints or on the directory's own server, removals, moves; one after the other, " +
		"each from its own goroutine, or — session connected through a relay of the harness — the first change, then the others while the relay holds the reply of the refresh the first one triggered, " +
		"reply and signals then delivered together), some while goroutines keep requesting services that stay registered; then, the directory quiet, the session's list is compared with the directory's " +
		"and goroutines request every service touched; non-trivial = some burst registers two services or more"
	// probe: the witness of C19_refuted_runlock_after_lock — two goroutines, one endpoint, both miss
	probe := c19Scenario{Eps: []int{0, 0}, Hook: []bool{true, false}, NEnd: 1}
	po := c19RunChild(probe, outdir, 999)
	for try := 0; po.class == "error" && try < 2; try++ {
		// the set-up of the child failed (not the requests under test): once more
		res.Notes = append(res.Notes, "probe: set-up failed, run again: "+c19Tail(po.stderr, 200))
		po = c19RunChild(probe, outdir, 999)
	}
	defect := false
	switch po.class {
	case "fatal":
		defect = true
	case "ok":
	default:
		// the simplest scenario does not even complete: every other one would end the same way
		res.Fail("probe", fmt.Sprintf("%s: ended as %q: %s", probe, po.class, c19Tail(po.stderr, 600)))
		res.Switch("runlock_after_lock", false, "not determined: the witness scenario ended as "+po.class)
		res.Count(probe.String(), true)
		return
	}
	res.Switch("runlock_after_lock", defect, "two goroutines request services behind the same second endpoint of one session (services.Namespace + bus.StandAloneServer on a unix socket), "+
		"both miss the first pool lookup and dial; the second one to take the write lock finds the client pooled by the first and leaves through s.pollMutex.RUnlock(): "+
		"the process dies with: "+c19Tail(po.stderr, 160))

	n := 19
	if tier == "thorough" {
		n = 199
	}
	var scs []c19Scenario
	scs = append(scs, probe)
	for len(scs) < n+1 {
		k := 2 + rng.Intn(7)
		if rng.Chance(0.3) {
			k = 2 + rng.Intn(15)
		}
		ne := 1 + rng.Intn(3)
		sc := c19Scenario{NEnd: ne, Eps: make([]int, k), Hook: make([]bool, k)}
		for g := range sc.Eps {
			sc.Eps[g] = rng.Intn(ne)
			sc.Hook[g] = rng.Bool()
		}
		switch rng.Intn(4) {
		case 0: // warm up one endpoint with one or two sequential requests
			sc.Warm = []int{0}
			if rng.Bool() && k > 2 {
				sc.Warm = []int{0, 1}
			}
		case 1: // every goroutine behind its own endpoint where possible
			if k <= ne {
				for g := range sc.Eps {
					sc.Eps[g] = g
				}
			}
		}
		scs = append(scs, sc)
	}
	cf := hx.NewCases(outdir, "C19", "From QV Require Import Session SessionLife C19Run.", "mismatches cfg_obs cases lcases", res, "cases", "scase", "lcases", "lcase")
	cf.Extra = append(cf.Extra, fmt.Sprintf("Definition cfg_obs : cfg := {| runlock_after_lock := %s |}.", hx.Bool(defect)))
	obs := make([]c19Obs, len(scs))
	obs[0] = po
	var wg sync.WaitGroup
	sem := make(chan struct{}, 4)
	for i := 1; i < len(scs); i++ {
		wg.Add(1)
		go func(i int) {
			defer wg.Done()
			sem <- struct{}{}
			defer func() { <-sem }()
			obs[i] = c19RunChild(scs[i], outdir, i)
		}(i)
	}
	wg.Wait()
	for i, sc := range scs {
		o := obs[i]
		desc := sc.String()
		res.Count(desc, sc.twoMiss())
		res.Dist(fmt.Sprintf("goroutines:%d", len(sc.Eps)))
		res.Dist(fmt.Sprintf("endpoints:%d", sc.NEnd))
		res.Dist("outcome:" + o.class)
		if len(sc.Warm) > 0 {
			res.Dist("with-warm-up")
		}
		res.Sample(fmt.Sprintf("%s => %s accepted=%v open=%v ids=%v", desc, o.class, o.res.Accepted, o.res.Open, o.res.IDs))
		known := defect && sc.twoMiss()
		fail := func(kind, detail string) {
			if known {
				res.FailKnown(kind, detail, "runlock_after_lock")
			} else {
				res.Fail(kind, detail)
			}
		}
		// ---- property oracles ----
		switch o.class {
		case "fatal", "crash":
			fail("process-crashed", fmt.Sprintf("%s: the process died: %s", desc, c19Tail(o.stderr, 300)))
		case "hang":
			fail("request-never-returned", fmt.Sprintf("%s: some request had not returned after 8 s (held %d of %d expected connections)", desc, o.res.Held, o.res.Expected))
		case "error":
			res.Notes = append(res.Notes, "scenario could not be set up: "+desc+": "+c19Tail(o.stderr, 200))
			continue
		case "ok":
			for g := range sc.Eps {
				if o.res.Errs[g] != "" || !o.res.Works[g] {
					detail := fmt.Sprintf("%s: goroutine %d got no working proxy: %s", desc, g, o.res.Errs[g])
					if strings.Contains(o.res.Errs[g], net.ErrConsumerBlocked.Error()) {
						// the server answered the call with its own overflow error: the 10-message queue of the
						// handler that serves the (shared) connection was full
						res.FailKnown("request-failed", detail, "consumer_queue_overflow")
						res.Dist("request refused by the server's full handler queue")
					} else {
						fail("request-failed", detail)
					}
				}
			}
			for e := 0; e < sc.NEnd; e++ {
				if o.res.Open[e] > 1 {
					fail("connections-per-endpoint", fmt.Sprintf("%s: %d connections to endpoint %d are still open after every request returned (accepted %d)", desc, o.res.Open[e], e, o.res.Accepted[e]))
				}
			}
			for g := range sc.Eps {
				for h := range sc.Eps {
					if g < h && sc.Eps[g] == sc.Eps[h] && o.res.IDs[g] >= 0 && o.res.IDs[h] >= 0 && o.res.IDs[g] != o.res.IDs[h] {
						fail("clients-not-shared", fmt.Sprintf("%s: goroutines %d and %d asked for services behind endpoint %d and got different clients", desc, g, h, sc.Eps[g]))
					}
				}
			}
			if !o.res.PoolOK {
				fail("pool-lock", desc+": the pool's lock could not be taken for reading after every request returned")
			} else if !o.res.PoolSame {
				fail("client-not-pooled", desc+": a returned client is not the one the pool holds for its endpoint")
			}
			if o.res.Held < o.res.Expected {
				res.Notes = append(res.Notes, fmt.Sprintf("schedule not forced (%d of %d connections held at release): %s", o.res.Held, o.res.Expected, desc))
				res.Dist("schedule-not-forced")
				continue
			}
		}
		cf.Add("cases", c19Term(sc, o), desc)
	}
	// second part: lives of the pool (c19life.go)
	runC19Lives(res, rng, tier, outdir, defect, cf)
	// fourth part: large messages on the shared connection, references shared by goroutines (c19share.go)
	runC19Share(res, rng, tier, outdir)
	cf.Flush()
}
