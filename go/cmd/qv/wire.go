package main

import (
	"bytes"
	"fmt"
	"io"
	"reflect"

	"github.com/lugu/qiloop/meta/signature"
	"github.com/lugu/qiloop/type/encoding"
	"qv/internal/hx"
	"qv/internal/wg"
)

// shared by C02, C03, C07, C08: thin wrappers around the implementation's codecs that turn
// every outcome into (class, data, bytes left) and never let a panic escape.

// readerKind selects the io.Reader the decoders are given: 0 = *bytes.Reader, 1 = *bytes.Buffer
// (what the bus passes: bytes.NewBuffer(payload)), 2 = a reader that returns one byte per Read,
// 3 = a reader that returns its last bytes together with io.EOF.
var readerKind = 0

type lenReader interface {
	io.Reader
	Len() int
}

type oneByteReader struct{ r *bytes.Reader }

func (o oneByteReader) Read(p []byte) (int, error) {
	if len(p) == 0 {
		return 0, nil
	}
	return o.r.Read(p[:1])
}
func (o oneByteReader) Len() int { return o.r.Len() }

// dataErrReader returns the last bytes together with io.EOF (as testing/iotest.DataErrReader)
type dataErrReader struct{ r *bytes.Reader }

func (d dataErrReader) Read(p []byte) (int, error) {
	n, err := d.r.Read(p)
	if err == nil && d.r.Len() == 0 {
		err = io.EOF
	}
	return n, err
}
func (d dataErrReader) Len() int { return d.r.Len() }

func mkReader(input []byte) lenReader {
	switch readerKind {
	case 3:
		return dataErrReader{bytes.NewReader(input)}
	case 1:
		return bytes.NewBuffer(append([]byte(nil), input...))
	case 2:
		return oneByteReader{bytes.NewReader(input)}
	}
	return bytes.NewReader(input)
}

const (
	ocOK = iota
	ocErr
	ocPanic
)

type readerOut struct {
	class int
	data  []byte
	left  int
}

// A reader's result must stay what it was when a later Read happens (a reader that hands out a
// slice of a buffer it reuses corrupts values its caller still holds): the previous result and a
// copy of it are kept, and compared after every call.
var (
	prevReaderData, prevReaderCopy []byte
	prevReaderDesc                 string
	readerAliasReports             []string
)

func noteReaderResult(desc string, data []byte) {
	if prevReaderData != nil && !bytes.Equal(prevReaderData, prevReaderCopy) && len(readerAliasReports) < 5 {
		readerAliasReports = append(readerAliasReports,
			fmt.Sprintf("the bytes returned by %s were %x and read %x after the next Read (%s)", prevReaderDesc, prevReaderCopy, prevReaderData, desc))
	}
	prevReaderData, prevReaderCopy, prevReaderDesc = data, append([]byte(nil), data...), desc
}

// sigRead: signature.Parse(sig).Reader().Read over a bytes.Reader
func sigRead(sig string, input []byte) (o readerOut) {
	defer func() {
		if o.class == ocOK && len(o.data) > 0 {
			noteReaderResult("Parse("+sig+").Reader().Read", o.data)
		}
	}()
	defer func() {
		if e := recover(); e != nil {
			o = readerOut{class: ocPanic}
		}
	}()
	typ, err := signature.Parse(sig)
	if err != nil {
		return readerOut{class: ocErr, left: len(input)}
	}
	r := mkReader(input)
	data, err := typ.Reader().Read(r)
	if err != nil {
		return readerOut{class: ocErr, left: r.Len()}
	}
	return readerOut{class: ocOK, data: data, left: r.Len()}
}

func goType(sig string) (rt reflect.Type, ok bool) {
	defer func() {
		if recover() != nil {
			ok = false
		}
	}()
	typ, err := signature.Parse(sig)
	if err != nil {
		return nil, false
	}
	return typ.Type(), true
}

// reflEnc: reflection encoder on a Go value of signature.Type() filled with v
func reflEnc(rt reflect.Type, v *wg.Val) (out []byte, class int) {
	defer func() {
		if recover() != nil {
			class = ocPanic
		}
	}()
	p := reflect.New(rt)
	p.Elem().Set(wg.Fill(rt, v))
	var buf bytes.Buffer
	if err := encoding.NewEncoder(encoding.DefaultCap(), &buf).Encode(p.Interface()); err != nil {
		return nil, ocErr
	}
	return buf.Bytes(), ocOK
}

type decOut struct {
	class int
	val   *wg.Val
	left  int
}

// reflDec: reflection decoder into a fresh value of signature.Type()
func reflDec(rt reflect.Type, t *wg.Ty, input []byte) (o decOut) {
	defer func() {
		if recover() != nil {
			o = decOut{class: ocPanic}
		}
	}()
	p := reflect.New(rt)
	r := mkReader(input)
	if err := encoding.NewDecoder(encoding.DefaultCap(), r).Decode(p.Interface()); err != nil {
		return decOut{class: ocErr, left: r.Len()}
	}
	if t == nil {
		return decOut{class: ocOK, left: r.Len()}
	}
	return decOut{class: ocOK, val: wg.Read(p.Elem(), t), left: r.Len()}
}

// wireSwitches probes the five wire-format defect switches on the real code with the
// witnesses of the Cxx_refuted theorems and returns the Gallina record.
func wireSwitches(res0 *hx.Result, relevant ...string) (cfg string, sw map[string]bool) {
	sw = map[string]bool{}
	// only the switches that belong to the calling property are reported as its findings
	res := hx.NewResult("probe", 0, "")
	defer func() {
		for _, k := range relevant {
			if on, ok := res.Switches[k]; ok {
				res0.Switch(k, on, res.SwitchDetail[k])
			}
		}
	}()
	// valueReader: "m" carrying int32 5
	dyn := &wg.Val{K: wg.VDyn, T: wg.Scalar("i"), V: &wg.Val{K: wg.VNum, W: 4, Bits: 5}}
	o := sigRead("m", dyn.Enc())
	sw["value_reader_no_len"] = o.class == ocOK && !bytes.Equal(o.data, dyn.Enc())
	res.Switch("value_reader_no_len", sw["value_reader_no_len"],
		fmt.Sprintf("signature.Parse(\"m\").Reader().Read(%x) returned %x (class %d): not the bytes it consumed", dyn.Enc(), o.data, o.class))
	// stringReader: truncated string accepted
	trunc := []byte{5, 0, 0, 0, 'a'}
	o = sigRead("s", trunc)
	sw["string_reader_drops_err"] = o.class == ocOK
	res.Switch("string_reader_drops_err", sw["string_reader_drops_err"],
		fmt.Sprintf("signature.Parse(\"s\").Reader().Read(%x) (a string cut after 1 of 5 bytes) returned %x without error", trunc, o.data))
	// 8-bit fields
	t8 := wg.Tuple(wg.Scalar("c"), wg.Scalar("i"))
	v8 := &wg.Val{K: wg.VTup, L: []*wg.Val{{K: wg.VNum, W: 1, Bits: 0x7f}, {K: wg.VNum, W: 4, Bits: 1}}}
	if rt, ok := goType(t8.Sig()); ok {
		enc, _ := reflEnc(rt, v8)
		sw["refl_drop8"] = !bytes.Equal(enc, v8.Enc())
		res.Switch("refl_drop8", sw["refl_drop8"], fmt.Sprintf("reflection encoder on struct{int8=0x7f; int32=1} wrote %x, documented %x", enc, v8.Enc()))
		// struct field errors
		d := reflDec(rt2("(ii)"), wg.Tuple(wg.Scalar("i"), wg.Scalar("i")), []byte{1, 0, 0, 0})
		sw["refl_struct_ignores_err"] = d.class == ocOK
		res.Switch("refl_struct_ignores_err", sw["refl_struct_ignores_err"], "reflection decoder accepted 4 bytes as a struct of two int32 (second field silently zero)")
		d = reflDec(rt2("[i]"), wg.List(wg.Scalar("i")), []byte{0xff, 0xff, 0xff, 0xff})
		sw["refl_neg_len_panics"] = d.class == ocPanic
		res.Switch("refl_neg_len_panics", sw["refl_neg_len_panics"], "reflection decoder panics (reflect: slice length out of range in SetLen) on a list whose count is ffffffff")
	}
	cfg = fmt.Sprintf("Definition cfg : wcfg := {| value_reader_no_len := %v; string_reader_drops_err := %v; refl_drop8 := %v; refl_struct_ignores_err := %v; refl_neg_len_panics := %v |}.",
		sw["value_reader_no_len"], sw["string_reader_drops_err"], sw["refl_drop8"], sw["refl_struct_ignores_err"], sw["refl_neg_len_panics"])
	return cfg, sw
}

func rt2(sig string) reflect.Type {
	rt, _ := goType(sig)
	return rt
}

func parses(sig string) (ok bool) {
	defer func() {
		if recover() != nil {
			ok = false
		}
	}()
	_, err := signature.Parse(sig)
	return err == nil
}
