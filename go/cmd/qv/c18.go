package main

// C18 — MetaObject -> IDL -> MetaObject is the identity; the IDL parser is total.
// GenerateIDL runs in this process; ParseIDL runs in a child process (a self-referential struct
// makes InterfaceType.MetaObject recurse without bound: stack overflow, which cannot be recovered).

import (
	"bufio"
	"bytes"
	"encoding/hex"
	"encoding/json"
	"fmt"
	"os"
	"os/exec"
	"runtime/debug"
	"sort"
	"strconv"
	"strings"
	"time"

	"github.com/lugu/qiloop/meta/idl"
	"github.com/lugu/qiloop/type/object"
	"qv/internal/hx"
)

func init() {
	props["C18"] = runC18
	if len(os.Args) >= 3 && os.Args[1] == "c18child" {
		c18child(os.Args[2], os.Args[3])
		os.Exit(0)
	}
}

// ---------- observations ----------

type oMethod struct {
	Uid    uint32
	Name   string
	Params string
	Ret    string
	PNames []string
}
type oSignal struct {
	Uid  uint32
	Name string
	Sig  string
}
type oObject struct {
	Name    string
	Methods []oMethod
	Signals []oSignal
	Props   []oSignal
}
type parseObs struct {
	Res   int // 0 error, 1 objects, 2 process died, 3 panic recovered, 4 no answer in time
	Objs  []oObject
	Error string
}

func obsOfMeta(m object.MetaObject) oObject {
	o := oObject{Name: m.Description}
	for _, x := range m.Methods {
		om := oMethod{Uid: x.Uid, Name: x.Name, Params: x.ParametersSignature, Ret: x.ReturnSignature, PNames: []string{}}
		for _, p := range x.Parameters {
			om.PNames = append(om.PNames, p.Name)
		}
		o.Methods = append(o.Methods, om)
	}
	for _, x := range m.Signals {
		o.Signals = append(o.Signals, oSignal{x.Uid, x.Name, x.Signature})
	}
	for _, x := range m.Properties {
		o.Props = append(o.Props, oSignal{x.Uid, x.Name, x.Signature})
	}
	sort.Slice(o.Methods, func(i, j int) bool { return o.Methods[i].Uid < o.Methods[j].Uid })
	sort.Slice(o.Signals, func(i, j int) bool { return o.Signals[i].Uid < o.Signals[j].Uid })
	sort.Slice(o.Props, func(i, j int) bool { return o.Props[i].Uid < o.Props[j].Uid })
	return o
}

// ---------- child: ParseIDL on each line of a file ----------

func c18child(path, startArg string) {
	debug.SetMaxStack(48 << 20)
	start, _ := strconv.Atoi(startArg)
	data, err := os.ReadFile(path)
	if err != nil {
		os.Exit(3)
	}
	lines := strings.Split(strings.TrimRight(string(data), "\n"), "\n")
	w := bufio.NewWriter(os.Stdout)
	for i := start; i < len(lines); i++ {
		text, _ := hex.DecodeString(lines[i])
		fmt.Fprintf(w, "BEGIN %d\n", i)
		w.Flush()
		var o parseObs
		func() {
			defer func() {
				if e := recover(); e != nil {
					o = parseObs{Res: 3, Error: fmt.Sprint(e)}
				}
			}()
			metas, err := idl.ParseIDL(bytes.NewReader(text))
			if err != nil {
				o = parseObs{Res: 0, Error: err.Error()}
				return
			}
			o.Res = 1
			o.Objs = []oObject{}
			for _, m := range metas {
				o.Objs = append(o.Objs, obsOfMeta(m))
			}
		}()
		b, _ := json.Marshal(o)
		fmt.Fprintf(w, "RESULT %d %s\n", i, b)
		w.Flush()
	}
}

// parseAll runs ParseIDL on every text in child processes; a child that dies marks the text it
// was working on as crashed and a new child continues with the next one.
func parseAll(outdir string, texts []string) []parseObs {
	res := make([]parseObs, len(texts))
	for i := range res {
		res[i].Res = -1
	}
	path := outdir + "/c18_inputs.txt"
	var b strings.Builder
	for _, t := range texts {
		b.WriteString(hex.EncodeToString([]byte(t)))
		b.WriteByte('\n')
	}
	if err := os.WriteFile(path, []byte(b.String()), 0o644); err != nil {
		panic(err)
	}
	start := 0
	for start < len(texts) {
		cmd := exec.Command(os.Args[0], "c18child", path, strconv.Itoa(start))
		cmd.Env = append(os.Environ(), "GOTRACEBACK=none")
		stdout, err := cmd.StdoutPipe()
		if err != nil {
			panic(err)
		}
		var stderr bytes.Buffer
		cmd.Stderr = &stderr
		if err := cmd.Start(); err != nil {
			panic(err)
		}
		lines := make(chan string, 64)
		go func() {
			sc := bufio.NewScanner(stdout)
			sc.Buffer(make([]byte, 1<<20), 64<<20)
			for sc.Scan() {
				lines <- sc.Text()
			}
			close(lines)
		}()
		current := -1
		done := false
		for !done {
			select {
			case l, ok := <-lines:
				if !ok {
					done = true
					break
				}
				if strings.HasPrefix(l, "BEGIN ") {
					current, _ = strconv.Atoi(l[6:])
				} else if strings.HasPrefix(l, "RESULT ") {
					rest := l[7:]
					sp := strings.IndexByte(rest, ' ')
					i, _ := strconv.Atoi(rest[:sp])
					var o parseObs
					if err := json.Unmarshal([]byte(rest[sp+1:]), &o); err == nil {
						res[i] = o
					}
					current = -1
					start = i + 1
				}
			case <-time.After(20 * time.Second):
				// no progress: the parser hangs on `current`
				cmd.Process.Kill()
				if current >= 0 {
					res[current] = parseObs{Res: 4}
					start = current + 1
				} else {
					start++
				}
				current = -1
				done = true
			}
		}
		cmd.Wait()
		if current >= 0 { // died while working on current
			msg := stderr.String()
			if len(msg) > 300 {
				msg = msg[:300]
			}
			res[current] = parseObs{Res: 2, Error: msg}
			start = current + 1
		}
	}
	return res
}

// ---------- Gallina terms ----------

func idlStr(s string) string {
	plain := true
	for i := 0; i < len(s); i++ {
		if (s[i] < 32 && s[i] != '\n' && s[i] != '\t') || s[i] > 126 {
			plain = false
		}
	}
	if plain {
		return "\"" + strings.ReplaceAll(s, "\"", "\"\"") + "\""
	}
	return "(hx \"" + hex.EncodeToString([]byte(s)) + "\")"
}

func objTerm(o oObject, withNames bool) string {
	var ms, ss, ps []string
	for _, m := range o.Methods {
		names := "None"
		if m.PNames != nil {
			it := make([]string, len(m.PNames))
			for i, n := range m.PNames {
				it[i] = idlStr(n)
			}
			names = "(Some " + hx.List(it) + ")"
		}
		ms = append(ms, fmt.Sprintf("M %d%%N %s %s %s %s", m.Uid, idlStr(m.Name), idlStr(m.Params), idlStr(m.Ret), names))
	}
	for _, s := range o.Signals {
		ss = append(ss, fmt.Sprintf("S_ %d%%N %s %s", s.Uid, idlStr(s.Name), idlStr(s.Sig)))
	}
	for _, s := range o.Props {
		ps = append(ps, fmt.Sprintf("S_ %d%%N %s %s", s.Uid, idlStr(s.Name), idlStr(s.Sig)))
	}
	return fmt.Sprintf("MO %s %s %s %s", idlStr(o.Name), hx.List(ms), hx.List(ss), hx.List(ps))
}

func objsTerm(os []oObject) string {
	it := make([]string, len(os))
	for i, o := range os {
		it[i] = objTerm(o, true)
	}
	return hx.List(it)
}

// ---------- generators ----------

func safeStructName(n string) bool {
	for _, k := range idlBasicNames {
		if strings.HasPrefix(n, k) {
			return false
		}
	}
	for _, k := range []string{"Vec<", "Tuple<"} {
		if strings.HasPrefix(n, k) {
			return false
		}
	}
	return true
}

type structPool struct {
	defs  []*gty
	names map[string]bool
}

// ---------- identifier vocabulary ----------
// Names are drawn not only from random identifiers but also from the words that are special
// somewhere between GenerateIDL and ParseIDL: the words that structure an IDL file, the names of
// the basic IDL types and containers, the names the generator itself invents (P0, param, uid),
// the words signature.CleanVarName renames (Go keywords, error, string), Go predeclared names,
// and variations of all of these (other case, a character more or less, an underscore in front).
// The property quantifies over identifiers: none of these words is an exception.
var idlKeywords = []string{"package", "interface", "struct", "enum", "fn", "sig", "prop", "end"}
var idlBasicNames = []string{"int8", "uint8", "int16", "uint16", "int32", "uint32", "int64", "uint64", "float32", "float64",
	"bool", "str", "obj", "any", "unknown", "nothing"}
var idlOtherWords = []string{"Vec", "Map", "Tuple", "uid", "param", "P0", "P1", "registerEvent", "o", "v", "I", "T"}
var goWords = []string{"break", "default", "func", "select", "case", "defer", "go", "map", "chan", "else", "goto", "switch", "const",
	"fallthrough", "if", "range", "type", "continue", "for", "import", "return", "var", "error", "string",
	"nil", "true", "false", "int", "len", "make", "iota", "byte", "float", "double", "void", "list", "value", "object"}
var c18Vocab = func() []string {
	var v []string
	v = append(v, idlKeywords...)
	v = append(v, idlKeywords...) // the words of the IDL itself twice as often
	v = append(v, idlBasicNames...)
	v = append(v, idlOtherWords...)
	v = append(v, goWords...)
	v = append(v, idlNearWords...)
	return v
}()

// words that merely begin or end like a keyword or a basic type name
var idlNearWords = []string{"endpoint", "ending", "backend", "signal", "property", "properties", "structure", "enumeration", "fnord", "defn",
	"packages", "interfaces", "strange", "boolean", "anything", "objects", "integer", "substr", "Vector", "Mapping", "Tuples", "uid0", "param1", "P"}

// c18Words: every vocabulary word once, the IDL's own words also in other case (the deterministic sweep)
var c18Words = func() []string {
	var v []string
	v = append(v, idlKeywords...)
	v = append(v, idlBasicNames...)
	v = append(v, idlOtherWords...)
	v = append(v, goWords...)
	v = append(v, idlNearWords...)
	for _, w := range idlKeywords {
		v = append(v, strings.ToUpper(w[:1])+w[1:], strings.ToUpper(w))
	}
	for _, w := range []string{"int32", "str", "any", "obj", "bool", "nothing", "vec", "map", "tuple"} {
		v = append(v, strings.ToUpper(w[:1])+w[1:], strings.ToUpper(w))
	}
	seen := map[string]bool{}
	var u []string
	for _, w := range v {
		if !seen[w] {
			seen[w] = true
			u = append(u, w)
		}
	}
	return u
}()

type nameRole int

const (
	rolePkg    nameRole = iota // package name
	roleItf                    // interface name
	roleAction                 // method / signal / property name
	roleParam                  // parameter name
	roleStruct                 // struct name (the part before <)
	roleMember                 // struct member name, template argument
)

// underscoreFirst: names of these roles are matched by `[_A-Za-z][0-9a-zA-Z_]*` only; struct and
// member names also pass the signature grammar, which wants a letter first
func (r nameRole) underscoreFirst() bool { return r != roleStruct && r != roleMember }

func isBasicIdlName(n string) bool {
	for _, k := range idlBasicNames {
		if n == k {
			return true
		}
	}
	return false
}

// genIdlName draws an identifier for the given role: a vocabulary word, a variation of one, an
// identifier of a particular shape (upper-case first letter, digits, underscores), or genIdent
func genIdlName(rng *hx.Rng, role nameRole) string {
	r := rng.Intn(100)
	switch {
	case r < 20:
		return c18Vocab[rng.Intn(len(c18Vocab))]
	case r < 30:
		w := c18Vocab[rng.Intn(len(c18Vocab))]
		switch rng.Intn(8) {
		case 0:
			return strings.ToUpper(w[:1]) + w[1:]
		case 1:
			return strings.ToUpper(w)
		case 2:
			return w + strconv.Itoa(rng.Intn(10))
		case 3:
			return w + "_"
		case 4:
			return w + string(alpha[rng.Intn(len(alpha))])
		case 5:
			if len(w) > 1 {
				return w[:len(w)-1]
			}
			return w
		case 6:
			if role.underscoreFirst() {
				return "_" + w
			}
			return w + "_" + w
		default:
			return w + c18Vocab[rng.Intn(len(c18Vocab))]
		}
	case r < 38:
		switch rng.Intn(6) {
		case 0:
			return string(alpha[26+rng.Intn(26)]) + genIdent(rng)
		case 1:
			return genIdent(rng) + strconv.Itoa(rng.Intn(1000))
		case 2:
			return genIdent(rng) + "_" + genIdent(rng)
		case 3:
			if role.underscoreFirst() {
				return "_" + strings.Repeat("_", rng.Intn(3)) + strconv.Itoa(rng.Intn(100))
			}
			return string(alpha[rng.Intn(len(alpha))]) + "__" + strconv.Itoa(rng.Intn(100))
		case 4:
			if role.underscoreFirst() {
				return strings.Repeat("_", 1+rng.Intn(3))
			}
			return string(alpha[26+rng.Intn(26)])
		default:
			return string(alpha[26+rng.Intn(26)]) + strconv.Itoa(rng.Intn(10)) + "_"
		}
	}
	return genIdent(rng)
}

// genIdlType draws a type for the IDL round trip: no void, no empty tuple, structs only from the pool
func genIdlType(rng *hx.Rng, depth int, pool *structPool, key bool) *gty {
	k := rng.Intn(10)
	if depth <= 1 || k < 3 {
		if len(pool.defs) > 0 && rng.Chance(0.35) {
			s := pool.defs[rng.Intn(len(pool.defs))]
			if !key || s.comparable() {
				return s
			}
		}
		for {
			l := scalarLetters[rng.Intn(len(scalarLetters))]
			if l == 'v' || (key && l == 'o') {
				continue
			}
			return &gty{kind: 's', letter: l}
		}
	}
	switch {
	case k < 5 && !key:
		return &gty{kind: 'L', elems: []*gty{genIdlType(rng, depth-1, pool, false)}}
	case k < 7 && !key:
		return &gty{kind: 'M', elems: []*gty{genIdlType(rng, depth-1, pool, true), genIdlType(rng, depth-1, pool, false)}}
	}
	n := 1 + rng.Intn(3)
	t := &gty{kind: 'T'}
	for i := 0; i < n; i++ {
		t.elems = append(t.elems, genIdlType(rng, depth-1, pool, key))
	}
	return t
}

// plain: names are random identifiers only (the families built for one defect switch differ from
// the safe ones in that one respect)
func genPool(rng *hx.Rng, n int, reserved map[string]bool, plain bool) *structPool {
	draw := func(role nameRole) string {
		if plain {
			return genIdent(rng)
		}
		return genIdlName(rng, role)
	}
	p := &structPool{names: map[string]bool{}}
	for len(p.defs) < n {
		name := draw(roleStruct)
		if rng.Chance(0.2) {
			name += "<" + draw(roleMember) + ">"
		}
		if !safeStructName(name) || p.names[name] || reserved[name] {
			continue
		}
		s := &gty{kind: 'S', name: name}
		m := rng.Intn(4)
		if rng.Chance(0.12) {
			m = 5 + rng.Intn(12)
		}
		seen := map[string]bool{}
		for len(s.fields) < m {
			f := draw(roleMember)
			if seen[f] {
				continue
			}
			seen[f] = true
			s.fields = append(s.fields, f)
			s.elems = append(s.elems, genIdlType(rng, 1+rng.Intn(3), p, false))
		}
		p.names[name] = true
		p.defs = append(p.defs, s)
	}
	return p
}

// genPkgName: a package name is `[_A-Za-z][0-9a-zA-Z-._]*`
func genPkgName(rng *hx.Rng) string {
	n := genIdlName(rng, rolePkg)
	for rng.Chance(0.15) {
		n += string(".-_"[rng.Intn(3)]) + genIdlName(rng, roleMember)
	}
	return n
}

func tupleOf(ts ...*gty) *gty { return &gty{kind: 'T', elems: ts} }

type genOpts struct {
	uidZero, nonTuple bool
	usedAct           map[string]bool // action names taken in the package; nil: plain names (genIdent), each with the marker
}

func genObject(rng *hx.Rng, name string, pool *structPool, marker string, o genOpts) oObject {
	obj := oObject{Name: name}
	used := map[uint32]bool{}
	uid := func() uint32 {
		for {
			u := uint32(1 + rng.Intn(300))
			if rng.Chance(0.1) {
				u = rng.U32Boundary()
			}
			if u == 0 && !o.uidZero {
				continue
			}
			if !used[u] {
				used[u] = true
				return u
			}
		}
	}
	// an action name is a drawn name as it is when no other action of the package has it (the order
	// in which GenerateIDL wrote the interfaces is read back from the first action of each);
	// otherwise the name is made unique by the marker
	draw := func(role nameRole) string {
		if o.usedAct == nil { // a family built for one defect switch: plain names
			return genIdent(rng)
		}
		return genIdlName(rng, role)
	}
	actName := func(i int) string {
		n := draw(roleAction)
		if o.usedAct != nil && !o.usedAct[n] && rng.Chance(0.6) {
			o.usedAct[n] = true
			return n
		}
		n = fmt.Sprintf("%s%s%d", n, marker, i)
		if o.usedAct != nil {
			o.usedAct[n] = true
		}
		return n
	}
	nm, ns, np := rng.Intn(4), rng.Intn(3), rng.Intn(3)
	if nm+ns+np == 0 {
		nm = 1
	}
	for i := 0; i < nm; i++ {
		var ps []*gty
		for j := rng.Intn(4); j > 0; j-- {
			ps = append(ps, genIdlType(rng, 1+rng.Intn(3), pool, false))
		}
		ret := "v"
		if rng.Chance(0.7) {
			ret = genIdlType(rng, 1+rng.Intn(3), pool, false).print()
		}
		m := oMethod{Uid: uid(), Name: actName(i), Params: tupleOf(ps...).print(), Ret: ret}
		// MetaMethod.Parameters (the descriptions of the parameters) is independent of the parameter
		// tuple: absent (nil), empty, shorter than the tuple, complete, or longer than it
		nd := len(ps)
		k := rng.Intn(9)
		if o.usedAct == nil && k >= 2 { // a family built for one defect switch: no description or a complete one
			k = 8
		}
		switch k {
		case 0, 1:
			nd = -1
		case 2:
			nd = 0
		case 3:
			if len(ps) >= 2 {
				nd = 1 + rng.Intn(len(ps)-1)
			}
		case 4:
			nd = len(ps) + 1 + rng.Intn(2)
		}
		if nd >= 0 {
			m.PNames = []string{}
			seen := map[string]bool{}
			for len(m.PNames) < nd {
				if rng.Chance(0.06) { // a description without a name: CleanVarName writes P<i>
					m.PNames = append(m.PNames, "")
					continue
				}
				n := draw(roleParam)
				for seen[n] {
					n = draw(roleParam)
				}
				seen[n] = true
				m.PNames = append(m.PNames, n)
			}
		}
		obj.Methods = append(obj.Methods, m)
	}
	used = map[uint32]bool{}
	mk := func(i int, off int) oSignal {
		var ps []*gty
		for j := rng.Intn(3); j > 0; j-- {
			ps = append(ps, genIdlType(rng, 1+rng.Intn(3), pool, false))
		}
		sig := tupleOf(ps...).print()
		if o.nonTuple && len(ps) == 1 {
			sig = ps[0].print()
		}
		return oSignal{Uid: uid(), Name: actName(off + i), Sig: sig}
	}
	for i := 0; i < ns; i++ {
		obj.Signals = append(obj.Signals, mk(i, 10))
	}
	used = map[uint32]bool{}
	for i := 0; i < np; i++ {
		obj.Props = append(obj.Props, mk(i, 20))
	}
	sort.Slice(obj.Methods, func(i, j int) bool { return obj.Methods[i].Uid < obj.Methods[j].Uid })
	sort.Slice(obj.Signals, func(i, j int) bool { return obj.Signals[i].Uid < obj.Signals[j].Uid })
	sort.Slice(obj.Props, func(i, j int) bool { return obj.Props[i].Uid < obj.Props[j].Uid })
	return obj
}

func metaOf(o oObject) object.MetaObject {
	m := object.MetaObject{Description: o.Name, Methods: map[uint32]object.MetaMethod{},
		Signals: map[uint32]object.MetaSignal{}, Properties: map[uint32]object.MetaProperty{}}
	for _, x := range o.Methods {
		mm := object.MetaMethod{Uid: x.Uid, Name: x.Name, ParametersSignature: x.Params, ReturnSignature: x.Ret}
		if x.PNames != nil {
			mm.Parameters = []object.MetaMethodParameter{}
			for _, n := range x.PNames {
				mm.Parameters = append(mm.Parameters, object.MetaMethodParameter{Name: n})
			}
		}
		m.Methods[x.Uid] = mm
	}
	for _, x := range o.Signals {
		m.Signals[x.Uid] = object.MetaSignal{Uid: x.Uid, Name: x.Name, Signature: x.Sig}
	}
	for _, x := range o.Props {
		m.Properties[x.Uid] = object.MetaProperty{Uid: x.Uid, Name: x.Name, Signature: x.Sig}
	}
	return m
}

// generate runs GenerateIDL; returns the text, whether it succeeded and the objects in the
// order they were written (recovered from the first action name of each, which is unique)
func generate(pkg string, objs []oObject) (text string, ok bool, ordered []oObject, crash string) {
	m := map[string]object.MetaObject{}
	for _, o := range objs {
		m[o.Name] = metaOf(o)
	}
	var w strings.Builder
	func() {
		defer func() {
			if e := recover(); e != nil {
				crash = fmt.Sprint(e)
			}
		}()
		err := idl.GenerateIDL(&w, pkg, m)
		ok = err == nil
	}()
	text = w.String()
	type pos struct {
		p int
		o oObject
	}
	var ps []pos
	for _, o := range objs {
		first := ""
		switch {
		case len(o.Methods) > 0:
			first = "\tfn " + o.Methods[0].Name + "("
		case len(o.Signals) > 0:
			first = "\tsig " + o.Signals[0].Name + "("
		case len(o.Props) > 0:
			first = "\tprop " + o.Props[0].Name + "("
		}
		p := strings.Index(text, first)
		if first == "" || p < 0 {
			p = len(text) + len(ps)
		}
		ps = append(ps, pos{p, o})
	}
	sort.SliceStable(ps, func(i, j int) bool { return ps[i].p < ps[j].p })
	for _, x := range ps {
		ordered = append(ordered, x.o)
	}
	return
}

// sameActions: the round-trip comparison of the property (ids, names, signatures)
func sameActions(a, b oObject) string {
	if len(a.Methods) != len(b.Methods) || len(a.Signals) != len(b.Signals) || len(a.Props) != len(b.Props) {
		return fmt.Sprintf("%d/%d/%d actions became %d/%d/%d", len(a.Methods), len(a.Signals), len(a.Props), len(b.Methods), len(b.Signals), len(b.Props))
	}
	for i := range a.Methods {
		x, y := a.Methods[i], b.Methods[i]
		if x.Uid != y.Uid || x.Name != y.Name || x.Params != y.Params || x.Ret != y.Ret {
			return fmt.Sprintf("method %d %s %s -> %s came back as %d %s %s -> %s", x.Uid, x.Name, x.Params, x.Ret, y.Uid, y.Name, y.Params, y.Ret)
		}
	}
	for i := range a.Signals {
		x, y := a.Signals[i], b.Signals[i]
		if x != y {
			return fmt.Sprintf("signal %d %s %s came back as %d %s %s", x.Uid, x.Name, x.Sig, y.Uid, y.Name, y.Sig)
		}
	}
	for i := range a.Props {
		x, y := a.Props[i], b.Props[i]
		if x != y {
			return fmt.Sprintf("property %d %s %s came back as %d %s %s", x.Uid, x.Name, x.Sig, y.Uid, y.Name, y.Sig)
		}
	}
	return ""
}

// rtFail: the round-trip comparison of the property for one package (objs as given to GenerateIDL,
// o what ParseIDL made of the generated text); "" = every interface came back with its actions
func rtFail(objs []oObject, o parseObs) string {
	fail := ""
	switch {
	case o.Res == 2:
		fail = "ParseIDL kills the process (stack overflow)"
	case o.Res == 3:
		fail = "ParseIDL panics: " + o.Error
	case o.Res == 4:
		fail = "ParseIDL does not return"
	case o.Res == 0:
		fail = "ParseIDL rejects the generated text: " + o.Error
	default:
		if len(o.Objs) != len(objs) {
			return fmt.Sprintf("%d interfaces came back as %d", len(objs), len(o.Objs))
		}
		for _, want := range objs {
			found := false
			for _, got := range o.Objs {
				if got.Name == want.Name {
					found = true
					if d := sameActions(want, got); d != "" {
						fail = "interface " + want.Name + ": " + d
					}
				}
			}
			if !found {
				fail = "interface " + want.Name + " is missing"
			}
		}
	}
	return fail
}

// c18Pending: a failure of the round-trip oracle, reported after sorting: prio 0 = the detail is a
// self-contained failing input (a package that fails alone, or a sequence run in a fresh process),
// prio 1 = a package that fails only after the history of the harness process, prio 2 = a package
// built to hit a recorded weakness (classified under its switch)
type c18Pending struct {
	kind, det, known string
	prio, idx        int
}

type rtCase struct {
	pkg   string
	objs  []oObject
	known string // non-empty: built to hit this defect switch
	desc  string
	nontr bool
	again bool // a package generated a second time in the harness process
	first int  // ... and the index of its first time
}

var idlVocab = []string{"interface", "struct", "enum", "end", "fn", "sig", "prop", "package", "(", ")", ":", ",", "->", "//", "//uid:", "uid:",
	"=", "<", ">", "Vec<", "Map<", "Tuple<", "int32", "str", "any", "obj", "bool", "float32", "unknown", "nothing", "A", "B", "a", "b", "x1", "_y",
	"0", "7", "42", "-3", "4294967295", "4294967296", "99999999999999999999", "1_0", "\n", "\n", "\t", " ", "  ", "A<B>", "A<>", "end", "\n"}

func runC18(res *hx.Result, rng *hx.Rng, tier string, outdir string) {
	res.Rule = "round trip: packages of 1-3 generated meta-objects (methods/signals/properties with distinct uids; package, interface, action, parameter, " +
		"struct and member names drawn from random identifiers and from the vocabulary of the pipeline: IDL keywords, basic type and container names, " +
		"Go keywords and predeclared names, variations in case / one character more or less / underscores / digits, and every vocabulary word once in every role; " +
		"signatures over scalars, lists, maps, tuples and a pool of named structs shared between actions and nested in containers) through " +
		"GenerateIDL and ParseIDL; parser: the generated texts, mutations of them (character and token level), token soup over the IDL vocabulary, " +
		"hand-written corner texts; parameter descriptions absent / empty / partial / complete / longer than the parameter tuple; sequences of conversions in one fresh process " +
		"(a package with a struct name clash, another recorded weak input or an invalid signature first, then ordinary packages made of the same signature strings; the same package " +
		"repeated; packages sharing structs; objects over a struct pool and over its twin with the same names) where every ordinary step must round-trip; non-trivial = a struct is used by >= 2 actions or nested in a container, or the text is a mutation; " +
		"distinct by sha256 of the canonical case"
	nRT, nText := 260, 750
	if tier == "thorough" {
		nRT, nText = 9000, 45000
	}
	cf := hx.NewCases(outdir, "C18", "From QV Require Import Sig SigParse Idl C18Run.", "mismatches cfg gcases pcases", res,
		"gcases", "gcase", "pcases", "pcase")
	cf.Extra = append(cf.Extra, "Open Scope string_scope.")
	// the case files have a budget: a case above 40 kB, and everything after 4 MB (quick tier), is
	// left to the oracles alone (never reached on the pinned code; a change that makes the texts
	// grow with the history of the process would otherwise write gigabytes)
	caseBytes, caseBudget, casesSkipped := 0, 4<<20, 0
	if tier == "thorough" {
		caseBudget = 200 << 20
	}
	addCase := func(list, term, desc string) {
		if len(term) > 40000 || caseBytes+len(term) > caseBudget {
			casesSkipped++
			return
		}
		caseBytes += len(term)
		cf.Add(list, term, desc)
	}
	// defect probe first (the case files need its verdict): the witness of
	// C18_refuted_self_referential_struct_crash either ends the child process or is refused
	selfRefWitness := "struct A\n a: A\nend\ninterface I\n fn f(x: A)\nend"
	probes := parseAll(outdir, []string{selfRefWitness,
		"interface I\n fn f(a: strange)\nend\nstruct strange\n a: int32\nend",
		"interface I\n fn f(a: Tuple<>, b: nothing)\nend",
		"interface I\n sig s() //uid:0\nend"})
	probe := probes[0]
	guard := probe.Res == 0
	word := probes[1].Res == 1 && len(probes[1].Objs) == 1 && len(probes[1].Objs[0].Methods) == 1 && probes[1].Objs[0].Methods[0].Params == "((i)<strange,a>)"
	void := probes[2].Res == 1 && len(probes[2].Objs) == 1 && len(probes[2].Objs[0].Methods) == 1 && probes[2].Objs[0].Methods[0].Params == "(()v)"
	uid0 := probes[3].Res == 1 && len(probes[3].Objs) == 1 && len(probes[3].Objs[0].Signals) == 1 && probes[3].Objs[0].Signals[0].Uid == 0
	cf.Extra = append(cf.Extra, fmt.Sprintf("Definition cfg := {| c_guard := %s; c_word := %s; c_void := %s; c_uid0 := %s |}.",
		hx.Bool(guard), hx.Bool(word), hx.Bool(void), hx.Bool(uid0)))
	res.Notes = append(res.Notes, fmt.Sprintf("parser repairs observed: guard=%v word-boundary=%v void/empty-tuple=%v uid0=%v", guard, word, void, uid0))

	var cases []rtCase
	// ---- safe round-trip cases ----
	for i := 0; i < nRT; i++ {
		nobj := 1
		if rng.Chance(0.3) {
			nobj = 2 + rng.Intn(2)
		}
		reserved := map[string]bool{}
		var names []string
		for len(names) < nobj {
			n := genIdlName(rng, roleItf)
			if reserved[n] {
				continue
			}
			reserved[n] = true
			names = append(names, n)
		}
		pool := genPool(rng, rng.Intn(5), reserved, false)
		c := rtCase{pkg: genPkgName(rng)}
		usedAct := map[string]bool{}
		for k, n := range names {
			c.objs = append(c.objs, genObject(rng, n, pool, fmt.Sprintf("_k%d_", k), genOpts{usedAct: usedAct}))
		}
		c.desc = fmt.Sprintf("safe objects=%d structs=%d", nobj, len(pool.defs))
		c.nontr = len(pool.defs) > 0
		cases = append(cases, c)
	}
	// ---- one case family per known defect (DESIGN section 8 row 21) ----
	unsafe := func(known, desc string, objs ...oObject) {
		cases = append(cases, rtCase{pkg: "p", objs: objs, known: known, desc: desc, nontr: true})
	}
	obj1 := func(ms []oMethod, ss, ps []oSignal) oObject {
		return oObject{Name: "I", Methods: ms, Signals: ss, Props: ps}
	}
	prefixed := []string{"strange", "int8x", "boolean", "anything", "object", "unknownThing", "float32s", "uint64_t", "string", "nothing_"}
	for i := 0; i < 12; i++ { // a basic type name followed by one or more name characters
		n := idlBasicNames[rng.Intn(len(idlBasicNames))] + string(alnum[rng.Intn(len(alnum))])
		if rng.Bool() {
			n += genIdlName(rng, roleMember)
		}
		prefixed = append(prefixed, n)
	}
	for _, n := range prefixed {
		unsafe("keyword_prefix_struct_name", "struct named "+n, obj1([]oMethod{{Uid: 1, Name: "f", Params: "((i)<" + n + ",a>)", Ret: "v"}}, nil, nil))
	}
	// a struct named exactly as a basic IDL type: "P0: str" is the basic type
	for _, n := range idlBasicNames {
		unsafe("basic_type_struct_name", "struct named "+n, obj1([]oMethod{{Uid: 1, Name: "f", Params: "((i)<" + n + ",a>)", Ret: "v"}}, nil, nil))
	}
	// ---- vocabulary sweep: every word in every role ----
	// A: the word is at once package, interface, method, signal, property, parameter and member name
	// B: the word is a struct name, plain and as template name and argument (where such a struct
	//    name is safe), and the struct is a member of another struct
	for _, w := range c18Words {
		sA := "(i[s])<Stru," + w + ",zz>"
		cases = append(cases, rtCase{pkg: w, desc: "vocabulary " + w + " as package/interface/action/parameter/member name", nontr: true,
			objs: []oObject{{Name: w,
				Methods: []oMethod{{Uid: 5, Name: w, Params: "(" + sA + "i)", Ret: "[" + sA + "]", PNames: []string{w, "q"}}},
				Signals: []oSignal{{Uid: 6, Name: w, Sig: "(" + sA + ")"}},
				Props:   []oSignal{{Uid: 7, Name: w, Sig: "({s" + sA + "})"}}}}})
		if isBasicIdlName(w) || !safeStructName(w) {
			continue
		}
		s1 := "(i)<" + w + ",a>"
		s2 := "(s" + s1 + ")<Outer,b,c>"
		if t := w + "<" + w + ">"; safeStructName(t) {
			s2 = "(s" + s1 + ")<" + t + ",b,c>"
		}
		cases = append(cases, rtCase{pkg: "p", desc: "vocabulary " + w + " as struct name", nontr: true,
			objs: []oObject{{Name: "Itf",
				Methods: []oMethod{{Uid: 1, Name: "f", Params: "(" + s1 + s2 + ")", Ret: "{s" + s2 + "}"}},
				Signals: []oSignal{{Uid: 2, Name: "s", Sig: "([" + s1 + "])"}}}}})
	}
	unsafe("container_prefix_struct_name", "struct named Vec<T>", obj1([]oMethod{{Uid: 1, Name: "f", Params: "((i)<Vec<T>,a>)", Ret: "v"}}, nil, nil))
	unsafe("container_prefix_struct_name", "struct named Tuple<T>", obj1([]oMethod{{Uid: 1, Name: "f", Params: "((i)<Tuple<T>,a>)", Ret: "v"}}, nil, nil))
	unsafe("colliding_struct_names", "two structs named A in two methods",
		obj1([]oMethod{{Uid: 1, Name: "f", Params: "((i)<A,a>)", Ret: "v"}, {Uid: 2, Name: "g", Params: "((s)<A,b>)", Ret: "v"}}, nil, nil))
	unsafe("colliding_struct_names", "two structs named A in one signature",
		obj1([]oMethod{{Uid: 1, Name: "f", Params: "((i)<A,a>(s)<A,b>)", Ret: "v"}}, nil, nil))
	unsafe("colliding_struct_names", "struct named as the interface",
		obj1([]oMethod{{Uid: 1, Name: "f", Params: "((i)<I,a>)", Ret: "v"}}, nil, nil))
	unsafe("non_tuple_signal_property", "signal i", obj1(nil, []oSignal{{Uid: 1, Name: "s", Sig: "i"}}, nil))
	unsafe("non_tuple_signal_property", "property [s]", obj1(nil, nil, []oSignal{{Uid: 1, Name: "p", Sig: "[s]"}}))
	unsafe("non_tuple_signal_property", "signal struct", obj1(nil, []oSignal{{Uid: 1, Name: "s", Sig: "(i)<A,a>"}}, nil))
	unsafe("uid_zero", "method uid 0", obj1([]oMethod{{Uid: 0, Name: "f", Params: "()", Ret: "v"}}, nil, nil))
	unsafe("uid_zero", "signal uid 0", obj1(nil, []oSignal{{Uid: 0, Name: "s", Sig: "(i)"}}, nil))
	unsafe("uid_zero", "property uid 0", obj1(nil, nil, []oSignal{{Uid: 0, Name: "p", Sig: "(i)"}}))
	unsafe("empty_tuple_or_void_in_container", "parameter ()", obj1([]oMethod{{Uid: 1, Name: "f", Params: "(())", Ret: "v"}}, nil, nil))
	unsafe("empty_tuple_or_void_in_container", "return [()]", obj1([]oMethod{{Uid: 1, Name: "f", Params: "()", Ret: "[()]"}}, nil, nil))
	unsafe("empty_tuple_or_void_in_container", "parameter v", obj1([]oMethod{{Uid: 1, Name: "f", Params: "(v)", Ret: "v"}}, nil, nil))
	unsafe("empty_tuple_or_void_in_container", "return {sv}", obj1([]oMethod{{Uid: 1, Name: "f", Params: "()", Ret: "{sv}"}}, nil, nil))
	// registerEvent keeps uid 0 (the documented exception)
	cases = append(cases, rtCase{pkg: "p", objs: []oObject{obj1([]oMethod{{Uid: 0, Name: "registerEvent", Params: "(IIL)", Ret: "L"}}, nil, nil)},
		desc: "registerEvent uid 0", nontr: true})
	// random unsafe mixes
	for i := 0; i < nRT/6; i++ {
		pool := genPool(rng, 1+rng.Intn(3), map[string]bool{"I": true}, true)
		o := genOpts{uidZero: true}
		known := "uid_zero"
		if rng.Bool() {
			o = genOpts{nonTuple: true}
			known = "non_tuple_signal_property"
		}
		cases = append(cases, rtCase{pkg: "p", objs: []oObject{genObject(rng, "I", pool, "_u_", o)}, known: known,
			desc: "generated with uid 0 / non-tuple signatures allowed", nontr: true})
	}

	// ---- parameter descriptions: every tuple width 0..4 with no description (nil) and 0..width+2 descriptions ----
	// (MetaMethod.Parameters is documentation: whatever its length, every parameter of the tuple is written)
	ptys := []string{"f", "s", "(ii)<Pt,x,y>", "[b]", "{sI}"}
	for k := 0; k <= 4; k++ {
		for d := -1; d <= k+2; d++ {
			var names []string
			if d >= 0 {
				names = []string{}
				for j := 0; j < d; j++ {
					names = append(names, []string{"x", "y", "theta", "speed", "mode", "extra", "more"}[j])
				}
			}
			cases = append(cases, rtCase{pkg: "p", desc: fmt.Sprintf("%d parameter descriptions for %d parameters", d, k), nontr: true,
				objs: []oObject{{Name: "Itf", Methods: []oMethod{{Uid: 1, Name: "f", Params: "(" + strings.Join(ptys[:k], "") + ")", Ret: "v", PNames: names}}}}})
		}
	}
	// ---- the first safe packages once more, after everything above went through GenerateIDL in this process ----
	nAgain := 0
	for i := 0; i < nRT && nAgain < 24; i++ {
		if cases[i].nontr {
			c := cases[i]
			c.desc = "again after " + strconv.Itoa(len(cases)) + " other packages: " + c.desc
			c.again, c.first = true, i
			cases = append(cases, c)
			nAgain++
		}
	}

	// ---- run GenerateIDL on every case ----
	var texts []string
	type genOut struct {
		text    string
		ok      bool
		ordered []oObject
	}
	outs := make([]genOut, len(cases))
	for i, c := range cases {
		text, ok, ordered, crash := generate(c.pkg, c.objs)
		if crash != "" {
			res.Fail("generate-crash", fmt.Sprintf("GenerateIDL panics on %s: %s", objsTerm(c.objs), crash))
		}
		outs[i] = genOut{text, ok, ordered}
		if !ok {
			res.Fail("generate-error", fmt.Sprintf("GenerateIDL fails on a meta-object with valid signatures: %s", objsTerm(c.objs)))
		}
		texts = append(texts, text)
		addCase("gcases", fmt.Sprintf("G %s %s %s %s", idlStr(c.pkg), objsTerm(ordered), hx.Bool(ok), idlStr(text)), "generate "+c.desc)
	}

	// ---- parser texts ----
	type ptext struct {
		text, desc string
		nontr      bool
	}
	var ptexts []ptext
	for i, c := range cases {
		ptexts = append(ptexts, ptext{outs[i].text, "generated " + c.desc, c.nontr})
	}
	corners := []string{"", " ", "\n", "package p", "package p\n", "package", "package 1", "package a-b.c_d\ninterface I\nend", "interface I\nend", "interface I end",
		"interface I\nend\nend", "interface\nend", "interface I", "struct A\nend", "struct A\n a: int32\nend", "struct A\n a: int32", "struct A<B>\n a: A<B>\nend",
		"struct A\n a: A\nend\ninterface I\n fn f(x: A)\nend", "struct A\n a: B\nend\nstruct B\n b: A\nend\ninterface I\n sig s(x: B)\nend",
		"struct A\n a: Vec<A>\nend\ninterface I\n fn f() -> A\nend", "struct A\n a: A\nend\ninterface I\nend", "struct A\n a: A\nend",
		"interface I\n fn f()\nend", "interface I\n fn f() //uid:5\nend", "interface I\n fn f() //uid: 5\nend", "interface I\n fn f() //uid:\t5x\nend",
		"interface I\n fn f() //uid:-5\nend", "interface I\n fn f() //uid:+5\nend", "interface I\n fn f() //uid:4294967295\nend", "interface I\n fn f() //uid:4294967296\nend",
		"interface I\n fn f() //uid:99999999999999999999\nend", "interface I\n fn f() //uid:000000000000000000000000000005\nend", "interface I\n fn f() //uid:1_0\nend", "interface I\n fn f() //uid:_\nend",
		"interface I\n fn f() // uid:5\nend", "interface I\n fn f() //uid:0x1F\nend", "interface I\n fn f() //uid:017\nend", "interface I\n fn f() //uid:0b11\nend",
		"interface I\n fn f() //uid:1e3\nend", "interface I\n fn a()\n sig b()\n sig c()\n prop d()\n prop e()\n fn g()\nend", "interface I\n sig a()\n sig b() //uid:100\nend",
		"struct A\n a: int32\nend\nstruct A\n a: str\nend\ninterface I\n fn f(a: A) -> A\nend", "interface I\n fn f(a: A)\nend\nstruct A\n a: int32\nend\nstruct A\n b: str\nend", "interface I\n fn f() //\n fn g()\nend", "interface I\n fn f() //", "interface I\n fn f() //uid:5", "interface I\n fn f() //UID:5\nend",
		"interface I\n fn f() -> int32 //uid:1\n fn f() -> str //uid:1\nend", "interface I\n fn a()\n sig b()\n prop c()\n fn d()\nend", "interface I\n fn registerEvent()\n fn x()\nend",
		"interface I\n fn f(a: int32, b: str) -> Map<str,Vec<int32>>\nend", "interface I\n fn f(a: int32,) \nend", "interface I\n fn f(,)\nend", "interface I\n fn f(a int32)\nend",
		"interface I\n fn f(a: strange)\nend", "interface I\n fn f(a: str ange)\nend", "interface I\n fn f(a: Tuple<>)\nend", "interface I\n fn f(a: Tuple<int32,>)\nend",
		"interface I\n fn f(a: Tuple<int32,str>)\nend", "interface I\n fn f(a: Map<int32>)\nend", "interface I\n fn f(a: Vec<>)\nend", "interface I\n fn f(a: Vec<B>)\nend\nstruct Vec<B>\nend",
		"interface I\n fn f(a: nothing)\nend", "interface I\n fn f() -> nothing\nend", "interface I\n fn f(a: I)\nend", "interface I\n fn f(a: J)\nend\ninterface J\nend",
		"interface I\n fn f(a: E)\nend\nenum E\n a = 1\nend", "enum E\n a = 1\n b = -2\nend", "enum E\n a = 9223372036854775807\nend", "enum E\n a = 9223372036854775808\nend",
		"enum E\n a = -9223372036854775808\nend", "enum E\n a = -9223372036854775809\nend", "enum E\n a = \nend", "enum E\n a = - 1\nend", "enum E\nend", "enum E\n a = 1 // c\nend // d",
		"struct A\nend\nstruct A\n a: int32\nend\ninterface I\n fn f(a: A)\nend", "interface A\nend\nstruct A\n a: int32\nend\ninterface I\n fn f(a: A)\nend",
		"interface I\n fnf()\nend", "interface I\n fn f ( ) \nend", "interfaceI\nend", "interface I\nendx", "interface I\n prop p(param: int32) //uid:7\n sig s(P0: str) //uid:8\nend",
		"interface I // c\n fn f()\nend // d", "// c\ninterface I\nend", "package p // c\ninterface I\nend", "interface I\n fn f() -> //uid:3\nend", "interface I\n fn f() - > int32\nend",
		"interface I\n fn f(a: A<B>, b: A<>, c: A<1>)\nend\nstruct A<B>\n x: int8\nend", "interface _I\n fn _f(_a: _T)\nend\nstruct _T\nend", "interface I\n fn f(a: int32)\r\nend\r\n",
		"interface I\n fn f(\xff: int32)\nend", "interface I\n fn f() //uid:5\xa0\nend", "\xef\xbb\xbfinterface I\nend", "interface I\n fn f(a: int8int8)\nend", "interface I\n fn f(a:int8,b:uint8)\nend"}
	for _, t := range corners {
		ptexts = append(ptexts, ptext{t, "corner", true})
	}
	for len(ptexts) < len(cases)+len(corners)+nText {
		base := texts[rng.Intn(len(texts))]
		if len(base) > 1500 {
			continue
		}
		var t string
		kind := rng.Intn(8)
		switch kind {
		case 6: // drop uid comments (all, or each with probability 1/2)
			all := rng.Bool()
			ls := strings.Split(base, "\n")
			for i, l := range ls {
				if p := strings.Index(l, "//uid:"); p >= 0 && (all || rng.Bool()) {
					ls[i] = l[:p]
				}
			}
			t = strings.Join(ls, "\n")
		case 7: // a struct block declared twice, the copy with one member line changed, before or after
			p := strings.Index(base, "struct ")
			if p < 0 {
				continue
			}
			e := strings.Index(base[p:], "end\n")
			if e < 0 {
				continue
			}
			block := base[p : p+e+4]
			ls := strings.Split(block, "\n")
			if len(ls) > 3 {
				ls[1+rng.Intn(len(ls)-3)] = "\tzz: Vec<str>"
			} else {
				ls = append(ls[:1], append([]string{"\tzz: int8"}, ls[1:]...)...)
			}
			if rng.Bool() {
				t = base + strings.Join(ls, "\n")
			} else {
				t = base[:p] + strings.Join(ls, "\n") + base[p:]
			}
		case 0, 1: // character level
			b := []byte(base)
			if len(b) == 0 {
				continue
			}
			for n := 1 + rng.Intn(2); n > 0 && len(b) > 0; n-- {
				p := rng.Intn(len(b))
				switch rng.Intn(3) {
				case 0:
					b = append(b[:p:p], b[p+1:]...)
				case 1:
					b = append(b[:p:p], append([]byte{"<>(),:/-= \n\tabA1_u"[rng.Intn(18)]}, b[p:]...)...)
				default:
					b[p] = "<>(),:/-= \n\tabA1_u"[rng.Intn(18)]
				}
			}
			t = string(b)
		case 2: // line level: delete / duplicate / swap a line
			ls := strings.Split(base, "\n")
			p := rng.Intn(len(ls))
			switch rng.Intn(3) {
			case 0:
				ls = append(ls[:p:p], ls[p+1:]...)
			case 1:
				ls = append(ls[:p:p], append([]string{ls[p]}, ls[p:]...)...)
			default:
				q := rng.Intn(len(ls))
				ls[p], ls[q] = ls[q], ls[p]
			}
			t = strings.Join(ls, "\n")
		case 3: // token inserted
			p := rng.Intn(len(base) + 1)
			t = base[:p] + idlVocab[rng.Intn(len(idlVocab))] + base[p:]
		case 4: // cut
			t = base[:rng.Intn(len(base)+1)]
		default: // token soup
			var b strings.Builder
			for n := 1 + rng.Intn(25); n > 0; n-- {
				b.WriteString(idlVocab[rng.Intn(len(idlVocab))])
				if rng.Chance(0.6) {
					b.WriteByte(' ')
				}
			}
			t = b.String()
		}
		ptexts = append(ptexts, ptext{t, fmt.Sprintf("mutation kind %d", kind), true})
	}
	all := make([]string, len(ptexts))
	for i, p := range ptexts {
		all[i] = p.text
	}
	obs := parseAll(outdir, all)

	// ---- defect switches, from the observed behaviour of their witnesses ----
	sw := map[string]bool{}
	detail := map[string]string{}
	// ---- round-trip oracle ----
	var failing []c18Pending // reported self-contained and smallest first: the first failing input is the one to read
	for i, c := range cases {
		o := obs[i]
		if !outs[i].ok {
			continue
		}
		fail := rtFail(c.objs, o)
		res.Dist("roundtrip:" + map[bool]string{true: "safe", false: "unsafe:" + c.known}[c.known == ""])
		canon := objsTerm(c.objs)
		res.Count(map[bool]string{false: "RT|", true: "RT-again|"}[c.again]+c.pkg+"|"+canon, c.nontr)
		if i < 3 {
			res.Sample(fmt.Sprintf("%s -> %q -> ok=%v", canon, outs[i].text, fail == ""))
		}
		if fail == "" {
			continue
		}
		det := fmt.Sprintf("meta-objects %s; generated IDL %q; %s", canon, outs[i].text, fail)
		if c.again && c.known == "" && rtFail(cases[c.first].objs, obs[c.first]) == "" {
			failing = append(failing, c18Pending{kind: "roundtrip-depends-on-history", prio: 1, det: fmt.Sprintf("%s. The same package round-tripped when this process generated it first (generated IDL %q); "+
				"this is its second GenerateIDL, after %d other packages went through GenerateIDL in the process", det, outs[c.first].text, i-c.first-1)})
			continue
		}
		if c.known != "" {
			if !sw[c.known] {
				sw[c.known] = true
				detail[c.known] = det
			}
			failing = append(failing, c18Pending{kind: "roundtrip", det: det, prio: 2, known: c.known})
		} else {
			failing = append(failing, c18Pending{kind: "roundtrip", det: det, idx: i})
		}
	}
	// the smallest failing packages of this process once more, each alone in a fresh process: a package
	// that round-trips there fails here because of what this process generated before it
	sort.SliceStable(failing, func(i, j int) bool { return len(failing[i].det) < len(failing[j].det) })
	var alone [][]c18StepIn
	var aloneOf []int
	for j, f := range failing {
		if f.kind == "roundtrip" && len(alone) < 16 {
			alone = append(alone, []c18StepIn{{cases[f.idx].pkg, cases[f.idx].objs}})
			aloneOf = append(aloneOf, j)
		}
	}
	if len(alone) > 0 {
		aouts, aerrs := runSeqs(outdir, "c18_alone.json", alone)
		for k, j := range aloneOf {
			f := &failing[j]
			if aerrs[k] == "" && aouts[k][0].Ok && rtFail(cases[f.idx].objs, aouts[k][0].Parse) == "" {
				f.kind, f.prio = "roundtrip-depends-on-history", 1
				f.det += fmt.Sprintf(". The same package alone in a fresh process round-trips (generated IDL %q): the result depends on the %d packages this process generated before it",
					aouts[k][0].Text, f.idx)
			}
		}
	}
	// ---- sequences of conversions, each in one fresh process ----
	failing = append(failing, c18Sequences(res, rng, tier, outdir, addCase, cases[:nRT])...)
	sort.SliceStable(failing, func(i, j int) bool {
		if failing[i].prio != failing[j].prio {
			return failing[i].prio < failing[j].prio
		}
		return len(failing[i].det) < len(failing[j].det)
	})
	for _, f := range failing {
		if f.known != "" {
			res.FailKnown(f.kind, f.det, f.known)
		} else {
			res.Fail(f.kind, f.det)
		}
	}
	for _, k := range []string{"keyword_prefix_struct_name", "basic_type_struct_name", "container_prefix_struct_name", "colliding_struct_names", "non_tuple_signal_property",
		"uid_zero", "empty_tuple_or_void_in_container"} {
		res.Switch(k, sw[k], detail[k])
	}
	// ---- totality oracle + parse cases ----
	crashSeen := false
	for i, p := range ptexts {
		o := obs[i]
		switch o.Res {
		case 2:
			det := fmt.Sprintf("ParseIDL on %q ends the process (stack overflow)", p.text)
			if selfRef(p.text) || strings.Contains(o.Error, "stack overflow") || strings.Contains(o.Error, "stack exceeds") {
				res.FailKnown("parser-crash", det, "self_referential_struct_crash")
				if !crashSeen {
					crashSeen = true
					res.Switch("self_referential_struct_crash", true, det)
				}
			} else {
				res.Fail("parser-crash", det)
			}
		case 3:
			res.Fail("parser-panic", fmt.Sprintf("ParseIDL on %q panics: %s", p.text, o.Error))
		case 4:
			res.Fail("parser-hang", fmt.Sprintf("ParseIDL on %q does not return within 20 s", p.text))
		case -1:
			res.Fail("harness", fmt.Sprintf("no observation for %q", p.text))
		}
		if i >= len(cases) {
			res.Count("P|"+p.text, p.nontr)
			res.Dist("text:" + strings.SplitN(p.desc, " ", 2)[0])
		}
		res.Dist(fmt.Sprintf("parse-result:%d", o.Res))
		r := o.Res
		if r > 2 {
			continue
		}
		addCase("pcases", fmt.Sprintf("P %s %d%%N %s", idlStr(p.text), r, objsTerm(o.Objs)), "parse "+p.desc)
	}
	if !crashSeen {
		res.Switch("self_referential_struct_crash", probe.Res == 2, fmt.Sprintf("ParseIDL on %q ends the process: %s", selfRefWitness, probe.Error))
	}
	if casesSkipped > 0 {
		res.Notes = append(res.Notes, fmt.Sprintf("%d cases were not written to the case files (a case above 40 kB or the budget of %d bytes used up): oracles only", casesSkipped, caseBudget))
	}
	cf.Flush()
}

// selfRef: the text declares a struct that (transitively) contains itself — the trigger of the
// unbounded recursion; decided syntactically on the struct blocks
func selfRef(text string) bool {
	deps := map[string][]string{}
	cur := ""
	for _, l := range strings.Split(text, "\n") {
		f := strings.Fields(l)
		if len(f) >= 2 && f[0] == "struct" {
			cur = f[1]
			continue
		}
		if len(f) >= 1 && f[0] == "end" {
			cur = ""
			continue
		}
		if cur != "" {
			if p := strings.Index(l, ":"); p >= 0 {
				for _, w := range strings.FieldsFunc(l[p+1:], func(r rune) bool { return r == ',' || r == ' ' || r == '\t' }) {
					w = strings.TrimSuffix(strings.TrimPrefix(strings.TrimPrefix(strings.TrimPrefix(w, "Vec<"), "Map<"), "Tuple<"), ">")
					deps[cur] = append(deps[cur], w, strings.TrimRight(w, ">"))
				}
			}
		}
	}
	var reach func(from, to string, seen map[string]bool) bool
	reach = func(from, to string, seen map[string]bool) bool {
		for _, d := range deps[from] {
			if d == to {
				return true
			}
			if !seen[d] {
				seen[d] = true
				if reach(d, to, seen) {
					return true
				}
			}
		}
		return false
	}
	for s := range deps {
		if reach(s, s, map[string]bool{}) {
			return true
		}
	}
	return false
}
