package main

// c11gen.go — scenarios and fault enumeration of the C11 check.

import (
	"fmt"

	"github.com/lugu/qiloop/bus/net"

	"qv/internal/hx"
)

func stOnDisc(j int) c11Step { return c11Step{kind: "ondisc", idx: j} }
func stSub(i int) c11Step    { return c11Step{kind: "sub", idx: i} }
func stStart(c int) c11Step  { return c11Step{kind: "start", idx: c} }
func stFinish(c int) c11Step { return c11Step{kind: "finish", idx: c} }
func stRead(i int) c11Step   { return c11Step{kind: "readsub", idx: i} }
func stCancel(c int) c11Step { return c11Step{kind: "cancel", idx: c} }
func stFinCan(c int) c11Step { return c11Step{kind: "fincancel", idx: c} }
func stFrame(owner string, idx int, t uint8, frags ...int) c11Step {
	if len(frags) == 0 {
		frags = []int{0}
	}
	return c11Step{kind: "frame", owner: owner, idx: idx, mtype: t, frags: frags}
}

func c11Fixed() []c11Scenario {
	R, E, V := uint8(net.Reply), uint8(net.Error), uint8(net.Event)
	return []c11Scenario{
		{"one-call", 1, 0, 0, []c11Step{stStart(0), stFinish(0), stFrame("call", 0, R, 28, 0)}},
		{"callback-call", 1, 0, 1, []c11Step{stOnDisc(0), stStart(0), stFinish(0)}},
		{"early-reply", 1, 0, 1, []c11Step{stOnDisc(0), stStart(0), stFrame("call", 0, R, 28, 0), stFinish(0)}},
		{"two-calls-sub", 2, 1, 1, []c11Step{stOnDisc(0), stSub(0), stStart(0), stFinish(0), stStart(1), stFinish(1),
			stFrame("sub", 0, V), stRead(0), stFrame("call", 1, R, 10, 18, 0)}},
		{"three-calls-two-subs", 3, 2, 2, []c11Step{stOnDisc(0), stSub(0), stStart(0), stSub(1), stFinish(0), stStart(1),
			stOnDisc(1), stFinish(1), stFrame("sub", 1, V, 5, 0), stStart(2), stFrame("call", 0, R), stFinish(2), stRead(1)}},
		{"error-replies", 2, 1, 0, []c11Step{stSub(0), stStart(0), stFinish(0), stStart(1), stFinish(1),
			stFrame("call", 0, E, 28, 0), stFrame("sub", 0, E, 20, 0)}},
		{"late-registrations", 2, 2, 2, []c11Step{stOnDisc(0), stSub(0), stStart(0), stFinish(0), stSub(1), stOnDisc(1), stStart(1), stFinish(1)}},
		{"events-unread", 1, 1, 1, []c11Step{stSub(0), stOnDisc(0), stStart(0), stFinish(0), stFrame("sub", 0, V), stFrame("sub", 0, V, 29, 0),
			stFrame("sub", 0, V)}},
		{"crossing-early", 3, 0, 1, []c11Step{stOnDisc(0), stStart(0), stStart(1), stFrame("call", 1, R, 1, 27, 0), stFinish(0), stStart(2),
			stFrame("call", 2, R), stFinish(2), stFinish(1), stFrame("call", 0, R, 28, 2, 0)}},
		{"unmatched-frames", 2, 1, 1, []c11Step{stOnDisc(0), stSub(0), stStart(0), stFinish(0), stFrame("none", 0, R), stFrame("call", 1, R),
			stFrame("call", 0, V, 14, 14, 0), stStart(1), stFinish(1), stFrame("sub", 0, R)}},
		{"subs-only", 0, 2, 2, []c11Step{stSub(0), stOnDisc(0), stSub(1), stFrame("sub", 1, V), stOnDisc(1), stRead(1)}},
		{"cancelled-calls", 3, 0, 1, []c11Step{stOnDisc(0), stCancel(0), stStart(0), stStart(1), stFinish(1), stStart(2), stFinish(2),
			stCancel(1), stFrame("call", 2, R, 28, 0), stFinCan(1)}},
		{"three-pending", 3, 1, 1, []c11Step{stSub(0), stStart(0), stFinish(0), stStart(1), stFinish(1), stOnDisc(0), stStart(2), stFinish(2)}},
	}
}

// c11Random draws a well-formed script: a call is started once, finished after it was
// started, replied to after it was started (possibly before its Write returned).
func c11Random(rng *hx.Rng, k int) c11Scenario {
	n, m, d := rng.Intn(4), rng.Intn(3), rng.Intn(3)
	if n == 0 && rng.Chance(0.8) {
		n = 1 + rng.Intn(3)
	}
	sc := c11Scenario{name: fmt.Sprintf("random%d", k), n: n, m: m, d: d}
	started, finished, replied := make([]bool, n), make([]bool, n), make([]bool, n)
	sub, cb := make([]bool, m), make([]bool, d)
	queued := make([]int, m)
	frag := func() []int {
		switch rng.Intn(4) {
		case 0:
			return []int{0}
		case 1:
			return []int{28, 0}
		case 2:
			return []int{1 + rng.Intn(27), 0}
		}
		return []int{1 + rng.Intn(12), 1 + rng.Intn(15), 0}
	}
	steps := 4 + rng.Intn(12)
	for len(sc.script) < steps {
		switch rng.Intn(7) {
		case 0:
			if c := rng.Intn(n + 1); c < n && !started[c] {
				started[c] = true
				sc.script = append(sc.script, stStart(c))
			}
		case 1:
			if c := rng.Intn(n + 1); c < n && started[c] && !finished[c] {
				finished[c] = true
				sc.script = append(sc.script, stFinish(c))
			}
		case 2:
			if c := rng.Intn(n + 1); c < n && started[c] && !replied[c] {
				replied[c] = true
				t := uint8(net.Reply)
				if rng.Chance(0.25) {
					t = uint8(rng.Pick(int(net.Error), int(net.Cancelled), int(net.Event)))
				}
				sc.script = append(sc.script, stFrame("call", c, t, frag()...))
			}
		case 3:
			if i := rng.Intn(m + 1); i < m && !sub[i] {
				sub[i] = true
				sc.script = append(sc.script, stSub(i))
			}
		case 4:
			if j := rng.Intn(d + 1); j < d && !cb[j] {
				cb[j] = true
				sc.script = append(sc.script, stOnDisc(j))
			}
		case 5:
			if i := rng.Intn(m + 1); i < m && sub[i] && queued[i] < 3 {
				queued[i]++
				sc.script = append(sc.script, stFrame("sub", i, uint8(net.Event), frag()...))
			}
		case 6:
			if i := rng.Intn(m + 1); i < m && sub[i] && queued[i] > 0 {
				queued[i]--
				sc.script = append(sc.script, stRead(i))
			} else if rng.Chance(0.3) {
				sc.script = append(sc.script, stFrame("none", 0, uint8(net.Reply), frag()...))
			}
		}
		steps--
		if steps < len(sc.script) {
			steps = len(sc.script)
		}
		if rng.Chance(0.02) {
			break
		}
	}
	return sc
}

type c11Job struct {
	sc    c11Scenario
	f     c11Fault
	hold  bool
	fam   int    // family of the run: 0 scenario enumeration, 1 blocked consumer, 2 many handlers (see c11Hung)
	wrap  string // "": the endpoint runs on the gated stream itself; "conn": on net.ConnStream over it
	dedup bool   // a case term identical to one already written is not written again
}

// c11Jobs: the fault at every position of the script, inside every Write (wpart) and after
// every fragment of every fragmented frame, in every kind, with and without the process
// goroutine held inside stream.Close().
func c11Jobs(sc c11Scenario) []c11Job {
	var jobs []c11Job
	add := func(f c11Fault) {
		if f.kind != "half" {
			jobs = append(jobs, c11Job{sc: sc, f: f, hold: false})
		}
		jobs = append(jobs, c11Job{sc: sc, f: f, hold: true})
	}
	for pos := 0; pos <= len(sc.script); pos++ {
		for _, k := range []string{"rerr", "reof", "lclose", "half"} {
			add(c11Fault{pos: pos, kind: k})
		}
		if pos > 0 && sc.script[pos-1].kind == "start" {
			add(c11Fault{pos: pos, kind: "wpart"})
		}
	}
	for pos, st := range sc.script {
		if st.kind != "frame" {
			continue
		}
		nfr := len(c11Split(c11StepFrame(st, 0), st.frags))
		for f := 1; f < nfr; f++ {
			for _, k := range []string{"rerr", "reof", "lclose", "half"} {
				add(c11Fault{pos: pos, frag: f, kind: k})
			}
		}
		for f := 1; f <= nfr; f++ {
			add(c11Fault{pos: pos, frag: f, kind: "dataeof"})
		}
	}
	return jobs
}

// c11KindJobs: the loss in every KIND of error (c11kinds.go), persistent and once-then-EOF, seen
// first by a Read (rkind: at every script position and after every fragment of every fragmented
// frame; dkind: returned together with the last byte of every fragment) or first by the Write
// of a call (wkind0: nothing written, wkindp: half of the frame written; the reads fail in the
// same kind once that call has returned).  All of them run on net.ConnStream over the gated
// connection.  Whether process is held inside stream.Close() alternates with the slot and the
// kind, so every kind is seen with and without the hold in every scenario.
func c11KindJobs(sc c11Scenario, salt int) []c11Job {
	var jobs []c11Job
	slot := salt
	add := func(pos, frag int, kind string) {
		slot++
		for ki, k := range c11ErrKinds {
			for oi, once := range []bool{false, true} {
				jobs = append(jobs, c11Job{sc: sc, f: c11Fault{pos: pos, frag: frag, kind: kind, ek: k.name, once: once},
					hold: (slot+ki+oi)%2 == 0, wrap: "conn"})
			}
		}
	}
	for pos := 0; pos <= len(sc.script); pos++ {
		add(pos, 0, "rkind")
		if pos > 0 && sc.script[pos-1].kind == "start" {
			add(pos, 0, "wkind0")
			add(pos, 0, "wkindp")
		}
	}
	for pos, st := range sc.script {
		if st.kind != "frame" {
			continue
		}
		nfr := len(c11Split(c11StepFrame(st, 0), st.frags))
		for f := 1; f < nfr; f++ {
			add(pos, f, "rkind")
		}
		for f := 1; f <= nfr; f++ {
			add(pos, f, "dkind")
		}
	}
	return jobs
}
