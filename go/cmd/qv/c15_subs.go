package main

// C15 — several subscribers of the directory's signals, some of them leaving while an event is
// being delivered (child process "C15-child-subs").
//
// One directory object (verif hook: implementation + its actor, as NewServer builds them),
// 2..4 client connections (bus.Channel over an in-process pipe end point) holding 3..6
// subscriptions of serviceAdded / serviceRemoved in a random table order.  A sequential
// script of register / ready / unregister / update / lookups runs on the implementation (the
// path of Server.NewService / Service.Terminate) or through the actor (the path of a remote
// call).  A connection is the schedule point: while the event of a transition is written to
// connection X, another subscriber leaves — unregisterEvent through the actor, or its
// connection is closed (the end point then drops its handlers) — exactly what a slow
// subscriber connection lets happen on a real bus; the harness makes it deterministic.
// Every subscription that stays must have seen, once the call returned, exactly the events of
// the transitions so far — each once (C15_events_exact, per subscriber); a subscription that
// left has seen no event twice.  The view of every connection that keeps both subscriptions
// is also a sequential case for Coq (scase: results, that subscriber's events per step, the
// final maps).

import (
	"bufio"
	"bytes"
	"encoding/json"
	"fmt"
	"os"
	"path/filepath"
	"strconv"
	"strings"
	"sync"
	"time"

	"github.com/lugu/qiloop/bus"
	"github.com/lugu/qiloop/bus/directory"
	"github.com/lugu/qiloop/bus/net"
	"github.com/lugu/qiloop/type/basic"
	"qv/internal/hx"
)

func init() { props["C15-child-subs"] = c15ChildSubs }

// subConn: a client connection as the directory's actor sees it
type subConn struct {
	bus.Channel
	idx    int
	peer   net.EndPoint
	mu     sync.Mutex
	got    []dEvent // event frames of both signals, in the order they were written
	hook   func()   // runs once, inside the next event write on this connection
	closed bool
	// the reply of the last call made from this connection
	replied, failed bool
}

func newSubConn(idx int) *subConn {
	a, b := net.Pipe()
	return &subConn{Channel: bus.NewContext(a), idx: idx, peer: b}
}

func (c *subConn) Send(m *net.Message) error {
	if m.Header.Type == net.Event && (m.Header.Action == 106 || m.Header.Action == 107) {
		r := bytes.NewBuffer(m.Payload)
		id, err1 := basic.ReadUint32(r)
		name, err2 := basic.ReadString(r)
		if err1 == nil && err2 == nil {
			c.mu.Lock()
			c.got = append(c.got, dEvent{Added: m.Header.Action == 106, ID: id, Name: name})
			f := c.hook
			c.hook = nil
			c.mu.Unlock()
			if f != nil {
				f()
			}
		}
	}
	return nil
}
func (c *subConn) SendReply(m *net.Message, r []byte) error { c.replied = true; return nil }
func (c *subConn) SendError(m *net.Message, e error) error  { c.failed = true; return nil }

// subscription: one entry of the actor's subscriber table
type subscription struct {
	Conn   int    `json:"c"`
	Signal uint32 `json:"s"`
	User   uint64 `json:"u"`
	Left   int    `json:"left"` // step during/after which it left (-1: stayed)
}

func sigName(s uint32) string {
	if s == 106 {
		return "serviceAdded"
	}
	return "serviceRemoved"
}

type subsStep struct {
	Op  dOp      `json:"op"`
	Res dRes     `json:"res"`
	Evs []dEvent `json:"evs"` // what the viewing connection received during the call
	Via string   `json:"via"`
}

// subsLine: what the child reports for one scenario
type subsLine struct {
	Kind   string      `json:"kind"` // view | fail | stats
	Text   string      `json:"text"`
	Steps  []subsStep  `json:"steps,omitempty"`
	Stg    []dInfo     `json:"stg,omitempty"`
	Svc    []dInfo     `json:"svc,omitempty"`
	Last   uint32      `json:"last,omitempty"`
	Fails  [][2]string `json:"fails,omitempty"`
	N      int         `json:"n,omitempty"`
	Leaves int         `json:"leaves,omitempty"`
}

func eventCall(action, msgID, signal uint32, user uint64) *net.Message {
	var buf bytes.Buffer
	basic.WriteUint32(1, &buf)
	basic.WriteUint32(signal, &buf)
	basic.WriteUint64(user, &buf)
	m := net.NewMessage(net.NewHeader(net.Call, 1, 1, action, msgID), buf.Bytes())
	return &m
}

func subsScenario(rng *hx.Rng, fails *[][2]string) (lines []subsLine, leavesDuring int) {
	vd := directory.VerifNewDirectory()
	obj := vd.Object()
	impl := vd.Impl()
	if err := obj.Activate(bus.Activation{ServiceID: 1, ObjectID: 1, Terminate: func() {}}); err != nil {
		*fails = append(*fails, [2]string{"setup", err.Error()})
		return
	}
	nConn := 2 + rng.Intn(3)
	conns := make([]*subConn, nConn)
	for k := range conns {
		conns[k] = newSubConn(k)
	}
	defer func() {
		for _, c := range conns {
			c.EndPoint().Close()
			c.peer.Close()
		}
	}()
	caller := newSubConn(99)
	defer func() { caller.EndPoint().Close(); caller.peer.Close() }()

	// the subscriber table: every (connection, signal) pair at most once, in random order
	type pair struct {
		c int
		s uint32
	}
	var pairs []pair
	for c := 0; c < nConn; c++ {
		pairs = append(pairs, pair{c, 106}, pair{c, 107})
	}
	for a := len(pairs) - 1; a > 0; a-- {
		b := rng.Intn(a + 1)
		pairs[a], pairs[b] = pairs[b], pairs[a]
	}
	n := 3 + rng.Intn(4)
	if n > len(pairs) {
		n = len(pairs)
	}
	var subs []*subscription
	sevenUsed := map[int]bool{}
	msgID := uint32(3)
	for k, p := range pairs[:n] {
		s := &subscription{Conn: p.c, Signal: p.s, User: uint64(100 + k), Left: -1}
		if rng.Chance(0.3) && !sevenUsed[p.c] {
			s.User = 7 // user ids are chosen by the clients: several connections may use the same
			sevenUsed[p.c] = true
		}
		msgID += 2
		conns[p.c].replied, conns[p.c].failed = false, false
		obj.Receive(eventCall(0, msgID, p.s, s.User), conns[p.c])
		if !conns[p.c].replied {
			*fails = append(*fails, [2]string{"setup", fmt.Sprintf("registerEvent(%s, user %d) on connection %d refused", sigName(p.s), s.User, p.c)})
			return
		}
		subs = append(subs, s)
	}
	tableText := func() string {
		it := make([]string, len(subs))
		for k, s := range subs {
			it[k] = fmt.Sprintf("#%d=conn%d/%s/user%d", k, s.Conn, sigName(s.Signal), s.User)
		}
		return strings.Join(it, " ")
	}()

	// the script: 2..3 services registered by another process, made ready, some unregistered
	type svcState struct {
		name   string
		id     uint32
		status int // 0 none, 1 staging, 2 ready, 3 gone
	}
	svcs := []*svcState{{name: "a"}, {name: "b"}, {name: "c"}}[:2+rng.Intn(2)]
	var steps []subsStep
	var notes []string
	ref := &refDir{}
	var wantEv []dEvent // events of the transitions so far
	step := 0
	// leave: subscription j leaves (unregisterEvent through the actor, or its connection closes)
	leave := func(j int, disconnect bool, when string) {
		s := subs[j]
		if s.Left >= 0 {
			return
		}
		c := conns[s.Conn]
		if disconnect {
			if !c.closed {
				c.closed = true
				c.EndPoint().Close()
				// the end point closes its handlers on goroutines of their own
				time.Sleep(3 * time.Millisecond)
			}
			for _, o := range subs {
				if o.Conn == s.Conn && o.Left < 0 {
					o.Left = step
				}
			}
			notes = append(notes, fmt.Sprintf("step %d, %s: connection %d is closed (subscription #%d)", step+1, when, s.Conn, j))
			return
		}
		msgID += 2
		c.replied, c.failed = false, false
		obj.Receive(eventCall(1, msgID, s.Signal, s.User), c)
		s.Left = step
		notes = append(notes, fmt.Sprintf("step %d, %s: subscription #%d unregisterEvent(%s, user %d) from connection %d", step+1, when, j, sigName(s.Signal), s.User, s.Conn))
		if !c.replied {
			*fails = append(*fails, [2]string{"unregister-event", fmt.Sprintf("unregisterEvent of subscription #%d refused; table: %s", j, tableText)})
		}
	}
	nSteps := 5 + rng.Intn(5)
	judged := true
	viewMarks := make([][]int, nConn) // per connection: len(got) before/after every step
	for ; step < nSteps; step++ {
		sv := svcs[rng.Intn(len(svcs))]
		var o dOp
		switch sv.status {
		case 0, 3:
			eps := []string{"tcp://198.18.0.7:9559", "unix:///nonexistent/qv-c15.sock"}
			if rng.Bool() {
				eps = []string{"e"}
			}
			o = dOp{Kind: opRegister, Info: dInfo{Name: sv.name, Machine: "m", Pid: uint32(1 + rng.Intn(2)), Endpoints: eps}}
		case 1:
			o = dOp{Kind: opReady, ID: sv.id}
			if rng.Chance(0.15) {
				o = dOp{Kind: opUnregister, ID: sv.id} // unregistered while staging: no event
			}
		default:
			switch x := rng.Intn(10); {
			case x < 6:
				o = dOp{Kind: opUnregister, ID: sv.id}
			case x < 7:
				o = dOp{Kind: opReady, ID: sv.id} // a second ready: refused, no event
			case x < 8:
				o = dOp{Kind: opServices}
			default:
				o = dOp{Kind: opService, Name: sv.name}
			}
		}
		// the schedule: a leave during the delivery of this step's event, or between two calls
		stay := []int{}
		for j, s := range subs {
			if s.Left < 0 {
				stay = append(stay, j)
			}
		}
		if len(stay) > 2 && rng.Chance(0.45) {
			j := stay[rng.Intn(len(stay))]
			disconnect := rng.Chance(0.35)
			if rng.Chance(0.8) {
				// during the write of the event to connection x (any connection but the leaver's)
				x := rng.Intn(nConn)
				if x != subs[j].Conn && !conns[x].closed {
					jj, dd, xx := j, disconnect, x
					conns[x].mu.Lock()
					conns[x].hook = func() {
						leavesDuring++
						leave(jj, dd, fmt.Sprintf("while the event is written to connection %d", xx))
					}
					conns[x].mu.Unlock()
				}
			} else {
				leave(j, disconnect, "before the call")
			}
		}
		for k, c := range conns {
			c.mu.Lock()
			viewMarks[k] = append(viewMarks[k], len(c.got))
			c.mu.Unlock()
		}
		via := "local"
		var r dRes
		if (o.Kind == opReady || o.Kind == opUnregister) && rng.Chance(0.4) {
			// the path of a remote call: the actor decodes the message and answers the caller
			via = "actor"
			var buf bytes.Buffer
			basic.WriteUint32(o.ID, &buf)
			action := uint32(104)
			if o.Kind == opUnregister {
				action = 103
			}
			msgID += 2
			m := net.NewMessage(net.NewHeader(net.Call, 1, 1, action, msgID), buf.Bytes())
			caller.replied, caller.failed = false, false
			obj.Receive(&m, caller)
			r = dRes{Kind: rErr}
			if caller.replied {
				r = dRes{Kind: rOk}
			}
		} else {
			r = applyOp(impl, nil, o, false)
		}
		for _, c := range conns {
			c.mu.Lock()
			c.hook = nil // no event was written to that connection during this call
			c.mu.Unlock()
		}
		if o.Kind == opRegister && r.Kind == rID {
			sv.id, sv.status = r.ID, 1
		}
		if o.Kind == opReady && r.Kind == rOk {
			sv.status = 2
		}
		if o.Kind == opUnregister && r.Kind == rOk {
			sv.status = 3
		}
		_, evs := ref.step(o)
		wantEv = append(wantEv, evs...)
		steps = append(steps, subsStep{Op: o, Res: r, Via: via})
		// after the call returned: every subscription still held has seen exactly the events so far
		for j, s := range subs {
			if !judged {
				break
			}
			c := conns[s.Conn]
			c.mu.Lock()
			var got, want []dEvent
			for _, e := range c.got {
				if e.Added == (s.Signal == 106) {
					got = append(got, e)
				}
			}
			c.mu.Unlock()
			for _, e := range wantEv {
				if e.Added == (s.Signal == 106) {
					want = append(want, e)
				}
			}
			bad := ""
			if s.Left < 0 {
				if fmt.Sprint(got) != fmt.Sprint(want) {
					bad = fmt.Sprintf("subscription #%d (connection %d, %s, user %d), still subscribed, has received %s; the transitions so far call for %s",
						j, s.Conn, sigName(s.Signal), s.User, evTerms(got), evTerms(want))
				}
			} else {
				seen := map[string]bool{}
				for _, e := range got {
					if seen[e.term()] {
						bad = fmt.Sprintf("subscription #%d (connection %d, %s, user %d), which left at step %d, received %s twice: %s",
							j, s.Conn, sigName(s.Signal), s.User, s.Left+1, e.term(), evTerms(got))
					}
					seen[e.term()] = true
				}
			}
			if bad != "" {
				*fails = append(*fails, [2]string{"events-exact-subscribers", bad + "; after step " + strconv.Itoa(step+1) + " of: " + subsText(steps) +
					"; subscriber table in registration order: " + tableText + "; leaves: " + strings.Join(notes, "; ")})
				judged = false // one report per scenario; the views still go to Coq
			}
		}
	}
	for k, c := range conns {
		c.mu.Lock()
		viewMarks[k] = append(viewMarks[k], len(c.got))
		c.mu.Unlock()
	}
	// the view of every connection that kept both subscriptions from the start: a sequential case
	stgD, svcD, last := vd.State()
	for k, c := range conns {
		both := 0
		for _, s := range subs {
			if s.Conn == k && s.Left < 0 {
				both++
			}
		}
		if both != 2 {
			continue
		}
		l := subsLine{Kind: "view", Last: last}
		for i, st := range steps {
			st.Evs = append([]dEvent{}, c.got[viewMarks[k][i]:viewMarks[k][i+1]]...)
			l.Steps = append(l.Steps, st)
		}
		for _, i := range stgD {
			l.Stg = append(l.Stg, toInfo(i))
		}
		for _, i := range svcD {
			l.Svc = append(l.Svc, toInfo(i))
		}
		l.Text = fmt.Sprintf("view of connection %d; table: %s; leaves: %s", k, tableText, strings.Join(notes, "; "))
		lines = append(lines, l)
	}
	return
}

func subsText(steps []subsStep) string {
	it := make([]string, len(steps))
	for k, st := range steps {
		it[k] = fmt.Sprintf("%v -> %v", st.Op, st.Res)
		if st.Via == "actor" {
			it[k] += " [through the actor]"
		}
	}
	return strings.Join(it, " ; ")
}

func c15ChildSubs(res *hx.Result, rng *hx.Rng, tier string, outdir string) {
	n, _ := strconv.Atoi(os.Getenv("C15_SUBS_N"))
	seed, _ := strconv.ParseUint(os.Getenv("C15_SUBS_SEED"), 10, 64)
	r := hx.NewRng(seed)
	f, err := os.Create(filepath.Join(outdir, "subs.jsonl"))
	if err != nil {
		panic(err)
	}
	w := bufio.NewWriter(f)
	put := func(l subsLine) {
		b, _ := json.Marshal(l)
		w.Write(b)
		w.WriteString("\n")
		w.Flush()
	}
	leaves, reported := 0, 0
	for k := 0; k < n; k++ {
		var fails [][2]string
		lines, during := subsScenario(r, &fails)
		leaves += during
		for _, l := range lines {
			put(l)
		}
		if len(fails) > 0 && reported < 6 {
			reported++
			put(subsLine{Kind: "fail", Fails: fails})
		}
	}
	put(subsLine{Kind: "stats", N: n, Leaves: leaves})
	f.Close()
	os.Exit(0)
}

// runSubs (parent): the scenarios of the child, judged again here and written as cases
func runSubs(res *hx.Result, cf *hx.Cases, rng *hx.Rng, outdir, tier string) {
	n := 150
	if tier == "thorough" {
		n = 5000
	}
	seed := rng.U64()
	out, err := runChild("C15-child-subs", outdir, map[string]string{
		"C15_SUBS_N": strconv.Itoa(n), "C15_SUBS_SEED": strconv.FormatUint(seed, 10)}, time.Duration(30+n/20)*time.Second)
	b, _ := os.ReadFile(filepath.Join(outdir, "child-C15-child-subs", "subs.jsonl"))
	gotStats := false
	for _, ln := range strings.Split(string(b), "\n") {
		if strings.TrimSpace(ln) == "" {
			continue
		}
		var l subsLine
		if json.Unmarshal([]byte(ln), &l) != nil {
			continue
		}
		switch l.Kind {
		case "stats":
			gotStats = true
			res.Notes = append(res.Notes, fmt.Sprintf("subscriber scenarios: %d, %d leaves (unregisterEvent / closed connection) happened while an event was being delivered", l.N, l.Leaves))
			res.Distribution["subs-scenarios"] += l.N
			res.Distribution["subs-leaves-during-delivery"] += l.Leaves
		case "fail":
			for _, f := range l.Fails {
				res.Fail(f[0], f[1])
			}
		case "view":
			it := make([]string, len(l.Steps))
			nontrivial := false
			for k, st := range l.Steps {
				it[k] = fmt.Sprintf("(%s,%s,%s)", st.Op.term(), st.Res.term(), evTerms(st.Evs))
				if len(st.Evs) > 0 && !st.Evs[0].Added {
					nontrivial = true
				}
			}
			term := fmt.Sprintf("{|sc_last0:=0;sc_ops:=[%s];sc_staging:=%s;sc_services:=%s;sc_last:=%d|}",
				strings.Join(it, ";"), infoTerms(l.Stg), infoTerms(l.Svc), l.Last)
			res.Count(term, nontrivial)
			res.Dist("subs-view")
			cf.Add("scases", term, clip("subscriber "+l.Text+": "+subsText(l.Steps), 1500))
		}
	}
	if err != nil || !gotStats {
		line := ""
		for _, l := range strings.Split(out, "\n") {
			if strings.HasPrefix(l, "fatal error:") || strings.HasPrefix(l, "panic:") {
				line = l
				break
			}
		}
		kind := "crash"
		if err != nil && strings.Contains(err.Error(), "deadline") {
			kind = "hang"
		}
		res.Fail(kind, fmt.Sprintf("the subscriber scenarios (several subscribers, some leaving while an event is delivered; seed %d) did not complete: %v %s %s", seed, err, line, tail(out, 300)))
	}
}
