package main

// C13 over real stream sockets (round 6).
//
// Everywhere else in the C13 harness events travel over in-memory links (internal/rig) on which one Read of
// the client's endpoint never returns bytes of two frames.  On a stream socket it does: when the object
// emits events back to back, or answers a call of the connection while it emits, the frames sit one behind
// the other in the socket buffer and whatever the reader takes too much of one frame is missing from the
// next.  This family is ordinary use of the public API: a bus server listening on unix:// and on
// tcp://127.0.0.1, clients that dialled it, Proxy.SubscribeID and the generated SubscribeServiceAdded as
// subscribers with readers that always read, an object that emits bursts of events of mixed sizes (around
// and far above 64 KB next to small ones) while every connection also has calls in flight.
//
// Implementation-side oracles only (the model's payloads are opaque and its links carry whole frames):
// every subscriber receives every event of its signal exactly once, in order, with the emitted bytes; its
// channel stays open until it cancels and is closed afterwards; every call is answered (by a meta object of the same size).
// Every wait has a deadline.

import (
	"bytes"
	"fmt"
	"os"
	"strings"
	"sync"
	"sync/atomic"
	"time"

	"github.com/lugu/qiloop/bus"
	"github.com/lugu/qiloop/bus/directory"
	"github.com/lugu/qiloop/bus/net"
	"github.com/lugu/qiloop/type/object"
	"qv/internal/hx"
)

var c13realSizes = []int{4, 1000, 65535, 65536, 65537, 100000, 200001, 300000}

const c13realWait = 3 * time.Second

type c13rEm struct {
	sig  uint32
	n    uint32
	size int
}

// c13realPayload: the payload of event n of signal sig, about size bytes, every byte depends on n and its position.
func c13realPayload(sig, n uint32, size int) []byte {
	b := c13le(n)
	if sig == 106 { // (Is): the generated proxy decodes it
		k := size - 8
		if k < 1 {
			k = 1
		}
		b = append(b, c13le(uint32(k))...)
		return append(b, c13fill(n, k)...)
	}
	if size < 4 {
		size = 4
	}
	return append(b, c13fill(n, size-4)...)
}

type c13rSub struct {
	name   string
	conn   int
	sig    uint32
	mu     sync.Mutex
	got    []uint32
	bad    []string
	closed bool
	cancel func()
}

func (s *c13rSub) snapshot() ([]uint32, []string, bool) {
	s.mu.Lock()
	defer s.mu.Unlock()
	return append([]uint32(nil), s.got...), append([]string(nil), s.bad...), s.closed
}

type c13rWorld struct {
	scheme  string
	srv     bus.Server
	obj     bus.BasicObject
	eps     []net.EndPoint
	proxies []bus.Proxy
	subs    []*c13rSub
	sizeOf  map[uint32]int
	cleanup []func()
}

func (w *c13rWorld) close() {
	for _, e := range w.eps {
		e.Close()
	}
	done := make(chan struct{})
	go func() { w.srv.Terminate(); close(done) }()
	select {
	case <-done:
	case <-time.After(c13realWait):
	}
	for _, f := range w.cleanup {
		f()
	}
}

func c13realNew(scheme string, nconn int) (*c13rWorld, error) {
	w := &c13rWorld{scheme: scheme, sizeOf: map[uint32]int{}}
	addr := "tcp://127.0.0.1:0"
	if scheme == "unix" {
		dir, err := os.MkdirTemp("", "qv13")
		if err != nil {
			return nil, err
		}
		w.cleanup = append(w.cleanup, func() { os.RemoveAll(dir) })
		addr = "unix://" + dir + "/s"
	}
	l, err := net.Listen(addr)
	if err != nil {
		return nil, fmt.Errorf("listen %s: %v", addr, err)
	}
	dial := addr
	if scheme == "tcp" {
		a := net.VerifListenerAddr(l)
		if a == "" {
			l.Close()
			return nil, fmt.Errorf("no listener address")
		}
		dial = "tcp://" + a
	}
	srv, err := bus.StandAloneServer(l, bus.Yes{}, bus.PrivateNamespace())
	if err != nil {
		l.Close()
		return nil, fmt.Errorf("StandAloneServer: %v", err)
	}
	w.srv = srv
	w.obj = bus.NewBasicObject(c13nop{}, c13meta(), func(string, []byte) error { return nil })
	svc, err := srv.NewService("qv-signals", w.obj)
	if err != nil {
		w.close()
		return nil, fmt.Errorf("NewService: %v", err)
	}
	for i := 0; i < nconn; i++ {
		type dialed struct {
			e   net.EndPoint
			c   bus.Channel
			err error
		}
		ch := make(chan dialed, 1)
		go func() {
			e, err := net.DialEndPoint(dial)
			var c bus.Channel
			if err == nil {
				c = bus.NewChannel(e, bus.ClientCap("", ""))
				err = c.Authenticate()
			}
			ch <- dialed{e, c, err}
		}()
		select {
		case d := <-ch:
			if d.err != nil {
				w.close()
				return nil, fmt.Errorf("dial %s: %v", dial, d.err)
			}
			w.eps = append(w.eps, d.e)
			cl := bus.NewClient(d.c)
			w.proxies = append(w.proxies, bus.NewProxy(cl, object.FullMetaObject(c13meta()), svc.ServiceID(), 1))
		case <-time.After(c13realWait):
			w.close()
			return nil, fmt.Errorf("dial %s: no connection after %v", dial, c13realWait)
		}
	}
	return w, nil
}

// subscribe: one more subscriber; returns "" or what went wrong.
func (w *c13rWorld) subscribe(c int, sig uint32) string {
	s := &c13rSub{name: fmt.Sprintf("subscriber %d (connection %d, signal %d", len(w.subs), c, sig), conn: c, sig: sig}
	if sig == 106 {
		s.name += ", generated SubscribeServiceAdded)"
	} else {
		s.name += ", SubscribeID)"
	}
	record := func(n uint32, bad string) {
		s.mu.Lock()
		s.got = append(s.got, n)
		s.bad = append(s.bad, bad)
		s.mu.Unlock()
	}
	ready := make(chan error, 1)
	go func() {
		var raw chan []byte
		var added chan directory.ServiceAdded
		var cancel func()
		var err error
		if sig == 106 {
			cancel, added, err = directory.MakeServiceDirectory(nil, w.proxies[c]).SubscribeServiceAdded()
		} else {
			cancel, raw, err = w.proxies[c].SubscribeID(sig)
		}
		s.cancel = cancel
		ready <- err
		if err != nil {
			return
		}
		if sig == 106 {
			for e := range added {
				bad := ""
				if want := c13realPayload(106, e.ServiceID, w.size(e.ServiceID)); !bytes.Equal([]byte(e.Name), want[8:]) {
					bad = fmt.Sprintf("event %d came with a string of %d bytes that differs from the %d bytes emitted", e.ServiceID, len(e.Name), len(want)-8)
				}
				record(e.ServiceID, bad)
			}
		} else {
			for p := range raw {
				n := c13val(p)
				bad := ""
				if want := c13realPayload(sig, n, w.size(n)); !bytes.Equal(p, want) {
					bad = fmt.Sprintf("read a payload of %d bytes starting with %x, which is not the %d bytes emitted as event %d", len(p), p[:c13min(len(p), 12)], len(want), n)
				}
				record(n, bad)
			}
		}
		s.mu.Lock()
		s.closed = true
		s.mu.Unlock()
	}()
	select {
	case err := <-ready:
		if err != nil {
			return fmt.Sprintf("%s: subscription failed: %v", s.name, err)
		}
	case <-time.After(c13realWait):
		return fmt.Sprintf("%s: the subscription call did not return within %v", s.name, c13realWait)
	}
	w.subs = append(w.subs, s)
	return ""
}

var c13realSizeMu sync.Mutex

func (w *c13rWorld) size(n uint32) int {
	c13realSizeMu.Lock()
	defer c13realSizeMu.Unlock()
	return w.sizeOf[n]
}

// c13realCase: one world on one transport, the bursts one after the other; "" or (oracle, what happened).
func c13realCase(scheme string, bursts [][]c13rEm) (kind, detail string) {
	var steps []string
	fail := func(k, format string, a ...interface{}) (string, string) {
		return k, fmt.Sprintf(format, a...) + "; input: bus server on " + scheme + "://, 3 client connections; " + strings.Join(steps, "; ")
	}
	w, err := c13realNew(scheme, 3)
	if err != nil {
		return fail("stalled", "the world could not be built: %v", err)
	}
	defer w.close()
	for _, cs := range [][2]uint32{{0, 200}, {0, 106}, {1, 200}, {2, 200}, {2, 200}} {
		if bad := w.subscribe(int(cs[0]), cs[1]); bad != "" {
			return fail("stalled", "%s", bad)
		}
	}
	steps = append(steps, "connection 0: SubscribeID(200) and SubscribeServiceAdded() (signal 106); connection 1: SubscribeID(200); connection 2: SubscribeID(200) twice; all returned")
	expect := map[uint32][]uint32{}
	for bi, burst := range bursts {
		var desc []string
		for _, e := range burst {
			c13realSizeMu.Lock()
			w.sizeOf[e.n] = e.size
			c13realSizeMu.Unlock()
			desc = append(desc, fmt.Sprintf("%d:event %d of %d bytes", e.sig, e.n, len(c13realPayload(e.sig, e.n, e.size))))
		}
		steps = append(steps, fmt.Sprintf("burst %d, emitted back to back while every connection keeps calling metaObject (action 2): [%s]", bi, strings.Join(desc, ", ")))
		// calls in flight on every connection for the duration of the burst
		var stop int32
		type callRes struct {
			conn, calls int
			bad         string
		}
		callers := make(chan callRes, len(w.proxies))
		for c := range w.proxies {
			go func(c int) {
				r := callRes{conn: c}
				var first []byte
				for atomic.LoadInt32(&stop) == 0 || r.calls == 0 {
					type ans struct {
						b   []byte
						err error
					}
					ach := make(chan ans, 1)
					go func() { b, err := w.proxies[c].CallID(2, c13le(1)); ach <- ans{b, err} }()
					select {
					case a := <-ach:
						r.calls++
						if a.err != nil {
							r.bad = fmt.Sprintf("call %d of connection %d (metaObject) failed: %v", r.calls, c, a.err)
						} else if first == nil {
							first = a.b
						} else if len(first) != len(a.b) { // the order of the entries of the three maps varies, the size does not
							r.bad = fmt.Sprintf("call %d of connection %d (metaObject) was answered with %d bytes, the first answer had %d", r.calls, c, len(a.b), len(first))
						}
					case <-time.After(c13realWait):
						r.bad = fmt.Sprintf("call %d of connection %d (metaObject) was not answered within %v", r.calls+1, c, c13realWait)
					}
					if r.bad != "" {
						break
					}
				}
				callers <- r
			}(c)
		}
		emitted := make(chan error, 1)
		go func() {
			for _, e := range burst {
				if err := w.obj.UpdateSignal(e.sig, c13realPayload(e.sig, e.n, e.size)); err != nil {
					emitted <- fmt.Errorf("UpdateSignal(%d, event %d): %v", e.sig, e.n, err)
					return
				}
			}
			emitted <- nil
		}()
		var emitErr error
		emitStalled := false
		select {
		case emitErr = <-emitted:
		case <-time.After(2 * c13realWait):
			emitStalled = true
		}
		for _, e := range burst {
			expect[e.sig] = append(expect[e.sig], e.n)
		}
		// every subscriber has read everything (or its channel is closed), under a deadline
		complete := func() bool {
			for _, s := range w.subs {
				got, _, closed := s.snapshot()
				if !closed && len(got) < len(expect[s.sig]) {
					return false
				}
			}
			return true
		}
		if !emitStalled {
			waitUntil(c13realWait, complete)
		}
		atomic.StoreInt32(&stop, 1)
		var callBad []string
		ncalls := 0
		for range w.proxies {
			select {
			case r := <-callers:
				ncalls += r.calls
				if r.bad != "" {
					callBad = append(callBad, r.bad)
				}
			case <-time.After(2 * c13realWait):
				callBad = append(callBad, "a caller did not come back")
			}
		}
		// oracles on what the subscribers received
		for _, s := range w.subs {
			got, bad, closed := s.snapshot()
			want := expect[s.sig]
			for i, n := range got {
				if i < len(bad) && bad[i] != "" {
					return fail("payload-corrupt", "%s: %s", s.name, bad[i])
				}
				if i >= len(want) || n != want[i] {
					if i < len(want) && !c13in(got, want[i]) {
						return fail("event-lost", "%s never received event %d: after %v it read %v", s.name, want[i], want[:i], got[i:])
					}
					if !c13in(want, n) {
						return fail("foreign-payload", "%s read event %d, which was not emitted on its signal; it read %v, emitted were %v", s.name, n, got, want)
					}
					return fail("order-or-duplicate", "%s read %v, emitted were %v", s.name, got, want)
				}
			}
			if closed {
				return fail("closed-while-subscribed", "the channel of %s was closed although it did not cancel, after it had read %d of the %d events emitted: %v", s.name, len(got), len(want), got)
			}
			if len(got) < len(want) {
				return fail("event-lost", "%s never received event %d (waited %v after the burst): it read %v of the emitted %v", s.name, want[len(got)], c13realWait, got, want)
			}
		}
		if emitStalled {
			return fail("stalled", "the emitter did not come back within %v", 2*c13realWait)
		}
		if emitErr != nil {
			return fail("stalled", "%v", emitErr)
		}
		if len(callBad) > 0 {
			return fail("stalled", "%s (%d calls were answered during the burst)", strings.Join(callBad, "; "), ncalls)
		}
	}
	// everybody cancels: the channel is closed, nothing else arrives
	steps = append(steps, "every subscriber cancels")
	for _, s := range w.subs {
		done := make(chan struct{})
		go func(s *c13rSub) { s.cancel(); close(done) }(s)
		select {
		case <-done:
		case <-time.After(c13realWait):
			return fail("stalled", "the cancel function of %s did not return within %v", s.name, c13realWait)
		}
		if !waitUntil(c13realWait, func() bool { _, _, closed := s.snapshot(); return closed }) {
			return fail("not-closed", "the channel of %s was not closed within %v after its cancel function returned", s.name, c13realWait)
		}
		if got, _, _ := s.snapshot(); len(got) != len(expect[s.sig]) {
			return fail("order-or-duplicate", "%s read %v, emitted were %v", s.name, got, expect[s.sig])
		}
	}
	return "", ""
}

func c13in(xs []uint32, x uint32) bool {
	for _, y := range xs {
		if y == x {
			return true
		}
	}
	return false
}

// c13realBursts: the bursts of case k.  Scripted for k < 2, drawn from rng otherwise.
func c13realBursts(k int, rng *hx.Rng) [][]c13rEm {
	n := uint32(1000 * (k + 1))
	next := func(sig uint32, size int) c13rEm { n++; return c13rEm{sig: sig, n: n, size: size} }
	var bursts [][]c13rEm
	switch k {
	case 0: // every size class followed by two small events of the same signal and one of the other
		for _, sig := range []uint32{200, 106} {
			var b []c13rEm
			for _, size := range c13realSizes {
				b = append(b, next(sig, size), next(sig, 4), next(sig, 12), next(306-sig, 20))
			}
			bursts = append(bursts, b)
		}
	case 1: // large events back to back, then small ones
		var b []c13rEm
		for _, size := range []int{100000, 65537, 300000, 200001, 65536, 65535, 100000} {
			b = append(b, next(200, size))
		}
		b = append(b, next(200, 4), next(106, 100000), next(106, 9), next(200, 1000), next(200, 4))
		bursts = append(bursts, b)
	default:
		for i := 0; i < 2; i++ {
			var b []c13rEm
			for len(b) < 14 {
				sig := uint32(200)
				if rng.Intn(3) == 0 {
					sig = 106
				}
				b = append(b, next(sig, c13realSizes[rng.Intn(len(c13realSizes))]))
				for j := rng.Intn(4); j > 0; j-- { // small ones right behind it
					s2 := sig
					if rng.Intn(4) == 0 {
						s2 = 306 - sig
					}
					b = append(b, next(s2, rng.Pick(4, 9, 12, 100, 1000)))
				}
			}
			bursts = append(bursts, b)
		}
	}
	return bursts
}

func c13runReal(res *hx.Result, rng *hx.Rng, tier string) {
	ncases := 10
	if tier == "thorough" {
		ncases = 60
	}
	failed := 0
	for k := 0; k < ncases; k++ {
		bursts := c13realBursts(k, rng)
		for _, scheme := range []string{"unix", "tcp"} {
			if failed >= 3 {
				res.Notes = append(res.Notes, "C13 real transports: three cases failed, the rest of the family was skipped")
				return
			}
			var canon []string
			nem, nbig := 0, 0
			for _, b := range bursts {
				for _, e := range b {
					canon = append(canon, fmt.Sprintf("%d/%d", e.sig, e.size))
					nem++
					if e.size > 65536 {
						nbig++
					}
				}
				canon = append(canon, "|")
			}
			kind, detail := c13realCase(scheme, bursts)
			res.Count("real;"+scheme+";"+strings.Join(canon, ";"), nem >= 2 && nbig >= 1)
			res.Dist("kind:real-transport-bursts")
			res.Dist("transport:" + scheme)
			res.Sample(fmt.Sprintf("real-transport-bursts on %s://: %d bursts, %d emissions, %d above 64 KB, 5 subscribers on 3 connections", scheme, len(bursts), nem, nbig))
			if kind != "" {
				failed++
				res.Fail(kind, detail)
			}
		}
	}
}
