package main

// C04 (x) — the optional per-object features that wrap the reply channel, switched on and off
// while SEVERAL connections call the object.
//
// Every object built with bus.NewBasicObject (all generated stubs) passes the channel a message came
// from through objectImpl.Tracer before its method runs: with the method statistics enabled
// (enableStats, action 81) the answer is sent through a statChannel, with the traces enabled
// (enableTrace, action 85, or a subscription to the traceObject signal 86) through a tracedChannel
// which first publishes an event to the subscribers.  Both are off by default and no other part
// of the harness switches them on, so everything the implementation keeps from one message to the
// next on that path (a wrapper, its channel, a counter) was never exercised.  The state survives
// the call that set it, the connection that set it and the run: this part is a sequence in ONE
// server process.
//
// One run = 2-4 fresh connections of real clients over the frame relay (+ in some runs the
// server's local client), and 3-4 phases on the objects of services 1, 2, 3 (what (ii) calls):
//   toggles   one caller (another one in every phase) switches statistics / traces on or off on
//             each object, clears the statistics, subscribes some caller to the trace signal or
//             removes the subscription;
//   in turn   every caller, one after the other in a random order: isStatsEnabled / isTraceEnabled
//             (must return what was last set), Hello(arg) on both PingPong objects, now and then
//             Nanoseconds() and stats();
//   gated     the clients are brought to the same message id (by calls to an object that does not
//             exist, which the connection goroutine refuses itself), then one caller's
//             Hello is held inside its method while every other caller issues a Hello to the same
//             object (same service/object/action and, on the wire, the same id) and one to the
//             other object; when all frames are written the first call is released;
//   timed     1-2 goroutines per caller issue calls to random objects while the toggling caller
//             keeps switching the features on and off; afterwards the settings are read back.
// Oracle, per call (unchanged): it returns within the deadline (call-without-outcome), a success
// carries the result of its own arguments ("re:"+arg+"#1", 42, the value last set, nothing) and its
// body ran once, and nothing but the refusal of a full consumer queue is accepted as an error.
// The frames of every relayed connection go through the trace check of C04Run (tcase): every
// answer on a connection answers exactly one Call of THAT connection, once, with the result of
// that call's payload (the replies of the generic actions: C04Run.reply_ok).

import (
	"bytes"
	"encoding/binary"
	"fmt"
	"sync"
	"sync/atomic"
	"time"

	"github.com/lugu/qiloop/bus"
	"github.com/lugu/qiloop/bus/net"
	"qv/internal/hx"
)

const (
	c04FeatDeadline = 3 * time.Second
	c04TraceSignal  = 86
)

type c04FeatCaller struct {
	name   string
	client bus.Client
	link   *c04Link // nil: the server's local client
	calls  int      // calls issued through this client (a fresh client numbers them 3, 5, 7, ...)
}

// what a call of this part is expected to return
const (
	fkHello = iota
	fkPing
	fkNanos
	fkVoid
	fkBool
	fkStats
	fkRegister
	fkNoObject // a call to an object that does not exist: refused by the connection goroutine itself
	fkRefused  // part (xi): a registerEvent / unregisterEvent the object refuses (user id in use / unknown)
	fkObjectID // part (xii): the registrar of service 5 returns the id of the published object (4 bytes)
)

type c04FeatCall struct {
	who      int
	obj      uint32 // 0: object 1
	svc, act uint32
	payload  []byte
	kind     int
	arg      string // Hello / Ping
	want     bool   // fkBool
	what     string // the call in words
	mu       sync.Mutex
	issued   bool
	out      []byte
	err      error
	returned bool
}

type c04FeatState struct {
	stats, trace map[uint32]bool
	events       int64 // trace events received by subscribers (atomic)
	user         uint64
}

type c04FeatRun struct {
	h       *c04Harness
	res     *hx.Result
	scen    string
	callers []*c04FeatCaller
	st      *c04FeatState
	hung    int
	seq     int
	tag     string
}

func c04Bool(b bool) []byte {
	if b {
		return []byte{1}
	}
	return []byte{0}
}

// start: the call is issued by a goroutine of its own
func (r *c04FeatRun) start(c *c04FeatCall) <-chan struct{} {
	cl := r.callers[c.who]
	cl.calls++
	c.mu.Lock()
	c.issued = true
	c.mu.Unlock()
	done := make(chan struct{})
	go func() {
		obj := uint32(1)
		if c.obj != 0 {
			obj = c.obj
		}
		out, err := cl.client.Call(nil, c.svc, obj, c.act, c.payload)
		c.mu.Lock()
		c.out, c.err, c.returned = out, err, true
		c.mu.Unlock()
		close(done)
	}()
	return done
}

// judge: the C04 oracle for one call of this part
func (r *c04FeatRun) judge(c *c04FeatCall, phase string) {
	c.mu.Lock()
	out, err, returned := c.out, c.err, c.returned
	c.mu.Unlock()
	desc := fmt.Sprintf("%s; %s: %s to service %d (action %d) by %s", r.scen, phase, c.what, c.svc, c.act, r.callers[c.who].name)
	n := -1
	switch c.kind {
	case fkHello:
		n = r.h.cnt.get(c04Key(int(c.svc), "hello", c.arg))
	case fkPing:
		n = r.h.cnt.get(c04Key(int(c.svc), "ping", c.arg))
	}
	r.res.Count(desc, true)
	switch {
	case !returned:
		r.hung++
		ran := ""
		if n >= 0 {
			ran = fmt.Sprintf("; its method body ran %d time(s)", n)
		}
		r.res.Fail("call-without-outcome", fmt.Sprintf("%s: still pending after %v (no reply, no error%s): zero outcomes instead of exactly one", desc, c04FeatDeadline, ran))
	case c.kind == fkNoObject:
		if err == nil {
			r.res.Fail("wrong-or-foreign-result", fmt.Sprintf("%s returned %x without error: there is no such object, the result is another call's", desc, out))
		}
	case c.kind == fkRefused:
		// the refusal (an Error frame) is its outcome; whether the object refuses is not C04's business
		if err == nil {
			r.res.Dist("outcome:refusal-expected-but-served")
		}
	case err == nil && c.kind == fkObjectID:
		if len(out) != 4 {
			r.res.Fail("wrong-or-foreign-result", fmt.Sprintf("%s returned %x without error, which is not an object id", desc, out))
		}
	case err == nil:
		var want []byte
		switch c.kind {
		case fkHello:
			want = c04Str("re:" + c.arg + "#1")
		case fkNanos:
			want = make([]byte, 8)
			binary.LittleEndian.PutUint64(want, 42)
		case fkBool:
			want = c04Bool(c.want)
		case fkRegister:
			want = c.payload[8:]
		}
		if c.kind == fkStats {
			if len(out) < 4 {
				r.res.Fail("wrong-or-foreign-result", fmt.Sprintf("%s returned %x without error, which is not a map of method statistics", desc, out))
			}
		} else if !bytes.Equal(out, want) {
			s, _ := c04DecodeStr(out)
			r.res.Fail("wrong-or-foreign-result", fmt.Sprintf("%s returned %x (%q) without error, its own result is %x", desc, out, s, want))
		}
		if n >= 0 && n != 1 {
			r.res.Fail("successful-call-exec-count", fmt.Sprintf("%s succeeded but its method body ran %d times", desc, n))
		}
	default:
		if n > 1 {
			r.res.Fail("failed-call-ran-more-than-once", fmt.Sprintf("%s ended with %v and its method body ran %d times", desc, err, n))
		}
		if err.Error() == net.ErrConsumerBlocked.Error() {
			r.res.Dist("outcome:consumer-blocked")
			if n > 0 {
				r.res.Fail("dropped-call-ran", fmt.Sprintf("%s was refused with %q but its method body ran %d time(s)", desc, err, n))
			}
		} else {
			r.res.Fail("call-failed-unexpectedly", fmt.Sprintf("%s ended with %v", desc, err))
		}
	}
}

// one: a call made and judged before anything else happens
func (r *c04FeatRun) one(c *c04FeatCall, phase string) {
	c04WaitCh(r.start(c), c04FeatDeadline)
	r.judge(c, phase)
}

func (r *c04FeatRun) hello(who int, svc uint32) *c04FeatCall {
	r.seq++
	arg := fmt.Sprintf("%s-n%d-%s", r.tag, r.seq, r.callers[who].name)
	return &c04FeatCall{who: who, svc: svc, act: 100, payload: c04Str(arg), kind: fkHello, arg: arg, what: fmt.Sprintf("Hello(%q)", arg)}
}
func (r *c04FeatRun) ping(who int, svc uint32) *c04FeatCall {
	r.seq++
	arg := fmt.Sprintf("%s-p%d-%s", r.tag, r.seq, r.callers[who].name)
	return &c04FeatCall{who: who, svc: svc, act: 101, payload: c04Str(arg), kind: fkPing, arg: arg, what: fmt.Sprintf("Ping(%q)", arg)}
}
func (r *c04FeatRun) noObject(who int) *c04FeatCall {
	return &c04FeatCall{who: who, svc: 1, obj: 77, act: 100, payload: c04Str("nobody"), kind: fkNoObject, what: "Hello(\"nobody\") for object 77, which does not exist,"}
}
func (r *c04FeatRun) nanos(who int) *c04FeatCall {
	return &c04FeatCall{who: who, svc: 2, act: 100, kind: fkNanos, what: "Nanoseconds()"}
}
func (r *c04FeatRun) readback(who int, svc uint32, trace bool) *c04FeatCall {
	if trace {
		return &c04FeatCall{who: who, svc: svc, act: 84, kind: fkBool, want: r.st.trace[svc], what: fmt.Sprintf("isTraceEnabled() (last set: %v)", r.st.trace[svc])}
	}
	return &c04FeatCall{who: who, svc: svc, act: 80, kind: fkBool, want: r.st.stats[svc], what: fmt.Sprintf("isStatsEnabled() (last set: %v)", r.st.stats[svc])}
}
func (r *c04FeatRun) setStats(who int, svc uint32, on bool) *c04FeatCall {
	return &c04FeatCall{who: who, svc: svc, act: 81, payload: c04Bool(on), kind: fkVoid, what: fmt.Sprintf("enableStats(%v)", on)}
}
func (r *c04FeatRun) setTrace(who int, svc uint32, on bool) *c04FeatCall {
	return &c04FeatCall{who: who, svc: svc, act: 85, payload: c04Bool(on), kind: fkVoid, what: fmt.Sprintf("enableTrace(%v)", on)}
}
func (r *c04FeatRun) clearStats(who int, svc uint32) *c04FeatCall {
	return &c04FeatCall{who: who, svc: svc, act: 83, kind: fkVoid, what: "clearStats()"}
}
func (r *c04FeatRun) getStats(who int, svc uint32) *c04FeatCall {
	return &c04FeatCall{who: who, svc: svc, act: 82, kind: fkStats, what: "stats()"}
}
func c04EventPayload(sig uint32, user uint64) []byte {
	p := make([]byte, 16)
	binary.LittleEndian.PutUint32(p, 1)
	binary.LittleEndian.PutUint32(p[4:], sig)
	binary.LittleEndian.PutUint64(p[8:], user)
	return p
}

type c04FeatSub struct {
	who    int
	svc    uint32
	user   uint64
	cancel func()
}

func (r *c04FeatRun) await(dones []<-chan struct{}) {
	deadline := time.After(c04FeatDeadline)
	for _, d := range dones {
		select {
		case <-d:
		case <-deadline:
			return
		}
	}
}

// written: every relayed caller's Call frames have been seen by the relay and read by the server
func (r *c04FeatRun) written() {
	deadline := time.Now().Add(c04TearStep)
	for _, cl := range r.callers {
		if cl.link == nil {
			continue
		}
		for time.Now().Before(deadline) {
			cl.link.mu.Lock()
			w := 0
			for _, f := range cl.link.c2s {
				if f.ty == net.Call {
					w++
				}
			}
			cl.link.mu.Unlock()
			if w >= cl.calls {
				break
			}
			time.Sleep(100 * time.Microsecond)
		}
		cl.link.ss.WaitIdle(20 * time.Millisecond)
	}
	time.Sleep(time.Millisecond)
}

func (h *c04Harness) featureRun(res *hx.Result, rng *hx.Rng, cases *hx.Cases, st *c04FeatState, k, nconn int, withLocal, last bool) (hung int) {
	r := &c04FeatRun{h: h, res: res, st: st, tag: fmt.Sprintf("ft%d", k)}
	for i := 0; i < nconn; i++ {
		l, err := h.newLink()
		if err != nil {
			res.Fail("harness", "feature run: "+err.Error())
			return 0
		}
		r.callers = append(r.callers, &c04FeatCaller{name: fmt.Sprintf("connection %c", 'A'+i), client: l.client, link: l})
	}
	if withLocal {
		r.callers = append(r.callers, &c04FeatCaller{name: "the server's local client", client: h.srv.Client()})
	}
	r.scen = fmt.Sprintf("feature run %d (%d connections of real clients over the frame relay%s; statistics and traces of the objects of services 1-3 switched on and off between and during the calls)",
		k, nconn, map[bool]string{true: " + the server's local client", false: ""}[withLocal])
	res.Sample(r.scen)
	res.Dist(fmt.Sprintf("features:%dconn:local=%v", nconn, withLocal))
	var subs []*c04FeatSub
	defer func() {
		for _, s := range subs {
			s.cancel()
		}
		for _, cl := range r.callers {
			if cl.link != nil {
				cl.link.ep.Close()
			}
		}
	}()
	svcs := []uint32{1, 2, 3}
	nc := len(r.callers)
	stop := func() bool { return r.hung >= 3 }
	describe := func() string {
		s := ""
		for _, v := range svcs {
			s += fmt.Sprintf(" service %d: statistics %v traces %v;", v, st.stats[v], st.trace[v])
		}
		return s
	}
	phases := 3 + rng.Intn(2)
	for ph := 0; ph < phases && !stop(); ph++ {
		ctl := (k + ph) % nc
		// ---- toggles ----
		pn := fmt.Sprintf("phase %d, switching", ph)
		for _, v := range svcs {
			force := ph == 0 && (v == uint32(1+2*(k%2)) || k == 1)
			if force || rng.Chance(0.5) {
				on := force || !st.stats[v] || rng.Chance(0.3)
				if ph == phases-1 && last {
					on = false
				}
				r.one(r.setStats(ctl, v, on), pn)
				st.stats[v] = on
			}
			if rng.Chance(0.4) {
				on := !st.trace[v] || rng.Chance(0.3)
				r.one(r.setTrace(ctl, v, on), pn)
				st.trace[v] = on
			}
			if rng.Chance(0.2) {
				r.one(r.clearStats(ctl, v), pn)
			}
			if v != 2 && rng.Chance(0.35) && !stop() {
				// a subscription to the trace signal (it switches the traces on by itself)
				who := rng.Intn(nc)
				st.user++
				sub := &c04FeatSub{who: who, svc: v, user: st.user}
				cancel, events, err := r.callers[who].client.Subscribe(v, 1, c04TraceSignal)
				if err == nil {
					sub.cancel = cancel
					go func() {
						for range events {
							atomic.AddInt64(&st.events, 1)
						}
					}()
					c := &c04FeatCall{who: who, svc: v, act: 0, payload: c04EventPayload(c04TraceSignal, sub.user), kind: fkRegister,
						what: fmt.Sprintf("registerEvent(1, %d, %d) (subscription to the trace signal)", c04TraceSignal, sub.user)}
					r.one(c, pn)
					st.trace[v] = true
					subs = append(subs, sub)
				}
			} else if len(subs) > 0 && rng.Chance(0.3) {
				s := subs[0]
				subs = subs[1:]
				c := &c04FeatCall{who: s.who, svc: s.svc, act: 1, payload: c04EventPayload(c04TraceSignal, s.user), kind: fkVoid,
					what: fmt.Sprintf("unregisterEvent(1, %d, %d)", c04TraceSignal, s.user)}
				r.one(c, pn)
				s.cancel()
			}
		}
		set := describe()
		// ---- in turn ----
		inTurn := func() {
			pn := fmt.Sprintf("phase %d (%s), callers in turn", ph, set)
			order := c04Perm(rng, nc)
			for _, who := range order {
				if stop() {
					break
				}
				for _, v := range svcs {
					r.one(r.readback(who, v, rng.Bool()), pn)
					if v == 2 {
						if rng.Chance(0.5) {
							r.one(r.nanos(who), pn)
						}
					} else {
						r.one(r.hello(who, v), pn)
					}
					if rng.Chance(0.15) {
						r.one(r.getStats(who, v), pn)
					}
				}
			}
		}
		// ---- gated wave: same message id on every connection, one call held in its method ----
		gated := func() {
			target := uint32(rng.Pick(1, 3))
			other := 4 - target
			max := 0
			for _, cl := range r.callers {
				if cl.link != nil && cl.calls > max {
					max = cl.calls
				}
			}
			pn := fmt.Sprintf("phase %d (%s), bringing the clients to the same message id by calls the connection goroutine refuses itself", ph, set)
			for who, cl := range r.callers {
				for cl.link != nil && cl.calls < max && !stop() {
					r.one(r.noObject(who), pn)
				}
			}
			first := rng.Intn(nc)
			nextID := 3 + 2*max
			pn = fmt.Sprintf("phase %d (%s), gated wave: the Hello of %s to service %d is held inside its method while every other caller issues a Hello to the same object (message id %d on every relayed connection) and one to service %d, then released",
				ph, set, r.callers[first].name, target, nextID, other)
			c0 := r.hello(first, target)
			held, release := h.cnt.hold(c04Key(int(target), "hello", c0.arg))
			calls := []*c04FeatCall{c0}
			dones := []<-chan struct{}{r.start(c0)}
			if !c04WaitCh(held, c04TearStep) {
				h.note(fmt.Sprintf("feature run %d phase %d: the held call did not reach its method", k, ph))
			}
			for _, who := range c04Perm(rng, nc) {
				if who == first {
					continue
				}
				c := r.hello(who, target)
				calls = append(calls, c)
				dones = append(dones, r.start(c))
			}
			r.written()
			for _, who := range c04Perm(rng, nc) {
				c := r.hello(who, other)
				calls = append(calls, c)
				dones = append(dones, r.start(c))
			}
			r.written()
			release()
			r.await(dones)
			for _, c := range calls {
				r.judge(c, pn)
			}
			res.Dist("features:gated-wave")
		}
		// the first use after the switch: the callers in turn, or (every other phase) at once
		if (k+ph)%2 == 0 {
			inTurn()
			if !stop() {
				gated()
			}
		} else {
			gated()
			if !stop() {
				inTurn()
			}
		}
		if stop() {
			break
		}
		// ---- timed wave: calls from every caller while the features are switched on and off ----
		pn = fmt.Sprintf("phase %d (from %s), timed wave: every caller calls random objects while %s switches statistics and traces on and off", ph, set, r.callers[ctl].name)
		var wmu sync.Mutex
		var wcalls []*c04FeatCall
		var wg sync.WaitGroup
		seed := rng.U64()
		for who := range r.callers {
			for g := 0; g < 1+rng.Intn(2); g++ {
				var mine []*c04FeatCall
				gr := hx.NewRng(seed + uint64(who*100+g))
				for i := 0; i < 3+gr.Intn(4); i++ {
					switch x := gr.Intn(10); {
					case x < 1:
						mine = append(mine, r.nanos(who))
					case x < 2:
						mine = append(mine, r.ping(who, uint32(gr.Pick(1, 3))))
					default:
						mine = append(mine, r.hello(who, uint32(gr.Pick(1, 3))))
					}
				}
				wcalls = append(wcalls, mine...)
				wg.Add(1)
				go func(mine []*c04FeatCall) {
					defer wg.Done()
					for _, c := range mine {
						wmu.Lock()
						d := r.start(c)
						wmu.Unlock()
						if !c04WaitCh(d, c04FeatDeadline) {
							return
						}
					}
				}(mine)
			}
		}
		var toggles []*c04FeatCall
		for i := 0; i < 4+rng.Intn(5); i++ {
			v := svcs[rng.Intn(3)]
			switch x := rng.Intn(5); {
			case x < 2:
				on := !st.stats[v]
				if ph == phases-1 && last {
					on = false
				}
				toggles = append(toggles, r.setStats(ctl, v, on))
				st.stats[v] = on
			case x < 4:
				on := !st.trace[v]
				toggles = append(toggles, r.setTrace(ctl, v, on))
				st.trace[v] = on
			default:
				toggles = append(toggles, r.clearStats(ctl, v))
			}
		}
		wg.Add(1)
		go func() {
			defer wg.Done()
			for _, c := range toggles {
				wmu.Lock()
				d := r.start(c)
				wmu.Unlock()
				if !c04WaitCh(d, c04FeatDeadline) {
					return
				}
				time.Sleep(50 * time.Microsecond)
			}
		}()
		wdone := make(chan struct{})
		go func() { wg.Wait(); close(wdone) }()
		c04WaitCh(wdone, 2*c04FeatDeadline)
		r.judgeIssued(wcalls, toggles, pn)
		res.Dist("features:timed-wave")
		if stop() {
			break
		}
		// the settings after the wave, read by a caller that did not set them
		pn = fmt.Sprintf("phase %d, after the timed wave (%s)", ph, describe())
		who := (ctl + 1) % nc
		for _, v := range svcs {
			r.one(r.readback(who, v, false), pn)
			r.one(r.readback(who, v, true), pn)
		}
	}
	if last && !stop() {
		// leave the objects as the other parts of the harness expect them
		for _, v := range svcs {
			r.one(r.setStats(0, v, false), "end of the last run")
			r.one(r.setTrace(0, v, false), "end of the last run")
			st.stats[v], st.trace[v] = false, false
		}
	}
	for li, cl := range r.callers {
		if cl.link == nil {
			continue
		}
		cl.link.cs.WaitIdle(c04FeatDeadline)
		cl.link.ss.WaitIdle(c04FeatDeadline)
		cases.Add("ts", c04TraceTerm(cl.link), fmt.Sprintf("feature run %d connection %d: frames written by the client and by the server", k, li))
	}
	return r.hung
}

// judgeIssued: the calls of a timed wave; a goroutine of the wave stops at its first call without
// outcome, the calls it did not issue any more are not judged
func (r *c04FeatRun) judgeIssued(wcalls, toggles []*c04FeatCall, phase string) {
	for _, c := range append(append([]*c04FeatCall{}, wcalls...), toggles...) {
		c.mu.Lock()
		issued := c.issued
		c.mu.Unlock()
		if issued {
			r.judge(c, phase)
		}
	}
}

func (h *c04Harness) features(res *hx.Result, rng *hx.Rng, cases *hx.Cases, tier string) {
	st := &c04FeatState{stats: map[uint32]bool{}, trace: map[uint32]bool{}, user: 0x7000}
	runs := 6
	if tier == "thorough" {
		runs = 100
	}
	for k := 1; k <= runs; k++ {
		nconn := 2 + (k+1)%3
		if h.featureRun(res, rng, cases, st, k, nconn, k%3 == 0, k == runs) > 0 {
			// answers go astray: every further run would wait for its deadlines again
			h.note(fmt.Sprintf("feature runs: stopped after run %d, calls did not return", k))
			// the other parts of the harness expect the features off: best effort, outcomes not judged
			for _, v := range []uint32{1, 2, 3} {
				for _, act := range []uint32{81, 85} {
					done := make(chan struct{})
					go func(v, act uint32) { h.local.Call(nil, v, 1, act, c04Bool(false)); close(done) }(v, act)
					c04WaitCh(done, 300*time.Millisecond)
				}
			}
			break
		}
	}
	if atomic.LoadInt64(&st.events) == 0 {
		h.note("feature runs: no trace event reached a subscriber")
	}
	res.Dist(fmt.Sprintf("features:trace-events-seen=%v", atomic.LoadInt64(&st.events) > 0))
}

func c04Perm(r *hx.Rng, n int) []int {
	p := make([]int, n)
	for i := range p {
		p[i] = i
	}
	for i := n - 1; i > 0; i-- {
		j := r.Intn(i + 1)
		p[i], p[j] = p[j], p[i]
	}
	return p
}
