package main

// Harness-owned transport for the properties C06 and C04: in-memory net.Stream / net.Listener
// whose every Read, Write and Close goes through harness code, and an event log.

import (
	"bytes"
	"context"
	"errors"
	"fmt"
	"io"
	"sync"
	"time"

	"github.com/lugu/qiloop/bus/net"
)

var errAhClosed = errors.New("harness stream closed")

// ahStream is one direction-pair seen from the program under test: Read hands out what the
// harness injected (or what the relay forwards), Write gives complete frames to onFrame.
type ahStream struct {
	name string
	mu   sync.Mutex
	cond *sync.Cond
	in   []byte
	eof  bool // peer closed: Read returns io.EOF once `in` is drained
	shut bool // Close() was called by the program under test
	wbuf []byte
	// callbacks (called without s.mu held)
	onFrame func(m *net.Message)
	onClose func()
	// onBytes, when set, receives the raw bytes of every Write instead of parsed frames (frames
	// that net.Message.Read itself refuses, e.g. oversized ones, can only be relayed this way)
	onBytes func(b []byte)
	// idle is true while a Read call is blocked on an empty buffer
	idle bool
	// write gate: when set, the next Write blocks until the gate is closed (forced schedules)
	gate    chan struct{}
	gateHit chan struct{}
	// a Write after Close fails after this delay (a slow failing peer)
	shutWriteDelay time.Duration
}

func newAhStream(name string) *ahStream {
	s := &ahStream{name: name}
	s.cond = sync.NewCond(&s.mu)
	return s
}

func (s *ahStream) Read(p []byte) (int, error) {
	s.mu.Lock()
	defer s.mu.Unlock()
	for len(s.in) == 0 && !s.eof && !s.shut {
		s.idle = true
		s.cond.Broadcast()
		s.cond.Wait()
	}
	s.idle = false
	if s.shut {
		return 0, errAhClosed
	}
	if len(s.in) == 0 {
		return 0, io.EOF
	}
	n := copy(p, s.in)
	s.in = s.in[n:]
	return n, nil
}

// GateNextWrite makes the next Write of the program under test block until the returned release
// function is called; hit is signalled when a Write is waiting.
func (s *ahStream) GateNextWrite() (hit <-chan struct{}, release func()) {
	g, h := make(chan struct{}), make(chan struct{}, 1)
	s.mu.Lock()
	s.gate, s.gateHit = g, h
	s.mu.Unlock()
	var once sync.Once
	return h, func() { once.Do(func() { close(g) }) }
}

func (s *ahStream) Write(p []byte) (int, error) {
	s.mu.Lock()
	if g := s.gate; g != nil {
		h := s.gateHit
		s.gate, s.gateHit = nil, nil
		s.mu.Unlock()
		h <- struct{}{}
		select {
		case <-g:
		case <-time.After(20 * time.Second):
		}
		s.mu.Lock()
	}
	if s.shut {
		d := s.shutWriteDelay
		s.mu.Unlock()
		if d > 0 {
			time.Sleep(d)
		}
		return 0, errAhClosed
	}
	if rb := s.onBytes; rb != nil {
		s.mu.Unlock()
		rb(append([]byte(nil), p...))
		return len(p), nil
	}
	s.wbuf = append(s.wbuf, p...)
	var msgs []*net.Message
	for len(s.wbuf) >= net.HeaderSize {
		m := new(net.Message)
		r := bytes.NewReader(s.wbuf)
		if err := m.Read(r); err != nil {
			break // incomplete (or not a frame: kept, never completes)
		}
		s.wbuf = s.wbuf[len(s.wbuf)-r.Len():]
		msgs = append(msgs, m)
	}
	cb := s.onFrame
	s.mu.Unlock()
	if cb != nil {
		for _, m := range msgs {
			cb(m)
		}
	}
	return len(p), nil
}

func (s *ahStream) Close() error {
	s.mu.Lock()
	if s.shut {
		s.mu.Unlock()
		return nil
	}
	s.shut = true
	cb := s.onClose
	s.cond.Broadcast()
	s.mu.Unlock()
	if cb != nil {
		cb()
	}
	return nil
}

func (s *ahStream) String() string           { return s.name }
func (s *ahStream) Context() context.Context { return context.Background() }

// Inject makes bytes available to the reader of the program under test.
func (s *ahStream) Inject(b []byte) {
	s.mu.Lock()
	if !s.shut && !s.eof {
		s.in = append(s.in, b...)
		s.cond.Broadcast()
	}
	s.mu.Unlock()
}

// PeerClose: the reader gets io.EOF after the buffered bytes.
func (s *ahStream) PeerClose() {
	s.mu.Lock()
	s.eof = true
	s.cond.Broadcast()
	s.mu.Unlock()
}

func (s *ahStream) IsShut() bool {
	s.mu.Lock()
	defer s.mu.Unlock()
	return s.shut
}

// WaitIdle waits until the reader has consumed everything injected so far and is blocked in
// Read again (so every complete frame injected before has been dispatched), or the stream is shut.
func (s *ahStream) WaitIdle(d time.Duration) bool {
	deadline := time.Now().Add(d)
	s.mu.Lock()
	defer s.mu.Unlock()
	for !(s.shut || (s.idle && len(s.in) == 0)) {
		if time.Now().After(deadline) {
			return false
		}
		// cond has no timed wait: poll with a short sleep outside the lock
		s.mu.Unlock()
		time.Sleep(50 * time.Microsecond)
		s.mu.Lock()
	}
	return true
}

type ahListener struct {
	ch     chan net.Stream
	closed chan struct{}
	once   sync.Once
}

func newAhListener() *ahListener {
	return &ahListener{ch: make(chan net.Stream), closed: make(chan struct{})}
}
func (l *ahListener) Accept() (net.Stream, error) {
	select {
	case s := <-l.ch:
		return s, nil
	case <-l.closed:
		return nil, errors.New("listener closed")
	}
}
func (l *ahListener) Close() error {
	l.once.Do(func() { close(l.closed) })
	return nil
}

// Offer hands a stream to the server's accept loop.
func (l *ahListener) Offer(s net.Stream, d time.Duration) error {
	select {
	case l.ch <- s:
		return nil
	case <-l.closed:
		return errors.New("listener closed")
	case <-time.After(d):
		return errors.New("server does not accept")
	}
}

func ahEncode(typ uint8, svc, obj, act, id uint32, payload []byte) []byte {
	h := net.NewHeader(typ, svc, obj, act, id)
	m := net.NewMessage(h, payload)
	var b bytes.Buffer
	if err := m.Write(&b); err != nil {
		panic(fmt.Sprintf("encode frame: %v", err))
	}
	return b.Bytes()
}
