package main

// C14, the optional per-object features that wrap the channel of every incoming message — method
// statistics (enableStats) and traces (enableTrace, or a registration to the traceObject signal) —
// switched on and off again, by any connection, in the middle of ordinary use from several
// connections: registrations under the SAME user id on different connections (the connections do
// the same steps, so the handler slot numbers of their registrations coincide), writers on other
// connections than the subscribers (raw connections, the generated proxy, the second mailbox, the
// service itself), the object's other methods in between, and subscribers that leave by
// unregistering or by closing their connection.  Every accepted write must still give each
// remaining subscriber exactly one event, on its own connection.  The sequences run through
// c14RegistrySequence: same oracles, and (up to the first closed connection) the same step-by-step
// comparison with PropertySubs.sstep, for which these calls are SAux steps: no change, no event.

import (
	"fmt"
	"time"

	"github.com/lugu/qiloop/bus/net"
	"qv/internal/hx"
)

// waitAnswer waits for the ANSWER to the call with this message id: a reply or an error frame, taken
// already or not.  Event frames carry the message id of the registerEvent call they belong to: when
// traces are on, a registration to traceObject receives — under its own message id and before its
// reply — the trace of that very reply.
func (c *svConn) waitAnswer(id uint32, d time.Duration) *net.Message {
	deadline := time.Now().Add(d)
	stop := make(chan struct{})
	defer close(stop)
	go func() { // wake the waiter up at the deadline
		select {
		case <-time.After(d + 10*time.Millisecond):
			c.mu.Lock()
			c.cond.Broadcast()
			c.mu.Unlock()
		case <-stop:
		}
	}()
	c.mu.Lock()
	defer c.mu.Unlock()
	for {
		for i := range c.got {
			if c.got[i].Header.ID == id && (c.got[i].Header.Type == net.Reply || c.got[i].Header.Type == net.Error) {
				return &c.got[i]
			}
		}
		if c.dead || time.Now().After(deadline) {
			return nil
		}
		c.cond.Wait()
	}
}

const (
	c14TraceUID       = 0x56 // the traceObject signal
	c14ActMetaObject  = 2
	c14ActProperties  = 7
	c14ActIsStats     = 80
	c14ActEnableStats = 81
	c14ActStats       = 82
	c14ActClearStats  = 83
	c14ActIsTrace     = 84
	c14ActEnableTrace = 85
)

func c14AuxPayload(o c14ROp) []byte {
	switch o.action {
	case c14ActMetaObject:
		return svU32(1)
	case c14ActEnableStats, c14ActEnableTrace:
		if o.on {
			return []byte{1}
		}
		return []byte{0}
	}
	return nil
}

func c14AuxName(o c14ROp) string {
	switch o.action {
	case c14ActMetaObject:
		return "metaObject(1)"
	case c14ActProperties:
		return "properties()"
	case c14ActIsStats:
		return "isStatsEnabled()"
	case c14ActEnableStats:
		return fmt.Sprintf("enableStats(%v)", o.on)
	case c14ActStats:
		return "stats()"
	case c14ActClearStats:
		return "clearStats()"
	case c14ActIsTrace:
		return "isTraceEnabled()"
	case c14ActEnableTrace:
		return fmt.Sprintf("enableTrace(%v)", o.on)
	}
	return fmt.Sprintf("action%d()", o.action)
}

var c14FeatUIDPool = []uint64{42, 42, 42, 7, 1}
var c14FeatSigPool = []uint32{c14PropUID, c14PropUID, c14PropUID, c14PropUID, c14BoomUID, c14TraceUID}
var c14FeatOther = []uint32{c14ActMetaObject, c14ActProperties, c14ActIsStats, c14ActStats, c14ActClearStats, c14ActIsTrace}

// c14GenFOp: the next operation of a random sequence of the feature family
func c14GenFOp(rng *hx.Rng, active []c14Reg) c14ROp {
	x := rng.Intn(100)
	switch {
	case x < 11:
		return c14ROp{kind: 7, conn: rng.Intn(3), action: uint32(rng.Pick(c14ActEnableStats, c14ActEnableStats, c14ActEnableTrace)), on: rng.Chance(0.65)}
	case x < 18:
		return c14ROp{kind: 7, conn: rng.Intn(3), action: c14FeatOther[rng.Intn(len(c14FeatOther))]}
	case x < 40:
		obj := uint32(1)
		if rng.Intn(12) == 0 {
			obj = 0
		}
		return c14ROp{kind: 0, conn: rng.Intn(3), obj: obj, sig: c14FeatSigPool[rng.Intn(len(c14FeatSigPool))], uid: c14FeatUIDPool[rng.Intn(len(c14FeatUIDPool))]}
	case x < 50:
		o := c14ROp{kind: 1, conn: rng.Intn(3), obj: 1, sig: c14PropUID, uid: c14FeatUIDPool[rng.Intn(len(c14FeatUIDPool))]}
		if len(active) > 0 && rng.Chance(0.7) {
			a := active[rng.Intn(len(active))]
			o.conn, o.uid, o.sig = a.conn, a.uid, a.sig
		}
		return o
	case x < 54:
		return c14ROp{kind: 2, conn: rng.Intn(3)}
	case x < 72:
		v := c14Int(uint32(rng.Intn(50)))
		if rng.Intn(6) == 0 {
			v = c14Int(c14GenInt(rng))
		}
		return c14ROp{kind: 3, conn: rng.Intn(3), v: v}
	case x < 78:
		return c14ROp{kind: 4, x: c14GenInt(rng)}
	case x < 83:
		return c14ROp{kind: 8, v: c14Int(uint32(rng.Intn(50)))}
	case x < 94:
		return c14ROp{kind: 5, x: c14GenInt(rng)}
	case x < 97:
		return c14ROp{kind: 6, x: c14GenInt(rng)}
	}
	return c14ROp{kind: 9, conn: rng.Intn(3)}
}

// c14FeatureScripts: small-scope enumeration.  A feature setting is switched on by connection 2;
// the three connections do the same thing — registerEvent(delay) under user id 42 —; another method
// is called; the property is written from a raw connection, by the service, by the generated proxy
// (after the features went off again, or not), a write is rejected; the subscriber on connection 1
// leaves (unregisters, or closes its connection); writes by connection 0, through the second
// mailbox; finally connection 2 closes as well and the service writes once more.
func c14FeatureScripts() [][]c14ROp {
	var out [][]c14ROp
	for feat := 0; feat < 5; feat++ { // 0 none, 1 statistics, 2 traces, 3 both, 4 traces switched on by a registration to traceObject
		for off := 0; off < 2; off++ {
			for leave := 0; leave < 2; leave++ {
				var sc []c14ROp
				toggle := func(on bool, conn int) {
					if feat == 1 || feat == 3 {
						sc = append(sc, c14ROp{kind: 7, conn: conn, action: c14ActEnableStats, on: on})
					}
					if feat == 2 || feat == 3 || (feat == 4 && !on) {
						sc = append(sc, c14ROp{kind: 7, conn: conn, action: c14ActEnableTrace, on: on})
					}
					if feat == 4 && on {
						sc = append(sc, c14ROp{kind: 0, conn: conn, obj: 1, sig: c14TraceUID, uid: 9})
					}
				}
				toggle(true, 2)
				for c := 0; c < 3; c++ {
					sc = append(sc, c14ROp{kind: 0, conn: c, obj: 1, sig: c14PropUID, uid: 42})
				}
				sc = append(sc,
					c14ROp{kind: 7, conn: 1, action: uint32([]int{c14ActIsStats, c14ActIsTrace, c14ActMetaObject, c14ActStats, c14ActProperties}[feat])},
					c14ROp{kind: 3, conn: 2, v: c14Int(33)},
					c14ROp{kind: 5, x: 34})
				if off == 1 {
					toggle(false, 0)
				}
				sc = append(sc,
					c14ROp{kind: 4, x: 35},
					c14ROp{kind: 3, conn: 0, v: c14Int(0xffffffff)})
				if leave == 0 {
					sc = append(sc, c14ROp{kind: 1, conn: 1, obj: 1, sig: c14PropUID, uid: 42})
				} else {
					sc = append(sc, c14ROp{kind: 9, conn: 1})
				}
				sc = append(sc,
					c14ROp{kind: 3, conn: 0, v: c14Int(36)},
					c14ROp{kind: 8, v: c14Int(37)},
					c14ROp{kind: 6, x: 8},
					c14ROp{kind: 2, conn: 0})
				if leave == 0 {
					sc = append(sc, c14ROp{kind: 9, conn: 2}, c14ROp{kind: 3, conn: 0, v: c14Int(38)}, c14ROp{kind: 2, conn: 0})
				}
				out = append(out, sc)
			}
		}
	}
	return out
}

var c14FeatFamily = c14Family{"feat", c14GenFOp, func(rng *hx.Rng) int { return 16 + rng.Intn(15) }}

// c14Features runs the scripted sequences and n random ones.  It has a random stream of its own
// (derived from the seed), so that the families before and after it keep theirs.
func c14Features(res *hx.Result, cf *hx.Cases, n int) {
	rng := hx.NewRng(res.Seed*0x9e3779b97f4a7c15 + 0xc14fea7)
	wedged := 0
	for i, sc := range c14FeatureScripts() {
		if wedged < 3 && !c14RegistrySequence(res, rng, cf, i, sc, c14FeatFamily) {
			wedged++
		}
	}
	for i := 0; i < n && wedged < 3; i++ {
		if !c14RegistrySequence(res, rng, cf, i, nil, c14FeatFamily) {
			wedged++
		}
	}
}
