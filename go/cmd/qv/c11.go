package main

// c11.go — C11: losing the connection fails calls promptly.
// A real bus.Client over a real net.EndPoint runs on the harness stream of c11stream.go.  A
// scenario is a script of steps (register callback, subscribe, start a call = its Write is
// entered and held, let the Write return, deliver a frame in chosen fragments, read an event);
// the fault is injected at every position of the script and inside every Write and every
// fragmented frame, in several kinds.  For each run the harness writes the model labels it
// forced and what it observed (case for coq/run/C11Run.v), and evaluates the property oracles
// on the implementation's own behaviour.
// Further families: c11kinds.go / c11real.go (the kind of the failure, through the real wrappers and
// over the real transports), c11blocked.go (the loss seen first by a Write of the endpoint itself:
// the "consumer blocked" reply of dispatch), c11many.go (endpoints with many live handlers).

import (
	"bytes"
	"fmt"
	"io"
	"os"
	"sort"
	"strings"
	"sync/atomic"
	"time"

	"github.com/lugu/qiloop/bus"
	"github.com/lugu/qiloop/bus/net"

	"qv/internal/hx"
)

func init() { props["C11"] = runC11 }

type c11Step struct {
	kind  string // ondisc sub start finish frame readsub
	idx   int    // callback / subscription / call index
	owner string // frame: "call" or "sub" or "none"
	mtype uint8  // frame: message type
	frags []int  // frame: fragment sizes, 0 = rest
	psize int    // frame: size of its payload (0: the two or three bytes of c11Frame), see c11large.go
}

func (s c11Step) String() string {
	if s.kind == "frame" && s.psize > 0 {
		return fmt.Sprintf("frame(%s%d,t%d,payload=%d,%v)", s.owner, s.idx, s.mtype, s.psize, s.frags)
	}
	if s.kind == "frame" {
		return fmt.Sprintf("frame(%s%d,t%d,%v)", s.owner, s.idx, s.mtype, s.frags)
	}
	return fmt.Sprintf("%s%d", s.kind, s.idx)
}

type c11Fault struct {
	pos  int    // the fault fires before step pos (len(script) = after the last step) ...
	frag int    // ... or, if > 0, inside frame step pos after `frag` fragments were delivered
	kind string // rerr reof half lclose wpart dataeof; with an error kind: rkind dkind wkind0 wkindp
	ek   string // rkind dkind wkind*: name of the error kind (c11kinds.go)
	once bool   // ... reported by one Read only, io.EOF afterwards (false: by every Read)
}

func (f c11Fault) String() string {
	if f.ek == "" {
		return fmt.Sprintf("%s@%d.%d", f.kind, f.pos, f.frag)
	}
	p := "persistent"
	if f.once {
		p = "once-then-EOF"
	}
	return fmt.Sprintf("%s@%d.%d[%s,%s]", f.kind, f.pos, f.frag, f.ek, p)
}

type c11Scenario struct {
	name    string
	n, m, d int
	script  []c11Step
}

func (sc c11Scenario) String() string {
	it := make([]string, len(sc.script))
	for i, s := range sc.script {
		it[i] = s.String()
	}
	return fmt.Sprintf("%s[n=%d m=%d d=%d: %s]", sc.name, sc.n, sc.m, sc.d, strings.Join(it, " "))
}

// what one run observed
type c11Obs struct {
	labels         []string
	calls          []int // 0 not started, 1 nil error, 2 error, 3 hung
	callLat        []time.Duration
	subClosed      []bool
	subRead        []int
	subEarly       []bool // registered before the fault
	cbEarly        []bool
	cbCount        []int
	pendingAtFault int
	replied        []bool // reply frame completely delivered before the fault
	early          []bool // ... and before the call's Write returned
	payloadOK      []bool
	fail           []string
	opsTotal       int
	aborted        string
}

const (
	c11Service    = 1
	c11SubService = 2
)

func c11Frame(owner string, idx int, typ uint8, id uint32) []byte {
	var hdr net.Header
	var payload []byte
	switch owner {
	case "call":
		hdr = net.NewHeader(typ, c11Service, 1, uint32(100+idx), id)
		payload = []byte{byte(idx), 0x55, 0x66}
	case "sub":
		hdr = net.NewHeader(typ, c11SubService, 1, uint32(200+idx), 0)
		payload = []byte{0xee, byte(idx)}
	default:
		hdr = net.NewHeader(typ, 9, 9, 9, 0)
		payload = []byte{}
	}
	msg := net.NewMessage(hdr, payload)
	var buf bytes.Buffer
	if err := msg.Write(&buf); err != nil {
		panic(err)
	}
	return buf.Bytes()
}

func c11MType(t uint8) string {
	switch t {
	case net.Reply:
		return "TReply"
	case net.Error:
		return "TError"
	case net.Event:
		return "TEvent"
	case net.Cancelled:
		return "TCancelled"
	}
	return "TOther"
}

func c11MsgTerm(owner string, idx int, t uint8) string {
	switch owner {
	case "call":
		return fmt.Sprintf("MFor (OCall %d) %s", idx, c11MType(t))
	case "sub":
		return fmt.Sprintf("MFor (OSub %d) %s", idx, c11MType(t))
	}
	return "MNone"
}

// split cuts a frame according to fragment sizes (0 = the rest).
func c11Split(frame []byte, frags []int) [][]byte {
	var out [][]byte
	rest := frame
	for _, k := range frags {
		if len(rest) == 0 {
			break
		}
		if k <= 0 || k > len(rest) {
			k = len(rest)
		}
		out = append(out, rest[:k])
		rest = rest[k:]
	}
	if len(rest) > 0 {
		out = append(out, rest)
	}
	return out
}

var _ = io.EOF
var _ = atomic.AddInt32
var _ = bus.NewClient

func runC11(res *hx.Result, rng *hx.Rng, tier string, outdir string) {
	res.Rule = "at least one call is in flight (started, not yet answered) when the connection is lost"
	hang := 2 * time.Second
	scs := c11Fixed()
	nrand := 0
	if tier == "thorough" {
		nrand = 108
	}
	for k := 0; k < nrand; k++ {
		scs = append(scs, c11Random(rng, k))
	}
	var jobs []c11Job
	for _, sc := range scs {
		js := c11Jobs(sc)
		// late faults first: they have the most handlers registered before the loss
		sort.SliceStable(js, func(a, b int) bool { return js[a].f.pos > js[b].f.pos })
		jobs = append(jobs, js...)
	}
	// the same runs, and the loss in every kind of error, through the real wrapper of bus/net
	for si, sc := range scs {
		js := c11Jobs(sc)
		for k := range js {
			js[k].wrap = "conn"
		}
		js = append(js, c11KindJobs(sc, si)...)
		sort.SliceStable(js, func(a, b int) bool { return js[a].f.pos > js[b].f.pos })
		jobs = append(jobs, js...)
	}
	// the loss seen first by a Write of the endpoint itself (c11blocked.go)
	blocked := c11BlockedScenarios()
	for si, sc := range blocked {
		js := c11BlockedJobs(sc, si)
		for k := range js {
			js[k].fam = 1
		}
		sort.SliceStable(js, func(a, b int) bool { return js[a].f.pos > js[b].f.pos })
		jobs = append(jobs, js...)
	}
	// many live handlers (c11many.go): scenarios of a few dozen handlers, compared with the model
	manySizes := [][3]int{{3, 12, 8}, {4, 28, 16}}
	if tier == "thorough" {
		manySizes = append(manySizes, [3]int{5, 70, 40}, [3]int{6, 100, 50})
	}
	var many []c11Scenario
	for k, z := range manySizes {
		sc := c11ManyScenario(rng, fmt.Sprintf("many-handlers-%d", z[0]+z[1]+z[2]), z[0], z[1], z[2])
		many = append(many, sc)
		npos := 3
		if k > 0 {
			npos = 1
		}
		jobs = append(jobs, c11ManyJobs(rng, sc, npos)...)
	}
	// the loss strictly inside a large incoming frame (c11large.go)
	large := c11LargeScenarios(tier)
	for si, sc := range large {
		jobs = append(jobs, c11LargeJobs(sc, si)...)
	}
	if tier == "thorough" { // every run twice more: the goroutines after the loss are scheduled by the runtime
		jobs = append(append(append([]c11Job{}, jobs...), jobs...), jobs...)
	}
	if os.Getenv("C11_ONLY") != "" { // development aid: only the oracle-only runs over the real transports
		jobs = nil
	}
	obs := make([]*c11Obs, len(jobs))
	next := int32(-1)
	done := make(chan struct{})
	workers := 6
	for w := 0; w < workers; w++ {
		go func() {
			for {
				k := int(atomic.AddInt32(&next, 1))
				if k >= len(jobs) {
					done <- struct{}{}
					return
				}
				if atomic.LoadInt32(&c11HungFail) >= 3 || atomic.LoadInt32(&c11Hung[jobs[k].fam]) >= 24 {
					continue // enough hung runs: the rest would only wait
				}
				obs[k] = c11Exec(jobs[k].sc, jobs[k].f, jobs[k].hold, jobs[k].wrap, jobs[k].fam, hang)
			}
		}()
	}
	for w := 0; w < workers; w++ {
		<-done
	}
	cf := hx.NewCases(outdir, "C11", "From QV Require Import ConnLoss C11Run.", "mismatches ccases", res, "ccases", "ccase")
	cf.Extra = append(cf.Extra, "Definition cfg_observed := cfg0.")
	var maxLat time.Duration
	aborted, ops, skipped, same, big := 0, 0, 0, 0, 0
	seen := map[string]bool{}
	for k, j := range jobs {
		o := obs[k]
		if o == nil {
			skipped++
			continue
		}
		desc := fmt.Sprintf("%s fault=%s hold=%v", j.sc.String(), j.f.String(), j.hold)
		if j.wrap != "" {
			desc += " stream=net.ConnStream(gated net.Conn)"
		}
		res.Count(desc, o.pendingAtFault >= 1)
		res.Dist("fault:" + j.f.kind)
		if j.f.ek != "" {
			res.Dist("errkind:" + j.f.ek)
		}
		res.Dist(fmt.Sprintf("pending:%d", o.pendingAtFault))
		ops += o.opsTotal
		if o.aborted != "" {
			aborted++
			res.Fail("c11-schedule", fmt.Sprintf("%s: the harness could not drive the client through the schedule: %s; labels so far: %s",
				desc, o.aborted, strings.Join(o.labels, "; ")))
			continue
		}
		for _, l := range o.callLat {
			if l > maxLat {
				maxLat = l
			}
		}
		for _, f := range o.fail {
			res.Fail("c11-oracle", fmt.Sprintf("%s: %s | forced labels: %s", desc, f, strings.Join(o.labels, "; ")))
		}
		term := c11CaseTerm(j.sc, o)
		if (j.wrap != "" || j.fam == 2 || j.dedup) && seen[term] {
			same++ // forced labels and observations identical to a case already written: nothing new for the model
			continue
		}
		seen[term] = true
		if j.fam == 2 { // the model takes up to a second on such a case: few of them per shard
			if big++; j.sc.n+j.sc.m+j.sc.d >= 40 || big%6 == 1 {
				cf.Flush()
			}
		}
		cf.Add("ccases", term, desc)
		if k%97 == 0 {
			res.Sample(desc + " => " + term)
		}
	}
	cf.Flush()
	if atomic.LoadInt32(&c11HungFail) == 0 {
		reps := 2
		if tier == "thorough" {
			reps = 20
		}
		c11RealPipe(res, hang, reps)
		c11RealKinds(res, hang, tier)
		c11OwnConnections(res, hang, tier)
		c11Sessions(res, rng, hang, tier)
	}
	res.Exhaustive = skipped == 0
	if skipped > 0 {
		res.Notes = append(res.Notes, fmt.Sprintf("%d runs skipped after %d runs hit a deadline", skipped, c11HungTotal()))
	}
	res.Notes = append(res.Notes,
		fmt.Sprintf("%d of the runs (through net.ConnStream, or with many handlers) gave a case term (forced labels + observations) already compared with the model and were not written again", same),
		fmt.Sprintf("%d scenarios, %d runs, %d stream operations in total; fault injected at every script position, inside every Write and after every fragment of every fragmented frame", len(scs)+len(blocked)+len(many)+len(large), len(jobs), ops),
		fmt.Sprintf("wall-clock bound asserted by the oracles: every wait %v; largest latency from loss (or release of the held Close) to a call's return: %v", hang, maxLat),
		"no defect switch is defined for C11: the pinned code showed no violation")
}
