package main

// C04 (viii) — calls issued WHILE the connection is being torn down.
//
// "Each call returns exactly one outcome": also a call that another goroutine issues while the
// endpoint of its client is busy losing the connection.  The endpoint learns about the loss in its
// reader goroutine (peer EOF, half-close, read error, a frame it cannot parse) or through a local
// Close(); between "the loss has been noticed" and "the stream is closed and the handler table is
// empty" there is a window in which a Write on the stream is still accepted.  A call that starts
// inside the window must end like every other call: one outcome (an error is fine) within a deadline.
//
// The client endpoint runs on a harness-owned wrapper (c04Tear) around the real stream - the
// client side of a frame relay to the real server, a TCP socket or a unix socket handed to the
// real server - with a gate (or a delay) inside Close() and inside the reader's error path, so
// that calls can be issued from other goroutines at four points:
//   phase 0  before the loss (pending: the first one is held inside its method)
//   phase 1  the reader has got its error from the stream and has not acted on it yet
//   phase 2  endPoint.closeWith is running: stream.Close() has been entered and has not completed
//   phase 3  stream.Close() has completed
// Gated scenarios force the phases; timed scenarios only make Close() and the error path slow
// (0.2-3 ms) and let goroutines that call in a loop run into the loss.

import (
	"encoding/binary"
	"errors"
	"fmt"
	gonet "net"
	"os"
	"path/filepath"
	"sort"
	"strings"
	"sync"
	"time"

	"github.com/lugu/qiloop/bus"
	"github.com/lugu/qiloop/bus/net"
	"qv/internal/hx"
)

const (
	c04TearHold = 20 * time.Second       // a gate nobody opens gives way after this
	c04TearStep = 1500 * time.Millisecond // waiting for a step of the scenario to be reached
	c04TearWait = 3 * time.Second        // every call must have returned this long after the tear-down completed
)

// c04Tear: the stream under the client endpoint.  Read, Write and Close go to the wrapped stream;
// the first Close() and the first failing Read() can be held (gate) or slowed down (delay).
type c04Tear struct {
	net.Stream
	mu sync.Mutex
	// Close()
	closeGate    bool
	closeDelay   time.Duration
	closeCalls   int
	closeEntered chan struct{} // closed when Close() is entered for the first time
	closeRelease chan struct{} // the gated Close() goes on when this is closed
	closeDone    chan struct{} // closed when the first Close() has closed the wrapped stream
	// the reader's error path
	readGate    bool
	readDelay   time.Duration
	readErrSeen bool
	readFailed  chan struct{} // closed when a Read of the wrapped stream returned an error
	readRelease chan struct{}
	// what the program under test wrote
	wbuf          []byte
	frames        int // complete frames written so far
	windowOpen    bool
	windowWrites  int // Writes accepted by the wrapped stream between the loss and the end of Close()
	windowRefused int
}

func newC04Tear(s net.Stream) *c04Tear {
	return &c04Tear{Stream: s, closeEntered: make(chan struct{}), closeRelease: make(chan struct{}), closeDone: make(chan struct{}),
		readFailed: make(chan struct{}), readRelease: make(chan struct{})}
}

func c04WaitCh(ch <-chan struct{}, d time.Duration) bool {
	select {
	case <-ch:
		return true
	case <-time.After(d):
		return false
	}
}

func (t *c04Tear) Read(p []byte) (int, error) {
	n, err := t.Stream.Read(p)
	if err != nil {
		t.mu.Lock()
		first := !t.readErrSeen
		t.readErrSeen = true
		gate, d := t.readGate, t.readDelay
		if first {
			t.windowOpen = true
		}
		t.mu.Unlock()
		if first {
			close(t.readFailed)
			if gate {
				c04WaitCh(t.readRelease, c04TearHold)
			} else if d > 0 {
				time.Sleep(d)
			}
		}
	}
	return n, err
}

func (t *c04Tear) Write(p []byte) (int, error) {
	n, err := t.Stream.Write(p)
	t.mu.Lock()
	if t.windowOpen {
		if err == nil {
			t.windowWrites++
		} else {
			t.windowRefused++
		}
	}
	if err == nil {
		t.wbuf = append(t.wbuf, p[:n]...)
		for len(t.wbuf) >= net.HeaderSize {
			size := int(binary.LittleEndian.Uint32(t.wbuf[8:12]))
			if len(t.wbuf) < net.HeaderSize+size {
				break
			}
			t.wbuf = append([]byte(nil), t.wbuf[net.HeaderSize+size:]...)
			t.frames++
		}
	}
	t.mu.Unlock()
	return n, err
}

func (t *c04Tear) Close() error {
	t.mu.Lock()
	t.closeCalls++
	first := t.closeCalls == 1
	gate, d := t.closeGate, t.closeDelay
	if first {
		t.windowOpen = true
	}
	t.mu.Unlock()
	if !first {
		// the reader after a local Close(), the harness tidying up
		return t.Stream.Close()
	}
	close(t.closeEntered)
	if gate {
		c04WaitCh(t.closeRelease, c04TearHold)
	} else if d > 0 {
		time.Sleep(d)
	}
	err := t.Stream.Close()
	t.mu.Lock()
	t.windowOpen = false
	t.mu.Unlock()
	close(t.closeDone)
	return err
}

func (t *c04Tear) framesWritten() int { t.mu.Lock(); defer t.mu.Unlock(); return t.frames }

// c04TearConn: a real client on a c04Tear stream, connected to the harness's real server
type c04TearConn struct {
	transport string
	t         *c04Tear
	ep        net.EndPoint
	client    bus.Client
	cs, ss    *ahStream  // "relay"
	cconn     gonet.Conn // "tcp", "unix"
	sconn     gonet.Conn
	tidy      []func()
}

func (h *c04Harness) newTearConn(transport, dir string, prepare func(*c04Tear)) (*c04TearConn, error) {
	h.nconn++
	c := &c04TearConn{transport: transport}
	name := fmt.Sprintf("c04tear%d", h.nconn)
	var inner net.Stream
	switch transport {
	case "relay":
		c.cs, c.ss = newAhStream(name+"-client"), newAhStream(name+"-server")
		cs, ss := c.cs, c.ss
		cs.onFrame = func(m *net.Message) { ss.Inject(c04Bytes(m)) }
		ss.onFrame = func(m *net.Message) { cs.Inject(c04Bytes(m)) }
		cs.onClose = func() { ss.PeerClose() }
		ss.onClose = func() { cs.PeerClose() }
		if err := h.lis.Offer(ss, c04Deadline); err != nil {
			return nil, err
		}
		inner = cs
		c.tidy = append(c.tidy, func() { ss.PeerClose(); cs.PeerClose() })
	case "tcp", "unix":
		network, addr := "tcp", "127.0.0.1:0"
		if transport == "unix" {
			network, addr = "unix", sockPath(dir, name+".sock")
		}
		lis, err := gonet.Listen(network, addr)
		if err != nil {
			return nil, err
		}
		defer lis.Close()
		type acc struct {
			c   gonet.Conn
			err error
		}
		ch := make(chan acc, 1)
		go func() { c, e := lis.Accept(); ch <- acc{c, e} }()
		cc, err := gonet.DialTimeout(network, lis.Addr().String(), c04Deadline)
		if err != nil {
			return nil, err
		}
		select {
		case a := <-ch:
			if a.err != nil {
				cc.Close()
				return nil, a.err
			}
			c.cconn, c.sconn = cc, a.c
		case <-time.After(c04Deadline):
			cc.Close()
			return nil, errors.New("accept timed out")
		}
		if transport == "unix" {
			p := addr
			c.tidy = append(c.tidy, func() {
				os.Remove(p)
				if filepath.Dir(p) != dir {
					os.Remove(filepath.Dir(p))
				}
			})
		}
		if err := h.lis.Offer(net.ConnStream(c.sconn), c04Deadline); err != nil {
			c.cconn.Close()
			c.sconn.Close()
			return nil, err
		}
		inner = net.ConnStream(c.cconn)
		cconn, sconn := c.cconn, c.sconn
		c.tidy = append(c.tidy, func() { sconn.Close(); cconn.Close() })
	default:
		return nil, errors.New("unknown transport " + transport)
	}
	c.t = newC04Tear(inner)
	if prepare != nil {
		prepare(c.t)
	}
	c.ep = net.NewEndPoint(c.t)
	if err := bus.AuthenticateUser(c.ep, "", ""); err != nil {
		c.close()
		return nil, fmt.Errorf("authenticate over %s: %v", transport, err)
	}
	c.client = bus.NewClient(bus.NewChannel(c.ep, bus.DefaultCap()))
	return c, nil
}

// close: open every gate, close the endpoint and both ends
func (c *c04TearConn) close() {
	c.t.mu.Lock()
	c.t.closeGate, c.t.readGate = false, false
	c.t.mu.Unlock()
	c04Once(c.t.readRelease)
	c04Once(c.t.closeRelease)
	if c.ep != nil {
		done := make(chan struct{})
		go func() { c.ep.Close(); close(done) }()
		c04WaitCh(done, c04Deadline)
	}
	for _, f := range c.tidy {
		f()
	}
}

func c04Once(ch chan struct{}) {
	defer func() { recover() }()
	select {
	case <-ch:
	default:
		close(ch)
	}
}

// the ways a connection is lost
var c04TearTriggers = []string{"peer-half-close", "peer-close", "read-error", "bad-frame", "local-close"}

// c04TearHasPhase1: the reader gets an error from the stream itself (so the gate in the error path
// is passed); a frame that cannot be parsed is refused by Message.Read, a local Close() does not
// involve the reader at all
func c04TearHasPhase1(trigger string) bool {
	return trigger == "peer-half-close" || trigger == "peer-close" || trigger == "read-error"
}

// fire: lose the connection in the given way.  Returns a description of what was done.
func (c *c04TearConn) fire(trigger string) (string, error) {
	garbage := []byte(strings.Repeat("\xab", 2*net.HeaderSize))
	switch trigger {
	case "peer-half-close":
		if c.cs != nil {
			c.cs.PeerClose()
			return "the server-to-client direction is closed (the client's reader gets EOF; what the client writes still reaches the server)", nil
		}
		type closeWriter interface{ CloseWrite() error }
		cw, ok := c.sconn.(closeWriter)
		if !ok {
			return "", errors.New("no CloseWrite on this connection")
		}
		return "the server side shuts down its sending direction (CloseWrite: FIN; the client's reader gets EOF, the client's writes are still accepted)", cw.CloseWrite()
	case "peer-close":
		if c.cs != nil {
			c.ss.PeerClose() // the server's reader gets EOF, the server closes its stream, the relay hands EOF to the client
			return "the server's connection is closed (EOF to the client's reader; what the client writes is accepted by the relay and goes nowhere)", nil
		}
		return "the server side of the socket is closed", c.sconn.Close()
	case "read-error":
		if c.cs != nil {
			// the relay has no way to make a Read fail other than EOF: EOF in the middle of a frame
			c.cs.Inject(ahEncode(net.Reply, 9, 9, 9, 0x7ffffff0, []byte("cut off"))[:net.HeaderSize+3])
			c.cs.PeerClose()
			return "the server-to-client direction ends in the middle of a frame (unexpected EOF in the client's reader)", nil
		}
		return "the client socket's read deadline expires (the reader gets a timeout error; the socket stays open in both directions)", c.cconn.SetReadDeadline(time.Now().Add(-time.Second))
	case "bad-frame":
		if c.cs != nil {
			c.cs.Inject(garbage)
			return "the client receives bytes that are not a frame (bad magic: Message.Read fails; the stream itself stays open in both directions)", nil
		}
		_, err := c.sconn.Write(garbage)
		return "the client receives bytes that are not a frame (bad magic: Message.Read fails; the socket stays open in both directions)", err
	case "local-close":
		go c.ep.Close()
		return "another goroutine calls EndPoint.Close()", nil
	}
	return "", errors.New("unknown trigger " + trigger)
}

type c04TearCall struct {
	phase    int
	gor      int
	arg      string
	svc      uint32
	out      string
	raw      []byte
	err      error
	returned bool
	issued   bool
}

// tearCalls: the calls of one scenario, each in its own goroutine
type c04TearCalls struct {
	mu    sync.Mutex
	calls []*c04TearCall
	wg    sync.WaitGroup
}

func (tc *c04TearCalls) issue(client bus.Client, phase int, svc uint32, arg string) *c04TearCall {
	c := &c04TearCall{phase: phase, arg: arg, svc: svc, issued: true}
	tc.mu.Lock()
	c.gor = len(tc.calls)
	tc.calls = append(tc.calls, c)
	tc.mu.Unlock()
	tc.wg.Add(1)
	go func() {
		defer tc.wg.Done()
		out, err := client.Call(nil, svc, 1, 100, c04Str(arg))
		s, ok := c04DecodeStr(out)
		tc.mu.Lock()
		c.out, c.err, c.returned = s, err, true
		if err == nil && !ok {
			c.raw = append([]byte{}, out...)
		}
		tc.mu.Unlock()
	}()
	return c
}

func (tc *c04TearCalls) returnedOf(phase int) (n, of int) {
	tc.mu.Lock()
	defer tc.mu.Unlock()
	for _, c := range tc.calls {
		if c.phase == phase {
			of++
			if c.returned {
				n++
			}
		}
	}
	return
}

// settle: the calls of this phase have written their frame (or have returned already)
func (tc *c04TearCalls) settle(t *c04Tear, phase, framesBefore int) {
	deadline := time.Now().Add(c04TearStep)
	for time.Now().Before(deadline) {
		ret, of := tc.returnedOf(phase)
		if t.framesWritten()-framesBefore+ret >= of {
			return
		}
		time.Sleep(50 * time.Microsecond)
	}
}

func (tc *c04TearCalls) waitAll(d time.Duration) bool {
	done := make(chan struct{})
	go func() { tc.wg.Wait(); close(done) }()
	return c04WaitCh(done, d)
}

var c04PhaseNames = []string{
	"before the loss",
	"after the reader got its error from the stream and before it acted on it",
	"while endPoint.closeWith was running (stream.Close() entered, not completed)",
	"after stream.Close() had completed",
	"after the loss had been triggered (during or after the tear-down)",
}

// evaluate the calls of one scenario; scen describes it
func (h *c04Harness) tearOracle(res *hx.Result, scen string, calls []*c04TearCall, deadline time.Duration, countEach bool) (hung int) {
	if !countEach {
		// how many calls a loop gets through before the loss depends on the machine: one case per run
		res.Count(scen, true)
	}
	for _, c := range calls {
		key := c04Key(int(c.svc), "hello", c.arg)
		n := h.cnt.get(key)
		desc := fmt.Sprintf("%s; call Hello(%q) to service %d issued by goroutine %d %s", scen, c.arg, c.svc, c.gor, c04PhaseNames[c.phase])
		switch {
		case !c.returned:
			hung++
			res.Fail("call-without-outcome", fmt.Sprintf("%s: still pending %v after the tear-down completed (no reply, no error; its method body ran %d time(s)): zero outcomes instead of exactly one", desc, deadline, n))
		case c.err == nil:
			want := "re:" + c.arg + "#1"
			if c.raw != nil || c.out != want {
				res.Fail("wrong-or-foreign-result", fmt.Sprintf("%s returned %q %x without error, its own result is %q", desc, c.out, c.raw, want))
			}
			if n != 1 {
				res.Fail("successful-call-exec-count", fmt.Sprintf("%s succeeded but its method body ran %d times", desc, n))
			}
			res.Dist("teardown-outcome:phase" + fmt.Sprint(c.phase) + ":result")
		default:
			if n > 1 {
				res.Fail("failed-call-ran-more-than-once", fmt.Sprintf("%s ended with %v and its method body ran %d times", desc, c.err, n))
			}
			res.Dist("teardown-outcome:phase" + fmt.Sprint(c.phase) + ":error")
		}
		if countEach {
			res.Count(desc, true)
		}
	}
	return hung
}

// tearGated: one forced scenario.  np[k] = number of calls issued in phase k.
func (h *c04Harness) tearGated(res *hx.Result, rng *hx.Rng, cases *hx.Cases, k int, transport, trigger string, np [4]int, dir string) (hung int) {
	phase1 := c04TearHasPhase1(trigger)
	if !phase1 {
		np[1] = 0
	}
	conn, err := h.newTearConn(transport, dir, func(t *c04Tear) { t.closeGate, t.readGate = true, phase1 })
	if err != nil {
		res.Fail("harness", fmt.Sprintf("tear-down scenario %d: %s connection: %v", k, transport, err))
		return 0
	}
	defer conn.close()
	t := conn.t
	tag := fmt.Sprintf("td%d", k)
	if o, e := c04CallT(conn.client, 3, 100, c04Str(tag+"-sanity")); e != nil || string(o) != string(c04Str("re:"+tag+"-sanity#1")) {
		res.Fail("wrong-or-foreign-result", fmt.Sprintf("tear-down scenario %d (%s): before anything else Hello(%q) returned %x, %v", k, transport, tag+"-sanity", o, e))
		return 1
	}
	tc := &c04TearCalls{}
	arg := func(phase, i int) string { return fmt.Sprintf("%s-p%di%d", tag, phase, i) }
	// phase 0: pending calls; the first is inside its method, the others wait behind it in the mailbox
	held, release := h.cnt.hold(c04Key(1, "hello", arg(0, 0)))
	defer release()
	f0 := t.framesWritten()
	for i := 0; i < np[0]; i++ {
		tc.issue(conn.client, 0, 1, arg(0, i))
		if i == 0 && !c04WaitCh(held, c04TearStep) {
			h.note(fmt.Sprintf("tear-down scenario %d: the pending call did not reach its method", k))
		}
	}
	tc.settle(t, 0, f0)
	what, err := conn.fire(trigger)
	if err != nil {
		h.note(fmt.Sprintf("tear-down scenario %d: %s on %s: %v", k, trigger, transport, err))
		return 0
	}
	reached := []string{}
	if phase1 {
		if c04WaitCh(t.readFailed, c04TearStep) {
			reached = append(reached, "reader-error")
			f := t.framesWritten()
			for i := 0; i < np[1]; i++ {
				tc.issue(conn.client, 1, uint32(rng.Pick(1, 3)), arg(1, i))
			}
			tc.settle(t, 1, f)
		} else {
			h.note(fmt.Sprintf("tear-down scenario %d (%s, %s): the client's reader did not get an error", k, transport, trigger))
			np[1] = 0
		}
		c04Once(t.readRelease)
	}
	if c04WaitCh(t.closeEntered, c04TearStep) {
		reached = append(reached, "closing")
		f := t.framesWritten()
		for i := 0; i < np[2]; i++ {
			tc.issue(conn.client, 2, uint32(rng.Pick(1, 3)), arg(2, i))
		}
		tc.settle(t, 2, f)
	} else {
		h.note(fmt.Sprintf("tear-down scenario %d (%s, %s): the endpoint did not close its stream", k, transport, trigger))
		np[2] = 0
	}
	t.mu.Lock()
	accepted, refused := t.windowWrites, t.windowRefused
	t.mu.Unlock()
	c04Once(t.closeRelease)
	if c04WaitCh(t.closeDone, c04TearStep) {
		reached = append(reached, "closed")
	}
	for i := 0; i < np[3]; i++ {
		tc.issue(conn.client, 3, uint32(rng.Pick(1, 3)), arg(3, i))
	}
	all := tc.waitAll(c04TearWait)
	release()
	tc.mu.Lock()
	calls := append([]*c04TearCall{}, tc.calls...)
	snap := make([]*c04TearCall, len(calls))
	for i, c := range calls {
		cp := *c
		snap[i] = &cp
	}
	tc.mu.Unlock()
	conn.close()
	h.flushMailboxes()
	scen := fmt.Sprintf("tear-down scenario %d: real client over %s (stream wrapper with a gate inside Close() and inside the reader's error path), %d call(s) pending, then %s; calls issued from other goroutines: %d with the reader's error held, %d inside Close(), %d after it (steps reached: %s; %d Write(s) accepted and %d refused by the stream during the tear-down)",
		k, transport, np[0], what, np[1], np[2], np[3], strings.Join(reached, ","), accepted, refused)
	hung = h.tearOracle(res, scen, snap, c04TearWait, true)
	_ = all
	res.Dist("teardown:" + transport + ":" + trigger)
	if accepted > 0 {
		res.Dist("teardown-window-write:accepted")
	}
	res.Sample(scen)
	// the scenario and what every call ended with, for the comparison with Teardown.v
	var cs []string
	for _, c := range snap {
		o := 2
		if !c.returned {
			o = 0
		} else if c.err == nil {
			o = 1
		}
		cs = append(cs, fmt.Sprintf("(%s, %s)", hx.N(uint64(c.phase)), hx.N(uint64(o))))
	}
	cases.Add("ds", fmt.Sprintf("{| dc_local := %s; dc_calls := %s |}", hx.Bool(trigger == "local-close"), hx.List(cs)), scen)
	return hung
}

// c04CallT: a call with a deadline
func c04CallT(c bus.Client, svc, act uint32, p []byte) ([]byte, error) {
	type r struct {
		o []byte
		e error
	}
	ch := make(chan r, 1)
	go func() { o, e := c.Call(nil, svc, 1, act, p); ch <- r{o, e} }()
	select {
	case x := <-ch:
		return x.o, x.e
	case <-time.After(c04Deadline):
		return nil, errors.New("no outcome within the deadline")
	}
}

// tearTimed: nothing is forced: Close() takes closeDelay, the reader's error path readDelay, the
// loss happens after `after`; ngor goroutines call in a loop and stop after their second error.
func (h *c04Harness) tearTimed(res *hx.Result, rng *hx.Rng, k int, transport, trigger string, dir string) (hung int) {
	closeDelay := time.Duration(200+rng.Intn(2800)) * time.Microsecond
	readDelay := time.Duration(rng.Intn(1000)) * time.Microsecond
	after := time.Duration(100+rng.Intn(1500)) * time.Microsecond
	ngor := 2 + rng.Intn(4)
	conn, err := h.newTearConn(transport, dir, func(t *c04Tear) { t.closeDelay, t.readDelay = closeDelay, readDelay })
	if err != nil {
		res.Fail("harness", fmt.Sprintf("tear-down run %d: %s connection: %v", k, transport, err))
		return 0
	}
	defer conn.close()
	tag := fmt.Sprintf("tt%d", k)
	var mu sync.Mutex
	var calls []*c04TearCall
	var wg sync.WaitGroup
	lost := make(chan struct{})
	seed := rng.U64()
	for g := 0; g < ngor; g++ {
		wg.Add(1)
		go func(g int) {
			defer wg.Done()
			r := hx.NewRng(seed + uint64(g))
			errs := 0
			for i := 0; i < 400 && errs < 2; i++ {
				phase := 0
				select {
				case <-lost:
					phase = 4
				default:
				}
				c := &c04TearCall{phase: phase, gor: g, arg: fmt.Sprintf("%s-g%di%d", tag, g, i), svc: uint32(r.Pick(1, 3)), issued: true}
				mu.Lock()
				calls = append(calls, c)
				mu.Unlock()
				out, err := conn.client.Call(nil, c.svc, 1, 100, c04Str(c.arg))
				s, ok := c04DecodeStr(out)
				mu.Lock()
				c.out, c.err, c.returned = s, err, true
				if err == nil && !ok {
					c.raw = append([]byte{}, out...)
				}
				mu.Unlock()
				if err != nil {
					errs++
				}
			}
		}(g)
	}
	time.Sleep(after)
	what, err := conn.fire(trigger)
	close(lost)
	if err != nil {
		h.note(fmt.Sprintf("tear-down run %d: %s on %s: %v", k, trigger, transport, err))
	}
	done := make(chan struct{})
	go func() { wg.Wait(); close(done) }()
	c04WaitCh(conn.t.closeDone, c04TearStep)
	c04WaitCh(done, c04TearWait)
	mu.Lock()
	snap := make([]*c04TearCall, len(calls))
	for i, c := range calls {
		cp := *c
		snap[i] = &cp
	}
	mu.Unlock()
	conn.close()
	h.flushMailboxes()
	sort.SliceStable(snap, func(i, j int) bool { return snap[i].gor < snap[j].gor })
	scen := fmt.Sprintf("tear-down run %d: real client over %s (stream wrapper: Close() takes %v, the reader's error path %v), %d goroutines calling in a loop, after %v %s",
		k, transport, closeDelay, readDelay, ngor, after, what)
	hung = h.tearOracle(res, scen, snap, c04TearWait, false)
	res.Dist("teardown-timed:" + transport + ":" + trigger)
	return hung
}

// tearDown: the family.  Stops early when calls keep hanging (each such scenario waits for its deadline).
func (h *c04Harness) tearDown(res *hx.Result, rng *hx.Rng, cases *hx.Cases, tier, dir string) {
	transports := []string{"relay", "tcp", "unix"}
	rounds := 1
	if tier == "thorough" {
		rounds = 20
	}
	k, hungScen := 0, 0
	for round := 0; round < rounds; round++ {
		for _, tr := range transports {
			for _, trig := range c04TearTriggers {
				k++
				np := [4]int{1 + rng.Intn(3), 1 + rng.Intn(3), 1 + rng.Intn(3), 1 + rng.Intn(2)}
				if round > 0 {
					// any subset of the phases
					for p := range np {
						if rng.Chance(0.3) {
							np[p] = 0
						}
					}
				}
				if h.tearGated(res, rng, cases, k, tr, trig, np, dir) > 0 {
					if hungScen++; hungScen >= 3 {
						h.note(fmt.Sprintf("tear-down scenarios: stopped after scenario %d, calls did not return in three scenarios", k))
						return
					}
				}
			}
		}
	}
	hungScen = 0
	for round := 0; round < rounds; round++ {
		for i := 0; i < 15; i++ {
			k++
			tr := transports[i%3]
			trig := c04TearTriggers[(i/3)%len(c04TearTriggers)]
			if h.tearTimed(res, rng, k, tr, trig, dir) > 0 {
				if hungScen++; hungScen >= 2 {
					h.note(fmt.Sprintf("tear-down runs: stopped after run %d, calls did not return in two runs", k))
					return
				}
			}
		}
	}
}
