package main

import (
	"bytes"
	"fmt"
	"strings"

	"github.com/lugu/qiloop/bus"
	"github.com/lugu/qiloop/bus/net"
	"github.com/lugu/qiloop/bus/services"
	"github.com/lugu/qiloop/type/object"
	"qv/internal/hx"
	"qv/internal/wg"
)

func init() { props["C08"] = runC08 }

const (
	k8Msg = iota
	k8Value
	k8SigRead
	k8Refl
	k8MetaObject
	k8ObjectRef
	k8ServiceInfo
	k8CapMap
)

var k8Names = []string{"message", "value", "sig-reader", "refl-decoder", "MetaObject", "ObjectReference", "ServiceInfo", "CapabilityMap"}

func classOf(f func() error) (c int) {
	defer func() {
		if recover() != nil {
			c = ocPanic
		}
	}()
	if err := f(); err != nil {
		return ocErr
	}
	return ocOK
}

func serviceInfoTy() *wg.Ty {
	s, u := wg.Scalar("s"), wg.Scalar("I")
	return wg.Struct("ServiceInfo", []string{"name", "serviceId", "machineId", "processId", "endpoints", "sessionId", "objectUid"},
		s, u, s, u, wg.List(s), s, s)
}

// decodeAt runs decoder `kind` on input and returns its outcome class.
func decodeAt(kind int, t *wg.Ty, input []byte) int {
	switch kind {
	case k8Msg:
		return classOf(func() error { var m net.Message; return m.Read(mkReader(input)) })
	case k8Value:
		return newValue(input).class
	case k8SigRead:
		return sigRead(t.Sig(), input).class
	case k8Refl:
		rt, ok := goType(t.Sig())
		if !ok {
			return ocPanic
		}
		return reflDec(rt, t, input).class
	case k8MetaObject:
		return classOf(func() error { _, err := object.ReadMetaObject(mkReader(input)); return err })
	case k8ObjectRef:
		return classOf(func() error { _, err := object.ReadObjectReference(mkReader(input)); return err })
	case k8ServiceInfo:
		return classOf(func() error { _, err := services.VerifReadServiceInfo(mkReader(input)); return err })
	case k8CapMap:
		return classOf(func() error { _, err := bus.ReadCapabilityMap(mkReader(input)); return err })
	}
	return ocPanic
}

func runC08(res *hx.Result, rng *hx.Rng, tier string, outdir string) {
	res.Rule = "valid encodings (<= 400 bytes) of: message frames, dynamic values, typed data for random signatures (signature reader and reflection decoder), " +
		"MetaObject, ObjectReference, ServiceInfo, capability maps; every cut position 0 <= k < len is decoded; non-trivial = encoding >= 6 bytes; distinct by sha256 of (decoder, signature, bytes)"
	n := 260
	if tier == "thorough" {
		n = 8000
	}
	cfg, sw := wireSwitches(res, "string_reader_drops_err", "refl_struct_ignores_err")
	cs := hx.NewCases(outdir, "C08", "From QV Require Import Value ParseOpt C08Run.", "mismatches cfg cases", res, "cases", "c08case")
	cs.Extra = append(cs.Extra, cfg)
	reflOpts := wg.GenOpts{MaxDepth: 3, Scalars: "cCwWiIlLfdbs", KeyScalar: "sIil", MaxWidth: 3, Template: true}
	sigOpts := wg.GenOpts{MaxDepth: 3, Scalars: "cCwWiIlLfdbsmo", KeyScalar: "sIil", MaxWidth: 3, Template: true}
	cuts := 0
	// directed: every scalar kind in every container position (and the zero-width containers), with
	// all containers non-empty, for the signature reader and for the reflection decoder
	type dirCase struct {
		kind int
		t    *wg.Ty
	}
	var pre []dirCase
	for _, t := range wg.DirectedTys(sigOpts.Scalars, sigOpts.KeyScalar, true) {
		pre = append(pre, dirCase{k8SigRead, t})
		if !t.HasScalar("mo") && !(t.HasScalar("cC") && sw["refl_drop8"]) {
			pre = append(pre, dirCase{k8Refl, t})
		}
	}
	// types that differ but look alike to a cache keyed by part of a type, one after the other
	for _, t := range wg.CollidingTys() {
		pre = append(pre, dirCase{k8SigRead, t}, dirCase{k8Refl, t})
	}
	for _, t := range wg.CollidingTys() {
		pre = append(pre, dirCase{k8Value, t})
	}
	for i := -len(pre); i < n; i++ {
		kind := (i + 8*len(pre)) % 8
		var t *wg.Ty
		var enc []byte
		if i < 0 {
			kind = -1
			t = pre[i+len(pre)].t
			enc = wg.GenValFull(rng, t, 1+rng.Intn(2)).Enc()
			res.Dist("directed")
		}
		switch kind {
		case -1:
			kind = pre[i+len(pre)].kind
			if kind == k8Value {
				// the typed data carried opaquely by a dynamic value: signature string, then the data
				sg := t.Sig()
				dyn := []byte{byte(len(sg)), byte(len(sg) >> 8), 0, 0}
				enc = append(append(dyn, sg...), enc...)
				t = wg.Scalar("m")
			}
		case k8Msg:
			h := genHeader(rng)
			p := rng.Bytes(rng.Intn(60))
			m := net.NewMessage(h, p)
			var b bytes.Buffer
			m.Write(&b)
			enc = b.Bytes()
			t = wg.Scalar("v")
		case k8Value:
			d := genDv(rng, 0, 3)
			var b bytes.Buffer
			d.goValue().Write(&b)
			enc = b.Bytes()
			t = wg.Scalar("m")
		case k8SigRead:
			t = wg.GenTy(rng, sigOpts, 0)
			enc = wg.GenVal(rng, t, 2).Enc()
		case k8Refl:
			t = wg.GenTy(rng, reflOpts, 0)
			enc = wg.GenVal(rng, t, 2).Enc()
		case k8MetaObject:
			t = wg.MetaObjectTy()
			enc = wg.GenVal(rng, t, 2).Enc()
		case k8ObjectRef:
			t = wg.ObjectRef()
			enc = wg.GenVal(rng, t, 1).Enc()
		case k8ServiceInfo:
			t = serviceInfoTy()
			enc = wg.GenVal(rng, t, 3).Enc()
		case k8CapMap:
			t = wg.Map(wg.Scalar("s"), wg.Scalar("m"))
			// values a capability map really carries: booleans, integers, strings, and the odd nested one
			v := &wg.Val{K: wg.VMap}
			seen := map[string]bool{}
			for j := 0; j < rng.Intn(4); j++ {
				k := fmt.Sprintf("k%d", rng.Intn(6))
				if seen[k] {
					continue
				}
				seen[k] = true
				dt := wg.Scalar(string("bIisl"[rng.Intn(5)]))
				v.KV = append(v.KV, [2]*wg.Val{{K: wg.VStr, S: []byte(k)}, {K: wg.VDyn, T: dt, V: wg.GenVal(rng, dt, 2)}})
			}
			enc = v.Enc()
		}
		if len(enc) > 400 || len(enc) == 0 {
			continue
		}
		// the full encoding must be accepted (otherwise the cut positions mean nothing)
		if c := decodeAt(kind, t, enc); c != ocOK {
			known := ""
			if kind == k8Refl && t.HasScalar("cC") && sw["refl_drop8"] {
				known = "refl_drop8"
			}
			if known == "" && !(kind == k8Refl && t.HasScalar("cC")) {
				res.Fail("full-encoding-refused", fmt.Sprintf("%s: decoder refuses the valid encoding %x of signature %s (class %d)", k8Names[kind], enc, t.Sig(), c))
			}
			continue
		}
		var cls strings.Builder
		for k := 0; k < len(enc); k++ {
			c := decodeAt(kind, t, enc[:k])
			cls.WriteByte(byte('0' + c))
			cuts++
			// the same cut through the other reader kinds the code meets in practice
			for rk := 1; rk <= 3 && c == ocErr; rk++ {
				readerKind = rk
				if c2 := decodeAt(kind, t, enc[:k]); c2 != ocErr {
					c = c2
					res.Dist(fmt.Sprintf("accepted-only-through-reader-kind-%d", rk))
				}
				readerKind = 0
			}
			if c != ocErr {
				detail := fmt.Sprintf("%s signature %s: the first %d of %d bytes of %x are decoded with class %d (0 = accepted, 2 = panic)", k8Names[kind], t.Sig(), k, len(enc), enc, c)
				switch {
				case (kind == k8SigRead || kind == k8Value) && sw["string_reader_drops_err"] && c == ocOK:
					res.FailKnown("prefix-accepted", detail, "string_reader_drops_err")
				case kind == k8Refl && sw["refl_struct_ignores_err"] && c == ocOK:
					res.FailKnown("prefix-accepted", detail, "refl_struct_ignores_err")
				case kind == k8Refl && sw["refl_drop8"] && t.HasScalar("cC") && c == ocOK:
					res.FailKnown("prefix-accepted", detail, "refl_drop8")
				default:
					res.Fail("prefix-accepted", detail)
				}
			}
		}
		res.Count(fmt.Sprintf("%d|%s|%x", kind, t.Sig(), enc), len(enc) >= 6)
		res.Dist("decoder:" + k8Names[kind])
		res.Dist(fmt.Sprintf("len:%d", (len(enc)/50)*50))
		res.Sample(fmt.Sprintf("%s %s %x -> classes per cut %s", k8Names[kind], t.Sig(), enc, cls.String()))
		cs.Add("cases", fmt.Sprintf("{| p_kind := %d; p_ty := %s; p_enc := %s; p_cuts := %s |}", kind, t.Coq(), hx.Hex(enc), hx.Str(cls.String())),
			fmt.Sprintf("%s sig=%s enc=%x", k8Names[kind], t.Sig(), enc))
	}
	// cold decoders: the FIRST thing a decoder sees of a type is a truncated encoding (a decoder that
	// learns the layout of a type while decoding must not learn it from a failed attempt).  Struct
	// types never used before in this process (fresh member names give a fresh reflect type and a
	// fresh signature), at top level, as list element, map value and nested member.
	for i := 0; i < 40 && !sw["refl_struct_ignores_err"]; i++ {
		fields := []string{fmt.Sprintf("id%d", i), fmt.Sprintf("name%d", i), fmt.Sprintf("stamp%d", i)}
		inner := wg.Struct(fmt.Sprintf("Cold%d", i), fields, wg.Scalar("i"), wg.Scalar("s"), wg.Scalar(string("lLdI"[i%4])))
		var t *wg.Ty
		switch i % 4 {
		case 0:
			t = inner
		case 1:
			t = wg.List(inner)
		case 2:
			t = wg.Map(wg.Scalar("s"), inner)
		default:
			t = wg.Struct(fmt.Sprintf("Outer%d", i), []string{"a", "b"}, inner, wg.Scalar("i"))
		}
		v := wg.GenValFull(rng, t, 1)
		enc := v.Enc()
		rt, ok := goType(t.Sig())
		if !ok || len(enc) < 8 {
			continue
		}
		k := 1 + rng.Intn(len(enc)-1)
		first := reflDec(rt, t, enc[:k])
		cuts++
		if first.class != ocErr {
			res.Fail("prefix-accepted", fmt.Sprintf("reflection-decoder signature %s: the first %d of %d bytes of %x (the first value of that type the decoder ever sees) are decoded with class %d", t.Sig(), k, len(enc), enc, first.class))
		}
		full := reflDec(rt, t, enc)
		if full.class != ocOK || full.left != 0 || full.val.Canon() != v.Canon() {
			got := "<none>"
			if full.val != nil {
				got = full.val.Canon()
			}
			res.Fail("full-encoding-refused", fmt.Sprintf("reflection-decoder signature %s: after a first, truncated, decode of that type (%d of %d bytes) the full encoding %x decodes with class %d to %s, expected %s", t.Sig(), k, len(enc), enc, full.class, got, v.Canon()))
		}
		for c := 0; c < len(enc); c++ {
			cuts++
			if o := reflDec(rt, t, enc[:c]); o.class != ocErr {
				res.Fail("prefix-accepted", fmt.Sprintf("reflection-decoder signature %s: after a first, truncated, decode of that type (%d of %d bytes), the first %d bytes of %x are decoded with class %d", t.Sig(), k, len(enc), c, enc, o.class))
				break
			}
		}
		// the same for the signature-driven reader
		if o := sigRead(t.Sig(), enc[:k]); o.class != ocErr {
			res.Fail("prefix-accepted", fmt.Sprintf("sig-reader signature %s: the first %d of %d bytes of %x are accepted (class %d)", t.Sig(), k, len(enc), enc, o.class))
		}
		if o := sigRead(t.Sig(), enc); o.class != ocOK || !bytes.Equal(o.data, enc) {
			res.Fail("full-encoding-refused", fmt.Sprintf("sig-reader signature %s: after a truncated read the full encoding %x is read with class %d as %x", t.Sig(), enc, o.class, o.data))
		}
		res.Count(fmt.Sprintf("cold|%s|%x", t.Sig(), enc), true)
		res.Dist("decoder:cold (first decode of a fresh type is truncated)")
	}
	// frames with payloads of tens of KiB and more (too large for the in-Coq evaluation):
	// implementation-side oracle on a sample of cut positions, through every reader kind
	for _, n := range []int{65535, 65536, 65537, 70000, 300000, 1 << 20} {
		h := genHeader(rng)
		p := rng.Bytes(n)
		m := net.NewMessage(h, p)
		var b bytes.Buffer
		m.Write(&b)
		enc := b.Bytes()
		for rk := 0; rk <= 3; rk++ {
			readerKind = rk
			if rk == 2 {
				continue // one byte per Read over a MiB payload is only slow
			}
			if c := decodeAt(k8Msg, nil, enc); c != ocOK {
				res.Fail("full-encoding-refused", fmt.Sprintf("message with a %d-byte payload is refused (class %d, reader kind %d)", n, c, rk))
			}
			for _, k := range []int{27, 28, 29, 28 + n/2, 28 + n - 1, 28 + rng.Intn(n)} {
				cuts++
				if c := decodeAt(k8Msg, nil, enc[:k]); c != ocErr {
					res.Fail("prefix-accepted", fmt.Sprintf("message with a %d-byte payload: the first %d of %d bytes are decoded with class %d (reader kind %d)", n, k, len(enc), c, rk))
				}
			}
		}
		readerKind = 0
		res.Count(fmt.Sprintf("bigmsg%d", n), true)
		res.Dist("decoder:message-large-payload")
	}
	res.Distribution["cut-positions-decoded"] = cuts
	cs.Flush()
}
