package main

// C09 — type signatures round-trip through the parser.
// Runs signature.Parse / Signature() / SignatureIDL() / Type() of /repo on
//   * signatures generated from the documented grammar (printed by this file's own printer),
//     with and without white space between tokens,
//   * near-miss strings (one character deleted / inserted / replaced / swapped),
//   * random strings over the structural alphabet, nests of hostile parentheses,
//   * (thorough) every string up to a small length over that alphabet,
// evaluates the property oracles on what the implementation did and writes every case for the
// comparison with the Coq model (coq/run/C09Run.v).

import (
	"encoding/hex"
	"fmt"
	"os"
	"os/exec"
	"reflect"
	"runtime"
	"strings"
	"sync"

	"github.com/lugu/qiloop/meta/signature"
	"qv/internal/hx"
)

func init() { props["C09"] = runC09 }

// ---------- the harness's own notion of a type ----------

type gty struct {
	kind   byte // 's' scalar, 'L' list, 'M' map, 'T' tuple, 'S' struct
	letter byte
	elems  []*gty
	name   string
	fields []string
}

const scalarLetters = "cCwWiIlLfdbsmoXv"

var scalarIDL = map[byte]string{'c': "int8", 'C': "uint8", 'w': "int16", 'W': "uint16", 'i': "int32", 'I': "uint32",
	'l': "int64", 'L': "uint64", 'f': "float32", 'd': "float64", 'b': "bool", 's': "str", 'm': "any", 'o': "obj",
	'X': "unknown", 'v': "nothing"}

func (t *gty) print() string {
	switch t.kind {
	case 's':
		return string(t.letter)
	case 'L':
		return "[" + t.elems[0].print() + "]"
	case 'M':
		return "{" + t.elems[0].print() + t.elems[1].print() + "}"
	case 'T':
		s := "("
		for _, e := range t.elems {
			s += e.print()
		}
		return s + ")"
	default:
		s := "("
		for _, e := range t.elems {
			s += e.print()
		}
		s += ")<" + t.name
		for _, f := range t.fields {
			s += "," + f
		}
		return s + ">"
	}
}

// tokens of the printed form: white space may be inserted between any two of them
func (t *gty) tokens(out *[]string) {
	switch t.kind {
	case 's':
		*out = append(*out, string(t.letter))
	case 'L':
		*out = append(*out, "[")
		t.elems[0].tokens(out)
		*out = append(*out, "]")
	case 'M':
		*out = append(*out, "{")
		t.elems[0].tokens(out)
		t.elems[1].tokens(out)
		*out = append(*out, "}")
	case 'T', 'S':
		*out = append(*out, "(")
		for _, e := range t.elems {
			e.tokens(out)
		}
		*out = append(*out, ")")
		if t.kind == 'S' {
			*out = append(*out, "<", t.name)
			for _, f := range t.fields {
				*out = append(*out, ",", f)
			}
			*out = append(*out, ">")
		}
	}
}

func (t *gty) idl() string {
	switch t.kind {
	case 's':
		return scalarIDL[t.letter]
	case 'L':
		return "Vec<" + t.elems[0].idl() + ">"
	case 'M':
		return "Map<" + t.elems[0].idl() + "," + t.elems[1].idl() + ">"
	case 'T':
		p := make([]string, len(t.elems))
		for i, e := range t.elems {
			p[i] = e.idl()
		}
		return "Tuple<" + strings.Join(p, ",") + ">"
	default:
		return t.name
	}
}

func title(s string) string {
	if s != "" && s[0] >= 'a' && s[0] <= 'z' {
		return string(s[0]-32) + s[1:]
	}
	return s
}

// expected reflect kind tree, in the notation of shape_str' (C09Run.v)
func (t *gty) shape() string {
	switch t.kind {
	case 's':
		if t.letter == 'v' {
			return "()"
		}
		return string(t.letter) // 'o' abbreviates the ObjectReference struct
	case 'L':
		return "[" + t.elems[0].shape() + "]"
	case 'M':
		return "{" + t.elems[0].shape() + t.elems[1].shape() + "}"
	default:
		s := "("
		for i, e := range t.elems {
			n := fmt.Sprintf("P%d", i)
			if t.kind == 'S' {
				n = title(t.fields[i])
			}
			s += n + ":" + e.shape() + ";"
		}
		return s + ")"
	}
}

func (t *gty) depth() int {
	d := 0
	for _, e := range t.elems {
		if x := e.depth(); x > d {
			d = x
		}
	}
	return d + 1
}
func (t *gty) hasStruct() bool {
	if t.kind == 'S' {
		return true
	}
	for _, e := range t.elems {
		if e.hasStruct() {
			return true
		}
	}
	return false
}
func (t *gty) comparable() bool {
	switch t.kind {
	case 's':
		return t.letter != 'o'
	case 'L', 'M':
		return false
	}
	for _, e := range t.elems {
		if !e.comparable() {
			return false
		}
	}
	return true
}

const alpha = "abcdefghijklmnopqrstuvwxyzABCDEFGHIJKLMNOPQRSTUVWXYZ"
const alnum = alpha + "0123456789_"

func genIdent(rng *hx.Rng) string {
	n := 1 + rng.Intn(3)
	if rng.Chance(0.15) {
		n = 1 + rng.Intn(12)
	}
	b := []byte{alpha[rng.Intn(len(alpha))]}
	for len(b) < n {
		b = append(b, alnum[rng.Intn(len(alnum))])
	}
	return string(b)
}

// genType draws a type of nesting depth <= depth; map keys are kept comparable and member
// names distinct after cleaning (outside these Type() panics: probed separately).
func genType(rng *hx.Rng, depth int, key bool) *gty {
	k := rng.Intn(10)
	if depth <= 1 || k < 3 {
		for {
			l := scalarLetters[rng.Intn(len(scalarLetters))]
			if key && l == 'o' {
				continue
			}
			return &gty{kind: 's', letter: l}
		}
	}
	switch {
	case k < 5 && !key:
		return &gty{kind: 'L', elems: []*gty{genType(rng, depth-1, false)}}
	case k < 7 && !key:
		return &gty{kind: 'M', elems: []*gty{genType(rng, depth-1, true), genType(rng, depth-1, false)}}
	}
	n := rng.Intn(4)
	if rng.Chance(0.1) {
		n = rng.Intn(12)
	}
	t := &gty{kind: 'T'}
	for i := 0; i < n; i++ {
		t.elems = append(t.elems, genType(rng, depth-1, key))
	}
	if k >= 8 || (key && rng.Bool()) {
		t.kind = 'S'
		t.name = genIdent(rng)
		if rng.Chance(0.3) {
			t.name += "<" + genIdent(rng) + ">"
		}
		seen := map[string]bool{}
		for len(t.fields) < n {
			f := genIdent(rng)
			if seen[title(f)] {
				continue
			}
			seen[title(f)] = true
			t.fields = append(t.fields, f)
		}
	}
	return t
}

const wsChars = " \t\r\n"

func withSpaces(rng *hx.Rng, toks []string) string {
	var b strings.Builder
	for _, t := range toks {
		if rng.Chance(0.3) {
			for i := 0; i < 1+rng.Intn(2); i++ {
				b.WriteByte(wsChars[rng.Intn(4)])
			}
		}
		b.WriteString(t)
	}
	return b.String()
}

// ---------- observing the implementation ----------

type sigObs struct {
	ok        bool
	crashed   string // non-empty: Parse / Signature / SignatureIDL panicked
	printed   string
	idl       string
	shape     string // "!" = Type() panicked
	typePanic string
}

func kindTree(t reflect.Type, objRef reflect.Type) string {
	if t == objRef {
		return "o"
	}
	switch t.Kind() {
	case reflect.Int8:
		return "c"
	case reflect.Uint8:
		return "C"
	case reflect.Int16:
		return "w"
	case reflect.Uint16:
		return "W"
	case reflect.Int32:
		return "i"
	case reflect.Uint32:
		return "I"
	case reflect.Int64:
		return "l"
	case reflect.Uint64:
		return "L"
	case reflect.Float32:
		return "f"
	case reflect.Float64:
		return "d"
	case reflect.Bool:
		return "b"
	case reflect.String:
		return "s"
	case reflect.Ptr:
		if t.Elem().Kind() == reflect.Interface {
			if t.Elem().NumMethod() == 0 {
				return "m"
			}
			return "X"
		}
		return "?ptr"
	case reflect.Slice:
		return "[" + kindTree(t.Elem(), objRef) + "]"
	case reflect.Map:
		return "{" + kindTree(t.Key(), objRef) + kindTree(t.Elem(), objRef) + "}"
	case reflect.Struct:
		s := "("
		for i := 0; i < t.NumField(); i++ {
			s += t.Field(i).Name + ":" + kindTree(t.Field(i).Type, objRef) + ";"
		}
		return s + ")"
	}
	return "?" + t.Kind().String()
}

var objRefType = signature.NewObjectType().Type()

// objRefFull is the ObjectReference struct written out (compared once with the model's)
func objRefFull() string { return kindTree(objRefType, nil) }

func observeSig(s string) (o sigObs) {
	var typ signature.Type
	func() {
		defer func() {
			if e := recover(); e != nil {
				o.crashed = fmt.Sprint(e)
			}
		}()
		t, err := signature.Parse(s)
		if err != nil {
			return
		}
		if t == nil {
			o.crashed = "Parse returned nil, nil"
			return
		}
		typ = t
		o.ok = true
		o.printed = t.Signature()
		o.idl = t.SignatureIDL()
	}()
	if !o.ok || o.crashed != "" {
		return
	}
	func() {
		defer func() {
			if e := recover(); e != nil {
				o.shape = "!"
				o.typePanic = fmt.Sprint(e)
			}
		}()
		o.shape = kindTree(typ.Type(), objRefType)
	}()
	return
}

func coqStr(s string) string {
	plain := true
	for i := 0; i < len(s); i++ {
		if s[i] < 32 || s[i] > 126 {
			plain = false
		}
	}
	if plain {
		return "\"" + strings.ReplaceAll(s, "\"", "\"\"") + "\""
	}
	return "(hx \"" + hex.EncodeToString([]byte(s)) + "\")"
}

func caseTerm(in string, o sigObs) string {
	if !o.ok {
		return "R " + coqStr(in)
	}
	return fmt.Sprintf("mk %s true %s %s %s", coqStr(in), coqStr(o.printed), coqStr(o.idl), coqStr(o.shape))
}

func stripWS(s string) string {
	return strings.Map(func(r rune) rune {
		if r == ' ' || r == '\t' || r == '\r' || r == '\n' {
			return -1
		}
		return r
	}, s)
}

func maxParens(s string) int { return strings.Count(s, "(") }

// parseWork: number of heap objects signature.Parse allocates on n nested empty tuples (every
// parser invocation of goparsec clones its scanner; the count does not depend on timing).
func parseWork(n int) uint64 {
	in := strings.Repeat("(", n) + strings.Repeat(")", n)
	best := ^uint64(0)
	var ms runtime.MemStats
	for try := 0; try < 3; try++ {
		runtime.ReadMemStats(&ms)
		a := ms.Mallocs
		signature.Parse(in)
		runtime.ReadMemStats(&ms)
		if d := ms.Mallocs - a; d < best {
			best = d
		}
	}
	return best
}

// observeGrammar tells the repaired grammar ("(" list ")" parsed once, struct definition optional:
// work linear in the nesting depth) from the pinned one (struct alternative before the tuple
// alternative on the same prefix: work doubles with every level) by the growth of the work from
// 6 to 12 nested parentheses: a factor of about 2 against a factor of about 64.
func observeGrammar() (merged bool, w6, w12 uint64) {
	w6, w12 = parseWork(6), parseWork(12)
	return w12 < 8*w6, w6, w12
}

// ---------- the run ----------

const c09Alphabet = "ism[]{}()<>,A"

func runC09(res *hx.Result, rng *hx.Rng, tier string, outdir string) {
	res.Rule = "inputs = grammar-generated signatures (own printer; scalars, lists, maps, tuples, structs with plain and " +
		"template names, empty structs, tuples in maps) with/without white space between tokens, near-miss strings (one character " +
		"deleted/inserted/replaced/swapped), random strings over `ism[]{}()<>,` + name characters + white space, nests of parentheses (<= 12; <= 40 when the repaired grammar is observed); " +
		"non-trivial = generated type of depth >= 2 or containing a struct, or a near-miss of one; distinct by sha256 of the input string"
	nGen, nMiss, nRand, maxDepth := 700, 900, 400, 5
	if tier == "thorough" {
		nGen, nMiss, nRand, maxDepth = 30000, 50000, 20000, 8
	}
	cf := hx.NewCases(outdir, "C09", "From QV Require Import Sig SigParse C09Run.", "mismatches cfg merged cases", res, "cases", "pcase")

	// --- which grammar is at work: the model to compare with (parse_m / parse, SigParse.v) ---
	merged, w6, w12 := observeGrammar()
	res.Notes = append(res.Notes, fmt.Sprintf("grammar observed: merged=%v (allocations of Parse on 6 / 12 nested parentheses: %d / %d)", merged, w6, w12))
	cf.Extra = append(cf.Extra, fmt.Sprintf("Definition merged := %s.", hx.Bool(merged)))
	maxNest := 12
	if merged {
		maxNest = 40 // implementation and model are both linear in the depth
	}

	// --- defect probes (witnesses of C09_refuted_* in coq/props/C09.v) ---
	keyProbe := observeSig("{[i]i}")
	dupProbe := observeSig("(ii)<A,x,x>")
	res.Switch("type_panics_uncomparable_key", keyProbe.ok && keyProbe.shape == "!",
		fmt.Sprintf("signature.Parse(\"{[i]i}\") ok=%v; Type() panic: %q", keyProbe.ok, keyProbe.typePanic))
	res.Switch("type_panics_duplicate_member", dupProbe.ok && dupProbe.shape == "!",
		fmt.Sprintf("signature.Parse(\"(ii)<A,x,x>\") ok=%v; Type() panic: %q", dupProbe.ok, dupProbe.typePanic))
	cf.Extra = append(cf.Extra, fmt.Sprintf("Definition cfg := {| c_key_panic := %s; c_dup_panic := %s |}.",
		hx.Bool(res.Switches["type_panics_uncomparable_key"]), hx.Bool(res.Switches["type_panics_duplicate_member"])))

	// Parse must be a function of its input: what an earlier caller did to the type object it
	// got back (registering it into a TypeSet renames colliding structs in place, proxies convert
	// meta-objects in place) must not change what a later Parse of the same text returns.
	for _, pair := range [][2]string{
		{"(s(iii)<Point,x,y,z>)<Shape,name,origin>", "((ff)<Point,x,y>i)<Seg,p,n>"},
		{"[(i)<A,a>]", "{s(s)<A,b>}"},
		{"(({I(Issss[(ss)<MetaMethodParameter,name,description>]s)<MetaMethod,uid,returnSignature,name,parametersSignature,description,parameters,returnDescription>}{I(Iss)<MetaSignal,uid,name,signature>}{I(Iss)<MetaProperty,uid,name,signature>}s)<MetaObject,methods,signals,properties,description>i)", "(i)<MetaObject,x>"},
	} {
		func() {
			defer func() { recover() }()
			a, errA := signature.Parse(pair[0])
			b, errB := signature.Parse(pair[1])
			if errA != nil || errB != nil {
				return
			}
			set := signature.NewTypeSet()
			a.RegisterTo(set)
			b.RegisterTo(set)
			if tt, ok := a.(*signature.TupleType); ok {
				tt.ConvertMetaObjects()
			}
			for _, in := range pair {
				again, err := signature.Parse(in)
				if err != nil || again.Signature() != in {
					got := "<error>"
					if err == nil {
						got = again.Signature()
					}
					res.Fail("parse-not-a-function", fmt.Sprintf("after the types of %q and %q were registered into one TypeSet, Parse(%q) prints %q", pair[0], pair[1], in, got))
				}
			}
		}()
		res.Count("purity|"+pair[0]+"|"+pair[1], true)
		res.Dist("purity-after-registration")
	}

	add := func(in string, o sigObs, desc string, nontrivial bool) {
		res.Count(in, nontrivial)
		cf.Add("cases", caseTerm(in, o), desc)
	}
	// checks every accepted input must pass whatever its origin: fixed point, no crash
	accepted := func(in string, o sigObs, origin string) {
		if o.crashed != "" {
			res.Fail("crash", fmt.Sprintf("%s input %q: panic %s", origin, in, o.crashed))
			return
		}
		if !o.ok {
			return
		}
		// an accepted input is a string of the grammar: its printed form with white space between tokens
		if stripWS(in) != o.printed {
			res.Fail("accepts-outside-grammar", fmt.Sprintf("%s input %q is accepted although it is not a signature of the grammar (it prints as %q)",
				origin, in, o.printed))
		}
		o2 := observeSig(o.printed)
		if o2.crashed != "" || !o2.ok || o2.printed != o.printed {
			res.Fail("fixed-point", fmt.Sprintf("%s input %q accepted and printed as %q; parsing that gives ok=%v printed=%q crash=%q",
				origin, in, o.printed, o2.ok, o2.printed, o2.crashed))
		}
		if o.shape == "!" {
			key := "type_panics_uncomparable_key"
			if strings.Contains(o.typePanic, "duplicate field") {
				key = "type_panics_duplicate_member"
			}
			res.FailKnown("type-panic", fmt.Sprintf("%s input %q parses, Type() panics: %s", origin, in, o.typePanic), key)
		}
	}

	// the ObjectReference shape, once, in full (elsewhere abbreviated as "o")
	{
		o := observeSig("o")
		if o.shape != "o" {
			res.Fail("names", fmt.Sprintf("Type() of \"o\" has kind tree %s", o.shape))
		}
		o.shape = kindTree(objRefType, nil)
		add("o", o, "scalar o with the full ObjectReference kind tree", true)
		p := observeSig(signature.ObjectSignature)
		if !p.ok || p.shape != "o" {
			res.Fail("names", fmt.Sprintf("Type() of ObjectSignature (%s) differs from Type() of \"o\"", p.shape))
		}
		add(signature.ObjectSignature, p, "ObjectSignature", true)
	}

	// --- 1. generated signatures ---
	var valid []*gty
	for i := 0; i < nGen; i++ {
		d := 2 + rng.Intn(maxDepth-1)
		if rng.Chance(0.08) {
			d = 1
		}
		t := genType(rng, d, false)
		for try := 0; d > 1 && t.kind == 's' && try < 4; try++ {
			t = genType(rng, d, false)
		}
		sig := t.print()
		if len(sig) > 400 {
			i--
			continue
		}
		valid = append(valid, t)
		in := sig
		spaced := false
		if rng.Chance(0.35) {
			var toks []string
			t.tokens(&toks)
			in = withSpaces(rng, toks)
			spaced = in != sig
		}
		o := observeSig(in)
		res.Dist(fmt.Sprintf("gen:depth%d", t.depth()))
		if spaced {
			res.Dist("gen:spaced")
		}
		if t.hasStruct() {
			res.Dist("gen:has-struct")
		}
		// property oracles
		switch {
		case o.crashed != "":
			res.Fail("crash", fmt.Sprintf("generated signature %q: panic %s", in, o.crashed))
		case !o.ok:
			res.Fail("print-parse", fmt.Sprintf("generated signature %q is rejected", in))
		case o.printed != sig:
			res.Fail("print-parse", fmt.Sprintf("generated signature %q prints as %q", in, o.printed))
		default:
			if o.idl != t.idl() {
				res.Fail("names", fmt.Sprintf("signature %q: SignatureIDL() = %q, expected %q", sig, o.idl, t.idl()))
			}
			want := t.shape()
			if o.shape == "!" {
				res.Fail("names", fmt.Sprintf("signature %q: Type() panics: %s", sig, o.typePanic))
			} else if o.shape != want {
				res.Fail("names", fmt.Sprintf("signature %q: Type() has kind tree %s, expected %s", sig, o.shape, want))
			}
			accepted(in, o, "generated")
		}
		res.Sample(fmt.Sprintf("%q -> ok=%v print=%q idl=%q", in, o.ok, o.printed, o.idl))
		add(in, o, "generated "+in, t.depth() >= 2 || t.hasStruct())
	}

	// --- 2. near-miss strings ---
	for i := 0; i < nMiss; i++ {
		t := valid[rng.Intn(len(valid))]
		sig := t.print()
		if len(sig) == 0 || len(sig) > 200 {
			continue
		}
		b := []byte(sig)
		pos := rng.Intn(len(b))
		kind := ""
		randc := func() byte {
			if rng.Chance(0.15) {
				return wsChars[rng.Intn(4)]
			}
			if rng.Chance(0.2) {
				return alnum[rng.Intn(len(alnum))]
			}
			return c09Alphabet[rng.Intn(len(c09Alphabet))]
		}
		switch rng.Intn(4) {
		case 0:
			kind = "delete"
			b = append(b[:pos:pos], b[pos+1:]...)
		case 1:
			kind = "insert"
			b = append(b[:pos:pos], append([]byte{randc()}, b[pos:]...)...)
		case 2:
			kind = "replace"
			b[pos] = randc()
		default:
			kind = "swap"
			if pos+1 < len(b) {
				b[pos], b[pos+1] = b[pos+1], b[pos]
			}
		}
		in := string(b)
		if !merged && maxParens(in) > 12 && strings.Count(in, ")") < maxParens(in) {
			continue
		}
		o := observeSig(in)
		res.Dist("miss:" + kind)
		if o.ok {
			res.Dist("miss:accepted")
		}
		accepted(in, o, "near-miss("+kind+")")
		add(in, o, "near-miss "+kind+" of "+sig, in != sig)
	}

	// --- 3. random strings, hostile nests ---
	for i := 0; i < nRand; i++ {
		n := 1 + rng.Intn(14)
		b := make([]byte, n)
		for j := range b {
			switch {
			case rng.Chance(0.08):
				b[j] = wsChars[rng.Intn(4)]
			case rng.Chance(0.08):
				b[j] = byte(rng.Intn(256))
			case rng.Chance(0.1):
				b[j] = scalarLetters[rng.Intn(len(scalarLetters))]
			default:
				b[j] = c09Alphabet[rng.Intn(len(c09Alphabet))]
			}
		}
		in := string(b)
		o := observeSig(in)
		res.Dist("random")
		if o.ok {
			res.Dist("random:accepted")
		}
		accepted(in, o, "random")
		add(in, o, "random", false)
	}
	for n := 0; n <= maxNest; n++ {
		for _, in := range []string{strings.Repeat("(", n) + strings.Repeat(")", n), strings.Repeat("(", n),
			strings.Repeat("(", n) + "i" + strings.Repeat(")", n) + "<A,a>", strings.Repeat("[", n) + "i" + strings.Repeat("]", n),
			strings.Repeat("{i", n) + "i" + strings.Repeat("}", n)} {
			o := observeSig(in)
			res.Dist("nest")
			accepted(in, o, "nest")
			add(in, o, "nest", n >= 2)
		}
	}
	// hand-picked corners: trailing white space, member count mismatch, template names, duplicates
	for _, in := range []string{"", " ", "i ", " i", "i\n", "\ti", "ii", "()", "()<A>", "( )< A >", "()<A,>", "()<,A>", "(i)<A>", "(i)<A,a,b>", "(ii)<A,a>",
		"(i)<A<B>,a>", "(i)<A<B,a>", "(i)<A<>,a>", "(i)<A<B>>", "(i)<A <B>,a>", "(i)<A<B>C,a>", "(i)<1A,a>", "(i)<_A,a>", "(i)<A,_a>", "(i)<A,1>",
		"(i)<A,a,>", "(i)<A,a>>", "(i)<A,a", "(i)<", "(i)<A,a>i", "[]", "[ii]", "{i}", "{iii}", "{}", "{[i]i}", "{(i)i}", "{oi}", "{vi}", "[v]", "(v)",
		"(ii)<A,x,x>", "(ii)<A,x,X>", "(ii)<A,x_,x>", "[(i)<A,x>", "((i)<A>)", "[(i)<A>]", "{i(i)<A>}", "(i)<A,a>(i)<B,b>", "I", "Ii", "x", "<", ">", ",", "(,)",
		"(i,i)", "(i)<A,a b>", "(i)<A B,a>", "(i)<A,a\n>", "\n(\ti\r)\n<\nA\n,\na\n>", "(i)<Aé,a>", "(i)<A,\x00>", "i\x00", "\x00i", "\xa0i", "\vi", "\fi"} {
		o := observeSig(in)
		res.Dist("corner")
		accepted(in, o, "corner")
		add(in, o, "corner", true)
	}

	// --- 4. thorough: every string up to length 5 over the alphabet ---
	if tier == "thorough" {
		res.Exhaustive = true
		var rec func(prefix []byte, left int)
		count := 0
		rec = func(prefix []byte, left int) {
			in := string(prefix)
			o := observeSig(in)
			accepted(in, o, "exhaustive")
			add(in, o, "exhaustive", false)
			count++
			if left == 0 {
				return
			}
			for i := 0; i < len(c09Alphabet); i++ {
				rec(append(prefix, c09Alphabet[i]), left-1)
			}
		}
		rec(nil, 5)
		res.Notes = append(res.Notes, fmt.Sprintf("exhaustive: all %d strings of length <= 5 over %q", count, c09Alphabet))
	}
	// in a child process: what unsynchronised state inside Parse does under concurrent use may also be a fatal error
	{
		cmd := exec.Command(os.Args[0], "c09-concurrent")
		out, err := cmd.CombinedOutput()
		lines := strings.Split(strings.TrimSpace(string(out)), "\n")
		reported := false
		for _, l := range lines {
			if strings.HasPrefix(l, "FAIL ") {
				res.Fail("parse-concurrent", strings.TrimPrefix(l, "FAIL "))
				reported = true
			}
		}
		if err != nil && !reported {
			tail := string(out)
			if len(tail) > 600 {
				tail = tail[:600]
			}
			res.Fail("parse-concurrent", "8 goroutines calling signature.Parse on valid and invalid signatures at once: the process died: "+tail)
		}
		res.Count("concurrent-parse", true)
		res.Dist("concurrent: 8 goroutines x 400 calls of Parse (child process)")
	}
	cf.Flush()
}

func init() {
	subcommands["c09-concurrent"] = func([]string) {
		r := hx.NewResult("C09", 1, "quick")
		c09Concurrent(r, hx.NewRng(1))
		for _, f := range r.Failures {
			fmt.Println("FAIL " + strings.ReplaceAll(f.Detail, "\n", " "))
		}
		if len(r.Failures) > 0 {
			os.Exit(1)
		}
	}
}

// c09Concurrent: Parse is a pure function of its argument: called from many goroutines at once (a
// server parses the signatures its peers send on every connection) every result is what a call
// alone returns.  Signatures with tuples, structs, maps and objects, valid and not; the expected
// outcome is computed beforehand, sequentially.
func c09Concurrent(res *hx.Result, rng *hx.Rng) {
	base := []string{"(i{sb}[l])", "(is)<P,a,b>", "{s(ii)<Q,x,y>}", "[(s[i])]", "((i)(s))", "(iii)<R,a,b,c>", "[{i(sd)}]", "o", "(io)<S,n,ref>", "[m]",
		"(i", "(ii)<P,a>", "{is", "(i)<,a>", "[[[(sss)<T,a,b,c>]]]", "(sd)<Point,x,y>", "(dd)<Point,x,y>", "{s[(is)<E,k,v>]}"}
	type want struct {
		ok    bool
		print string
	}
	exp := make([]want, len(base))
	for i, s := range base {
		if t, err := signature.Parse(s); err == nil {
			exp[i] = want{true, t.Signature()}
		}
	}
	const workers, rounds = 8, 400
	fails := make(chan string, workers)
	var wg sync.WaitGroup
	for w := 0; w < workers; w++ {
		wg.Add(1)
		go func(w int) {
			defer wg.Done()
			defer func() {
				if r := recover(); r != nil {
					select {
					case fails <- fmt.Sprintf("signature.Parse panicked when called from %d goroutines at once: %v", workers, r):
					default:
					}
				}
			}()
			for k := 0; k < rounds; k++ {
				i := (w*7 + k*13) % len(base)
				t, err := signature.Parse(base[i])
				got := want{}
				if err == nil {
					got = want{true, t.Signature()}
				}
				if got != exp[i] {
					select {
					case fails <- fmt.Sprintf("signature.Parse(%q) called from %d goroutines at once: accepted=%v printed %q; alone: accepted=%v printed %q", base[i], workers, got.ok, got.print, exp[i].ok, exp[i].print):
					default:
					}
					return
				}
			}
		}(w)
	}
	wg.Wait()
	close(fails)
	for f := range fails {
		res.Fail("parse-concurrent", f)
	}
	res.Count("concurrent-parse", true)
	res.Dist("concurrent: 8 goroutines x 400 calls of Parse")
}
