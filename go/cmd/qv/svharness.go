package main

// Shared by the C14 and C16 harnesses: a real bus server behind a harness-owned listener,
// raw connections that write frames and record every frame they receive, barriers.

import (
	"bytes"
	"encoding/binary"
	"fmt"
	"io"
	"log"
	gonet "net"
	"sync"
	"time"

	"github.com/lugu/qiloop/bus"
	"github.com/lugu/qiloop/bus/net"
	"github.com/lugu/qiloop/type/value"
)

func init() { log.SetOutput(io.Discard) }

// svListener hands harness-made streams to the server's accept loop.
type svListener struct{ ch chan net.Stream }

func (l *svListener) Accept() (net.Stream, error) {
	s, ok := <-l.ch
	if !ok {
		return nil, io.EOF
	}
	return s, nil
}

// Close is a no-op: closing would make the server terminate its services, which the pinned
// code cannot survive when a service holds a nil object.
func (l *svListener) Close() error { return nil }

const svBarrierService = 0xfffffff0

type svConn struct {
	idx     int
	c       gonet.Conn
	mu      sync.Mutex
	cond    *sync.Cond
	got     []net.Message
	taken   int
	barrier uint32
	dead    bool
}

type svEnv struct {
	l     *svListener
	srv   bus.Server
	conns []*svConn
}

func svNewEnv(nconn int) (*svEnv, error) {
	l := &svListener{ch: make(chan net.Stream, 8)}
	srv, err := bus.StandAloneServer(l, bus.Yes{}, bus.PrivateNamespace())
	if err != nil {
		return nil, err
	}
	e := &svEnv{l: l, srv: srv}
	for i := 0; i < nconn; i++ {
		c, err := e.connect(i)
		if err != nil {
			return nil, err
		}
		e.conns = append(e.conns, c)
	}
	return e, nil
}

func (e *svEnv) connect(idx int) (*svConn, error) {
	a, b := gonet.Pipe()
	e.l.ch <- net.ConnStream(b)
	c := &svConn{idx: idx, c: a, barrier: 0x80000000}
	c.cond = sync.NewCond(&c.mu)
	go func() {
		for {
			var m net.Message
			if err := m.Read(a); err != nil {
				c.mu.Lock()
				c.dead = true
				c.cond.Broadcast()
				c.mu.Unlock()
				return
			}
			c.mu.Lock()
			c.got = append(c.got, m)
			c.cond.Broadcast()
			c.mu.Unlock()
		}
	}()
	// authenticate: empty capability map, the authenticator says yes
	c.send(net.Call, 0, 0, 8, 0x7fffffff, []byte{0, 0, 0, 0})
	m := c.waitID(0x7fffffff, 5*time.Second)
	if m == nil || m.Header.Type != net.Reply {
		return nil, fmt.Errorf("authentication of harness connection %d failed", idx)
	}
	c.mu.Lock()
	c.taken = len(c.got)
	c.mu.Unlock()
	return c, nil
}

func (e *svEnv) close() {
	for _, c := range e.conns {
		c.c.Close()
	}
}

func (c *svConn) send(typ uint8, service, object, action, id uint32, payload []byte) error {
	m := net.NewMessage(net.NewHeader(typ, service, object, action, id), payload)
	c.c.SetWriteDeadline(time.Now().Add(5 * time.Second))
	return m.Write(c.c)
}

// waitID waits for a frame with the given message id that has not been taken yet.
func (c *svConn) waitID(id uint32, d time.Duration) *net.Message { return c.waitFrom(id, d, false) }

// waitSeen waits for a frame with the given message id, taken already or not.
func (c *svConn) waitSeen(id uint32, d time.Duration) *net.Message { return c.waitFrom(id, d, true) }

func (c *svConn) waitFrom(id uint32, d time.Duration, all bool) *net.Message {
	deadline := time.Now().Add(d)
	stop := make(chan struct{})
	defer close(stop)
	go func() { // wake the waiter up at the deadline
		select {
		case <-time.After(d + 10*time.Millisecond):
			c.mu.Lock()
			c.cond.Broadcast()
			c.mu.Unlock()
		case <-stop:
		}
	}()
	c.mu.Lock()
	defer c.mu.Unlock()
	for {
		from := c.taken
		if all {
			from = 0
		}
		for i := from; i < len(c.got); i++ {
			if c.got[i].Header.ID == id {
				return &c.got[i]
			}
		}
		if c.dead || time.Now().After(deadline) {
			return nil
		}
		c.cond.Wait()
	}
}

// hasUntaken: a frame with this message id and type code has arrived and has not been taken yet
func (c *svConn) hasUntaken(id uint32, code int) bool {
	c.mu.Lock()
	defer c.mu.Unlock()
	for i := c.taken; i < len(c.got); i++ {
		if c.got[i].Header.ID == id && svTypeCode(&c.got[i]) == code {
			return true
		}
	}
	return false
}

// sync: every frame the server wrote to this connection before it handled the barrier call has
// been recorded when sync returns (the connection's consumer goroutine and the stream are FIFO).
func (c *svConn) sync() bool {
	c.barrier++
	id := c.barrier
	if err := c.send(net.Call, svBarrierService, 1, 1, id, nil); err != nil {
		return false
	}
	return c.waitID(id, 5*time.Second) != nil
}

// take returns the frames received since the last take, barrier answers excluded.
func (c *svConn) take() []net.Message {
	c.mu.Lock()
	defer c.mu.Unlock()
	var out []net.Message
	for _, m := range c.got[c.taken:] {
		if m.Header.Service != svBarrierService {
			out = append(out, m)
		}
	}
	c.taken = len(c.got)
	return out
}

func (e *svEnv) syncAll() bool {
	ok := true
	for _, c := range e.conns {
		if !c.sync() {
			ok = false
		}
	}
	return ok
}

func svU32(vs ...uint32) []byte {
	var b bytes.Buffer
	for _, v := range vs {
		binary.Write(&b, binary.LittleEndian, v)
	}
	return b.Bytes()
}

func svStr(s string) []byte {
	var b bytes.Buffer
	binary.Write(&b, binary.LittleEndian, uint32(len(s)))
	b.WriteString(s)
	return b.Bytes()
}

func svErrText(m *net.Message) string {
	v, err := value.NewValue(bytes.NewBuffer(m.Payload))
	if err != nil {
		return ""
	}
	if s, ok := v.(value.StringValue); ok {
		return s.Value()
	}
	return ""
}

// svTypeCode: 0 reply, 1 object not found, 2 object terminated, 3 wrong object id,
// 4 action not found, 5 other error, 6 event, 9 anything else
func svTypeCode(m *net.Message) int {
	switch m.Header.Type {
	case net.Reply:
		return 0
	case net.Event:
		return 6
	case net.Error:
		switch svErrText(m) {
		case bus.ErrObjectNotFound.Error():
			return 1
		case bus.ErrTerminate.Error():
			return 2
		case bus.ErrWrongObjectID.Error():
			return 3
		case bus.ErrActionNotFound.Error():
			return 4
		}
		return 5
	}
	return 9
}
