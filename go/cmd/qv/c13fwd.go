package main

// C13, client side of a subscription: client.Subscribe / proxy.SubscribeID forwarding goroutines,
// cancel functions and the reuse of endpoint handler slots on ONE client, with the subscribers'
// reading done by the harness itself.
//
// In c13.go every subscriber has a reader that always reads, so an event is with its reader as
// soon as the client's endpoint has dispatched it and a forwarding goroutine is always parked in
// its select when a cancel arrives.  Here nothing is read unless the schedule says so: an event
// can be left undelivered (its forwarder blocked in `events <- payload`) while its subscriber
// cancels, others subscribe on the same client (taking freed handler slots), events arrive and
// other subscribers read or do not read yet.
//
// One operation at a time on a free-running server: subscribe, cancel, emit (UpdateSignal has
// returned and the client's endpoint has dispatched the frame), one receive attempt of one
// subscriber, disconnect.  After every operation the harness waits until every forwarding
// goroutine is at rest (parked in its select or blocked in its send; goroutine dump).  The
// operations with what the readers found go to Coq (coq/theories/SignalsFwd.v replays them);
// the oracles below are evaluated on the implementation's own behaviour.

import (
	"bytes"
	"fmt"
	"os"
	"regexp"
	"runtime"
	"strings"
	"time"

	"github.com/lugu/qiloop/bus"
	"github.com/lugu/qiloop/bus/net"
	"github.com/lugu/qiloop/type/object"
	"qv/internal/hx"
)

var c13fwdSigs = []uint32{200, 201, 300}

type c13fsub struct {
	idx        int
	sig        uint32
	cancel     func()
	ch         chan []byte
	ackEmit    int // emissions made before SubscribeID returned
	cancelled  bool
	cancelEmit int // emissions made before the cancel request (or the disconnection)
	closedSeen bool
	got        []uint32
	gotAtEnd   int // events read when the cancel was requested (or the connection was closed)
	keptUp     bool
	// what the forwarder of this subscription should be holding (see pending)
	pend int
	gone bool
}

type c13femit struct {
	sig, p  uint32
	written int
}

type c13fwd struct {
	w       *c13world
	proxies []bus.Proxy
	subs    []*c13fsub
	ops     []string // Coq terms
	hist    []string
	emits   []c13femit
	down    bool
	fails   [][2]string
	stopped bool
	next    uint32
}

func c13fwdNew() *c13fwd {
	w := c13new(1)
	f := &c13fwd{w: w, next: 100}
	cl := w.clients[0]
	// two proxies of the same object on the one client: they share the client's counters and its endpoint
	f.proxies = []bus.Proxy{cl.proxy, bus.NewProxy(cl.cl, object.FullMetaObject(c13meta()), w.sid, 1)}
	return f
}

func (f *c13fwd) history() string { return strings.Join(f.hist, "; ") }

func (f *c13fwd) fail(kind, format string, a ...interface{}) {
	f.fails = append(f.fails, [2]string{kind, fmt.Sprintf(format, a...) + "; operations on one client: " + f.history()})
}

var c13fwdRe = regexp.MustCompile(`qiloop/bus\.\(\*client\)\.`)

// c13fwdBusy: goroutines running a method of bus.client or a closure of one (the forwarding goroutines
// are closures of client.Subscribe) that are neither parked in a select nor blocked on a channel.
func c13fwdBusy(buf *[]byte) int {
	for {
		n := runtime.Stack(*buf, true)
		if n < len(*buf) {
			busy := 0
			for _, g := range bytes.Split((*buf)[:n], []byte("\n\n")) {
				if !c13fwdRe.Match(g) {
					continue
				}
				a, b := bytes.IndexByte(g, '['), bytes.IndexByte(g, ']')
				if a < 0 || b < a {
					busy++
					continue
				}
				st := string(g[a+1 : b])
				if i := strings.IndexByte(st, ','); i >= 0 {
					st = st[:i]
				}
				if st != "select" && st != "chan send" && st != "chan receive" {
					busy++
				}
			}
			return busy
		}
		*buf = make([]byte, 2*len(*buf))
	}
}

var c13fwdBuf = make([]byte, 1<<20)

// quiet: every forwarding goroutine is at rest and the client's endpoint is waiting for the next frame.
func (f *c13fwd) quiet() {
	dl := time.Now().Add(c13Wait)
	down := f.w.clients[0].c.Down
	for {
		if (f.down || down.Idle()) && c13fwdBusy(&c13fwdBuf) == 0 {
			return
		}
		if time.Now().After(dl) {
			f.fail("stalled", "the forwarding goroutines of the client did not come to rest within %v", c13Wait)
			f.stopped = true
			return
		}
		time.Sleep(50 * time.Microsecond)
	}
}

// within: fn with a deadline.
func c13within(d time.Duration, fn func()) bool {
	done := make(chan struct{})
	go func() { fn(); close(done) }()
	select {
	case <-done:
		return true
	case <-time.After(d):
		return false
	}
}

func (f *c13fwd) live(sig uint32) bool {
	for _, s := range f.subs {
		if s.sig == sig && !s.cancelled {
			return true
		}
	}
	return false
}

// subscribe: SubscribeID(sig) on the client, to completion.
func (f *c13fwd) subscribe(sig uint32) *c13fsub {
	if f.stopped || f.down {
		return nil
	}
	s := &c13fsub{idx: len(f.subs), sig: sig}
	var err error
	p := f.proxies[len(f.subs)%2]
	if !c13within(c13Wait, func() { s.cancel, s.ch, err = p.SubscribeID(sig) }) {
		f.hist = append(f.hist, fmt.Sprintf("SubscribeID(%d) does not return", sig))
		f.fail("stalled", "SubscribeID(%d) did not return within %v", sig, c13Wait)
		f.stopped = true
		return nil
	}
	if err != nil {
		f.hist = append(f.hist, fmt.Sprintf("SubscribeID(%d) fails", sig))
		f.fail("stalled", "SubscribeID(%d) failed: %v", sig, err)
		f.stopped = true
		return nil
	}
	s.ackEmit = len(f.emits)
	f.subs = append(f.subs, s)
	f.ops = append(f.ops, fmt.Sprintf("XSub %d", sig))
	f.hist = append(f.hist, fmt.Sprintf("SubscribeID(%d) returns: subscriber %d", sig, s.idx))
	f.quiet()
	return s
}

// emit: UpdateSignal(sig, payload of p) returns and the client's endpoint has dispatched what was sent.
func (f *c13fwd) emit(sig uint32) {
	if f.stopped || f.down {
		return
	}
	f.next++
	p := f.next
	down := f.w.clients[0].c.Down
	before := len(down.Frames())
	ok := c13within(c13Wait, func() {
		if sig >= 300 {
			f.w.obj.UpdateProperty(sig, "i", c13payload(sig, p))
		} else {
			f.w.obj.UpdateSignal(sig, c13payload(sig, p))
		}
	})
	f.hist = append(f.hist, fmt.Sprintf("UpdateSignal(%d, event %d)", sig, p))
	if !ok {
		f.fail("stalled", "UpdateSignal(%d) did not return within %v", sig, c13Wait)
		f.stopped = true
		return
	}
	if !f.w.n.WaitFor(c13Wait, down.Idle) {
		f.fail("stalled", "the client's endpoint did not read the frames sent to it within %v", c13Wait)
		f.stopped = true
		return
	}
	e := c13femit{sig: sig, p: p}
	for _, fr := range down.Frames()[before:] {
		if fr.Hdr.Service != f.w.sid || fr.Hdr.Type != net.Event {
			continue
		}
		if fr.Hdr.Action == sig && c13val(fr.Payload) == p {
			e.written++
		}
		f.ops = append(f.ops, fmt.Sprintf("XEvent %d %d", fr.Hdr.Action, c13val(fr.Payload)))
		for _, s := range f.subs {
			if s.sig == fr.Hdr.Action && !s.gone {
				s.pend++
			}
		}
	}
	live := f.live(sig)
	f.emits = append(f.emits, e)
	switch {
	case live && e.written == 0:
		f.fail("event-lost", "emission %d of signal %d: no event frame was sent to the client although it has a subscriber that has not cancelled", p, sig)
	case !live && e.written > 0:
		f.fail("event-after-unregister-reply", "emission %d of signal %d: an event frame was sent to the client although every subscriber of that signal had cancelled (cancel had returned)", p, sig)
	}
	f.quiet()
}

// cancelSub: the cancel function of s, to completion.
func (f *c13fwd) cancelSub(s *c13fsub) {
	if f.stopped || s.cancelled {
		return
	}
	if f.down { // (its window ended with the connection)
		return
	}
	s.cancelled, s.cancelEmit, s.gotAtEnd = true, len(f.emits), len(s.got)
	f.hist = append(f.hist, fmt.Sprintf("subscriber %d cancels", s.idx))
	if !c13within(c13Wait, s.cancel) {
		f.fail("stalled", "the cancel function of subscriber %d did not return within %v", s.idx, c13Wait)
		f.stopped = true
		return
	}
	f.ops = append(f.ops, fmt.Sprintf("XCancel %d", s.idx))
	if s.pend == 0 {
		s.gone = true
	}
	f.quiet()
}

// read: one receive attempt of subscriber s.  0: nothing, 1: an event, 2: closed.
func (f *c13fwd) read(s *c13fsub) int {
	if f.stopped || s.closedSeen {
		return 2
	}
	d := 20 * time.Millisecond
	if s.pend > 0 || s.cancelled || f.down {
		d = c13Wait
	}
	select {
	case b, ok := <-s.ch:
		if !ok {
			s.closedSeen, s.gone, s.pend = true, true, 0
			f.ops = append(f.ops, fmt.Sprintf("XClosed %d", s.idx))
			f.hist = append(f.hist, fmt.Sprintf("subscriber %d reads: channel closed", s.idx))
			if !s.cancelled && !f.down {
				f.fail("closed-while-subscribed", "subscriber %d (signal %d): its channel was closed although it never cancelled and the connection is up", s.idx, s.sig)
			}
			f.quiet()
			return 2
		}
		p := c13val(b)
		s.got = append(s.got, p)
		if s.pend > 0 {
			s.pend--
		}
		if s.cancelled && s.pend == 0 {
			s.gone = true
		}
		f.ops = append(f.ops, fmt.Sprintf("XGot %d %d", s.idx, p))
		f.hist = append(f.hist, fmt.Sprintf("subscriber %d reads: event %d", s.idx, p))
		if want := c13payload(s.sig, p); !bytes.Equal(b, want) {
			for _, e := range f.emits {
				if e.p == p && e.sig == s.sig {
					f.fail("payload-corrupt", "subscriber %d (signal %d) read %d bytes starting with %x, which is not the payload emitted as event %d", s.idx, s.sig, len(b), b[:c13min(len(b), 12)], p)
				}
			}
		}
		f.quiet()
		return 1
	case <-time.After(d):
		f.ops = append(f.ops, fmt.Sprintf("XNone %d", s.idx))
		f.hist = append(f.hist, fmt.Sprintf("subscriber %d reads: nothing", s.idx))
		return 0
	}
}

// readAll: s reads until there is nothing more (or the channel is closed).
func (f *c13fwd) readAll(s *c13fsub) int {
	for i := 0; i < 400; i++ {
		if r := f.read(s); r != 1 {
			return r
		}
	}
	return 1
}

func (f *c13fwd) disconnect() {
	if f.stopped || f.down {
		return
	}
	for _, s := range f.subs {
		if !s.cancelled {
			s.cancelEmit, s.gotAtEnd = len(f.emits), len(s.got)
		}
	}
	f.w.clients[0].c.Close()
	f.down = true
	f.ops = append(f.ops, "XDown")
	f.hist = append(f.hist, "the connection is closed")
	f.quiet()
}

// finish: the subscribers that have not cancelled read what is still pending for them (they "keep
// reading"); then either the connection is closed or each of them cancels; everybody reads to the end.
func (f *c13fwd) finish(disconnect bool) {
	for _, s := range f.subs {
		if s.cancelled || s.closedSeen || f.stopped {
			continue
		}
		for s.pend > 0 {
			if r := f.read(s); r != 1 {
				if r == 0 {
					f.fail("event-lost", "subscriber %d (signal %d) finds nothing to read although %d events dispatched to its client since its subscription have not reached it", s.idx, s.sig, s.pend)
				}
				break
			}
		}
		s.keptUp = true
	}
	if disconnect {
		f.disconnect()
	}
	for _, s := range f.subs {
		if f.stopped {
			break
		}
		if !f.down {
			f.cancelSub(s)
		}
		if !s.closedSeen && f.readAll(s) == 0 {
			f.fail("not-closed", "subscriber %d: its channel is not closed although it cancelled (or the connection ended) and it has read everything", s.idx)
		}
	}
}

// verdicts: the property on what the readers received.
func (f *c13fwd) verdicts() [][2]string {
	emitted := map[uint32]c13femit{}
	for _, e := range f.emits {
		emitted[e.p] = e
	}
	for _, s := range f.subs {
		// what it may have read, in this order and without gaps: the emissions of its signal between its
		// acknowledgement and its cancel request (must: it gets all of them if it keeps reading), then —
		// a forwarder that is blocked in its send leaves only when its subscriber reads on — those later
		// emissions that were sent to the client (another subscriber keeps or renews the registration)
		var want []uint32
		must := 0
		for i, e := range f.emits {
			if i >= s.ackEmit && e.sig == s.sig && (i < s.cancelEmit || e.written > 0) {
				want = append(want, e.p)
				if i < s.cancelEmit {
					must++
				}
			}
		}
		for i, p := range s.got {
			if i < len(want) && want[i] == p {
				continue
			}
			e, ok := emitted[p]
			seen := false
			for _, q := range s.got[:i] {
				seen = seen || q == p
			}
			switch {
			case !ok:
				f.fail("foreign-payload", "subscriber %d (signal %d) read %d, which was never emitted", s.idx, s.sig, p)
			case e.sig != s.sig:
				f.fail("other-signal", "subscriber %d of signal %d read event %d, emitted for signal %d", s.idx, s.sig, p, e.sig)
			case seen:
				f.fail("order-or-duplicate", "subscriber %d read %v: event %d twice", s.idx, s.got, p)
			default:
				f.fail("event-lost", "subscriber %d (signal %d, subscribed before emission number %d) read %v; the emissions of its signal since then (after its cancel request: those sent to its client) are %v", s.idx, s.sig, s.ackEmit, s.got, want)
			}
			break
		}
		if s.keptUp && !f.stopped && s.gotAtEnd < must {
			f.fail("event-lost", "subscriber %d (signal %d) had read %d events when it cancelled, after reading everything there was to read; %d were emitted between its acknowledgement and its cancel request: %v", s.idx, s.sig, s.gotAtEnd, must, want[:must])
		}
	}
	return f.fails
}

func (f *c13fwd) caseTerm() string {
	var subs []string
	for _, s := range f.subs {
		g := make([]uint64, len(s.got))
		for i, v := range s.got {
			g[i] = uint64(v)
		}
		subs = append(subs, fmt.Sprintf("(%s, %s)", hx.Bool(s.closedSeen), hx.NList(g)))
	}
	return fmt.Sprintf("{| fk_ops := [%s]%%N; fk_subs := %s%%N |}", strings.Join(f.ops, "; "), hx.List(subs))
}

// ---- scripted interleavings ----

type c13fwdScript struct {
	name string
	play func(f *c13fwd)
}

func c13fwdScripts() []c13fwdScript {
	return []c13fwdScript{
		{"cancel-with-undelivered-event-then-subscribe", func(f *c13fwd) {
			// A leaves while an event is still undelivered for it; B subscribes to the same signal on
			// the same client before A reads on; then A reads to the end; the next event is B's alone
			for i := 0; i < 8 && !f.stopped && len(f.fails) == 0; i++ {
				a := f.subscribe(200)
				f.emit(200)
				f.cancelSub(a)
				b := f.subscribe(200)
				f.readAll(a)
				f.emit(200)
				f.read(b)
				f.emit(200)
				f.cancelSub(b)
				f.readAll(b)
			}
		}},
		{"cancel-with-undelivered-event-other-signal", func(f *c13fwd) {
			// the same with a newcomer of another signal, while a third subscriber keeps A's registration alive
			c := f.subscribe(200)
			for i := 0; i < 8 && !f.stopped && len(f.fails) == 0; i++ {
				a := f.subscribe(200)
				f.emit(200)
				f.cancelSub(a)
				b := f.subscribe(201)
				f.readAll(a)
				f.emit(201)
				f.emit(200)
				f.read(b)
				f.readAll(c)
				f.cancelSub(b)
				f.readAll(b)
			}
		}},
		{"two-leave-two-arrive", func(f *c13fwd) {
			// two subscribers leave with undelivered events, two arrive (property and signal), the leavers read on in either order
			for i := 0; i < 6 && !f.stopped && len(f.fails) == 0; i++ {
				a := f.subscribe(200)
				c := f.subscribe(201)
				f.emit(200)
				f.emit(201)
				f.emit(200)
				f.cancelSub(a)
				f.cancelSub(c)
				b := f.subscribe(300)
				d := f.subscribe(200)
				if i%2 == 0 {
					f.readAll(a)
					f.readAll(c)
				} else {
					f.readAll(c)
					f.readAll(a)
				}
				f.emit(300)
				f.emit(200)
				f.read(b)
				f.read(d)
				f.cancelSub(b)
				f.cancelSub(d)
				f.readAll(b)
				f.readAll(d)
			}
		}},
		{"idle-cancel-slot-reuse", func(f *c13fwd) {
			// the forwarder is parked when its subscriber cancels: its slot is free at once and the next subscriber takes it
			keep := f.subscribe(201)
			for i := 0; i < 5 && !f.stopped && len(f.fails) == 0; i++ {
				a := f.subscribe(200)
				f.emit(200)
				f.read(a)
				f.cancelSub(a)
				b := f.subscribe(200)
				f.read(a)
				f.emit(200)
				f.emit(201)
				f.read(b)
				f.read(keep)
				f.cancelSub(b)
				f.read(b)
			}
		}},
		{"slow-reader-three-queued", func(f *c13fwd) {
			// three events wait for a subscriber that cancels without having read any; its neighbour reads all three
			a := f.subscribe(200)
			b := f.subscribe(200)
			f.emit(200)
			f.emit(200)
			f.emit(200)
			f.cancelSub(a)
			c := f.subscribe(200)
			f.emit(200)
			f.read(a)
			f.read(b)
			f.read(c)
			f.readAll(a)
			f.emit(200)
		}},
		{"late-reader-burst-40", func(f *c13fwd) {
			// 40 events wait in the queues (capacity 100) before anybody reads
			a := f.subscribe(200)
			b := f.subscribe(300)
			for i := 0; i < 40; i++ {
				f.emit(200)
				if i%4 == 0 {
					f.emit(300)
				}
			}
			f.readAll(b)
			f.readAll(a)
		}},
	}
}

// c13fwdRandom: random operations of up to five subscribers of three signals (one a property) on the client.
func c13fwdRandom(rng *hx.Rng, f *c13fwd, nops int) {
	nsig := 1 + rng.Intn(3)
	maxSubs := 3 + rng.Intn(4)
	for i := 0; i < nops && !f.stopped && len(f.fails) == 0; i++ {
		type act func()
		var acts []act
		add := func(weight int, a act) {
			for j := 0; j < weight; j++ {
				acts = append(acts, a)
			}
		}
		if len(f.subs) < maxSubs {
			add(4, func() { f.subscribe(c13fwdSigs[rng.Intn(nsig)]) })
		}
		var liveSigs []uint32
		for _, s := range f.subs {
			s := s
			if !s.cancelled {
				liveSigs = append(liveSigs, s.sig)
				add(2, func() { f.cancelSub(s) })
			}
			if !s.closedSeen {
				switch {
				case s.pend > 0 || s.cancelled:
					add(3, func() {
						// a cancelled forwarder that comes back to its select with events still queued picks
						// any ready case: its subscriber reads on to the end at once, so that the operations
						// that follow do not depend on what it picked
						if f.read(s) == 1 && s.cancelled && s.pend > 0 {
							f.readAll(s)
						}
					})
					add(1, func() { f.readAll(s) })
				case rng.Intn(6) == 0:
					add(1, func() { f.read(s) })
				}
			}
		}
		if len(liveSigs) > 0 {
			add(5, func() { f.emit(liveSigs[rng.Intn(len(liveSigs))]) })
		}
		add(1, func() { f.emit(c13fwdSigs[rng.Intn(nsig)]) })
		acts[rng.Intn(len(acts))]()
	}
}

// c13runFwd: scripts and random sequences; failures go to res, the sequences to the case files.
func c13runFwd(res *hx.Result, rng *hx.Rng, tier string, outdir string) {
	cf := hx.NewCases(outdir, "C13fwd", "From QV Require Import Signals SignalsFwd C13Run.", "fwd_mismatches fcases", res, "fcases", "fcase")
	stalled := 0
	finish := func(f *c13fwd, name string, disconnect bool) {
		f.finish(disconnect)
		for _, v := range f.verdicts() {
			res.Fail(v[0], v[1])
		}
		nsub, nem, left := len(f.subs), len(f.emits), 0
		for _, s := range f.subs {
			if s.gotAtEnd < len(s.got) {
				left++
			}
		}
		res.Count("fwd;"+strings.Join(f.ops, ";"), nsub >= 2 && nem >= 2)
		res.Dist("kind:" + name)
		res.Dist(fmt.Sprintf("client-side subscribers:%d", nsub))
		if left > 0 {
			res.Dist("client-side: a subscriber cancelled with events it had not read")
		}
		res.Sample(fmt.Sprintf("%s: %d operations, %d subscribers, %d emissions", name, len(f.ops), nsub, nem))
		if !f.stopped {
			cf.Add("fcases", f.caseTerm(), name+": "+f.history())
		} else {
			stalled++
		}
		f.w.close()
	}
	for i, sc := range c13fwdScripts() {
		f := c13fwdNew()
		sc.play(f)
		finish(f, "fwd-script-"+sc.name, i%3 == 2)
	}
	n := 160
	if tier == "thorough" {
		// the state of the forwarders is read off runtime.Stack dumps of ALL goroutines, and every world leaves
		// the mailbox goroutines of its objects behind (the implementation never ends them): the cost per
		// sequence grows with the number of sequences played (4000 took 15 minutes, 1200 take about two)
		n = 1200
	}
	if v := strings.TrimPrefix(os.Getenv("QV_C13_FWD"), "only:"); v != "" { // campaigns: number of random sequences
		fmt.Sscanf(v, "%d", &n)
	}
	for i := 0; i < n; i++ {
		if stalled >= 4 {
			res.Notes = append(res.Notes, fmt.Sprintf("C13 client-side sequences: %d sequences stalled, the remaining %d random ones were not run", stalled, n-i))
			break
		}
		f := c13fwdNew()
		c13fwdRandom(rng, f, 8+rng.Intn(18))
		finish(f, "fwd-random", i%5 == 4)
	}
	cf.Flush()
}
