package main

// c11run.go — executes one (scenario, fault) pair of the C11 check on the real client.

import (
	"fmt"
	"io"
	"sync/atomic"
	"time"

	"github.com/lugu/qiloop/bus"
	"github.com/lugu/qiloop/bus/net"
)

type c11CallRes struct {
	payload []byte
	err     error
	at      time.Time
}

type c11Runner struct {
	sc        c11Scenario
	f         c11Fault
	hold      bool
	fam       int // family of the run (index of c11Hung)
	hang      time.Duration
	full      time.Duration
	st        *c11Stream
	ep        net.EndPoint
	cl        bus.Client
	obs       *c11Obs
	callRes   []chan c11CallRes
	callGot   []*c11CallRes
	callID    []uint32
	started   []bool
	held      []bool // Write entered, not yet returned
	cheld     []bool // Write of the Cancel message entered, not yet returned
	cancelCh  []chan struct{}
	cancelled []bool
	wrote     []bool // Write returned success
	subEv     []chan []byte
	subReg    []bool
	cbReg     []bool
	cb        []int32
	nextID    uint32
	svcSeq    int // frames of type Call fed so far (c11blocked.go)
	faulted   bool
	faultAt   time.Time
	userClose chan error
}

func (r *c11Runner) lab(format string, a ...interface{}) {
	r.obs.labels = append(r.obs.labels, fmt.Sprintf(format, a...))
}
func (r *c11Runner) failf(format string, a ...interface{}) {
	r.obs.fail = append(r.obs.fail, fmt.Sprintf(format, a...))
}
func (r *c11Runner) abort(format string, a ...interface{}) {
	if r.obs.aborted == "" {
		r.obs.aborted = fmt.Sprintf(format, a...)
	}
}

// tryCollect picks up the result of call c if it has returned.
func (r *c11Runner) tryCollect(c int) bool {
	if r.callGot[c] != nil {
		return true
	}
	select {
	case x := <-r.callRes[c]:
		r.callGot[c] = &x
		return true
	default:
		return false
	}
}

func (r *c11Runner) waitCall(c int, d time.Duration) bool {
	if r.callGot[c] != nil {
		return true
	}
	select {
	case x := <-r.callRes[c]:
		r.callGot[c] = &x
		return true
	case <-time.After(r.hang):
		r.missed()
		return false
	}
}

// c11Hung counts, per family of runs (0: the scenario enumeration, 1: the blocked-consumer runs of
// c11blocked.go, 2: the many-handler runs of c11many.go), the runs in which some wait hit its
// deadline; after a few of them the enumeration of that family stops (the remaining runs would only
// wait).  A family is not stopped by the deadlines of another one: a change may make the runs of
// one family wait (without any oracle failing) and break the property only in another.
var c11Hung [4]int32 // (3: the large frames of c11large.go)

func c11HungTotal() int32 {
	return atomic.LoadInt32(&c11Hung[0]) + atomic.LoadInt32(&c11Hung[1]) + atomic.LoadInt32(&c11Hung[2]) + atomic.LoadInt32(&c11Hung[3])
}

// c11HungFail counts the hung runs in which a property oracle failed as well.
var c11HungFail int32

// missed: a deadline passed in this run; later waits of the same run are kept short.
func (r *c11Runner) missed() {
	if r.hang > 100*time.Millisecond {
		r.hang = 100 * time.Millisecond
		atomic.AddInt32(&c11Hung[r.fam], 1)
	}
}

func (r *c11Runner) startCall(c int) {
	if !r.cancelled[c] { // a call cancelled beforehand returns before drawing an id
		r.nextID += 2
		r.callID[c] = r.nextID
	}
	r.started[c] = true
	ch := r.callRes[c]
	cl := r.cl
	cancel := r.cancelCh[c]
	go func() {
		p, err := cl.Call(cancel, c11Service, 1, uint32(100+c), []byte{0xab, byte(c)})
		ch <- c11CallRes{p, err, time.Now()}
	}()
}

func (r *c11Runner) waitIdle(what string) bool {
	if !r.st.poll(r.hang, r.st.readerIdle) {
		r.abort("reader not idle: %s", what)
		return false
	}
	return true
}

// releaseHeld: writes blocked in the stream fail when the connection dies or is closed.
func (r *c11Runner) failHeld() {
	for c := range r.held {
		if r.held[c] {
			r.held[c] = false
			r.lab("LCallSendFail %d", c)
		}
		if r.cheld[c] {
			r.cheld[c] = false
			r.lab("LCallCancelSend %d", c)
		}
	}
}

func (r *c11Runner) inFlight() int {
	k := 0
	for c := range r.started {
		if r.started[c] && !r.tryCollect(c) && !r.obs.replied[c] {
			k++
		}
	}
	return k
}

// fire injects the fault (the reader is blocked in Read; frameLost says a frame is cut).
func (r *c11Runner) fire() {
	r.faulted = true
	r.obs.pendingAtFault = r.inFlight()
	for i := range r.subReg {
		r.obs.subEarly[i] = r.subReg[i]
	}
	for j := range r.cbReg {
		r.obs.cbEarly[j] = r.cbReg[j]
	}
	st := r.st
	st.mu.Lock()
	st.holdCl = r.hold
	st.holdFrom = 1
	if r.f.kind == "lclose" {
		st.holdFrom = 2
	}
	st.mu.Unlock()
	r.faultAt = time.Now()
	switch r.f.kind {
	case "rerr":
		st.kill(errC11Fault, false)
		r.lab("LConnDie")
		r.lab("LReadFail")
		r.failHeld()
	case "reof":
		st.kill(io.EOF, false)
		r.lab("LConnDie")
		r.lab("LReadFail")
		r.failHeld()
	case "half":
		st.kill(io.EOF, true)
		r.lab("LConnDie")
		r.lab("LReadFail")
	case "wpart":
		c := r.sc.script[r.f.pos-1].idx
		st.mu.Lock()
		w := st.pendingWrite(r.callID[c], net.Call)
		n := 0
		if w != nil {
			n = len(w.buf) / 2
		}
		st.mu.Unlock()
		st.releaseWrite(r.callID[c], net.Call, n, errC11Fault)
		st.kill(errC11Fault, false)
		r.lab("LConnDie")
		r.lab("LReadFail")
		r.failHeld()
	case "rkind", "dwkind0", "dwkindp": // (a dwkind fault whose service call found room in the queue: a plain read failure)
		st.killKind(c11KindByName(r.f.ek), r.f.once)
		r.lab("LConnDie")
		r.lab("LReadFail")
		r.failHeld()
	case "wkind0", "wkindp":
		// the Write of the call started last reports the failure first; that call must return
		// on its own (nobody else has noticed anything yet); then the reads fail in the same kind
		k := c11KindByName(r.f.ek)
		c := r.sc.script[r.f.pos-1].idx
		r.lab("LConnDie")
		if r.held[c] {
			st.mu.Lock()
			w := st.pendingWrite(r.callID[c], net.Call)
			n := 0
			if w != nil && r.f.kind == "wkindp" {
				n = len(w.buf) / 2
			}
			st.mu.Unlock()
			st.releaseWrite(r.callID[c], net.Call, n, k.mk("write"))
			r.held[c] = false
			r.lab("LCallSendFail %d", c)
			full := r.hang
			if r.waitCall(c, r.hang) {
				r.lab("LCallRemove %d", c)
			} else {
				r.failf("call %d: its Write failed (%s) and it did not return within %v (the reads had not failed yet)", c, r.f.ek, full)
			}
		}
		st.killKind(k, r.f.once)
		r.lab("LReadFail")
		r.failHeld()
	case "lclose":
		done := make(chan error, 1)
		ep := r.ep
		go func() { done <- ep.Close() }()
		select {
		case <-done:
		case <-time.After(r.hang):
			r.failf("endpoint.Close() did not return within %v", r.hang)
			r.missed()
		}
		r.lab("LUserClose1")
		r.lab("LUserClose2")
		r.failHeld()
	}
}

func (r *c11Runner) frame(step c11Step, pos int) {
	var id uint32
	if step.owner == "call" {
		id = r.callID[step.idx]
	}
	frs := c11Split(c11StepFrame(step, id), step.frags)
	term := c11MsgTerm(step.owner, step.idx, step.mtype)
	inside := !r.faulted && r.f.pos == pos && r.f.frag > 0
	for i, fr := range frs {
		if !r.waitIdle("before fragment") {
			return
		}
		if inside && (r.f.kind == "dataeof" || r.f.kind == "dkind") && r.f.frag == i+1 {
			// the fragment is returned together with the error: basic.ReadN takes a frame completed
			// in this way only when the error is io.EOF
			var with error = io.EOF
			if r.f.kind == "dkind" {
				with = c11KindByName(r.f.ek).mk("read")
			}
			r.faulted = true
			r.obs.pendingAtFault = r.inFlight()
			copy(r.obs.subEarly, r.subReg)
			copy(r.obs.cbEarly, r.cbReg)
			r.st.mu.Lock()
			r.st.holdCl, r.st.holdFrom = r.hold, 1
			r.st.mu.Unlock()
			r.faultAt = time.Now()
			r.st.feed(fr, with)
			if r.f.kind == "dkind" {
				r.st.killKind(c11KindByName(r.f.ek), r.f.once)
				r.st.mu.Lock()
				r.st.rdFired = 1 // the error was reported once, with the data
				r.st.mu.Unlock()
			} else {
				r.st.kill(io.EOF, false)
			}
			if i == len(frs)-1 && with == io.EOF {
				r.lab("LPeerMsg (%s)", term)
				r.lab("LConnDie")
				r.lab("LDispatch")
				r.delivered(step)
			} else {
				r.lab("LConnDie")
			}
			r.lab("LReadFail")
			r.failHeld()
			return
		}
		if inside && r.f.kind != "dataeof" && r.f.kind != "dkind" && r.f.frag == i {
			r.fire()
			return
		}
		r.st.feed(fr, nil)
	}
	if !r.waitIdle("after frame") {
		return
	}
	r.lab("LPeerMsg (%s)", term)
	r.lab("LDispatch")
	r.delivered(step)
}

// delivered: bookkeeping for the oracles once a frame has been dispatched.
func (r *c11Runner) delivered(step c11Step) {
	if step.owner == "call" && step.mtype == net.Reply && r.started[step.idx] {
		c := step.idx
		r.obs.replied[c] = true
		if r.held[c] {
			r.obs.early[c] = true
		}
	}
}

var _ = atomic.AddInt32
