package main

// C10, payload sizes AT the documented limits.
//
// message.go documents one limit: `MaxPayloadSize limits the payload size of a message (10MB)`.  The model
// (Message.v) places it in valid_msg (`h_size <= MaxPayloadSize`) and in read_msg (`MaxPayloadSize <? h_size`
// is refused): every theorem of C10 speaks about all valid messages, the largest one included.  The sender
// runs of c10.go never went beyond 300 kB.  Here the sizes 0, 1, MaxPayloadSize-1 and MaxPayloadSize travel
// through real endpoints, placed among small messages of concurrent senders, on every transport, and are held
// to the oracles of runTransport: every message intact, once, in its sender's order, all of them arrive, the
// connection stays up, every handler holds what its filter selects.  Afterwards one frame with a payload of
// MaxPayloadSize+1 bytes is sent: the receiving endpoint must not hand it to any handler (read_msg refuses
// it), and the Send must come back.  The frames are 10 MiB each, so the runs are few (one per transport, three
// frames at or next to the limit) and are not written as model cases (a 10 MiB list literal is not something
// vm_compute should parse): implementation-side oracles, whose expectation is the model's valid_msg / read_msg.

import (
	"fmt"
	"time"

	"github.com/lugu/qiloop/bus/net"
	"qv/internal/hx"
)

const c10Max = int(net.MaxPayloadSize)

func phaseLimits(out *c10Out, rng *hx.Rng, dir string, k *int) {
	for ti, tr := range transports() {
		*k++
		// three senders, four messages each; where the frames at the limit stand in the lists varies with the transport
		a, b := ti%4, (ti+2)%4
		lim := &limRun{over: true, sizes: map[[2]int]int{
			{0, a}: c10Max - 1, {0, b}: c10Max, // one sender: MaxPayloadSize-1, then (or before) MaxPayloadSize
			{1, 0}: 0, {1, 1}: 1, // beside it the smallest sizes
			{2, (ti + 1) % 4}: c10Max, // and a second sender with a frame of MaxPayloadSize
		}}
		lim.note = fmt.Sprintf("[payload sizes at the limits: sender 0 message %d = MaxPayloadSize-1 = %d bytes, sender 0 message %d = MaxPayloadSize = %d bytes, sender 1 messages 1,2 = 0 and 1 bytes, sender 2 message %d = MaxPayloadSize]",
			a+1, c10Max-1, b+1, c10Max, (ti+1)%4+1)
		runTransportL(out, rng, tr, dir, *k, 3, 4, true, false, lim)
	}
}

// overLimit: all the messages of the run have arrived and the connection is up.  One frame whose payload is
// one byte longer than MaxPayloadSize follows.  read_msg refuses such a header (Err EOther) and the endpoint
// shuts the connection down: no handler may be given that message, the catch-all queue is closed, and Send
// returns (nil or an error: Message.Write has no size limit of its own, the peer hangs up in the middle).
func overLimit(out *c10Out, desc, trName string, snd net.EndPoint, hs []*rx, nS int) {
	m := c10Message(nS, 1, c10Max+1, net.Post)
	done := make(chan error, 1)
	go func() { done <- snd.Send(m) }()
	limit := 10 * time.Second
	all := hs[0]
	deadline := time.After(limit)
	for {
		select {
		case got, ok := <-all.q:
			if !ok {
				select {
				case <-done:
				case <-time.After(limit):
					out.Fails = append(out.Fails, fmt.Sprintf("%s; then one frame of MaxPayloadSize+1 = %d payload bytes: the receiving endpoint refused it and closed, but Send is still blocked after %v", desc, c10Max+1, limit))
				}
				out.Dist["over-limit-refused:"+trName]++
				return
			}
			out.Fails = append(out.Fails, fmt.Sprintf("%s; then one frame of MaxPayloadSize+1 = %d payload bytes: the receiving endpoint handed it to the catch-all handler (%s, %d payload bytes); the limit is MaxPayloadSize = %d",
				desc, c10Max+1, hdrStr(got.Header), len(got.Payload), c10Max))
			return
		case <-deadline:
			out.Fails = append(out.Fails, fmt.Sprintf("%s; then one frame of MaxPayloadSize+1 = %d payload bytes: after %v the receiving endpoint has neither delivered it nor closed its handlers", desc, c10Max+1, limit))
			return
		}
	}
}
