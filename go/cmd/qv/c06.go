package main

// C06 — only connections that presented accepted credentials reach any service.
// A real bus server (StandAloneServer) behind a harness-owned listener; the harness writes raw
// frames on in-memory streams, owns the Authenticator (scripted table, can be held inside a
// call) and two probe services (ids 1 and 2) that count invocations per connection.
// Then the same with real servers (StandAloneServer and NewServer) on net.Listen of every
// transport (unix://, tcp://, tcps://, pipe://) and connections made by net.DialEndPoint.

import (
	"bytes"
	"encoding/binary"
	"encoding/hex"
	"fmt"
	"io"
	"log"
	"os"
	"path/filepath"
	"strings"
	"sync"
	"time"

	"github.com/lugu/qiloop/bus"
	"github.com/lugu/qiloop/bus/net"
	"github.com/lugu/qiloop/type/value"
	"qv/internal/hx"
)

func init() { props["C06"] = runC06 }

const (
	c06BarrierObj = 0x7777
	c06FlushObj   = 0x7778
	c06SyncAction = 0x7777
	c06Deadline   = 5 * time.Second
)

// ---------- events ----------

type c06Event struct {
	kind                  int // 0 frame, 1 close, 2 invoke, 3 auth, 8 answer to a flush frame (not an observation), 9 harness timeout
	conn                  int // script-local connection id
	ty, svc, obj, act, id uint32
	body                  int
	payload               []byte
	user, token           string
	ans                   bool
	barrier               bool
}

type c06Log struct {
	mu  sync.Mutex
	ev  []c06Event
	sig chan struct{}
}

func (l *c06Log) add(e c06Event) {
	l.mu.Lock()
	l.ev = append(l.ev, e)
	l.mu.Unlock()
	select {
	case l.sig <- struct{}{}:
	default:
	}
}
func (l *c06Log) len() int { l.mu.Lock(); defer l.mu.Unlock(); return len(l.ev) }
func (l *c06Log) since(i int) []c06Event {
	l.mu.Lock()
	defer l.mu.Unlock()
	return append([]c06Event(nil), l.ev[i:]...)
}

// waitFor polls the log from index `from` for an event satisfying p.
func (l *c06Log) waitFor(from int, d time.Duration, p func(e c06Event) bool) bool {
	deadline := time.Now().Add(d)
	for {
		l.mu.Lock()
		for _, e := range l.ev[from:] {
			if p(e) {
				l.mu.Unlock()
				return true
			}
		}
		l.mu.Unlock()
		if time.Now().After(deadline) {
			return false
		}
		select {
		case <-l.sig:
		case <-time.After(200 * time.Microsecond):
		}
	}
}

// ---------- authenticator ----------

type c06Auth struct {
	mu       sync.Mutex
	table    map[[2]string]bool
	hold     bool
	occupied bool
	release  chan struct{}
	occSig   chan struct{}
	log      *c06Log
}

func (a *c06Auth) Authenticate(user, token string) bool {
	a.mu.Lock()
	ans := a.table[[2]string{user, token}]
	var rel chan struct{}
	if a.hold {
		a.occupied = true
		rel = a.release
		select {
		case a.occSig <- struct{}{}:
		default:
		}
	}
	a.mu.Unlock()
	if rel != nil {
		select {
		case <-rel:
		case <-time.After(30 * time.Second): // never hang the server for good
		}
	}
	a.log.add(c06Event{kind: 3, user: user, token: token, ans: ans})
	return ans
}
func (a *c06Auth) setTable(t [][2]string) {
	a.mu.Lock()
	a.table = map[[2]string]bool{}
	for _, p := range t {
		a.table[p] = true
	}
	a.mu.Unlock()
}
func (a *c06Auth) Hold() {
	a.mu.Lock()
	a.hold = true
	a.release = make(chan struct{})
	select {
	case <-a.occSig:
	default:
	}
	a.mu.Unlock()
}
func (a *c06Auth) Release() {
	a.mu.Lock()
	if a.hold {
		a.hold = false
		a.occupied = false
		close(a.release)
	}
	select {
	case <-a.occSig:
	default:
	}
	a.mu.Unlock()
}
func (a *c06Auth) Occupied() bool { a.mu.Lock(); defer a.mu.Unlock(); return a.occupied }
func (a *c06Auth) Holding() bool  { a.mu.Lock(); defer a.mu.Unlock(); return a.hold }

// ---------- probe service ----------

type c06Probe struct {
	svc uint32
	h   *c06Harness
}

func (p *c06Probe) Activate(a bus.Activation) error { return nil }
func (p *c06Probe) OnTerminate()                    {}
func (p *c06Probe) Receive(m *net.Message, from bus.Channel) error {
	invoke := func(c int) {
		p.h.log.add(c06Event{kind: 2, conn: c, ty: uint32(m.Header.Type), svc: m.Header.Service, obj: m.Header.Object,
			act: m.Header.Action, id: m.Header.ID, payload: append([]byte(nil), m.Payload...)})
	}
	if p.h.mode == "mem" {
		if c, ok := p.h.connOf(from.EndPoint().String()); ok {
			invoke(c)
			return nil
		}
		// the harness's own pre-authenticated local client: barrier
		if m.Header.Action == c06SyncAction {
			return from.SendReply(m, nil)
		}
		return nil
	}
	// real transports: the server's name for a connection (peer address, descriptor numbers) is
	// not known to the dialling side; the message ids of a script are unique and name the
	// connection the frame was sent on.  No script frame uses the barrier action.
	if m.Header.Action == c06SyncAction {
		return from.SendReply(m, nil)
	}
	c, ok := p.h.connOfID(m.Header.ID)
	if !ok {
		c = c06UnknownConn // a frame nobody sent on a script connection: never matches, never presented
	}
	invoke(c)
	return nil
}

// ---------- harness ----------

// c06Conn is what a script needs from a connection to the server: the harness-owned in-memory
// stream (ahStream) or a connection dialled through a real transport (c06WireConn).
type c06Conn interface {
	Inject(b []byte) // bytes of complete frames (or of a header that is not one)
	IsShut() bool    // the server has closed the connection
	PeerClose()      // the harness hangs up
}

const c06UnknownConn = 9999

type c06Harness struct {
	mode    string // "mem": harness-owned listener and streams; else a transport of bus/net
	ctor    string // "StandAloneServer" or "NewServer"
	addr    string // real transports: the address to dial
	dir     string // real transports: scratch directory of the socket files
	srv     bus.Server
	lis     *ahListener
	log     *c06Log
	auth    *c06Auth
	local   bus.Client
	mu      sync.Mutex
	names   map[string]int // stream name -> script-local id
	conns   map[int]c06Conn
	idConn  map[uint32]int // real transports: message id -> script-local id
	nextG   int
	gen     int
	flushID uint32
	notes   []string
}

// c06Transports: every scheme net.Listen / net.DialEndPoint know.
var c06Transports = []string{"unix", "tcp", "tcps", "pipe"}

// c06TransportServers: every transport with both constructors of a listening server.
func c06TransportServers() [][2]string {
	var out [][2]string
	for _, tr := range c06Transports {
		for _, ctor := range []string{"StandAloneServer", "NewServer"} {
			out = append(out, [2]string{tr, ctor})
		}
	}
	return out
}

// newC06Harness: ctor names the constructor of the server, bus.StandAloneServer or bus.NewServer
// (the latter takes its first service, here probe 1, as an argument).
func newC06Harness(mode, ctor string) (*c06Harness, error) {
	h := &c06Harness{mode: mode, ctor: ctor, log: &c06Log{sig: make(chan struct{}, 1)}, names: map[string]int{}, conns: map[int]c06Conn{}, idConn: map[uint32]int{}}
	h.auth = &c06Auth{log: h.log, occSig: make(chan struct{}, 1), table: map[[2]string]bool{}}
	var lis net.Listener
	if mode == "mem" {
		h.lis = newAhListener()
		lis = h.lis
	} else {
		dir, err := os.MkdirTemp("", "qvc06")
		if err != nil {
			return nil, err
		}
		h.dir = dir
		var addr string
		switch mode {
		case "unix", "pipe":
			addr = mode + "://" + filepath.Join(dir, "s.sock")
		case "tcp", "tcps":
			addr = mode + "://127.0.0.1:0" // the port is chosen by the operating system
		default:
			return nil, fmt.Errorf("unknown transport %s", mode)
		}
		l, err := net.Listen(addr)
		if err != nil {
			os.RemoveAll(dir)
			return nil, fmt.Errorf("net.Listen(%s): %v", addr, err)
		}
		h.addr = addr
		if mode == "tcp" || mode == "tcps" {
			a := net.VerifListenerAddr(l)
			if a == "" {
				l.Close()
				os.RemoveAll(dir)
				return nil, fmt.Errorf("net.Listen(%s): no bound address", addr)
			}
			h.addr = mode + "://" + a
		}
		lis = l
	}
	var srv bus.Server
	var err error
	first := uint32(1)
	if ctor == "NewServer" {
		srv, err = bus.NewServer(lis, h.auth, bus.PrivateNamespace(), &c06Probe{svc: 1, h: h})
		first = 2
	} else {
		srv, err = bus.StandAloneServer(lis, h.auth, bus.PrivateNamespace())
	}
	if err != nil {
		lis.Close()
		h.cleanup()
		return nil, err
	}
	h.srv = srv
	for i := first; i <= 2; i++ {
		s, err := srv.NewService(fmt.Sprintf("probe%d", i), &c06Probe{svc: i, h: h})
		if err != nil {
			h.close()
			return nil, err
		}
		if s.ServiceID() != i {
			h.close()
			return nil, fmt.Errorf("probe service got id %d, want %d", s.ServiceID(), i)
		}
	}
	h.local = srv.Client()
	return h, nil
}

func (h *c06Harness) cleanup() {
	if h.dir != "" {
		os.RemoveAll(h.dir)
	}
}

func (h *c06Harness) close() {
	h.resetConns()
	if h.srv != nil {
		h.srv.Terminate()
	}
	h.cleanup()
}

func (h *c06Harness) connOf(name string) (int, bool) {
	h.mu.Lock()
	defer h.mu.Unlock()
	c, ok := h.names[name]
	return c, ok
}

func (h *c06Harness) connOfID(id uint32) (int, bool) {
	h.mu.Lock()
	defer h.mu.Unlock()
	c, ok := h.idConn[id]
	return c, ok
}

// resetConns forgets the connections of the previous script (closing them) .
func (h *c06Harness) resetConns() {
	h.mu.Lock()
	old := h.conns
	h.conns = map[int]c06Conn{}
	h.names = map[string]int{}
	h.idConn = map[uint32]int{}
	h.gen++
	h.mu.Unlock()
	for _, s := range old {
		s.PeerClose()
	}
}

// c06StreamName: what the server reads as the name of a harness-owned stream.  The name of a
// stream is its peer's address as the transport prints it; the harness streams take the shapes
// the transports of bus/net produce (descriptor pair of a pipe:// connection, host:port, socket
// path), besides a name of no transport.  Whatever an accepted stream is called, it is a remote
// peer.
func c06StreamName(g int) string {
	switch g % 5 {
	case 1:
		return fmt.Sprintf("pipe://%d:%d", 2*g+7, 2*g+8)
	case 2:
		return fmt.Sprintf("tcp://127.0.0.1:%d", 20000+g)
	case 3:
		return fmt.Sprintf("unix:///tmp/qv-c06-%d", g)
	case 4:
		return fmt.Sprintf("tcp://[::1]:%d", 20000+g)
	}
	return fmt.Sprintf("ah%d", g)
}

func (h *c06Harness) conn(c int) (c06Conn, error) {
	h.mu.Lock()
	if s, ok := h.conns[c]; ok {
		h.mu.Unlock()
		return s, nil
	}
	h.nextG++
	name := c06StreamName(h.nextG)
	gen := h.gen
	h.mu.Unlock()
	current := func() bool { h.mu.Lock(); defer h.mu.Unlock(); return h.gen == gen }
	onFrame := func(m *net.Message) {
		if current() {
			h.log.add(h.frameEvent(c, m))
		}
	}
	onClose := func() {
		if current() {
			h.log.add(c06Event{kind: 1, conn: c})
		}
	}
	if h.mode != "mem" {
		w, err := c06Dial(h.addr, onFrame, onClose)
		if err != nil {
			return nil, err
		}
		h.mu.Lock()
		h.conns[c] = w
		h.mu.Unlock()
		return w, nil
	}
	s := newAhStream(name)
	h.mu.Lock()
	h.conns[c] = s
	h.names[name] = c
	h.mu.Unlock()
	s.onFrame = onFrame
	s.onClose = onClose
	if err := h.lis.Offer(s, c06Deadline); err != nil {
		return nil, err
	}
	return s, nil
}

// ---------- connections through the real transports ----------

// c06WireConn: a connection made by net.DialEndPoint to the address the server listens on
// (net.Listen): frames go out through EndPoint.Send, everything the server writes comes in
// through a handler that takes every frame; the handler's queue is closed when reading fails,
// i.e. when the server has closed the connection.
type c06WireConn struct {
	ep   net.EndPoint
	mu   sync.Mutex
	shut bool
}

func c06Dial(addr string, onFrame func(*net.Message), onClose func()) (*c06WireConn, error) {
	type dialed struct {
		ep  net.EndPoint
		err error
	}
	ch := make(chan dialed, 1)
	go func() { ep, err := net.DialEndPoint(addr); ch <- dialed{ep, err} }()
	var d dialed
	select {
	case d = <-ch:
	case <-time.After(c06Deadline):
		go func() {
			if d := <-ch; d.err == nil {
				d.ep.Close()
			}
		}()
		return nil, fmt.Errorf("net.DialEndPoint(%s) did not return", addr)
	}
	if d.err != nil {
		return nil, fmt.Errorf("net.DialEndPoint(%s): %v", addr, d.err)
	}
	w := &c06WireConn{ep: d.ep}
	// the server never speaks first: nothing is lost between the dial and this registration
	q := make(chan *net.Message, 1024)
	d.ep.MakeHandler(func(*net.Header) (bool, bool) { return true, true }, q, nil)
	go func() {
		for m := range q {
			onFrame(m)
		}
		w.mu.Lock()
		w.shut = true
		w.mu.Unlock()
		onClose()
	}()
	return w, nil
}

// Inject sends the 28 header bytes as they are (a header the server's reader refuses included)
// followed by the payload.
func (w *c06WireConn) Inject(b []byte) {
	if len(b) < net.HeaderSize || w.IsShut() {
		return
	}
	le := binary.LittleEndian
	hdr := net.Header{Magic: binary.BigEndian.Uint32(b[0:4]), ID: le.Uint32(b[4:8]), Size: le.Uint32(b[8:12]),
		Version: le.Uint16(b[12:14]), Type: b[14], Flags: b[15], Service: le.Uint32(b[16:20]), Object: le.Uint32(b[20:24]),
		Action: le.Uint32(b[24:28])}
	w.ep.Send(net.Message{Header: hdr, Payload: b[net.HeaderSize:]}) // fails once the server has hung up
}

func (w *c06WireConn) IsShut() bool { w.mu.Lock(); defer w.mu.Unlock(); return w.shut }
func (w *c06WireConn) PeerClose()   { w.ep.Close() }

// error classes, by comparison with the package's own error values (never by literal text)
func c06ErrClass(msg string) int {
	switch msg {
	case bus.ErrNotAuthenticated.Error():
		return 1
	case bus.ErrServiceNotFound.Error():
		return 2
	case bus.ErrObjectNotFound.Error():
		return 3
	case bus.ErrActionNotFound.Error():
		return 4
	case net.ErrConsumerBlocked.Error():
		return 6
	}
	return 5
}

func (h *c06Harness) frameEvent(c int, m *net.Message) c06Event {
	e := c06Event{kind: 0, conn: c, ty: uint32(m.Header.Type), svc: m.Header.Service, obj: m.Header.Object,
		act: m.Header.Action, id: m.Header.ID, body: 99}
	e.barrier = m.Header.Object == c06BarrierObj && m.Header.Service == 0
	if m.Header.Object == c06FlushObj && m.Header.Service == 0 {
		e.kind = 8
	}
	switch m.Header.Type {
	case net.Error:
		v, err := value.NewValue(bytes.NewReader(m.Payload))
		if s, ok := v.(value.StringValue); err == nil && ok {
			e.body = c06ErrClass(s.Value())
		}
	case net.Reply:
		cm, err := bus.ReadCapabilityMap(bytes.NewReader(m.Payload))
		if err == nil {
			st, ok := cm[bus.KeyState].(value.UintValue)
			_, hasUser := cm[bus.KeyUser]
			_, hasToken := cm[bus.KeyToken]
			switch {
			case ok && uint32(st) == bus.StateDone && len(cm) == 6 && !hasUser && !hasToken:
				e.body = 10
			case ok && uint32(st) == bus.StateError && len(cm) == 1:
				e.body = 11
			}
		}
	}
	return e
}

func (h *c06Harness) note(s string) {
	if len(h.notes) < 20 {
		h.notes = append(h.notes, s)
	}
}

// barrier on connection c: a Call to service 0, object 0x7777 is answered by the connection's
// consumer goroutine itself (ObjectNotFound) once everything before it has been handled.
func (h *c06Harness) barrier(c int, s c06Conn, k uint32, from int) {
	if s.IsShut() {
		return
	}
	s.Inject(ahEncode(net.Call, 0, c06BarrierObj, 0, k, nil))
	ok := h.log.waitFor(from, c06Deadline, func(e c06Event) bool {
		return e.conn == c && ((e.kind == 0 && e.barrier && e.id == k) || e.kind == 1)
	})
	if !ok {
		h.log.add(c06Event{kind: 9, conn: c})
		h.note(fmt.Sprintf("barrier %d on connection %d timed out", k, c))
	}
}

// flush (real transports): what the server wrote reaches the harness through a socket and the
// reading goroutine of the dialled endpoint, i.e. later than the server's Write returned.  After
// the server is quiescent (settle), a Call to service 0 / object 0x7778 goes out on every open
// connection: its answer (ObjectNotFound, by the connection's consumer goroutine, which is idle)
// is written after everything else and arrives after it.  These answers are not observations:
// the frame finds an empty queue, changes nothing and is left out of the case.
func (h *c06Harness) flush() {
	h.mu.Lock()
	conns := map[int]c06Conn{}
	for c, s := range h.conns {
		conns[c] = s
	}
	h.mu.Unlock()
	for c, s := range conns {
		if s.IsShut() {
			continue
		}
		h.flushID++
		id := 0x7000000 + h.flushID
		from := h.log.len()
		s.Inject(ahEncode(net.Call, 0, c06FlushObj, 0, id, nil))
		c := c
		ok := h.log.waitFor(from, c06Deadline, func(e c06Event) bool {
			return e.conn == c && ((e.kind == 8 && e.id == id) || e.kind == 1)
		})
		if !ok {
			h.log.add(c06Event{kind: 9, conn: c})
			h.note(fmt.Sprintf("flush frame on connection %d was not answered", c))
		}
	}
}

// settle the service-0 mailbox (unless the harness holds it) and the probe mailboxes
func (h *c06Harness) settle() {
	call := func(svc, obj, act uint32) chan error {
		ch := make(chan error, 1)
		go func() { _, err := h.local.Call(nil, svc, obj, act, nil); ch <- err }()
		return ch
	}
	if !h.auth.Occupied() {
		ch := call(0, 0, c06SyncAction)
		var occ chan struct{}
		if h.auth.Holding() {
			occ = h.auth.occSig
		}
		select {
		case <-ch:
		case <-occ:
		case <-time.After(c06Deadline):
			h.log.add(c06Event{kind: 9, conn: -1})
			h.note("service-0 mailbox barrier timed out")
		}
	}
	for svc := uint32(1); svc <= 2; svc++ {
		select {
		case <-call(svc, 1, c06SyncAction):
		case <-time.After(c06Deadline):
			h.log.add(c06Event{kind: 9, conn: -1})
			h.note("probe mailbox barrier timed out")
		}
	}
}

// ---------- scripts ----------

type c06Frame struct {
	ty                uint8
	svc, obj, act, id uint32
	payload           []byte
	desc              string
}

type c06Action struct {
	kind   int // 0 send, 1 burst, 2 garbage, 3 hold, 4 release, 5 queued burst (same as burst for the model)
	conn   int
	frames []c06Frame
}

func (f c06Frame) raw() []byte {
	if f.ty >= 1 && f.ty <= 8 {
		return ahEncode(f.ty, f.svc, f.obj, f.act, f.id, f.payload)
	}
	b := ahEncode(net.Call, f.svc, f.obj, f.act, f.id, f.payload)
	b[14] = f.ty // a type Header.Read refuses
	return b
}

func (h *c06Harness) runScript(table [][2]string, script []c06Action) [][]c06Event {
	h.resetConns()
	h.auth.setTable(table)
	if h.mode != "mem" {
		h.mu.Lock()
		for _, a := range script {
			for _, f := range a.frames {
				h.idConn[f.id] = a.conn
			}
		}
		h.mu.Unlock()
	}
	var obs [][]c06Event
	for k, a := range script {
		mark := h.log.len()
		switch a.kind {
		case 0, 1:
			s, err := h.conn(a.conn)
			if err != nil {
				h.note(err.Error())
				break
			}
			for _, f := range a.frames {
				s.Inject(f.raw())
			}
			h.barrier(a.conn, s, uint32(k), mark)
		case 5:
			// the consumer goroutine is held inside its first answer (the harness stream blocks
			// that Write) until the reader has queued every other frame of the burst
			cn, err := h.conn(a.conn)
			if err != nil {
				h.note(err.Error())
				break
			}
			s, ok := cn.(*ahStream)
			if !ok {
				h.note("queued burst: only on harness-owned streams")
				break
			}
			hit, release := s.GateNextWrite()
			s.Inject(a.frames[0].raw())
			select {
			case <-hit:
			case <-time.After(c06Deadline):
				h.note("queued burst: the first frame was not answered")
			}
			for _, f := range a.frames[1:] {
				s.Inject(f.raw())
			}
			if !s.WaitIdle(c06Deadline) {
				h.note("queued burst: reader did not consume the frames")
			}
			s.mu.Lock()
			s.shutWriteDelay = 500 * time.Microsecond
			s.mu.Unlock()
			release()
			h.barrier(a.conn, s, uint32(k), mark)
			if s.IsShut() {
				// no barrier can be sent on a closed stream: give a consumer goroutine that
				// (wrongly) keeps draining its queue the time to do so (every failing Write
				// of this stream takes 0.5 ms)
				time.Sleep(time.Duration(len(a.frames)+4) * time.Millisecond)
			}
		case 2:
			s, err := h.conn(a.conn)
			if err != nil {
				h.note(err.Error())
				break
			}
			if !s.IsShut() {
				s.Inject(c06Garbage())
				if !h.log.waitFor(mark, c06Deadline, func(e c06Event) bool { return e.conn == a.conn && e.kind == 1 }) {
					h.log.add(c06Event{kind: 9, conn: a.conn})
					h.note("garbage did not close the connection")
				}
			}
		case 3:
			h.auth.Hold()
		case 4:
			h.auth.Release()
		}
		h.settle()
		if h.mode != "mem" {
			h.flush()
		}
		var evs []c06Event
		for _, e := range h.log.since(mark) {
			if e.kind != 8 {
				evs = append(evs, e)
			}
		}
		obs = append(obs, evs)
	}
	h.auth.Release()
	return obs
}

// c06Garbage: 28 bytes that are not a header (wrong magic, version, type); the size field is 0
// so that the bytes can also be sent as a "message" through an EndPoint.
func c06Garbage() []byte {
	b := bytes.Repeat([]byte{0x55}, net.HeaderSize)
	copy(b[8:12], []byte{0, 0, 0, 0})
	return b
}

// c06WireScript: can the script run on a real transport (no write gate there), with message
// ids that name the connection; ids are renumbered when they do not.
func c06WireScript(script []c06Action) ([]c06Action, bool) {
	out := make([]c06Action, len(script))
	n := uint32(0)
	for i, a := range script {
		if a.kind == 5 {
			return nil, false
		}
		b := a
		b.frames = append([]c06Frame(nil), a.frames...)
		for j := range b.frames {
			n++
			b.frames[j].id = 0x4000 + 2*n
		}
		out[i] = b
	}
	return out, true
}

// ---------- payloads ----------

func c06Str(s string) []byte {
	b := make([]byte, 4, 4+len(s))
	binary.LittleEndian.PutUint32(b, uint32(len(s)))
	return append(b, s...)
}
func c06U32(v uint32) []byte { b := make([]byte, 4); binary.LittleEndian.PutUint32(b, v); return b }

type c06Entry struct {
	key string
	val []byte // signature string + data
}

func c06VStr(s string) []byte  { return append(c06Str("s"), c06Str(s)...) }
func c06VMStr(s string) []byte { return append(c06Str("m"), c06VStr(s)...) }
func c06VUint(v uint32) []byte { return append(c06Str("I"), c06U32(v)...) }
func c06VInt(v uint32) []byte  { return append(c06Str("i"), c06U32(v)...) }
func c06VBool(b bool) []byte {
	x := byte(0)
	if b {
		x = 1
	}
	return append(c06Str("b"), x)
}
func c06VLong(v uint64) []byte {
	b := make([]byte, 8)
	binary.LittleEndian.PutUint64(b, v)
	return append(c06Str("l"), b...)
}

func c06Map(count int, es []c06Entry) []byte {
	b := c06U32(uint32(count))
	for _, e := range es {
		b = append(b, c06Str(e.key)...)
		b = append(b, e.val...)
	}
	return b
}

// c06Decode: the harness's own reading of an authenticate payload, for the oracle only:
// which user/token pair (if any) the request presents.  Values of the kinds the generator uses.
func c06Decode(p []byte) (user, token string, ok bool) {
	rd := func(n int) ([]byte, bool) {
		if len(p) < n {
			return nil, false
		}
		x := p[:n]
		p = p[n:]
		return x, true
	}
	rdStr := func() (string, bool) {
		b, ok := rd(4)
		if !ok {
			return "", false
		}
		n := int(binary.LittleEndian.Uint32(b))
		if n > 10*1024*1024 {
			return "", false
		}
		s, ok := rd(n)
		return string(s), ok
	}
	b, k := rd(4)
	if !k {
		return "", "", false
	}
	n := binary.LittleEndian.Uint32(b)
	if n > 4096 {
		return "", "", false
	}
	type val struct {
		isStr bool
		s     string
	}
	m := map[string]val{}
	var rdVal func(depth int) (val, bool)
	rdVal = func(depth int) (val, bool) {
		sig, ok := rdStr()
		if !ok {
			return val{}, false
		}
		w := map[string]int{"c": 1, "C": 1, "b": 1, "w": 2, "W": 2, "i": 4, "I": 4, "f": 4, "l": 8, "L": 8, "v": 0}
		if n, ok := w[sig]; ok {
			_, ok := rd(n)
			return val{}, ok
		}
		switch sig {
		case "s":
			s, ok := rdStr()
			return val{true, s}, ok
		case "m":
			if depth > 1000 {
				return val{}, false
			}
			return rdVal(depth + 1)
		}
		return val{}, false
	}
	for i := uint32(0); i < n; i++ {
		key, ok := rdStr()
		if !ok {
			return "", "", false
		}
		v, ok := rdVal(0)
		if !ok {
			return "", "", false
		}
		m[key] = v
	}
	if v, ok := m[bus.KeyUser]; ok {
		if !v.isStr {
			return "", "", false
		}
		user = v.s
	}
	if v, ok := m[bus.KeyToken]; ok {
		if !v.isStr {
			return "", "", false
		}
		token = v.s
	}
	return user, token, true
}

// ---------- generators ----------

var c06Tables = [][][2]string{
	{{"nao", "secret"}},
	{{"nao", "secret"}, {"", "anon"}},
	{{"", ""}, {"a", "b"}},
	{},
	{{"u", ""}},
}

func c06Defaults() []c06Entry {
	return []c06Entry{{"ClientServerSocket", c06VBool(true)}, {"MessageFlags", c06VBool(true)},
		{"MetaObjectCache", c06VBool(false)}, {"RemoteCancelableCalls", c06VBool(false)}, {"ObjectPtrUID", c06VBool(false)}}
}

// c06AuthPayload draws an authenticate payload; kind names what was built.
func c06AuthPayload(rng *hx.Rng, table [][2]string, force int) ([]byte, string) {
	good := [2]string{"nao", "secret"}
	if len(table) > 0 {
		good = table[rng.Intn(len(table))]
	}
	creds := func(u, t string) []c06Entry {
		var es []c06Entry
		if u != "" || rng.Chance(0.2) {
			es = append(es, c06Entry{bus.KeyUser, c06VStr(u)})
		}
		if t != "" || rng.Chance(0.2) {
			es = append(es, c06Entry{bus.KeyToken, c06VStr(t)})
		}
		return es
	}
	withDefaults := func(es []c06Entry) []c06Entry {
		if rng.Chance(0.3) {
			d := c06Defaults()
			if rng.Bool() {
				return append(d, es...)
			}
			return append(es, d...)
		}
		return es
	}
	kind := force
	if kind < 0 {
		kind = rng.Intn(18)
	}
	switch kind {
	case 0, 1, 2:
		es := withDefaults(creds(good[0], good[1]))
		return c06Map(len(es), es), "good"
	case 3:
		es := withDefaults(creds(good[0], good[1]+"x"))
		return c06Map(len(es), es), "bad-token"
	case 4:
		es := withDefaults(creds("nobody", good[1]))
		return c06Map(len(es), es), "unknown-user"
	case 5:
		es := withDefaults([]c06Entry{{bus.KeyToken, c06VStr(good[1])}})
		return c06Map(len(es), es), "missing-user"
	case 6:
		es := withDefaults(nil)
		return c06Map(len(es), es), "missing-both"
	case 7:
		v := [][]byte{c06VUint(3), c06VInt(3), c06VBool(true), c06VLong(3)}[rng.Intn(4)]
		es := withDefaults([]c06Entry{{bus.KeyUser, v}, {bus.KeyToken, c06VStr(good[1])}})
		return c06Map(len(es), es), "wrongly-typed-user"
	case 8:
		v := [][]byte{c06VUint(3), c06VInt(3), c06VBool(true)}[rng.Intn(3)]
		es := withDefaults([]c06Entry{{bus.KeyUser, c06VStr(good[0])}, {bus.KeyToken, v}})
		return c06Map(len(es), es), "wrongly-typed-token"
	case 9:
		es := []c06Entry{{bus.KeyState, c06VUint(3)}}
		es = append(es, creds(good[0], good[1]+"x")...)
		return c06Map(len(es), withDefaults(es)), "forged-state-uint"
	case 10:
		es := []c06Entry{{bus.KeyState, c06VInt(3)}}
		if rng.Bool() {
			es = append(es, creds("nobody", "")...)
		}
		return c06Map(len(es), es), "forged-state-int"
	case 11:
		// duplicate keys: the later entry wins
		if rng.Bool() {
			es := []c06Entry{{bus.KeyUser, c06VStr(good[0])}, {bus.KeyToken, c06VStr(good[1])}, {bus.KeyToken, c06VStr("zz" + good[1])}}
			return c06Map(len(es), es), "dup-good-then-bad"
		}
		es := []c06Entry{{bus.KeyUser, c06VStr(good[0])}, {bus.KeyToken, c06VStr("zz" + good[1])}, {bus.KeyToken, c06VStr(good[1])}}
		return c06Map(len(es), es), "dup-bad-then-good"
	case 12:
		es := []c06Entry{{bus.KeyUser, c06VMStr(good[0])}, {bus.KeyToken, c06VStr(good[1])}}
		return c06Map(len(es), es), "m-wrapped-user"
	case 13:
		es := creds(good[0], good[1])
		b := c06Map(len(es), es)
		if len(b) > 4 {
			b = b[:4+rng.Intn(len(b)-4)]
		}
		return b, "truncated"
	case 14:
		es := creds(good[0], good[1])
		n := []int{len(es) + 1, 4096, 4097, 0x7fffffff, 0}[rng.Intn(5)]
		b := c06Map(len(es), es)
		binary.LittleEndian.PutUint32(b, uint32(n))
		return b, fmt.Sprintf("count-%d", n)
	case 15:
		es := creds(good[0], good[1])
		return append(c06Map(len(es), es), rng.Bytes(1+rng.Intn(6))...), "trailing"
	case 16:
		// an accepted pair with white space around it is another pair
		u, t := good[0], good[1]
		switch rng.Intn(5) {
		case 0:
			t += "\n"
		case 1:
			u += " "
		case 2:
			u, t = " "+u, " "+t+" "
		case 3:
			t = "\t" + t
		default:
			u, t = u+"\r\n", t+"\r\n"
		}
		es := withDefaults([]c06Entry{{bus.KeyUser, c06VStr(u)}, {bus.KeyToken, c06VStr(t)}})
		return c06Map(len(es), es), "padded"
	default:
		return nil, "empty"
	}
}

// payloads that occur in very many cases are named once per shard (case text is what costs time)
var c06Named = map[string]string{}
var c06NamedDefs []string

func c06Name(b []byte) {
	k := hex.EncodeToString(b)
	if _, ok := c06Named[k]; ok || len(b) == 0 {
		return
	}
	n := fmt.Sprintf("p%d", len(c06Named))
	c06Named[k] = n
	c06NamedDefs = append(c06NamedDefs, fmt.Sprintf("Definition %s := %s.", n, hx.Hex(b)))
}

func c06Hex(b []byte) string {
	if n, ok := c06Named[hex.EncodeToString(b)]; ok {
		return n
	}
	return hx.Hex(b)
}

func c06FrameTerm(f c06Frame) string {
	return fmt.Sprintf("(%s, %s)", hx.NList([]uint64{uint64(f.ty), uint64(f.svc), uint64(f.obj), uint64(f.act), uint64(f.id)}), c06Hex(f.payload))
}

func c06ActionTerm(a c06Action) string {
	switch a.kind {
	case 0:
		f := a.frames[0]
		return fmt.Sprintf("ASend %s %s %s", hx.N(uint64(a.conn)),
			hx.NList([]uint64{uint64(f.ty), uint64(f.svc), uint64(f.obj), uint64(f.act), uint64(f.id)}), c06Hex(f.payload))
	case 1, 5:
		var it []string
		for _, f := range a.frames {
			it = append(it, c06FrameTerm(f))
		}
		return fmt.Sprintf("ABurst %s %s", hx.N(uint64(a.conn)), hx.List(it))
	case 2:
		return "AGarbage " + hx.N(uint64(a.conn))
	case 3:
		return "AHold"
	}
	return "ARelease"
}

func c06EventTerm(e c06Event) string {
	n := func(v uint32) string { return hx.N(uint64(v)) }
	switch e.kind {
	case 0:
		return fmt.Sprintf("EFrame %s %s %s %s %s %s %s", hx.N(uint64(e.conn)), n(e.ty), n(e.svc), n(e.obj), n(e.act), n(e.id), hx.N(uint64(e.body)))
	case 1:
		return "EClose " + hx.N(uint64(e.conn))
	case 2:
		return fmt.Sprintf("EInvoke %s %s %s %s %s %s %s", hx.N(uint64(e.conn)), n(e.ty), n(e.svc), n(e.obj), n(e.act), n(e.id), hx.Hex(e.payload))
	case 3:
		return fmt.Sprintf("EAuth %s %s %s", hx.Hex([]byte(e.user)), hx.Hex([]byte(e.token)), hx.Bool(e.ans))
	}
	return "EClose 99999%N" // harness timeout: never matches the model
}

func c06CaseTerm(perconn bool, table [][2]string, script []c06Action, obs [][]c06Event) string {
	var tb, sc, ob []string
	for _, p := range table {
		tb = append(tb, fmt.Sprintf("(%s, %s)", hx.Hex([]byte(p[0])), hx.Hex([]byte(p[1]))))
	}
	for _, a := range script {
		sc = append(sc, c06ActionTerm(a))
	}
	for _, evs := range obs {
		// three sequences per action: reader/consumer goroutines, service 0's mailbox goroutine
		// (recognised by content: authenticator calls, replies, ActionNotFound and payload
		// errors), probe invocations.  The order across goroutines is a race and not compared.
		var ord, mb, inv []string
		for _, e := range evs {
			switch {
			case e.kind == 2:
				inv = append(inv, c06EventTerm(e))
			case e.kind == 3 || (e.kind == 0 && (e.ty == uint32(net.Reply) || e.body == 4 || e.body == 5)):
				mb = append(mb, c06EventTerm(e))
			default:
				ord = append(ord, c06EventTerm(e))
			}
		}
		ob = append(ob, fmt.Sprintf("(%s, %s, %s)", hx.List(ord), hx.List(mb), hx.List(inv)))
	}
	return fmt.Sprintf("{| cc_accept := %s; cc_perconn := %s; cc_script := %s; cc_obs := %s |}", hx.List(tb), hx.Bool(perconn), hx.List(sc), hx.List(ob))
}

// ---------- oracle: the property on the implementation's own behaviour ----------

func c06PassesFilter(ty uint8) bool {
	return ty >= 1 && ty <= 8 && ty != net.Reply && ty != net.Error && ty != net.Event && ty != net.Cancelled
}

// c06Oracle returns a description of the first violation of C06 in what the server did, or "".
func c06Oracle(table [][2]string, script []c06Action, obs [][]c06Event) string {
	acc := map[[2]string]bool{}
	for _, p := range table {
		acc[p] = true
	}
	presented := map[int]bool{} // an acceptable authenticate request was sent earlier on this connection
	granted := map[int]bool{}   // ... and the server's positive reply to it has been seen
	dead := map[int]bool{}      // refused and closed: must stay silent
	for k, a := range script {
		evs := obs[k]
		// deliveries observed during this action are judged against what had been presented
		// before or within this action (frames of a burst are sent in order)
		pres := map[int]bool{}
		for c, v := range presented {
			pres[c] = v
		}
		for _, f := range a.frames {
			if c06PassesFilter(f.ty) && f.svc == 0 && f.obj == 0 && f.act == 8 {
				if u, t, ok := c06Decode(f.payload); ok && acc[[2]string{u, t}] {
					pres[a.conn] = true
				}
			}
		}
		refusedNow := map[int]int{} // 1: NotAuthenticated error seen, 2: then closed
		for _, e := range evs {
			if e.kind == 0 || e.kind == 1 || e.kind == 2 {
				if refusedNow[e.conn] == 2 {
					return fmt.Sprintf("action %d (%s): connection %d was answered NotAuthenticated and closed, but the server went on handling its frames (event kind %d: type %d service %d object %d action %d id %d)",
						k, c06ActionDesc(a), e.conn, e.kind, e.ty, e.svc, e.obj, e.act, e.id)
				}
				if e.kind == 0 && e.ty == uint32(net.Error) && e.body == 1 {
					refusedNow[e.conn] = 1
				} else if e.kind == 1 && refusedNow[e.conn] == 1 {
					refusedNow[e.conn] = 2
				}
			}
		}
		for _, e := range evs {
			if e.kind == 2 && !pres[e.conn] {
				return fmt.Sprintf("action %d (%s): service %d object %d action %d was invoked by connection %d (frame type %d) although no authenticate request with accepted credentials had been sent on it",
					k, c06ActionDesc(a), e.svc, e.obj, e.act, e.conn, e.ty)
			}
			if e.kind != 3 && e.kind != 9 && dead[e.conn] {
				return fmt.Sprintf("action %d (%s): connection %d was refused and closed earlier but the server still acts on it (event kind %d)", k, c06ActionDesc(a), e.conn, e.kind)
			}
		}
		// a connection that addresses another service before authenticating: error + close
		if (a.kind == 0 || a.kind == 1 || a.kind == 5) && !dead[a.conn] {
			for _, f := range a.frames {
				if !(f.ty >= 1 && f.ty <= 8) {
					break // not a frame: the connection is closed by the reader, nothing to check here
				}
				if c06PassesFilter(f.ty) && f.svc != 0 && !pres[a.conn] {
					var errs, closes int
					for _, e := range evs {
						if e.conn == a.conn && e.kind == 0 && e.ty == uint32(net.Error) && e.body == 1 && e.id == f.id && e.svc == f.svc {
							errs++
						}
						if e.conn == a.conn && e.kind == 1 {
							closes++
						}
					}
					if closedBefore := c06ClosedBefore(obs[:k], a.conn); !closedBefore && (errs != 1 || closes != 1) {
						return fmt.Sprintf("action %d (%s): unauthenticated connection %d addressed service %d: expected one NotAuthenticated error and a close, saw %d error(s) and %d close(s)",
							k, c06ActionDesc(a), a.conn, f.svc, errs, closes)
					}
					dead[a.conn] = true
					break
				}
			}
		}
		for _, e := range evs {
			if e.kind == 0 && e.body == 10 {
				granted[e.conn] = true
			}
		}
		presented = pres
	}
	_ = granted
	return ""
}

func c06ClosedBefore(obs [][]c06Event, c int) bool {
	for _, evs := range obs {
		for _, e := range evs {
			if e.kind == 1 && e.conn == c {
				return true
			}
		}
	}
	return false
}

func c06ActionDesc(a c06Action) string {
	switch a.kind {
	case 0, 1, 5:
		var d []string
		for _, f := range a.frames {
			d = append(d, fmt.Sprintf("%s[type %d svc %d obj %d act %d id %d payload %s]", f.desc, f.ty, f.svc, f.obj, f.act, f.id, hex.EncodeToString(f.payload)))
		}
		how := "send"
		if a.kind == 5 {
			how = "send (all queued while the consumer goroutine is held in its first answer)"
		}
		return fmt.Sprintf("conn %d %s %s", a.conn, how, strings.Join(d, " + "))
	case 2:
		return fmt.Sprintf("conn %d garbage", a.conn)
	case 3:
		return "hold authenticator"
	}
	return "release authenticator"
}

func c06ScriptDesc(table [][2]string, script []c06Action) string {
	var d []string
	for _, a := range script {
		d = append(d, c06ActionDesc(a))
	}
	return fmt.Sprintf("authenticator accepts %q; script: %s", table, strings.Join(d, " ; "))
}

// ---------- script generation ----------

type c06Gen struct {
	rng   *hx.Rng
	table [][2]string
	id    uint32
}

func (g *c06Gen) nextID() uint32 { g.id += 1; return 0x100 + g.id }

func (g *c06Gen) authFrame(force int) c06Frame {
	p, kind := c06AuthPayload(g.rng, g.table, force)
	ty := uint8(net.Call)
	if g.rng.Chance(0.25) {
		ty = []uint8{net.Post, net.Capability, net.Cancel, net.Reply, net.Event}[g.rng.Intn(5)]
	}
	return c06Frame{ty: ty, svc: 0, obj: 0, act: 8, id: g.nextID(), payload: p, desc: "auth:" + kind}
}

func (g *c06Gen) otherFrame() c06Frame {
	r := g.rng
	ty := uint8(1 + r.Intn(8))
	if r.Chance(0.4) {
		ty = []uint8{net.Call, net.Post, net.Cancel, net.Capability}[r.Intn(4)]
	}
	f := c06Frame{ty: ty, id: g.nextID()}
	switch r.Intn(10) {
	case 0: // service 0, other object
		f.svc, f.obj, f.act, f.desc = 0, uint32(1+r.Intn(3)), 8, "svc0-other-object"
	case 1: // service 0, other action
		f.svc, f.obj, f.act, f.desc = 0, 0, uint32(r.Pick(0, 2, 7, 9, 100)), "svc0-other-action"
	case 2: // unknown service
		f.svc, f.obj, f.act, f.desc = uint32(r.Pick(3, 4, 0xffffffff)), 1, 100, "unknown-service"
	case 3: // probe, unknown object
		f.svc, f.obj, f.act, f.desc = uint32(1+r.Intn(2)), uint32(r.Pick(0, 2, 5)), 100, "probe-unknown-object"
	default:
		f.svc, f.obj, f.act, f.desc = uint32(1+r.Intn(2)), 1, uint32(r.Pick(0, 2, 8, 100, 101)), "probe"
		if r.Chance(0.3) {
			f.payload = r.Bytes(r.Intn(6))
		}
	}
	if r.Chance(0.03) {
		f.ty, f.desc = uint8(r.Pick(0, 9, 255)), f.desc+"-bad-type"
	}
	return f
}

func (g *c06Gen) script() []c06Action {
	r := g.rng
	nconn := 1 + r.Intn(3)
	n := 3 + r.Intn(8)
	var s []c06Action
	holding := false
	queued := 0
	for i := 0; i < n; i++ {
		c := r.Intn(nconn)
		switch x := r.Intn(20); {
		case x < 8:
			if holding && queued >= 5 {
				continue
			}
			s = append(s, c06Action{kind: 0, conn: c, frames: []c06Frame{g.authFrame(-1)}})
			if holding {
				queued++
			}
		case x < 15:
			f := g.otherFrame()
			if holding && f.svc == 0 && f.obj == 0 {
				if queued >= 5 {
					continue
				}
				queued++
			}
			s = append(s, c06Action{kind: 0, conn: c, frames: []c06Frame{f}})
		case x < 17:
			if holding {
				continue
			}
			var fs []c06Frame
			for j := 0; j < 2+r.Intn(3); j++ {
				if r.Chance(0.4) {
					fs = append(fs, g.authFrame(-1))
				} else {
					fs = append(fs, g.otherFrame())
				}
			}
			if !c06BurstDeterministic(fs) {
				continue
			}
			s = append(s, c06Action{kind: 1, conn: c, frames: fs})
		case x < 18:
			s = append(s, c06Action{kind: 2, conn: c})
		default:
			if holding {
				s = append(s, c06Action{kind: 4})
				holding, queued = false, 0
			} else {
				s = append(s, c06Action{kind: 3})
				holding = true
			}
		}
	}
	if holding {
		s = append(s, c06Action{kind: 4})
	}
	// every connection ends with a call to a probe: a wrongly granted authentication shows up
	for c := 0; c < nconn; c++ {
		s = append(s, c06Action{kind: 0, conn: c, frames: []c06Frame{{ty: net.Call, svc: 1, obj: 1, act: 100, id: g.nextID(), desc: "final-probe"}}})
	}
	return s
}

// a burst has one outcome only if no event of the connection goroutine (a refusal closes the
// stream) can race with an answer of service 0's mailbox goroutine to an earlier frame of the same
// burst, and no frame depends on whether the mailbox goroutine has handled an earlier authenticate
// request yet: once a frame for service 0 / object 0 is in the burst, only frames for service 0
// may follow; a frame that is not a frame (the reader closes the stream) only comes first
func c06BurstDeterministic(fs []c06Frame) bool {
	seenMail := false
	for i, f := range fs {
		if !(f.ty >= 1 && f.ty <= 8) {
			return i == 0
		}
		if !c06PassesFilter(f.ty) {
			continue
		}
		if f.svc == 0 && f.obj == 0 {
			seenMail = true
		} else if f.svc != 0 && seenMail {
			return false
		}
	}
	return true
}

func c06Nontrivial(script []c06Action) bool {
	var other, auth bool
	for _, a := range script {
		for _, f := range a.frames {
			if f.svc != 0 {
				other = true
			}
			if f.svc == 0 && f.obj == 0 && f.act == 8 {
				auth = true
			}
		}
	}
	return other && auth
}

func runC06(res *hx.Result, rng *hx.Rng, tier string, outdir string) {
	log.SetOutput(io.Discard)
	res.Rule = "script contains a frame to a service other than 0 and at least one authenticate attempt"
	h, err := newC06Harness("mem", "StandAloneServer")
	if err != nil {
		res.Fail("harness", "cannot start a bus server on the harness listener: "+err.Error())
		return
	}
	cases := hx.NewCases(outdir, "C06cases", "From QV Require Import Auth C06Run.", "mismatches cs", res, "cs", "ccase")
	for _, b := range c06ExhaustivePayloads() {
		c06Name(b)
	}
	cases.Extra = append(cases.Extra, c06NamedDefs...)
	nscripts, nwire := 400, 15
	if tier == "thorough" {
		nscripts, nwire = 8000, 250
	}
	runOn := func(h *c06Harness) func(table [][2]string, script []c06Action, tag string) {
		return func(table [][2]string, script []c06Action, tag string) {
			obs := h.runScript(table, script)
			desc := c06ScriptDesc(table, script)
			if h.mode != "mem" {
				desc = fmt.Sprintf("server bus.%s on net.Listen(\"%s://...\"), connections by net.DialEndPoint; %s", h.ctor, h.mode, desc)
				tag = h.mode + "-" + h.ctor + "-" + tag
			}
			if v := c06Oracle(table, script, obs); v != "" {
				res.Fail("C06-oracle", v+" || "+desc)
			}
			res.Count(desc, c06Nontrivial(script))
			res.Dist("script:" + tag)
			for _, a := range script {
				for _, f := range a.frames {
					res.Dist("frame:" + f.desc)
					res.Dist(fmt.Sprintf("type:%d", f.ty))
				}
				if a.kind >= 2 {
					res.Dist([]string{"", "", "action:garbage", "action:hold", "action:release", "action:queued-burst"}[a.kind])
				}
			}
			res.Sample(desc)
			cases.Add("cs", c06CaseTerm(h.mode != "mem", table, script, obs), desc)
		}
	}
	runOne := runOn(h)
	// fixed scenarios first: the witnesses used in props/C06.v and the seeded-mutation triggers
	for _, sc := range c06Fixed() {
		runOne(sc.table, sc.script, "fixed")
	}
	for i := 0; i < nscripts; i++ {
		g := &c06Gen{rng: rng, table: c06Tables[rng.Intn(len(c06Tables))], id: uint32(i) << 8}
		runOne(g.table, g.script(), "random")
	}
	if tier == "thorough" {
		c06Exhaustive(runOne)
		res.Exhaustive = true
	}
	res.Notes = append(res.Notes, h.notes...)
	h.close()
	// every transport the server can listen on: the fixed scenarios (all but the queued bursts,
	// which need the harness stream's write gate) and random scripts, through net.Listen and
	// net.DialEndPoint.  The model has no notion of transport: a connection accepted from any
	// listener starts like every other one.
	for _, tc := range c06TransportServers() {
		tr, ctor := tc[0], tc[1]
		w, err := newC06Harness(tr, ctor)
		if err != nil {
			res.Fail("harness", fmt.Sprintf("cannot start a server (bus.%s) on a %s:// listener: %v", ctor, tr, err))
			continue
		}
		// the one connection that starts authenticated: the server's own in-process client
		if _, err := c06CallDeadline(w.local, 1, 1, c06SyncAction); err != nil {
			res.Fail("harness", fmt.Sprintf("%s:// server (bus.%s): the in-process client (Server.Client) does not reach a service: %v", tr, ctor, err))
			w.close()
			continue
		}
		run := runOn(w)
		for _, sc := range c06Fixed() {
			if script, ok := c06WireScript(sc.script); ok {
				run(sc.table, script, "fixed")
			}
		}
		for i := 0; i < nwire; i++ {
			g := &c06Gen{rng: rng, table: c06Tables[rng.Intn(len(c06Tables))], id: 0x400000 + uint32(i)<<8}
			run(g.table, g.script(), "random")
		}
		res.Notes = append(res.Notes, w.notes...)
		w.close()
	}
	cases.Flush()
	res.Notes = append(res.Notes, "connection/mailbox interleavings are forced through the harness-owned authenticator (hold/release) and barrier frames; the capability map of a connection is read and written by two goroutines without a lock: the model gives it sequentially consistent semantics")
}

func c06CallDeadline(cl bus.Client, svc, obj, act uint32) ([]byte, error) {
	type r struct {
		b   []byte
		err error
	}
	ch := make(chan r, 1)
	go func() { b, err := cl.Call(nil, svc, obj, act, nil); ch <- r{b, err} }()
	select {
	case x := <-ch:
		return x.b, x.err
	case <-time.After(c06Deadline):
		return nil, fmt.Errorf("no answer within %v", c06Deadline)
	}
}

type c06Scenario struct {
	table  [][2]string
	script []c06Action
}

func c06Fixed() []c06Scenario {
	tb := [][2]string{{"nao", "secret"}}
	fr := func(ty uint8, svc, obj, act, id uint32, p []byte, d string) c06Frame {
		return c06Frame{ty: ty, svc: svc, obj: obj, act: act, id: id, payload: p, desc: d}
	}
	send := func(c int, f c06Frame) c06Action { return c06Action{kind: 0, conn: c, frames: []c06Frame{f}} }
	good := c06Map(2, []c06Entry{{bus.KeyUser, c06VStr("nao")}, {bus.KeyToken, c06VStr("secret")}})
	bad := c06Map(2, []c06Entry{{bus.KeyUser, c06VStr("nao")}, {bus.KeyToken, c06VStr("wrong")}})
	forgedU := c06Map(3, []c06Entry{{bus.KeyState, c06VUint(3)}, {bus.KeyUser, c06VStr("nao")}, {bus.KeyToken, c06VStr("wrong")}})
	forgedI := c06Map(1, []c06Entry{{bus.KeyState, c06VInt(3)}})
	wrongT := c06Map(2, []c06Entry{{bus.KeyUser, c06VUint(7)}, {bus.KeyToken, c06VStr("secret")}})
	padded := c06Map(2, []c06Entry{{bus.KeyUser, c06VStr("nao")}, {bus.KeyToken, c06VStr("secret\n")}})
	probe := func(ty uint8, id uint32) c06Frame { return fr(ty, 1, 1, 100, id, nil, "probe") }
	var out []c06Scenario
	// accepted request, then delivery
	out = append(out, c06Scenario{tb, []c06Action{send(0, fr(net.Call, 0, 0, 8, 2, good, "auth:good")), send(0, probe(net.Post, 4)), send(0, probe(net.Call, 6))}})
	// every frame type to a probe before any authentication
	for ty := uint8(1); ty <= 8; ty++ {
		out = append(out, c06Scenario{tb, []c06Action{send(0, probe(ty, 2)), send(0, fr(net.Call, 0, 0, 8, 4, good, "auth:good")), send(0, probe(net.Call, 6))}})
	}
	// refused credentials, forged state entries, wrongly typed credentials: then a probe call
	for _, p := range []struct {
		b []byte
		d string
	}{{bad, "auth:bad-token"}, {forgedU, "auth:forged-state-uint"}, {forgedI, "auth:forged-state-int"}, {wrongT, "auth:wrongly-typed-user"}, {nil, "auth:empty"}, {padded, "auth:padded"}} {
		for _, ty := range []uint8{net.Call, net.Post, net.Capability, net.Cancel} {
			out = append(out, c06Scenario{tb, []c06Action{send(0, fr(ty, 0, 0, 8, 2, p.b, p.d)), send(0, probe(net.Call, 4)), send(0, fr(net.Call, 0, 0, 8, 6, good, "auth:good"))}})
		}
	}
	// one connection authenticates, the other forges: the other is refused
	out = append(out, c06Scenario{tb, []c06Action{send(1, fr(net.Call, 0, 0, 8, 2, good, "auth:good")), send(0, fr(net.Call, 0, 0, 8, 2, forgedU, "auth:forged-state-uint")),
		send(0, probe(net.Post, 4)), send(1, probe(net.Post, 4)), send(0, fr(net.Call, 0, 0, 8, 6, good, "auth:good"))}})
	// the request is still inside the authenticator when the next frame is handled: refused
	out = append(out, c06Scenario{tb, []c06Action{{kind: 3}, send(0, fr(net.Call, 0, 0, 8, 2, good, "auth:good")), send(0, probe(net.Call, 4)), {kind: 4},
		send(0, probe(net.Call, 6))}})
	// two connections queue behind a held authenticator
	out = append(out, c06Scenario{tb, []c06Action{{kind: 3}, send(0, fr(net.Call, 0, 0, 8, 2, good, "auth:good")), send(1, fr(net.Call, 0, 0, 8, 2, bad, "auth:bad-token")),
		send(2, probe(net.Call, 2)), {kind: 4}, send(0, probe(net.Call, 4)), send(1, probe(net.Call, 4))}})
	// a refused connection stays silent whatever follows in the same write
	out = append(out, c06Scenario{tb, []c06Action{{kind: 1, conn: 0, frames: []c06Frame{probe(net.Call, 2), fr(net.Call, 0, 0, 8, 4, good, "auth:good"), fr(net.Call, 0, 5, 0, 6, nil, "svc0-other-object"), probe(net.Call, 8)}},
		send(0, probe(net.Call, 10))}})
	// everything after the refused frame is already queued when the refusal happens
	queued := []c06Frame{fr(net.Call, 0, 5, 0, 2, nil, "svc0-other-object"), probe(net.Post, 4), fr(net.Call, 0, 0, 8, 6, good, "auth:good")}
	for i := uint32(0); i < 4; i++ {
		queued = append(queued, fr(net.Call, 0, 5, 0, 8+2*i, nil, "svc0-other-object"))
	}
	queued = append(queued, probe(net.Call, 30), probe(net.Post, 32))
	out = append(out, c06Scenario{tb, []c06Action{{kind: 5, conn: 0, frames: queued}, send(0, probe(net.Call, 40))}})
	out = append(out, c06Scenario{tb, []c06Action{send(1, fr(net.Call, 0, 0, 8, 2, good, "auth:good")), {kind: 5, conn: 0, frames: queued}, send(1, probe(net.Call, 4))}})
	// wrongly typed user with an authenticator that accepts the empty user
	out = append(out, c06Scenario{[][2]string{{"", "secret"}}, []c06Action{send(0, fr(net.Call, 0, 0, 8, 2, wrongT, "auth:wrongly-typed-user")), send(0, probe(net.Call, 4))}})
	out = append(out, c06Scenario{[][2]string{{"", ""}}, []c06Action{send(0, fr(net.Call, 0, 0, 8, 2, nil, "auth:empty")), send(0, fr(net.Call, 0, 0, 8, 4, c06U32(0), "auth:missing-both")), send(0, probe(net.Call, 6))}})
	// garbage closes; queued frames of an authenticated connection
	out = append(out, c06Scenario{tb, []c06Action{send(0, fr(net.Call, 0, 0, 8, 2, good, "auth:good")), {kind: 2, conn: 0}, send(0, probe(net.Call, 4))}})
	return out
}

// c06Exhaustive: all sequences of length <= 4 over a 9-frame alphabet on <= 2 connections
// (the first frame always on connection 0).
func c06ExhaustivePayloads() [][]byte {
	return [][]byte{
		c06Map(2, []c06Entry{{bus.KeyUser, c06VStr("nao")}, {bus.KeyToken, c06VStr("secret")}}),
		c06Map(2, []c06Entry{{bus.KeyUser, c06VStr("nao")}, {bus.KeyToken, c06VStr("x")}}),
		c06Map(1, []c06Entry{{bus.KeyState, c06VUint(3)}}),
		c06Map(2, []c06Entry{{bus.KeyUser, c06VInt(3)}, {bus.KeyToken, c06VStr("secret")}}),
	}
}

func c06Exhaustive(run func(table [][2]string, script []c06Action, tag string)) {
	tb := [][2]string{{"nao", "secret"}}
	ps := c06ExhaustivePayloads()
	good, bad, forged, wrong := ps[0], ps[1], ps[2], ps[3]
	alpha := []c06Frame{
		{ty: net.Call, svc: 0, obj: 0, act: 8, payload: good, desc: "auth:good"},
		{ty: net.Call, svc: 0, obj: 0, act: 8, payload: bad, desc: "auth:bad-token"},
		{ty: net.Post, svc: 0, obj: 0, act: 8, payload: forged, desc: "auth:forged-state-uint"},
		{ty: net.Call, svc: 0, obj: 0, act: 8, payload: wrong, desc: "auth:wrongly-typed-user"},
		{ty: net.Call, svc: 1, obj: 1, act: 100, desc: "probe"},
		{ty: net.Post, svc: 2, obj: 1, act: 100, desc: "probe"},
		{ty: net.Call, svc: 0, obj: 0, act: 2, desc: "svc0-other-action"},
		{ty: net.Reply, svc: 1, obj: 1, act: 100, desc: "probe"},
		{ty: net.Cancel, svc: 1, obj: 1, act: 100, desc: "probe"},
	}
	var rec func(prefix []c06Action)
	rec = func(prefix []c06Action) {
		if len(prefix) > 0 {
			run(tb, append([]c06Action(nil), prefix...), "exhaustive")
		}
		if len(prefix) == 4 {
			return
		}
		for c := 0; c < 2; c++ {
			if len(prefix) == 0 && c == 1 {
				continue
			}
			for _, f := range alpha {
				f.id = uint32(2 * (len(prefix) + 1))
				rec(append(prefix, c06Action{kind: 0, conn: c, frames: []c06Frame{f}}))
			}
		}
	}
	rec(nil)
}
