package main

// c11stream.go — the harness-owned net.Stream used by the C11 check.  Every Read, Write and
// Close of the real endpoint arrives here; the scenario driver decides what each returns and
// when.  Nothing in here waits without a deadline.

import (
	"context"
	"encoding/binary"
	"errors"
	"io"
	gonet "net"
	"sync"
	"time"
)

var errC11Fault = errors.New("c11: injected connection failure")
var errC11Closed = errors.New("c11: use of closed stream")
var errC11Deadline = errors.New("c11: harness deadline")

type c11Op struct {
	kind byte // 'R', 'W', 'C'
	id   uint32
}

type c11Write struct {
	id    uint32 // message id in the frame header
	typ   uint8  // message type
	buf   []byte
	done  chan struct{}
	n     int
	err   error
	freed bool
}

type c11Stream struct {
	mu       sync.Mutex
	ops      []c11Op
	rdEnter  int      // Read calls entered
	rdReturn int      // Read calls returned
	rdQ      [][]byte // fragments waiting for Read calls, one Read each
	rdErrQ   []error  // fragment i is returned together with this error (nil: none)
	left     []byte   // rest of a fragment larger than the caller's buffer
	leftErr  error    // ... and the error that goes with its last byte
	dead     bool     // connection lost
	rdErr    error    // what Read returns once dead
	rdOnce   bool     // ... the first time only; afterwards io.EOF
	rdFired  int      // Reads that returned rdErr
	wrErr    error    // what a Write returns once dead (nil: errC11Fault)
	clErr    error    // what Read and Write return after Close (nil: errC11Closed)
	half     bool     // writes are still accepted after dead until Close
	closed   bool
	closeN   int
	holdCl   bool // Close blocks until releaseClose ...
	holdFrom int  // ... from the holdFrom-th Close call on
	clHeld   int  // Close calls currently blocked
	pendW    []*c11Write
	sent     []uint64 // id<<8|type of frames whose Write returned success
	hang     time.Duration
}

func newC11Stream(hang time.Duration) *c11Stream { return &c11Stream{hang: hang} }

func (s *c11Stream) String() string           { return "c11://harness" }
func (s *c11Stream) Context() context.Context { return context.TODO() }

// poll waits until f() holds (evaluated under the mutex) or the deadline passes.
func (s *c11Stream) poll(d time.Duration, f func() bool) bool {
	end := time.Now().Add(d)
	for i := 0; ; i++ {
		s.mu.Lock()
		ok := f()
		s.mu.Unlock()
		if ok {
			return true
		}
		if time.Now().After(end) {
			return false
		}
		if i < 200 {
			time.Sleep(20 * time.Microsecond)
		} else {
			time.Sleep(200 * time.Microsecond)
		}
	}
}

func (s *c11Stream) Read(p []byte) (int, error) {
	s.mu.Lock()
	s.ops = append(s.ops, c11Op{kind: 'R'})
	s.rdEnter++
	s.mu.Unlock()
	var n int
	var err error
	got := false
	ready := func() bool {
		if len(s.left) > 0 {
			n = copy(p, s.left)
			s.left = s.left[n:]
			if len(s.left) == 0 {
				err, s.leftErr = s.leftErr, nil
			}
			got = true
			return true
		}
		if len(s.rdQ) > 0 {
			frag := s.rdQ[0]
			ferr := s.rdErrQ[0]
			s.rdQ, s.rdErrQ = s.rdQ[1:], s.rdErrQ[1:]
			n = copy(p, frag)
			if n < len(frag) {
				s.left, s.leftErr = append([]byte(nil), frag[n:]...), ferr
			} else {
				err = ferr
			}
			got = true
			return true
		}
		if s.closed {
			err = s.closedErr()
			return true
		}
		if s.dead {
			err = s.rdErr
			if s.rdOnce && s.rdFired > 0 {
				err = io.EOF
			}
			s.rdFired++
			return true
		}
		return false
	}
	// the Read is counted as returned in the same critical section that hands its data (or its
	// error) over: otherwise readerIdle() would hold between the two — queue empty, one more Read
	// entered than returned — while the reader is on its way out with the last bytes of a frame
	ok := s.poll(s.hang, func() bool {
		if ready() {
			s.rdReturn++
			return true
		}
		return false
	})
	_ = got
	if !ok {
		s.mu.Lock()
		s.rdReturn++
		s.mu.Unlock()
	}
	if !ok {
		return 0, errC11Deadline
	}
	return n, err
}

func (s *c11Stream) Write(p []byte) (int, error) {
	w := &c11Write{buf: append([]byte(nil), p...), done: make(chan struct{})}
	if len(p) >= 12 {
		w.id = binary.LittleEndian.Uint32(p[4:8])
		// header: magic(4) id(4) size(4) version(2) type(1) ...
		if len(p) >= 15 {
			w.typ = p[14]
		}
	}
	s.mu.Lock()
	s.ops = append(s.ops, c11Op{kind: 'W', id: w.id})
	s.pendW = append(s.pendW, w)
	s.mu.Unlock()
	ok := s.poll(s.hang, func() bool {
		if w.freed {
			return true
		}
		if s.closed {
			w.n, w.err, w.freed = 0, s.closedErr(), true
			return true
		}
		if s.dead && !s.half {
			w.n, w.err, w.freed = 0, errC11Fault, true
			if s.wrErr != nil {
				w.err = s.wrErr
			}
			return true
		}
		return false
	})
	s.mu.Lock()
	for i, x := range s.pendW {
		if x == w {
			s.pendW = append(s.pendW[:i], s.pendW[i+1:]...)
			break
		}
	}
	if ok && w.err == nil {
		s.sent = append(s.sent, uint64(w.id)<<8|uint64(w.typ))
	}
	s.mu.Unlock()
	if !ok {
		return 0, errC11Deadline
	}
	return w.n, w.err
}

func (s *c11Stream) Close() error {
	s.mu.Lock()
	s.ops = append(s.ops, c11Op{kind: 'C'})
	s.closeN++
	first := s.closeN == 1
	hold := s.holdCl && s.closeN >= s.holdFrom
	if hold {
		s.clHeld++
	}
	s.mu.Unlock()
	if hold {
		s.poll(s.hang, func() bool { return !s.holdCl })
		s.mu.Lock()
		s.clHeld--
		s.mu.Unlock()
	}
	s.mu.Lock()
	s.closed = true
	s.mu.Unlock()
	if !first {
		return s.closedErr()
	}
	return nil
}

// closedErr is evaluated under the mutex.
func (s *c11Stream) closedErr() error {
	if s.clErr != nil {
		return s.clErr
	}
	return errC11Closed
}

// ---- driver side ----

// pendingWrite reports whether a Write carrying message id is blocked in the stream.
func (s *c11Stream) pendingWrite(id uint32, typ uint8) *c11Write {
	for _, w := range s.pendW {
		if w.id == id && w.typ == typ && !w.freed {
			return w
		}
	}
	return nil
}

func (s *c11Stream) releaseWrite(id uint32, typ uint8, n int, err error) bool {
	s.mu.Lock()
	defer s.mu.Unlock()
	w := s.pendingWrite(id, typ)
	if w == nil {
		return false
	}
	if n < 0 {
		n = len(w.buf)
	}
	w.n, w.err, w.freed = n, err, true
	return true
}

// feed queues one fragment for the next Read call; with is returned together with its last byte.
func (s *c11Stream) feed(frag []byte, with error) {
	s.mu.Lock()
	s.rdQ = append(s.rdQ, frag)
	s.rdErrQ = append(s.rdErrQ, with)
	s.mu.Unlock()
}

// readerIdle: every queued fragment was consumed and the reader is blocked in a new Read.
func (s *c11Stream) readerIdle() bool {
	return len(s.rdQ) == 0 && len(s.left) == 0 && s.rdEnter == s.rdReturn+1
}

// wasSent: a Write carrying (id, typ) has returned success.
func (s *c11Stream) wasSent(id uint32, typ uint8) bool {
	for _, x := range s.sent {
		if x == uint64(id)<<8|uint64(typ) {
			return true
		}
	}
	return false
}

func (s *c11Stream) kill(rdErr error, half bool) {
	s.mu.Lock()
	s.dead, s.rdErr, s.half = true, rdErr, half
	s.mu.Unlock()
}

// killKind: the connection fails with the given kind of error (c11kinds.go): every Read from now
// on (once: the first one only, io.EOF afterwards) and every Write report it.
func (s *c11Stream) killKind(k c11ErrKind, once bool) {
	s.mu.Lock()
	s.dead, s.rdErr, s.rdOnce, s.wrErr, s.half = true, k.mk("read"), once, k.mk("write"), false
	s.mu.Unlock()
}

// c11Conn presents the gated stream as a net.Conn (deadlines are accepted and ignored: nothing in
// the client or the endpoint sets one).
type c11Conn struct{ *c11Stream }

func (c c11Conn) LocalAddr() gonet.Addr              { return c11Addr{} }
func (c c11Conn) RemoteAddr() gonet.Addr             { return c11Addr{} }
func (c c11Conn) SetDeadline(t time.Time) error      { return nil }
func (c c11Conn) SetReadDeadline(t time.Time) error  { return nil }
func (c c11Conn) SetWriteDeadline(t time.Time) error { return nil }
