package main

// C10 — concurrent senders never corrupt the stream; each message arrives once, in order; each
// handler receives exactly the subsequence its filter selects, in arrival order, while its queue
// has room.
//
// The parent (qv C10) runs everything in a child process (qv C10.child): N goroutines call
// EndPoint.Send concurrently over each transport the package supports (in-memory pipe, unix, tcp on
// a port chosen by the OS, tls, the fd-passing pipe) and over a harness-owned stream whose Write is
// a rendezvous point (two senders' Write calls are recorded alternately, so a frame written in two
// calls is torn apart deterministically).  The receiving side is a real endpoint with a catch-all
// handler (arrival order) and several filtering handlers.  Every header field the reader leaves free
// varies (genHeaderFields).  c10start.go: endpoints built on connections whose peer has already written.
// c10end.go: what a handler (of every flavour) has been given when its life ends while its consumer is busy.
// c10fail.go: Sends that fail on other connections before and while the concurrent senders work.

import (
	"bytes"
	"context"
	"encoding/json"
	"fmt"
	"io"
	"os"
	"os/exec"
	"path/filepath"
	"runtime"
	"sort"
	"strings"
	"sync"
	"time"

	"github.com/lugu/qiloop/bus/net"
	"qv/internal/hx"
)

func init() {
	props["C10"] = runC10
	props["C10.child"] = childC10
}

type c10Out struct {
	Fails   []string       `json:"fails"`
	KFails  [][2]string    `json:"kfails"` // kind, detail
	Notes   []string       `json:"notes"`
	Dist    map[string]int `json:"dist"`
	Counts  []c10Count     `json:"counts"`
	Samples []string       `json:"samples"`
	SCases  [][2]string    `json:"scases"` // term, description
	DCases  [][2]string    `json:"dcases"`
	Phase   string         `json:"phase"`
}
type c10Count struct {
	Canon      string `json:"canon"`
	Nontrivial bool   `json:"nontrivial"`
}

// ---------- messages ----------

func c10Payload(sender, seq, size int) []byte {
	p := make([]byte, size)
	for i := range p {
		p[i] = byte(sender*31 + seq*7 + i*13 + (i >> 8))
	}
	return p
}

func c10Message(sender, seq, size int, typ uint8) net.Message {
	h := net.NewHeader(typ, uint32(sender), 7, uint32(seq%4), uint32(seq))
	return net.NewMessage(h, c10Payload(sender, seq, size))
}

// c10MessageX: every header field the reader accepts a free value for is free: the flags byte, the
// eight message types, id / object / action anywhere in 0..2^32-1.  The sender stays recognisable in
// the low byte of Service (the upper 24 bits are free too).
func c10MessageX(sender int, sm sentMsg) net.Message {
	h := net.NewHeader(sm.typ, uint32(sender)|sm.svcHi<<8, sm.object, sm.action, sm.id)
	h.Flags = sm.flags
	return net.NewMessage(h, c10Payload(sender, sm.seq, sm.size))
}

func c10Sender(h *net.Header) int { return int(h.Service & 0xff) }

type sentMsg struct {
	seq, size int
	typ       uint8
	flags     uint8
	svcHi     uint32 // upper 24 bits of Service
	object    uint32
	action    uint32
	id        uint32
}

var c10Extremes = []uint32{0, 1, 0x7fffffff, 0x80000000, 0xfffffffe, 0xffffffff, 0x42dead42, 0x00010000}

// genHeaderFields fills the header fields of the seq-th message of a sender: mostly the plain values
// (flags 0, object 7, action seq%4, id seq), and, for about a third of the messages each, non-zero
// flags (every bit), extreme ids, objects, actions and service numbers; all eight types.
func genHeaderFields(rng *hx.Rng, sm *sentMsg) {
	sm.typ = uint8(rng.Pick(4, 5, 5, 1, 2, 1+rng.Intn(8)))
	sm.object, sm.action, sm.id = 7, uint32(sm.seq%4), uint32(sm.seq)
	if rng.Chance(0.4) {
		sm.flags = uint8(rng.Pick(1, 2, 3, 0x80, 0xff, 1<<uint(rng.Intn(8)), 1+rng.Intn(255)))
	}
	ext := func() uint32 {
		if rng.Chance(0.6) {
			return c10Extremes[rng.Intn(len(c10Extremes))]
		}
		return uint32(rng.U64())
	}
	if rng.Chance(0.3) {
		sm.id = ext()
	}
	if rng.Chance(0.2) {
		sm.object = ext()
	}
	if rng.Chance(0.2) {
		sm.action = ext()
	}
	if rng.Chance(0.2) {
		sm.svcHi = ext() >> 8
	}
}

func genSizes(rng *hx.Rng, n int, small bool) []sentMsg {
	out := make([]sentMsg, n)
	for i := range out {
		sz := 0
		switch {
		case small:
			sz = rng.Pick(0, 0, 1, 2, 5, 8)
		default:
			switch rng.Intn(20) {
			case 0:
				sz = 0
			case 1:
				sz = 60000 + rng.Intn(20000) // beyond a pipe buffer
			case 2:
				sz = 200000 + rng.Intn(100000)
			case 3, 4, 5:
				sz = 1000 + rng.Intn(5000)
			default:
				sz = rng.Intn(200)
			}
		}
		out[i] = sentMsg{seq: i + 1, size: sz}
		genHeaderFields(rng, &out[i])
	}
	return out
}

// ---------- the rendezvous stream ----------

// rvStream records Write calls; a Write waits (briefly) for a Write by another goroutine and the
// two are recorded in arrival order, so that consecutive Write calls of one goroutine are separated
// by another goroutine's whenever two senders are active.
type rvStream struct {
	mu      sync.Mutex
	cond    *sync.Cond
	calls   [][]byte
	changed []string // Write calls whose buffer changed between the entry of the call and its return
	arrived int
	gen     int
	wait    time.Duration
	block   chan struct{}
}

func newRvStream(wait time.Duration) *rvStream {
	s := &rvStream{wait: wait, block: make(chan struct{})}
	s.cond = sync.NewCond(&s.mu)
	return s
}
func (s *rvStream) Read(p []byte) (int, error) {
	<-s.block
	return 0, fmt.Errorf("harness: closed")
}
func (s *rvStream) Write(p []byte) (int, error) {
	s.mu.Lock()
	atEntry := append([]byte(nil), p...)
	callNo := len(s.calls)
	s.calls = append(s.calls, atEntry)
	// a transport reads p at any moment until Write returns: the bytes must not change under it
	defer func() {
		if !bytes.Equal(p, atEntry) {
			s.mu.Lock()
			s.changed = append(s.changed, fmt.Sprintf("Write call %d: %x at the entry of the call, %x when it returned", callNo, headBytes(atEntry, 48), headBytes(p, 48)))
			s.mu.Unlock()
		}
	}()
	s.arrived++
	if s.arrived%2 == 0 {
		s.gen++
		s.cond.Broadcast()
		s.mu.Unlock()
		return len(p), nil
	}
	g := s.gen
	timedOut := false
	t := time.AfterFunc(s.wait, func() { s.mu.Lock(); timedOut = true; s.cond.Broadcast(); s.mu.Unlock() })
	for s.gen == g && !timedOut {
		s.cond.Wait()
	}
	if s.gen == g { // nobody came: do not pair this call with a later one
		s.arrived++
		s.gen++
	}
	t.Stop()
	s.mu.Unlock()
	return len(p), nil
}
func (s *rvStream) Close() error {
	s.mu.Lock()
	defer s.mu.Unlock()
	select {
	case <-s.block:
	default:
		close(s.block)
	}
	return nil
}
func (s *rvStream) String() string           { return "harness://rendezvous" }
func (s *rvStream) Context() context.Context { return context.TODO() }

func headBytes(b []byte, n int) []byte {
	if len(b) > n {
		return b[:n]
	}
	return b
}

// ---------- phase 1: rendezvous writer ----------

func omsgTerm(m net.Message) string {
	return fmt.Sprintf("(%d%%N, (%d%%N, %d%%N, %d%%N, %d%%N, %d%%N, %s))", m.Header.Flags, m.Header.Type, m.Header.Service, m.Header.Object, m.Header.Action, m.Header.ID, hx.Hex(m.Payload))
}

// hdrFieldsTerm: the fields of a received header, in the order of C10Run.hdr_fields
func hdrFieldsTerm(h net.Header) string {
	return hx.NList([]uint64{uint64(h.Magic), uint64(h.ID), uint64(h.Size), uint64(h.Version), uint64(h.Type), uint64(h.Flags),
		uint64(h.Service), uint64(h.Object), uint64(h.Action)})
}

// headerDiff names the fields in which a received header differs from the one sent
func headerDiff(got, sent net.Header) string {
	var it []string
	f := func(name string, a, b uint64) {
		if a != b {
			it = append(it, fmt.Sprintf("%s: sent %#x, received %#x", name, b, a))
		}
	}
	f("Magic", uint64(got.Magic), uint64(sent.Magic))
	f("ID", uint64(got.ID), uint64(sent.ID))
	f("Size", uint64(got.Size), uint64(sent.Size))
	f("Version", uint64(got.Version), uint64(sent.Version))
	f("Type", uint64(got.Type), uint64(sent.Type))
	f("Flags", uint64(got.Flags), uint64(sent.Flags))
	f("Service", uint64(got.Service), uint64(sent.Service))
	f("Object", uint64(got.Object), uint64(sent.Object))
	f("Action", uint64(got.Action), uint64(sent.Action))
	return strings.Join(it, "; ")
}

// hdrStr prints every field of a header (Header.String omits Flags, Version and Magic)
func hdrStr(h net.Header) string {
	return fmt.Sprintf("{Magic:%#x ID:%d Size:%d Version:%d Type:%d Flags:%#x Service:%d Object:%d Action:%d}", h.Magic, h.ID, h.Size, h.Version, h.Type, h.Flags, h.Service, h.Object, h.Action)
}

// notNext explains why a received message is not the next message of the sender named in its header
func notNext(m net.Message, lists [][]net.Message, next []int) string {
	s := c10Sender(&m.Header)
	if s >= len(lists) || next[s] >= len(lists[s]) {
		return fmt.Sprintf("received %s with %d payload bytes: no sender has such a message left to send", hdrStr(m.Header), len(m.Payload))
	}
	exp := lists[s][next[s]]
	if d := headerDiff(m.Header, exp.Header); d != "" {
		return fmt.Sprintf("received header %s differs from the header of message %d of sender %d, the next one of that sender, sent as %s, in {%s} (altered in transit, duplicated or out of order)",
			hdrStr(m.Header), next[s]+1, s, hdrStr(exp.Header), d)
	}
	return fmt.Sprintf("received %s: the header is that of message %d of sender %d but the %d payload bytes differ from the %d sent", hdrStr(m.Header), next[s]+1, s, len(m.Payload), len(exp.Payload))
}

func scaseTerm(lists [][]net.Message, order []int, recv [][2]uint32, rhdr []net.Header, calls [][]byte) string {
	ls := make([]string, len(lists))
	for i, l := range lists {
		it := make([]string, len(l))
		for j, m := range l {
			it[j] = omsgTerm(m)
		}
		ls[i] = hx.List(it)
	}
	rv := make([]string, len(recv))
	for i, r := range recv {
		rv[i] = fmt.Sprintf("(%d%%N, %d%%N)", r[0], r[1])
	}
	cs := make([]string, len(calls))
	for i, c := range calls {
		cs[i] = hx.Hex(c)
	}
	rh := make([]string, len(rhdr))
	for i, h := range rhdr {
		rh[i] = hdrFieldsTerm(h)
	}
	return fmt.Sprintf("{| sc_senders := %s; sc_order := %s; sc_recv := %s; sc_rhdr := %s; sc_has_calls := %s; sc_calls := %s |}",
		hx.List(ls), hx.NListInt(order), hx.List(rv), hx.List(rh), hx.Bool(calls != nil), hx.List(cs))
}

func switches(order []int) int {
	n := 0
	for i := 1; i < len(order); i++ {
		if order[i] != order[i-1] {
			n++
		}
	}
	return n
}

func phaseRendezvous(out *c10Out, rng *hx.Rng, runs int) {
	for r := 0; r < runs; r++ {
		nS := 2 + rng.Intn(2)
		nM := 2 + rng.Intn(4)
		st := newRvStream(30 * time.Millisecond)
		e := net.NewEndPoint(st)
		big := r%5 == 4 // frames far beyond any buffer size; not replayed on the model
		if big {
			nS, nM = 2, 2
		}
		// two runs in three: Sends on other connections of the process have failed before, and (one in three) keep failing meanwhile
		prelude, beside := "", func() {}
		if r%3 != 0 {
			prelude = " " + failedSends(rng)
			out.Dist["after-failed-sends:rendezvous"]++
			if r%3 == 2 {
				beside = failingBeside(rng.U64())
				prelude += ", more of them failing meanwhile"
			}
		}
		lists := make([][]net.Message, nS)
		for s := 0; s < nS; s++ {
			for _, sm := range genSizes(rng, nM, true) {
				if big {
					sm.size = rng.Pick(66000, 70000, 131073, 200000)
				}
				lists[s] = append(lists[s], c10MessageX(s, sm))
			}
		}
		var wg sync.WaitGroup
		start := make(chan struct{})
		var errMu sync.Mutex
		var sendErr error
		for s := 0; s < nS; s++ {
			wg.Add(1)
			go func(s int) {
				defer wg.Done()
				<-start
				for _, m := range lists[s] {
					if err := e.Send(m); err != nil {
						errMu.Lock()
						sendErr = err
						errMu.Unlock()
					}
				}
			}(s)
		}
		close(start)
		wg.Wait()
		beside()
		e.Close()
		st.mu.Lock()
		calls := append([][]byte(nil), st.calls...)
		changed := append([]string(nil), st.changed...)
		st.mu.Unlock()
		desc := fmt.Sprintf("rendezvous stream: %d senders x %d messages", nS, nM)
		if big {
			desc += fmt.Sprintf(" of %d..%d payload bytes", 66000, 200000)
		}
		desc += prelude
		if len(changed) > 0 {
			out.Fails = append(out.Fails, fmt.Sprintf("%s: the bytes handed to the stream changed while the Write call was in progress (%d of %d calls; a transport that had not yet taken them sends the other frame): %s",
				desc, len(changed), len(calls), changed[0]))
		}
		if sendErr != nil {
			out.Fails = append(out.Fails, fmt.Sprintf("%s: Send failed: %v", desc, sendErr))
		}
		// oracle (a): every Write call on the stream is one whole frame
		whole := true
		for _, c := range calls {
			var m net.Message
			rd := bytes.NewReader(c)
			if err := m.Read(rd); err != nil || rd.Len() != 0 {
				whole = false
			}
		}
		if !whole || len(calls) != nS*nM {
			out.Fails = append(out.Fails, fmt.Sprintf("%s: the stream saw %d Write calls for %d messages and not every call carries exactly one frame (first calls: %s)",
				desc, len(calls), nS*nM, hexHead(calls, 4)))
		}
		// oracle (b): the concatenation decodes to every message once, each sender's in order
		rd := bytes.NewReader(bytes.Join(calls, nil))
		var order []int
		var recv [][2]uint32
		var rhdr []net.Header
		next := make([]int, nS)
		ok := true
		for rd.Len() > 0 {
			var m net.Message
			if err := m.Read(rd); err != nil {
				out.Fails = append(out.Fails, fmt.Sprintf("%s with Write calls of two goroutines alternating: the byte stream does not decode after %d messages: %v", desc, len(order), err))
				ok = false
				break
			}
			s := c10Sender(&m.Header)
			if s >= nS || next[s] >= len(lists[s]) || !sameMessage(m, lists[s][next[s]]) {
				out.Fails = append(out.Fails, fmt.Sprintf("%s: message %d decoded from the bytes the stream was given: %s", desc, len(order), notNext(m, lists, next)))
				ok = false
				break
			}
			next[s]++
			order = append(order, s)
			recv = append(recv, [2]uint32{uint32(s), m.Header.ID})
			rhdr = append(rhdr, m.Header)
		}
		if ok && len(order) != nS*nM {
			out.Fails = append(out.Fails, fmt.Sprintf("%s: %d of %d messages on the stream", desc, len(order), nS*nM))
		}
		out.Dist["transport:rendezvous"]++
		distHeaders(out, lists)
		out.Counts = append(out.Counts, c10Count{fmt.Sprintf("rv|%v|%v", order, recv), switches(order) >= nS})
		if ok && !big {
			out.SCases = append(out.SCases, [2]string{scaseTerm(lists, order, recv, rhdr, calls), desc + fmt.Sprintf(" order=%v", order)})
		}
	}
}

// distHeaders records which header fields of the messages sent take non-default values
func distHeaders(out *c10Out, lists [][]net.Message) {
	for _, l := range lists {
		for _, m := range l {
			h := m.Header
			out.Dist[fmt.Sprintf("msg-type:%d", h.Type)]++
			if h.Flags != 0 {
				out.Dist["msg-flags:non-zero"]++
			}
			if h.ID == 0 || h.ID >= 1<<31 {
				out.Dist["msg-id:0-or-above-2^31"]++
			}
			if h.Object >= 1<<31 || h.Action >= 1<<31 || h.Service >= 1<<31 {
				out.Dist["msg-service/object/action:above-2^31"]++
			}
		}
	}
}

func hexHead(calls [][]byte, n int) string {
	var it []string
	for i, c := range calls {
		if i >= n {
			break
		}
		if len(c) > 40 {
			it = append(it, fmt.Sprintf("%x...(%d bytes)", c[:40], len(c)))
		} else {
			it = append(it, fmt.Sprintf("%x", c))
		}
	}
	return strings.Join(it, " | ")
}

func sameMessage(a, b net.Message) bool {
	return a.Header == b.Header && bytes.Equal(a.Payload, b.Payload)
}

// ---------- phase 2: real transports ----------

type transport struct {
	name string
	pair func(dir string, k int, fin func(net.EndPoint)) (sender net.EndPoint, receiver net.EndPoint, cleanup func(), err error)
}

func listenDial(addr string, fin func(net.EndPoint)) (net.EndPoint, net.EndPoint, func(), error) {
	l, err := net.Listen(addr)
	if err != nil {
		return nil, nil, nil, fmt.Errorf("listen %s: %v", addr, err)
	}
	dialAddr := addr
	if strings.HasPrefix(addr, "tcp://") || strings.HasPrefix(addr, "tcps://") {
		a := net.VerifListenerAddr(l)
		if a == "" {
			l.Close()
			return nil, nil, nil, fmt.Errorf("no listener address")
		}
		dialAddr = addr[:strings.Index(addr, "://")+3] + a
	}
	type acc struct {
		e   net.EndPoint
		err error
	}
	ch := make(chan acc, 1)
	go func() {
		s, err := l.Accept()
		if err != nil {
			ch <- acc{nil, err}
			return
		}
		// the endpoint must read at once: a tls handshake completes only when both sides do I/O
		ch <- acc{net.EndPointFinalizer(s, fin), nil}
	}()
	type dialed struct {
		e   net.EndPoint
		err error
	}
	dch := make(chan dialed, 1)
	go func() {
		e, err := net.DialEndPoint(dialAddr)
		dch <- dialed{e, err}
	}()
	var snd, rcv net.EndPoint
	deadline := time.After(8 * time.Second)
	for snd == nil || rcv == nil {
		select {
		case d := <-dch:
			if d.err != nil {
				l.Close()
				return nil, nil, nil, fmt.Errorf("dial %s: %v", dialAddr, d.err)
			}
			snd = d.e
		case a := <-ch:
			if a.err != nil {
				l.Close()
				return nil, nil, nil, fmt.Errorf("accept %s: %v", addr, a.err)
			}
			rcv = a.e
		case <-deadline:
			l.Close()
			return nil, nil, nil, fmt.Errorf("connecting %s: timeout", addr)
		}
	}
	return snd, rcv, func() { snd.Close(); rcv.Close(); l.Close() }, nil
}

func sockPath(dir string, name string) string {
	p := filepath.Join(dir, name)
	if len(p) > 90 {
		d, err := os.MkdirTemp("", "qv")
		if err == nil {
			p = filepath.Join(d, name)
		}
	}
	os.Remove(p)
	return p
}

func transports() []transport {
	return []transport{
		{"mem-pipe", func(dir string, k int, fin func(net.EndPoint)) (net.EndPoint, net.EndPoint, func(), error) {
			a, b := net.Pipe()
			fin(b) // b already runs; nothing is sent before the handlers are in place
			return a, b, func() { a.Close(); b.Close() }, nil
		}},
		{"unix", func(dir string, k int, fin func(net.EndPoint)) (net.EndPoint, net.EndPoint, func(), error) {
			return listenDial("unix://"+sockPath(dir, fmt.Sprintf("u%d.sock", k)), fin)
		}},
		{"tcp", func(dir string, k int, fin func(net.EndPoint)) (net.EndPoint, net.EndPoint, func(), error) {
			return listenDial("tcp://127.0.0.1:0", fin)
		}},
		{"tls", func(dir string, k int, fin func(net.EndPoint)) (net.EndPoint, net.EndPoint, func(), error) {
			return listenDial("tcps://127.0.0.1:0", fin)
		}},
		{"fd-pipe", func(dir string, k int, fin func(net.EndPoint)) (net.EndPoint, net.EndPoint, func(), error) {
			return listenDial("pipe://"+sockPath(dir, fmt.Sprintf("p%d.sock", k)), fin)
		}},
	}
}

// rx is one receiving handler of the harness
type rx struct {
	name   string
	sel    func(n int, h *net.Header) (bool, bool) // n: consultations so far
	capq   int
	q      chan *net.Message
	n      int
	mu     sync.Mutex
	got    []*net.Message
	closed bool
	slow   bool
}

func (r *rx) filter(h *net.Header) (bool, bool) {
	n := r.n
	r.n++
	return r.sel(n, h)
}

type arrival struct {
	sender, seq int
}

func runTransport(out *c10Out, rng *hx.Rng, tr transport, dir string, k int, nS, nM int, small bool, forModel bool) {
	runTransportL(out, rng, tr, dir, k, nS, nM, small, forModel, nil)
}

// limRun: payload sizes AT the documented limits placed among the small messages of a run (c10limits.go)
type limRun struct {
	sizes map[[2]int]int // (sender, index in its list) -> payload size
	note  string
	// over: once everything has arrived, one more frame whose payload is one byte above MaxPayloadSize
	over bool
}

func runTransportL(out *c10Out, rng *hx.Rng, tr transport, dir string, k int, nS, nM int, small bool, forModel bool, lim *limRun) {
	desc := fmt.Sprintf("%s: %d senders x %d messages", tr.name, nS, nM)
	if lim != nil {
		desc += " " + lim.note
	}
	// two runs in three: Sends on other connections of the process have failed before, and (one in three) keep failing meanwhile
	beside := func() {}
	if k%3 != 0 {
		desc += " " + failedSends(rng)
		out.Dist["after-failed-sends:"+tr.name]++
		if k%3 == 2 {
			beside = failingBeside(rng.U64())
			desc += ", more of them failing meanwhile"
		}
	}
	defer func() { beside() }()
	total := nS * nM
	lists := make([][]net.Message, nS)
	bytesTotal := 0
	for s := 0; s < nS; s++ {
		for i, sm := range genSizes(rng, nM, small) {
			if lim != nil {
				if sz, ok := lim.sizes[[2]int{s, i}]; ok {
					sm.size = sz
				}
			}
			lists[s] = append(lists[s], c10MessageX(s, sm))
			bytesTotal += sm.size
		}
	}
	skipFirst := rng.Intn(total/2 + 1)
	leaveAt, leaveAt2 := rng.Intn(total/2+1), 1+rng.Intn(total-1)
	hs := []*rx{
		{name: "all", capq: total + 8, sel: func(n int, h *net.Header) (bool, bool) { return true, true }},
		{name: "actions-0-2", capq: total + 8, sel: func(n int, h *net.Header) (bool, bool) { return h.Action == 0 || h.Action == 2, true }},
		{name: fmt.Sprintf("after-%d", skipFirst), capq: total + 8, sel: func(n int, h *net.Header) (bool, bool) { return n >= skipFirst, true }},
		{name: "sender-0-small-queue", capq: 3, slow: true, sel: func(n int, h *net.Header) (bool, bool) { return c10Sender(h) == 0 && h.Type != net.Call, true }},
		{name: "first-only", capq: 1, sel: func(n int, h *net.Header) (bool, bool) { return true, false }},
		{name: "flags-bit-0", capq: total + 8, sel: func(n int, h *net.Header) (bool, bool) { return h.Flags&1 != 0, true }},
		{name: "types-reply-error-cancel", capq: total + 8, sel: func(n int, h *net.Header) (bool, bool) {
			return h.Type == net.Reply || h.Type == net.Error || h.Type == net.Cancel || h.Type == net.Cancelled, true
		}},
		{name: "id-or-object-above-2^31", capq: total + 8, sel: func(n int, h *net.Header) (bool, bool) { return h.ID >= 1<<31 || h.Object >= 1<<31, true }},
		// the fourth answer a filter can give: (matched=false, keep=false) — the handler gives up on a message it
		// does not take (a cancelled waiter): it must be closed without that message, and receive nothing later
		{name: fmt.Sprintf("takes-none-leaves-at-%d", leaveAt), capq: 2, sel: func(n int, h *net.Header) (bool, bool) { return false, n < leaveAt }},
		{name: fmt.Sprintf("actions-1-3-leaves-at-%d-without-taking", leaveAt2), capq: total + 8, sel: func(n int, h *net.Header) (bool, bool) {
			if n >= leaveAt2 {
				return false, false
			}
			return h.Action == 1 || h.Action == 3, true
		}},
		{name: "big-payloads", capq: total + 8, sel: func(n int, h *net.Header) (bool, bool) { return h.Size >= 1<<20, true }},
	}
	fin := func(e net.EndPoint) {
		for _, r := range hs {
			r.q = make(chan *net.Message, r.capq)
			e.MakeHandler(r.filter, r.q, nil)
		}
	}
	snd, rcv, cleanup, err := tr.pair(dir, k, fin)
	if err != nil {
		out.Notes = append(out.Notes, fmt.Sprintf("transport %s not available here: %v", tr.name, err))
		out.Dist["unavailable:"+tr.name]++
		return
	}
	_ = rcv
	defer cleanup()
	// consumers
	var cwg sync.WaitGroup
	stop := make(chan struct{})
	for _, r := range hs {
		cwg.Add(1)
		go func(r *rx) {
			defer cwg.Done()
			for {
				select {
				case m, ok := <-r.q:
					if !ok {
						r.mu.Lock()
						r.closed = true
						r.mu.Unlock()
						return
					}
					r.mu.Lock()
					r.got = append(r.got, m)
					r.mu.Unlock()
					if r.slow {
						runtime.Gosched()
					}
				case <-stop:
					return
				}
			}
		}(r)
	}
	var wg sync.WaitGroup
	start := make(chan struct{})
	var errMu sync.Mutex
	var sendErrs []string
	for s := 0; s < nS; s++ {
		wg.Add(1)
		yield := rng.Intn(3)
		go func(s int) {
			defer wg.Done()
			<-start
			for i, m := range lists[s] {
				if err := snd.Send(m); err != nil {
					errMu.Lock()
					sendErrs = append(sendErrs, fmt.Sprintf("sender %d message %d: %v", s, i+1, err))
					errMu.Unlock()
					return
				}
				for y := 0; y < yield; y++ {
					runtime.Gosched()
				}
			}
		}(s)
	}
	t0 := time.Now()
	close(start)
	sendersDone := make(chan struct{})
	go func() { wg.Wait(); close(sendersDone) }()
	limit := 20 * time.Second
	select {
	case <-sendersDone:
	case <-time.After(limit):
		out.Fails = append(out.Fails, fmt.Sprintf("%s: senders still blocked in Send after %v", desc, limit))
		return
	}
	all := hs[0]
	okAll := waitUntil(limit, func() bool {
		all.mu.Lock()
		defer all.mu.Unlock()
		return len(all.got) >= total || all.closed
	})
	time.Sleep(3 * time.Millisecond) // let the other consumers drain
	close(stop)
	cwg.Wait()
	// what still waits in a queue was handed to the handler as well (a loaded machine may not have
	// scheduled every consumer within the 3 ms above)
	for _, r := range hs {
	drain:
		for {
			select {
			case m, ok := <-r.q:
				if !ok {
					r.closed = true
					break drain
				}
				r.got = append(r.got, m)
			default:
				break drain
			}
		}
	}
	for _, e := range sendErrs {
		out.Fails = append(out.Fails, fmt.Sprintf("%s: Send failed: %s", desc, e))
	}
	all.mu.Lock()
	got := append([]*net.Message(nil), all.got...)
	closedEarly := all.closed
	all.mu.Unlock()
	// (b) intact, once, per-sender order
	next := make([]int, nS)
	var order []int
	var recv [][2]uint32
	var rhdr []net.Header
	var arr []*net.Message
	good := true
	for i, m := range got {
		s := c10Sender(&m.Header)
		if s >= nS || next[s] >= nM || !sameMessage(*m, lists[s][next[s]]) {
			out.Fails = append(out.Fails, fmt.Sprintf("%s: message %d handed to the catch-all handler: %s", desc, i, notNext(*m, lists, next)))
			good = false
			break
		}
		next[s]++
		order = append(order, s)
		recv = append(recv, [2]uint32{uint32(s), m.Header.ID})
		rhdr = append(rhdr, m.Header)
		arr = append(arr, m)
	}
	if good && (len(got) != total || !okAll) {
		why := "lost"
		if closedEarly {
			why = "the receiving endpoint closed its handlers: it failed to read the stream"
		}
		out.Fails = append(out.Fails, fmt.Sprintf("%s: %d of %d messages received within %v (%s)", desc, len(got), total, limit, why))
		good = false
	}
	// (c) every handler got the subsequence its filter selects, in arrival order
	if good {
		for hi, r := range hs[1:] {
			var want []*net.Message
			ended := -1 // index of the arrival for which the filter answered keep=false
			for n, m := range arr {
				sel, keep := r.sel(n, &m.Header)
				if sel {
					want = append(want, m)
				}
				if !keep {
					ended = n
					break
				}
			}
			r.mu.Lock()
			have := append([]*net.Message(nil), r.got...)
			r.mu.Unlock()
			if r.capq >= total {
				if !samePtrs(have, want) {
					out.Fails = append(out.Fails, fmt.Sprintf("%s: handler %q (slot %d) received %s; its filter selects, in arrival order, %s", desc, r.name, hi+1, idList(have), idList(want)))
				}
			} else if !subsequence(have, want) {
				out.Fails = append(out.Fails, fmt.Sprintf("%s: handler %q (queue of %d) received %s, which is not a subsequence of what its filter selects: %s", desc, r.name, r.capq, idList(have), idList(want)))
			}
			r.mu.Lock()
			cl := r.closed
			r.mu.Unlock()
			if r.name == "first-only" && len(arr) > 0 {
				if !cl || len(have) != 1 {
					out.Fails = append(out.Fails, fmt.Sprintf("%s: one-shot handler received %d messages, queue closed = %v", desc, len(have), cl))
				}
			} else if ended >= 0 && !cl {
				m := arr[ended]
				sel, _ := r.sel(ended, &m.Header)
				out.Fails = append(out.Fails, fmt.Sprintf("%s: handler %q (slot %d): its filter answered (matched=%v, keep=false) for arrival %d (%d.%d) but its queue was not closed: the handler is still registered; it received %s",
					desc, r.name, hi+1, sel, ended, c10Sender(&m.Header), m.Header.ID, idList(have)))
			} else if ended < 0 && cl {
				out.Fails = append(out.Fails, fmt.Sprintf("%s: handler %q (slot %d): its queue was closed although its filter always answered keep=true and the connection is up", desc, r.name, hi+1))
			}
		}
	}
	if good && lim != nil && lim.over {
		overLimit(out, desc, tr.name, snd, hs, nS)
	}
	if lim != nil {
		out.Dist["limit-sizes:"+tr.name]++
	}
	sw := switches(order)
	out.Dist["transport:"+tr.name]++
	distHeaders(out, lists)
	out.Dist[fmt.Sprintf("senders:%d", nS)]++
	out.Counts = append(out.Counts, c10Count{fmt.Sprintf("%s|%v", tr.name, recv), sw >= nS})
	if len(out.Samples) < 6 && !forModel {
		out.Samples = append(out.Samples, fmt.Sprintf("%s, %d payload bytes in total, received in %v with %d changes of sender in the arrival order", desc, bytesTotal, time.Since(t0).Round(time.Millisecond), sw))
	}
	if forModel && good {
		out.SCases = append(out.SCases, [2]string{scaseTerm(lists, order, recv, rhdr, nil), desc + fmt.Sprintf(" order=%v", order)})
	}
}

func samePtrs(a, b []*net.Message) bool {
	if len(a) != len(b) {
		return false
	}
	for i := range a {
		if a[i] != b[i] {
			return false
		}
	}
	return true
}
func subsequence(a, b []*net.Message) bool {
	j := 0
	for _, x := range a {
		for j < len(b) && b[j] != x {
			j++
		}
		if j == len(b) {
			return false
		}
		j++
	}
	return true
}
func idList(ms []*net.Message) string {
	var it []string
	for i, m := range ms {
		if i >= 12 {
			it = append(it, fmt.Sprintf("... (%d)", len(ms)))
			break
		}
		it = append(it, fmt.Sprintf("%d.%d", c10Sender(&m.Header), m.Header.ID))
	}
	return "[" + strings.Join(it, " ") + "]"
}

// ---------- phase 3: dispatch scripts (sets of filters, many messages) ----------

// genTableGrowthScript: more handlers than the table's initial 10 slots are registered at the same time
// (the table grows), messages flow, most of the handlers of the initial slots are removed again (in a
// random order, some twice), and messages flow for the handlers that remain.
func genTableGrowthScript(rng *hx.Rng) c17script {
	sc := c17script{Name: "dispatch-table-growth", Stream: rng.Chance(0.5)}
	nH := 11 + rng.Intn(4)
	for i := 0; i < nH; i++ {
		f := genFilter(rng)
		if i >= 10 || rng.Chance(0.3) {
			f = fdesc{Kind: 0, Tab: []bb{{rng.Chance(0.8), true}, {true, true}, {rng.Chance(0.8), true}, {true, true}}}
		}
		sc.Ops = append(sc.Ops, sop{Kind: opMake, F: f, Cl: rng.Pick(0, 1), Cap: rng.Pick(2, 8, 40)})
	}
	id := uint32(100)
	msgs := func(n int) {
		for i := 0; i < n; i++ {
			id++
			sc.Ops = append(sc.Ops, sop{Kind: opMsg, M: mspec{Typ: uint32(rng.Pick(1, 2, 4, 5)), Service: uint32(rng.Intn(3)), Object: 1,
				Action: uint32(rng.Intn(4)), ID: id, Payload: rng.Bytes(rng.Pick(0, 0, 2))}})
			if rng.Chance(0.3) {
				sc.Ops = append(sc.Ops, sop{Kind: opRecv, H: rng.Intn(nH)})
			}
		}
	}
	msgs(2 + rng.Intn(4))
	// remove the handlers of slots 0..9 (all of them half of the time), in a random order
	ids := []int{0, 1, 2, 3, 4, 5, 6, 7, 8, 9}
	for i := len(ids) - 1; i > 0; i-- {
		j := rng.Intn(i + 1)
		ids[i], ids[j] = ids[j], ids[i]
	}
	if rng.Chance(0.5) {
		ids = ids[:6+rng.Intn(4)]
	}
	for _, x := range ids {
		sc.Ops = append(sc.Ops, sop{Kind: opRemove, ID: x})
		if rng.Chance(0.15) {
			msgs(1)
		}
		if rng.Chance(0.1) {
			sc.Ops = append(sc.Ops, sop{Kind: opRemove, ID: x})
		}
	}
	msgs(4 + rng.Intn(6))
	if rng.Chance(0.5) { // the freed slots are taken again
		for i := 0; i < 1+rng.Intn(3); i++ {
			sc.Ops = append(sc.Ops, sop{Kind: opMake, F: genFilter(rng), Cl: 1, Cap: rng.Pick(1, 4)})
		}
		msgs(2 + rng.Intn(4))
	}
	return sc
}

func genDispatchScript(rng *hx.Rng) c17script {
	if rng.Chance(0.1) {
		return genTableGrowthScript(rng)
	}
	sc := c17script{Name: "dispatch", Stream: rng.Chance(0.5)}
	nH := 2 + rng.Intn(4)
	for i := 0; i < nH; i++ {
		sc.Ops = append(sc.Ops, sop{Kind: opMake, F: genFilter(rng), Cl: rng.Pick(0, 1), Cap: rng.Pick(0, 1, 2, 3, 8, 40)})
	}
	nM := 8 + rng.Intn(30)
	id := uint32(100)
	for i := 0; i < nM; i++ {
		id++
		sc.Ops = append(sc.Ops, sop{Kind: opMsg, M: mspec{Typ: uint32(rng.Pick(1, 1, 2, 4, 5)), Service: uint32(rng.Intn(3)), Object: 1,
			Action: uint32(rng.Intn(4)), ID: id, Payload: rng.Bytes(rng.Pick(0, 0, 2))}})
		if rng.Chance(0.25) {
			sc.Ops = append(sc.Ops, sop{Kind: opRecv, H: rng.Intn(nH)})
		}
		if rng.Chance(0.05) {
			sc.Ops = append(sc.Ops, sop{Kind: opMake, F: genFilter(rng), Cl: 1, Cap: rng.Pick(1, 4)})
			nH++
		}
	}
	return sc
}


// ---------- stalled peer: back-pressure on a socket transport ----------

type stalledResult struct {
	fails  []string
	notes  []string
	counts []c10Count
	dist   []string
	sample string
}

// stalledPeer: the receiving side of a unix/tcp/tls connection stops reading for T while sender A has
// frames far larger than the socket buffers in flight and sender B keeps sending small frames; then
// the receiver reads everything.  Oracles: every received frame is one of the frames sent (nothing
// merged), each at most once, each sender's in order; a Send that returned nil was delivered; once a
// Send has failed, either nothing more reaches the peer or the stream is still frame-aligned (the
// peer never finds itself inside a truncated frame followed by further traffic).
func stalledPeer(name, addr string, T time.Duration, seed uint64) (res stalledResult) {
	desc := fmt.Sprintf("stalled peer on %s (receiver stops reading for %v; sender A: 4 frames of 6 MiB, sender B: 8 small frames)", name, T)
	fail := func(format string, a ...interface{}) {
		res.fails = append(res.fails, desc+": "+fmt.Sprintf(format, a...))
	}
	l, err := net.Listen(addr)
	if err != nil {
		res.notes = append(res.notes, fmt.Sprintf("stalled peer: transport %s not available here: %v", name, err))
		return
	}
	defer l.Close()
	dialAddr := addr
	if strings.HasPrefix(addr, "tcp") {
		dialAddr = addr[:strings.Index(addr, "://")+3] + net.VerifListenerAddr(l)
	}
	type acc struct {
		s   net.Stream
		err error
	}
	accc := make(chan acc, 1)
	helloRead := make(chan error, 1)
	go func() {
		s, err := l.Accept()
		accc <- acc{s, err}
		if err == nil {
			var m net.Message
			helloRead <- m.Read(s) // also completes a tls handshake
		}
	}()
	type dialed struct {
		e   net.EndPoint
		err error
	}
	dch := make(chan dialed, 1)
	go func() { e, err := net.DialEndPoint(dialAddr); dch <- dialed{e, err} }()
	var snd net.EndPoint
	var peer net.Stream
	deadline := time.After(8 * time.Second)
	helloSent := false
	for snd == nil || peer == nil {
		select {
		case d := <-dch:
			if d.err != nil {
				res.notes = append(res.notes, fmt.Sprintf("stalled peer: dial %s: %v", dialAddr, d.err))
				return
			}
			snd = d.e
		case a := <-accc:
			if a.err != nil {
				res.notes = append(res.notes, fmt.Sprintf("stalled peer: accept %s: %v", addr, a.err))
				return
			}
			peer = a.s
		case <-deadline:
			res.notes = append(res.notes, fmt.Sprintf("stalled peer: connecting %s: timeout", addr))
			return
		}
		if snd != nil && !helloSent {
			helloSent = true
			go snd.Send(c10Message(9, 0, 3, net.Post))
		}
	}
	defer snd.Close()
	defer peer.Close()
	select {
	case err := <-helloRead:
		if err != nil {
			fail("the first frame was not received: %v", err)
			return
		}
	case <-time.After(8 * time.Second):
		fail("the first frame was not received within 8 s")
		return
	}
	// from here on the peer does not read
	const bigSize = 6 * 1024 * 1024
	type sent struct {
		m    net.Message
		err  error
		done bool
	}
	lists := [2][]*sent{}
	for i := 0; i < 4; i++ {
		lists[0] = append(lists[0], &sent{m: c10Message(0, i+1, bigSize+i, net.Post)})
	}
	for i := 0; i < 8; i++ {
		lists[1] = append(lists[1], &sent{m: c10Message(1, i+1, 10+i, net.Event)})
	}
	var mu sync.Mutex
	var wg sync.WaitGroup
	t0 := time.Now()
	for s := 0; s < 2; s++ {
		wg.Add(1)
		go func(s int) {
			defer wg.Done()
			for _, x := range lists[s] {
				err := snd.Send(x.m)
				mu.Lock()
				x.err, x.done = err, true
				mu.Unlock()
				if s == 1 {
					time.Sleep(T / 8)
				}
			}
		}(s)
	}
	time.Sleep(T)
	blockedAtResume := 0
	mu.Lock()
	for s := 0; s < 2; s++ {
		for _, x := range lists[s] {
			if !x.done {
				blockedAtResume++
			}
		}
	}
	mu.Unlock()
	// the peer resumes
	rd, canDeadline := peer.(interface{ SetReadDeadline(time.Time) error })
	var got []net.Message
	var readErr error
	total := len(lists[0]) + len(lists[1])
	for len(got) < total {
		if canDeadline {
			rd.SetReadDeadline(time.Now().Add(4 * time.Second))
		}
		var m net.Message
		if err := m.Read(peer); err != nil {
			readErr = err
			break
		}
		got = append(got, m)
	}
	if len(got) < total {
		// the peer gave up on the stream; keep the socket drained so that blocked senders can return
		if canDeadline {
			rd.SetReadDeadline(time.Time{})
		}
		go io.Copy(io.Discard, peer)
	}
	if len(got) < total {
		// the peer gave up on the stream; keep the socket drained so that blocked senders can return
		if canDeadline {
			rd.SetReadDeadline(time.Time{})
		}
		go io.Copy(io.Discard, peer)
	}
	sendersDone := make(chan struct{})
	go func() { wg.Wait(); close(sendersDone) }()
	select {
	case <-sendersDone:
	case <-time.After(15 * time.Second):
		fail("senders still blocked in Send 15 s after the peer resumed reading (%d frames read)", len(got))
		return
	}
	// nothing merged, nothing twice, per-sender order
	next := [2]int{}
	delivered := map[*sent]bool{}
	var order []int
	for i, m := range got {
		s := int(m.Header.Service)
		if s > 1 {
			fail("frame %d read by the peer (%v, %d payload bytes) was never sent", i, m.Header, len(m.Payload))
			return
		}
		found := false
		for j := next[s]; j < len(lists[s]); j++ {
			if sameMessage(m, lists[s][j].m) {
				// frames whose Send failed may be missing in between
				for k := next[s]; k < j; k++ {
					if lists[s][k].err == nil {
						fail("frame %d of sender %d was read before frame %d, whose Send returned nil", j+1, s, k+1)
					}
				}
				delivered[lists[s][j]] = true
				next[s] = j + 1
				found = true
				break
			}
		}
		if !found {
			fail("frame %d read by the peer (%v, %d payload bytes) is not one of the frames still to come from sender %d: corrupted, merged, duplicated or out of order", i, m.Header, len(m.Payload), s)
			return
		}
		order = append(order, s)
	}
	failed := 0
	for s := 0; s < 2; s++ {
		for j, x := range lists[s] {
			if x.err != nil {
				failed++
				continue
			}
			if !delivered[x] {
				why := "no read error"
				if readErr != nil {
					why = "the peer stopped at: " + readErr.Error()
					if len(why) > 200 {
						why = why[:200]
					}
				}
				fail("Send of frame %d of sender %d (%d payload bytes) returned nil but the peer never received it (%d frames read, %d Sends failed; %s)",
					j+1, s, len(x.m.Payload), len(got), failed, why)
			}
		}
	}
	if failed > 0 && len(res.fails) == 0 && readErr != nil && !strings.Contains(readErr.Error(), "EOF") && !strings.Contains(readErr.Error(), "timeout") {
		fail("%d Sends failed and the peer then found the stream out of frame alignment: %v", failed, readErr)
	}
	res.counts = append(res.counts, c10Count{fmt.Sprintf("stalled|%s|%v|%v", name, T, order), blockedAtResume >= 2})
	res.dist = append(res.dist, "stalled-peer:"+name)
	res.sample = fmt.Sprintf("%s: %d Sends still blocked when the peer resumed, %d frames read, %d Sends failed, %v in all", desc, blockedAtResume, len(got), failed, time.Since(t0).Round(time.Millisecond))
	_ = seed
	return
}

func startStalledPeers(outdir string, T time.Duration, seed uint64) func(out *c10Out) {
	type job struct{ name, addr string }
	jobs := []job{
		{"unix", "unix://" + sockPath(outdir, "stall.sock")},
		{"tcp", "tcp://127.0.0.1:0"},
		{"tls", "tcps://127.0.0.1:0"},
	}
	results := make([]stalledResult, len(jobs))
	var wg sync.WaitGroup
	for i, j := range jobs {
		wg.Add(1)
		go func(i int, j job) {
			defer wg.Done()
			results[i] = stalledPeer(j.name, j.addr, T, seed)
		}(i, j)
	}
	return func(out *c10Out) {
		wg.Wait()
		for _, r := range results {
			out.Fails = append(out.Fails, r.fails...)
			out.Notes = append(out.Notes, r.notes...)
			out.Counts = append(out.Counts, r.counts...)
			for _, d := range r.dist {
				out.Dist[d]++
			}
			if r.sample != "" {
				out.Notes = append(out.Notes, r.sample)
			}
		}
	}
}

// ---------- child / parent ----------

func childC10(res *hx.Result, rng *hx.Rng, tier string, outdir string) {
	os.Setenv("QILOOP_CERT_CONF", filepath.Join(outdir, "no-such-cert.conf"))
	out := &c10Out{Dist: map[string]int{}}
	save := func(phase string) {
		out.Phase = phase
		b, _ := json.Marshal(out)
		os.WriteFile(filepath.Join(outdir, "C10_child.json"), b, 0o644)
	}
	thorough := tier == "thorough"
	mult := 1
	if thorough {
		mult = 20
	}
	// the stalled-peer scenario mostly waits: it runs beside the other phases and is collected at the end
	stallT := 1500 * time.Millisecond
	if thorough {
		stallT = 12 * time.Second
	}
	if v, err := time.ParseDuration(os.Getenv("QV_C10_STALL_T")); err == nil && v > 0 {
		stallT = v // e.g. QV_C10_STALL_T=12s ./check C10 quick : the thorough stall without the rest of the thorough tier
	}
	// QV_C10_PHASES=end,rendezvous ./check C10 quick : only the named phases (development, replay of one family)
	only := map[string]bool{}
	for _, p := range strings.Split(os.Getenv("QV_C10_PHASES"), ",") {
		if p != "" {
			only[p] = true
		}
	}
	want := func(p string) bool { return len(only) == 0 || only[p] }
	joinStalled := func(*c10Out) {}
	if want("stalled") {
		joinStalled = startStalledPeers(outdir, stallT, res.Seed)
	}
	if want("rendezvous") {
		save("rendezvous stream")
		phaseRendezvous(out, rng, 30*mult)
	}
	k := 0
	for _, tr := range transports() {
		if !want("transports") {
			break
		}
		save("transport " + tr.name + " (small runs)")
		for i := 0; i < 8*mult; i++ {
			k++
			runTransport(out, rng, tr, outdir, k, 2+rng.Intn(3), 2+rng.Intn(4), true, true)
		}
		save("transport " + tr.name + " (4 senders x 200 messages)")
		for i := 0; i < 3*mult; i++ {
			k++
			runTransport(out, rng, tr, outdir, k, 4, 200, false, false)
		}
		k++
		save("transport " + tr.name + " (many senders)")
		runTransport(out, rng, tr, outdir, k, 8+rng.Intn(8), 40, false, false)
	}
	if want("limits") {
		save("payload sizes at the documented limits")
		phaseLimits(out, rng, outdir, &k)
	}
	if want("start-up") {
		save("start-up: the peer has written before the endpoint exists")
		phaseStartUp(out, rng, outdir, 5*mult)
		for i := 0; i < 3*mult; i++ {
			busServerTalksFirst(out, rng, outdir, i, []string{"unix", "tcp"}[i%2])
		}
	}
	if want("end") {
		save("send-then-end: what a handler has been given when its life ends")
		phaseEnd(out, hx.NewRng(rng.U64()), outdir, 2*mult)
	}
	if want("dispatch") {
		save("dispatch scripts")
		nD := 300 * mult
		for i := 0; i < nD; i++ {
			sc := genDispatchScript(hx.NewRng(rng.U64()))
			o := runScript(i, sc)
			for _, f := range o.Fails {
				out.Fails = append(out.Fails, fmt.Sprintf("operation sequence [%s]: %s", o.Desc, f))
			}
			nh := 0
			for _, op := range sc.Ops {
				if op.Kind == opMake {
					nh++
				}
			}
			out.Counts = append(out.Counts, c10Count{o.Desc, nh >= 2})
			out.Dist["dispatch-scripts"]++
			out.DCases = append(out.DCases, [2]string{fmt.Sprintf("{| c_ops := %s; c_end := %d%%N; c_hs := %s; c_sent := %s; c_wire := %s; c_sclose := %d%%N |}",
				hx.List(o.Ops), o.End, hx.List(o.Hs), hx.List(o.Sent), wireTerm(o.Wire), o.SClose), o.Desc})
		}
	}
	if want("stress") {
		save("concurrent registration/removal under traffic")
		rounds := 25 * mult
		agg := map[string]int{}
		for r := 0; r < rounds; r++ {
			fails, stats := stressRound(res.Seed+7777, r)
			out.Fails = append(out.Fails, fails...)
			for k, v := range stats {
				agg[k] += v
			}
		}
		out.Notes = append(out.Notes, fmt.Sprintf("handlers registered and removed concurrently with traffic: %d rounds, %d handlers, %d messages delivered; every closed handler received exactly what its filter selected while its queue had room",
			rounds, agg["handlers"], agg["delivered"]))
		out.Dist["stress-rounds"] = rounds
	}
	save("stalled peer")
	joinStalled(out)
	save("done")
}

func runC10(res *hx.Result, rng *hx.Rng, tier string, outdir string) {
	res.Rule = "N goroutines (2..15) calling EndPoint.Send concurrently, message sizes 0..300 kB, over mem-pipe / unix / tcp (OS-chosen port) / tls / fd-passing pipe and over a " +
		"harness stream whose Write alternates between goroutines; receiving endpoint with a catch-all handler (arrival order) and table / stateful / small-queue / one-shot filters; " +
		"every free header field varies (flags, 8 types, id/object/action/service at the extremes) and is compared field by field; " +
		"start-up runs: the peer's first 1..6 messages already written before the endpoint is built by EndPointFinalizer (finalizer working 0..25 ms or sending first, 1..4 handlers), " +
		"by NewEndPoint, or by a bus server's accept loop, on harness buffer / mem-pipe / unix / tcp / tls / fd-pipe; " +
		"send-then-end runs: 1..3 handlers of every flavour (MakeHandler with a queue of the harness, AddHandler with a consumer callback, ReceiveAny), 1..22 messages, the last 1..10 back to back, " +
		"then the handler's life ends (the peer hangs up at once / connection reset / local Close / RemoveHandler / keep=false) while every consumer is still busy, on the same six transports, " +
		"after RemoveHandler / keep=false a new handler takes the freed slot and more messages follow; " +
		"one run per transport with payloads of 0, 1, MaxPayloadSize-1 and MaxPayloadSize bytes among small messages of three concurrent senders, then one frame of MaxPayloadSize+1 bytes (refused); " +
		"transport handlers answer every (matched, keep) combination, (false, false) included; " +
		"two sender runs in three are preceded (one in three also accompanied) by failing Sends on other connections of the process (8 kinds of failure, from 1..8 goroutines); " +
		"operation sequences with 2..6 handlers (one in ten: 11..14 handlers, then removals) and 8..40 messages replayed on the model; non-trivial = the arrival order changes sender at least as often as there are senders, " +
		"a dispatch c17script has >= 2 handlers, a start-up run has >= 2 handlers and >= 2 messages written ahead, or a send-then-end run has >= 2 messages; distinct by sha256 of (transport, arrival order), of the c17script text or of the start-up / send-then-end description"
	path := filepath.Join(outdir, "C10_child.json")
	os.Remove(path)
	cmd := exec.Command(os.Args[0], "--seed", fmt.Sprint(res.Seed), "--tier", tier, "--out", outdir, "C10.child")
	var stderr strings.Builder
	cmd.Stderr = &stderr
	cmd.Stdout = &stderr
	werr := error(nil)
	if err := cmd.Start(); err != nil {
		werr = err
	} else {
		waitc := make(chan error, 1)
		go func() { waitc <- cmd.Wait() }()
		limit := 8 * time.Minute
		if tier == "thorough" {
			limit = 3 * time.Hour
		}
		select {
		case werr = <-waitc:
		case <-time.After(limit):
			cmd.Process.Kill()
			<-waitc
			werr = fmt.Errorf("child exceeded %v", limit)
		}
	}
	var out c10Out
	if b, err := os.ReadFile(path); err == nil {
		json.Unmarshal(b, &out)
	}
	if werr != nil || out.Phase != "done" {
		tail := stderr.String()
		if i := strings.Index(tail, "panic:"); i >= 0 {
			tail = tail[i:]
		} else if i := strings.Index(tail, "fatal error:"); i >= 0 {
			tail = tail[i:]
		}
		if len(tail) > 700 {
			tail = tail[:700]
		}
		res.Fail("process-died", fmt.Sprintf("the harness process died during phase %q (seed %d): %v: %s", out.Phase, res.Seed, werr, tail))
	}
	for _, f := range out.Fails {
		res.Fail("concurrent-senders", f)
	}
	for _, f := range out.KFails {
		res.Fail(f[0], f[1])
	}
	res.Notes = append(res.Notes, out.Notes...)
	keys := make([]string, 0, len(out.Dist))
	for k := range out.Dist {
		keys = append(keys, k)
	}
	sort.Strings(keys)
	for _, k := range keys {
		res.Distribution[k] += out.Dist[k]
	}
	for _, c := range out.Counts {
		res.Count(c.Canon, c.Nontrivial)
	}
	for _, s := range out.Samples {
		res.Sample(s)
	}
	if tier == "thorough" {
		raceChild(res, outdir, "C10.child", nil, "concurrent senders over all transports, dispatch scripts and registration/removal rounds")
	}
	cf := hx.NewCases(outdir, "C10", "From QV Require Import Reader Message Endpoint C17Run C10Run.", "C10Run.mismatches scases dcases", res,
		"scases", "scase", "dcases", "ocase")
	for _, c := range out.SCases {
		cf.Add("scases", c[0], c[1])
	}
	for _, c := range out.DCases {
		cf.Add("dcases", c[0], c[1])
	}
	cf.Flush()
}
