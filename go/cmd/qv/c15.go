package main

// C15 — the service directory is a linearizable registry.
//
//   sequential: operation sequences over a small universe run on the real
//     serviceDirectory object (verif hook), compared step by step with Directory.v
//     (results, emitted signals, final maps and counter) and judged by property oracles
//     (ids increasing, one holder per name, visibility from ready to unregister, update
//     keeps name and id, one signal per transition);
//   concurrent: histories recorded against a real server on a unix socket — remote clients
//     through the object's mailbox, local Server.NewService / Service.Terminate / Resolve
//     through a recording Namespace — in a child process (the unsynchronised pinned code
//     can die of `concurrent map ...`); judged by a Go linearizability search and by the
//     signal oracle, and written as case files for Lin.v's lin_check;
//   probes for the two defect switches id_wrap and unsync_local.

import (
	"bytes"
	"encoding/json"
	"fmt"
	"os"
	"os/exec"
	"path/filepath"
	"sort"
	"strconv"
	"strings"
	"sync"
	"time"

	"github.com/lugu/qiloop/bus"
	"github.com/lugu/qiloop/bus/directory"
	"github.com/lugu/qiloop/bus/util"
	"github.com/lugu/qiloop/type/object"
	"qv/internal/c15skel"
	"qv/internal/hx"
)

func init() {
	props["C15"] = runC15
	props["C15-child-hist"] = c15ChildHist
	props["C15-child-race"] = c15ChildRace
}

// ---------- operations, results, signals (mirrors Directory.v) ----------

type dInfo struct {
	Name      string   `json:"n"`
	ID        uint32   `json:"i"`
	Machine   string   `json:"m"`
	Pid       uint32   `json:"p"`
	Endpoints []string `json:"e"`
	Session   string   `json:"s"`
	UID       string   `json:"u"`
}

const (
	opRegister = iota
	opUnregister
	opReady
	opUpdate
	opService
	opServices
	opMachine
	opSocket
	opResolve
)

type dOp struct {
	Kind int    `json:"k"`
	Info dInfo  `json:"info"`
	ID   uint32 `json:"id"`
	Name string `json:"name"`
}

const (
	rID = iota
	rOk
	rErr
	rInfo
	rList
	rMachine
)

type dRes struct {
	Kind int     `json:"k"`
	ID   uint32  `json:"id"`
	Info dInfo   `json:"info"`
	List []dInfo `json:"list"`
}

type dEvent struct {
	Added bool   `json:"a"`
	ID    uint32 `json:"id"`
	Name  string `json:"n"`
}

// infos built by the Namespace adapter carry this process's machine id and pid: renamed to
// the constants "M" and 1 (harness-made infos never use the real machine id)
func toInfo(i directory.ServiceInfo) dInfo {
	d := dInfo{i.Name, i.ServiceId, i.MachineId, i.ProcessId, append([]string{}, i.Endpoints...), i.SessionId, i.ObjectUid}
	if d.Machine == util.MachineID() {
		d.Machine = seqMachine
		if d.Pid == util.ProcessID() {
			d.Pid = 1
		}
	}
	return d
}
func fromInfo(i dInfo) directory.ServiceInfo {
	return directory.ServiceInfo{Name: i.Name, ServiceId: i.ID, MachineId: i.Machine, ProcessId: i.Pid,
		Endpoints: i.Endpoints, SessionId: i.Session, ObjectUid: i.UID}
}

func strList(l []string) string {
	it := make([]string, len(l))
	for i, s := range l {
		it[i] = coqStr(s)
	}
	return "[" + strings.Join(it, ";") + "]"
}
func (i dInfo) term() string {
	return fmt.Sprintf("(I %s %d %s %d %s %s %s)", coqStr(i.Name), i.ID, coqStr(i.Machine), i.Pid, strList(i.Endpoints), coqStr(i.Session), coqStr(i.UID))
}
func (o dOp) term() string {
	switch o.Kind {
	case opRegister:
		return "ORegister " + o.Info.term()
	case opUnregister:
		return fmt.Sprintf("OUnregister %d", o.ID)
	case opReady:
		return fmt.Sprintf("OReady %d", o.ID)
	case opUpdate:
		return "OUpdate " + o.Info.term()
	case opService:
		return "OService " + coqStr(o.Name)
	case opServices:
		return "OServices"
	case opMachine:
		return "OMachineId"
	case opSocket:
		return fmt.Sprintf("OSocket %d", o.ID)
	default:
		return "OResolve " + coqStr(o.Name)
	}
}
func (o dOp) String() string { return o.term() }
func (r dRes) term() string {
	switch r.Kind {
	case rID:
		return fmt.Sprintf("RId %d", r.ID)
	case rOk:
		return "ROk"
	case rErr:
		return "RErr"
	case rInfo:
		return "RInfo " + r.Info.term()
	case rList:
		it := make([]string, len(r.List))
		for i, x := range r.List {
			it[i] = x.term()
		}
		return "RList [" + strings.Join(it, ";") + "]"
	default:
		return "RMachine"
	}
}
func (r dRes) String() string { return r.term() }
func (e dEvent) term() string {
	if e.Added {
		return fmt.Sprintf("EvAdded %d %s", e.ID, coqStr(e.Name))
	}
	return fmt.Sprintf("EvRemoved %d %s", e.ID, coqStr(e.Name))
}
func evTerms(evs []dEvent) string {
	it := make([]string, len(evs))
	for i, e := range evs {
		it[i] = e.term()
	}
	return "[" + strings.Join(it, ";") + "]"
}
func infoEq(a, b dInfo) bool {
	if a.Name != b.Name || a.ID != b.ID || a.Machine != b.Machine || a.Pid != b.Pid || a.Session != b.Session || a.UID != b.UID || len(a.Endpoints) != len(b.Endpoints) {
		return false
	}
	for i := range a.Endpoints {
		if a.Endpoints[i] != b.Endpoints[i] {
			return false
		}
	}
	return true
}
func resEq(a, b dRes) bool {
	if a.Kind != b.Kind {
		return false
	}
	switch a.Kind {
	case rID:
		return a.ID == b.ID
	case rInfo:
		return infoEq(a.Info, b.Info)
	case rList:
		if len(a.List) != len(b.List) {
			return false
		}
		for i := range a.List {
			if !infoEq(a.List[i], b.List[i]) {
				return false
			}
		}
	}
	return true
}

// ---------- the registry as the property words it (reference for the oracles) ----------
// Written from the statement of C15, not from directory.go: entries with a status, ids from a
// counter.  Used by the property oracles and by the Go-side linearizability search.

type refEntry struct {
	info  dInfo
	ready bool
}
type refDir struct {
	entries []refEntry
	next    uint32
}

func validInfo(i dInfo) bool {
	if i.Name == "" || i.Machine == "" || i.Pid == 0 || len(i.Endpoints) == 0 {
		return false
	}
	for _, e := range i.Endpoints {
		if e == "" {
			return false
		}
	}
	return true
}
func (d *refDir) clone() *refDir {
	return &refDir{append([]refEntry{}, d.entries...), d.next}
}
func (d *refDir) find(id uint32) int {
	for k, e := range d.entries {
		if e.info.ID == id {
			return k
		}
	}
	return -1
}
func (d *refDir) step(o dOp) (dRes, []dEvent) {
	switch o.Kind {
	case opRegister:
		if !validInfo(o.Info) || d.next == 0xffffffff {
			return dRes{Kind: rErr}, nil
		}
		for _, e := range d.entries {
			if e.info.Name == o.Info.Name {
				return dRes{Kind: rErr}, nil
			}
		}
		d.next++
		i := o.Info
		i.ID = d.next
		d.entries = append(d.entries, refEntry{i, false})
		return dRes{Kind: rID, ID: d.next}, nil
	case opUnregister:
		k := d.find(o.ID)
		if k < 0 {
			return dRes{Kind: rErr}, nil
		}
		e := d.entries[k]
		d.entries = append(append([]refEntry{}, d.entries[:k]...), d.entries[k+1:]...)
		if e.ready {
			return dRes{Kind: rOk}, []dEvent{{false, o.ID, e.info.Name}}
		}
		return dRes{Kind: rOk}, nil
	case opReady:
		k := d.find(o.ID)
		if k < 0 || d.entries[k].ready {
			return dRes{Kind: rErr}, nil
		}
		d.entries[k].ready = true
		return dRes{Kind: rOk}, []dEvent{{true, o.ID, d.entries[k].info.Name}}
	case opUpdate:
		if !validInfo(o.Info) {
			return dRes{Kind: rErr}, nil
		}
		k := d.find(o.Info.ID)
		if k < 0 || !d.entries[k].ready || d.entries[k].info.Name != o.Info.Name {
			return dRes{Kind: rErr}, nil
		}
		d.entries[k].info = o.Info
		return dRes{Kind: rOk}, nil
	case opService, opResolve:
		for _, e := range d.entries {
			if e.ready && e.info.Name == o.Name {
				if o.Kind == opResolve {
					return dRes{Kind: rID, ID: e.info.ID}, nil
				}
				return dRes{Kind: rInfo, Info: e.info}, nil
			}
		}
		return dRes{Kind: rErr}, nil
	case opServices:
		var l []dInfo
		for _, e := range d.entries {
			if e.ready {
				l = append(l, e.info)
			}
		}
		sort.Slice(l, func(a, b int) bool { return l[a].ID < l[b].ID })
		return dRes{Kind: rList, List: l}, nil
	case opMachine:
		return dRes{Kind: rMachine}, nil
	}
	return dRes{Kind: rErr}, nil
}
func (d *refDir) key() string {
	es := append([]refEntry{}, d.entries...)
	sort.Slice(es, func(a, b int) bool { return es[a].info.ID < es[b].info.ID })
	var b strings.Builder
	fmt.Fprintf(&b, "%d|", d.next)
	for _, e := range es {
		fmt.Fprintf(&b, "%v%v;", e.info, e.ready)
	}
	return b.String()
}

// ---------- running one operation on the real object ----------

// sigRecorder is the harness-owned ServiceDirectorySignalHelper.  It behaves like
// signalHandler.UpdateSignal with one healthy subscriber (who records every event) and,
// while broken is set, one subscriber whose connection gives a write error: the event is
// still delivered to the healthy one and the helper returns that error.
type sigRecorder struct {
	mu     sync.Mutex
	evs    []dEvent
	broken bool
	failed int
}

var errBrokenSubscriber = fmt.Errorf("write event: broken pipe")

func (s *sigRecorder) emit(e dEvent) error {
	s.mu.Lock()
	defer s.mu.Unlock()
	s.evs = append(s.evs, e)
	if s.broken {
		s.failed++
		return errBrokenSubscriber
	}
	return nil
}
func (s *sigRecorder) SignalServiceAdded(id uint32, name string) error {
	return s.emit(dEvent{true, id, name})
}
func (s *sigRecorder) SignalServiceRemoved(id uint32, name string) error {
	return s.emit(dEvent{false, id, name})
}

const seqMachine = "M"
const seqAddr = "A"

type seqDir struct {
	vd   *directory.VerifDirectory
	impl directory.ServiceDirectoryImplementor
	ns   bus.Namespace
	sig  *sigRecorder
}

func newSeqDir(last0 uint32) *seqDir {
	vd := directory.VerifNewDirectory()
	s := &seqDir{vd: vd, impl: vd.Impl(), ns: vd.Namespace(seqAddr), sig: &sigRecorder{}}
	s.impl.Activate(bus.Activation{ServiceID: 1, ObjectID: 1, Terminate: func() {}}, s.sig)
	if last0 != 0 {
		vd.SetLastID(last0)
	}
	return s
}

// apply runs o; viaNS asks for the Namespace adapter where it offers the operation; with
// broken set, the signal helper reports a failing subscriber for every event of this call.
func (s *seqDir) apply(o dOp, viaNS bool, broken bool) (dRes, []dEvent) {
	s.sig.evs = nil
	s.sig.broken = broken
	r := applyOp(s.impl, s.ns, o, viaNS)
	s.sig.broken = false
	return r, append([]dEvent{}, s.sig.evs...)
}

// applyOp: one operation on the implementation object, directly or through the Namespace adapter
func applyOp(impl directory.ServiceDirectoryImplementor, ns bus.Namespace, o dOp, viaNS bool) dRes {
	var r dRes
	cls := func(err error) dRes {
		if err != nil {
			return dRes{Kind: rErr}
		}
		return dRes{Kind: rOk}
	}
	switch o.Kind {
	case opRegister:
		var id uint32
		var err error
		if viaNS {
			// directoryNamespace.Reserve builds the info itself (o.Info is its normalised form)
			id, err = ns.Reserve(o.Info.Name)
		} else {
			id, err = impl.RegisterService(fromInfo(o.Info))
		}
		if err != nil {
			r = dRes{Kind: rErr}
		} else {
			r = dRes{Kind: rID, ID: id}
		}
	case opUnregister:
		if viaNS {
			r = cls(ns.Remove(o.ID))
		} else {
			r = cls(impl.UnregisterService(o.ID))
		}
	case opReady:
		if viaNS {
			r = cls(ns.Enable(o.ID))
		} else {
			r = cls(impl.ServiceReady(o.ID))
		}
	case opUpdate:
		r = cls(impl.UpdateServiceInfo(fromInfo(o.Info)))
	case opService:
		i, err := impl.Service(o.Name)
		if err != nil {
			r = dRes{Kind: rErr}
		} else {
			r = dRes{Kind: rInfo, Info: toInfo(i)}
		}
	case opServices:
		l, err := impl.Services()
		if err != nil {
			r = dRes{Kind: rErr}
		} else {
			r = dRes{Kind: rList}
			for _, i := range l {
				r.List = append(r.List, toInfo(i))
			}
		}
	case opMachine:
		m, err := impl.MachineId()
		if err != nil || m == "" {
			r = dRes{Kind: rErr}
		} else {
			r = dRes{Kind: rMachine}
		}
	case opResolve:
		id, err := ns.Resolve(o.Name)
		if err != nil {
			r = dRes{Kind: rErr}
		} else {
			r = dRes{Kind: rID, ID: id}
		}
	default:
		r = dRes{Kind: rErr}
	}
	return r
}

func (s *seqDir) state() (st, sv []dInfo, last uint32) {
	a, b, l := s.vd.State()
	for _, i := range a {
		st = append(st, toInfo(i))
	}
	for _, i := range b {
		sv = append(sv, toInfo(i))
	}
	return st, sv, l
}

// ---------- sequential generator ----------

var seqNames = []string{"a", "b", "c"}

// names that differ from a base name only by blanks or case: different names for the registry
var seqNameVariants = []string{"a ", " a", "A", "b ", "B"}
var seqNamesAll = append(append([]string{}, seqNames...), seqNameVariants...)

// addresses a remote service may announce (public, local socket, loopback)
var seqEndpoints = []string{"tcp://198.18.0.7:9559", "unix:///nonexistent/qv-c15.sock", "tcp://127.0.0.1:1", "tcp://198.18.0.9:9559"}

func genInfo(rng *hx.Rng, name string, id uint32) dInfo {
	i := dInfo{Name: name, ID: id, Machine: "m", Pid: uint32(1 + rng.Intn(3)), Endpoints: []string{"e"}}
	switch rng.Intn(8) {
	case 0:
		i.Endpoints = []string{"e", "f"}
	case 6, 7:
		// what a service on another machine announces: 2..3 addresses in any order (public
		// address first, local socket first, ...); none of them can be connected from here
		// (198.18.0.x is refused by SelectEndPoint, the socket does not exist, port 1 is closed)
		n := 2 + rng.Intn(2)
		perm := []int{0, 1, 2, 3}
		for a := len(perm) - 1; a > 0; a-- {
			b := rng.Intn(a + 1)
			perm[a], perm[b] = perm[b], perm[a]
		}
		i.Endpoints = nil
		dialled := false
		for _, k := range perm[:n] {
			i.Endpoints = append(i.Endpoints, seqEndpoints[k])
			dialled = dialled || !strings.Contains(seqEndpoints[k], "198.18.0")
		}
		if !dialled {
			// bus.SelectEndPoint returns (nil channel, nil error) when it skipped every address
			// (all in 198.18.0.x) and directorySession.client then crashes in bus.NewClient(nil):
			// not this property's subject; every list keeps one address that is really dialled
			i.Endpoints[rng.Intn(n)] = seqEndpoints[1+rng.Intn(2)]
		}
	case 1:
		i.Session = "s"
	case 2:
		i.UID = "u"
	case 3:
		i.Machine = "n"
	}
	return i
}

func breakInfo(rng *hx.Rng, i dInfo) (dInfo, string) {
	switch rng.Intn(5) {
	case 0:
		i.Name = ""
		return i, "empty-name"
	case 1:
		i.Machine = ""
		return i, "empty-machine"
	case 2:
		i.Pid = 0
		return i, "pid-zero"
	case 3:
		i.Endpoints = nil
		return i, "no-endpoint"
	default:
		i.Endpoints = []string{"e", ""}
		return i, "empty-endpoint"
	}
}

type seqStep struct {
	op     dOp
	viaNS  bool
	broken bool // one subscriber's connection is broken during this call: the signal helper delivers to the healthy one and returns a write error
	res    dRes
	evs    []dEvent
	// a user of the records the directory hands out, after the call returned: the hosting
	// server's own session creates a proxy ("proxy:<name>") or an object ("object:<id>") of a
	// service — directorySession looks the record up and hands it to bus.SelectEndPoint.  Not a
	// directory operation: the model has no step for it, the registry must not change.
	use string
}

// stubServer: what directorySession needs of the hosting server (the same-process bypass asks
// it for a direct client); the client answers every call with an error
type stubServer struct{}

func (stubServer) NewService(name string, object bus.Actor) (bus.Service, error) {
	return nil, fmt.Errorf("stub server")
}
func (stubServer) Session() bus.Session      { return nil }
func (stubServer) Terminate() error          { return nil }
func (stubServer) WaitTerminate() chan error { return nil }
func (stubServer) Client() bus.Client        { return stubClient{} }

type stubClient struct{}

func (stubClient) Call(cancel <-chan struct{}, serviceID, objectID, methodID uint32, payload []byte) ([]byte, error) {
	return nil, fmt.Errorf("stub client")
}
func (stubClient) Subscribe(serviceID, objectID, actionID uint32) (func(), chan []byte, error) {
	return nil, nil, fmt.Errorf("stub client")
}
func (stubClient) OnDisconnect(cb func(error)) error      { return nil }
func (stubClient) State(signal string, increment int) int { return 0 }
func (stubClient) Channel() bus.Channel                   { return nil }

// useRecord: the local session of the hosting server contacts a service (the connection need
// not succeed: the addresses of the sequences are unreachable)
func (s *seqDir) useRecord(use string) {
	sess := s.ns.Session(stubServer{})
	switch {
	case strings.HasPrefix(use, "proxy:"):
		sess.Proxy(strings.TrimPrefix(use, "proxy:"), 1)
	case strings.HasPrefix(use, "object:"):
		id, _ := strconv.ParseUint(strings.TrimPrefix(use, "object:"), 10, 32)
		sess.Object(object.ObjectReference{ServiceID: uint32(id), ObjectID: 1})
	}
}

func genSeqOp(rng *hx.Rng, known []uint32, names map[uint32]string, visible, stagedSet map[uint32]bool, last uint32) (dOp, bool, string) {
	var stg []uint32
	for id := range stagedSet {
		stg = append(stg, id)
	}
	sort.Slice(stg, func(a, b int) bool { return stg[a] < stg[b] })
	var vis []uint32
	for id := range visible {
		vis = append(vis, id)
	}
	sort.Slice(vis, func(a, b int) bool { return vis[a] < vis[b] })
	pickID := func() uint32 {
		switch {
		case len(known) > 0 && rng.Chance(0.75):
			// recent ids are more often still registered
			if rng.Chance(0.6) {
				k := len(known) - 1 - rng.Intn(3)
				if k < 0 {
					k = 0
				}
				return known[k]
			}
			return known[rng.Intn(len(known))]
		case rng.Chance(0.1):
			return uint32(rng.Pick(0, 0xffffffff, 0x7fffffff))
		default:
			return last - 2 + uint32(rng.Intn(5))
		}
	}
	name := seqNames[rng.Intn(len(seqNames))]
	if rng.Chance(0.12) {
		name = seqNameVariants[rng.Intn(len(seqNameVariants))]
	}
	k := rng.Intn(100)
	// steer towards operations that can succeed in the current state
	if len(stg) > 0 && k < 38 && rng.Chance(0.4) {
		k = 40 // ready
	}
	if len(vis) > 0 && k < 38 && rng.Chance(0.3) {
		k = rng.Pick(55, 70, 82, 95) // unregister, update, service, resolve
	}
	switch {
	case k < 30:
		i := genInfo(rng, name, uint32(rng.Pick(0, 0, 0, 7)))
		if rng.Chance(0.15) {
			bi, why := breakInfo(rng, i)
			return dOp{Kind: opRegister, Info: bi}, false, "register-invalid:" + why
		}
		return dOp{Kind: opRegister, Info: i}, false, "register"
	case k < 38:
		// the Namespace adapter's Reserve: RegisterService with the local info
		return dOp{Kind: opRegister, Info: dInfo{Name: name, Machine: seqMachine, Pid: 1, Endpoints: []string{seqAddr}}}, true, "ns-reserve"
	case k < 52:
		id := pickID()
		if len(stg) > 0 && rng.Chance(0.65) {
			id = stg[rng.Intn(len(stg))]
		}
		return dOp{Kind: opReady, ID: id}, rng.Chance(0.3), "ready"
	case k < 66:
		id := pickID()
		if len(vis) > 0 && rng.Chance(0.5) {
			id = vis[rng.Intn(len(vis))]
		} else if len(stg) > 0 && rng.Chance(0.3) {
			id = stg[rng.Intn(len(stg))]
		}
		return dOp{Kind: opUnregister, ID: id}, rng.Chance(0.3), "unregister"
	case k < 80:
		id := pickID()
		if len(vis) > 0 && rng.Chance(0.6) {
			id = vis[rng.Intn(len(vis))]
		}
		n, ok := names[id]
		if !ok || rng.Chance(0.2) {
			n = name
		}
		i := genInfo(rng, n, id)
		if rng.Chance(0.1) {
			bi, why := breakInfo(rng, i)
			return dOp{Kind: opUpdate, Info: bi}, false, "update-invalid:" + why
		}
		return dOp{Kind: opUpdate, Info: i}, false, "update"
	case k < 88:
		if rng.Chance(0.1) {
			name = ""
		} else if len(vis) > 0 && rng.Chance(0.6) {
			name = names[vis[rng.Intn(len(vis))]]
		}
		return dOp{Kind: opService, Name: name}, false, "service"
	case k < 93:
		return dOp{Kind: opServices}, false, "services"
	case k < 98:
		if len(vis) > 0 && rng.Chance(0.6) {
			name = names[vis[rng.Intn(len(vis))]]
		}
		return dOp{Kind: opResolve, Name: name}, true, "resolve"
	default:
		return dOp{Kind: opMachine}, false, "machineId"
	}
}

// seqOracles judges the implementation's own behaviour on one sequence against the property's
// clauses; it returns the failures (clause, detail).
type seqJudge struct {
	lastReg  int64
	names    map[uint32]string // name registered under an id
	visible  map[uint32]bool
	staged   map[uint32]bool
	wasReady map[uint32]bool     // unregistered after having been ready
	emitted  map[uint32][]dEvent // every signal handed to the helper so far, per id
	recs     map[uint32]dInfo    // the record register / the last accepted update put under an id
	failures [][2]string
}

func newSeqJudge(last0 uint32) *seqJudge {
	return &seqJudge{lastReg: int64(last0), names: map[uint32]string{}, visible: map[uint32]bool{}, staged: map[uint32]bool{},
		wasReady: map[uint32]bool{}, emitted: map[uint32][]dEvent{}, recs: map[uint32]dInfo{}}
}

func (j *seqJudge) fail(clause, detail string) {
	j.failures = append(j.failures, [2]string{clause, detail})
}

func (j *seqJudge) step(s *seqDir, st seqStep, before map[uint32]string) {
	o, r := st.op, st.res
	// (1) identifiers strictly increasing, never reused
	if o.Kind == opRegister && r.Kind == rID {
		if int64(r.ID) <= j.lastReg {
			j.fail("ids-increasing", fmt.Sprintf("registerService returned id %d after id %d had been assigned", r.ID, j.lastReg))
		}
		if _, used := j.names[r.ID]; used {
			j.fail("ids-never-reused", fmt.Sprintf("id %d assigned a second time", r.ID))
		}
		j.lastReg = int64(r.ID)
		j.names[r.ID] = o.Info.Name
		j.staged[r.ID] = true
		rec := o.Info
		rec.ID = r.ID
		rec.Endpoints = append([]string{}, o.Info.Endpoints...)
		j.recs[r.ID] = rec
	}
	if o.Kind == opUpdate && r.Kind == rOk {
		rec := o.Info
		rec.Endpoints = append([]string{}, o.Info.Endpoints...)
		j.recs[o.Info.ID] = rec
	}
	// (5) signals: exactly one per transition
	var want []dEvent
	if o.Kind == opReady && r.Kind == rOk {
		want = []dEvent{{true, o.ID, j.names[o.ID]}}
		j.visible[o.ID] = true
		delete(j.staged, o.ID)
	}
	if o.Kind == opUnregister && r.Kind == rOk {
		if j.visible[o.ID] {
			want = []dEvent{{false, o.ID, j.names[o.ID]}}
			j.wasReady[o.ID] = true
		}
		delete(j.visible, o.ID)
		delete(j.staged, o.ID)
	}
	if fmt.Sprint(want) != fmt.Sprint(st.evs) {
		j.fail("signals", fmt.Sprintf("%v%s -> %v emitted %s, the transition calls for %s", o, brokenMark(st.broken), r, evTerms(st.evs), evTerms(want)))
	}
	// (5') over the whole sequence: the subscriber has seen, for every id, exactly the signals
	// of the transitions of its life so far (C15_events_exact): nothing while staging or when
	// unregistered from staging, added while ready, added then removed once gone
	for _, e := range st.evs {
		j.emitted[e.ID] = append(j.emitted[e.ID], e)
	}
	touched := map[uint32]bool{o.ID: true}
	for _, e := range st.evs {
		touched[e.ID] = true
	}
	for id := range touched {
		var life []dEvent
		state := "unknown"
		if n, ok := j.names[id]; ok {
			switch {
			case j.visible[id]:
				life, state = []dEvent{{true, id, n}}, "ready"
			case j.wasReady[id]:
				life, state = []dEvent{{true, id, n}, {false, id, n}}, "unregistered after ready"
			case j.staged[id]:
				state = "staging"
			default:
				state = "unregistered while staging"
			}
		}
		if fmt.Sprint(life) != fmt.Sprint(j.emitted[id]) && (o.Kind == opReady || o.Kind == opUnregister || len(st.evs) > 0) {
			j.fail("events-exact", fmt.Sprintf("after %v%s -> %v the subscriber has received %s for id %d, whose life so far (%s) calls for %s",
				o, brokenMark(st.broken), r, evTerms(j.emitted[id]), id, state, evTerms(life)))
		}
	}
	// state after the step
	stg, svc, _ := s.state()
	// (2) a name is held by at most one entry of staging ∪ services
	seen := map[string]uint32{}
	for _, i := range append(append([]dInfo{}, stg...), svc...) {
		if other, dup := seen[i.Name]; dup {
			j.fail("name-unique", fmt.Sprintf("name %q held by ids %d and %d", i.Name, other, i.ID))
		}
		seen[i.Name] = i.ID
	}
	// (2') a record only changes through register / an accepted update: what the registry
	// holds, field by field (the order of the endpoints included), is what those calls stored
	useMark := ""
	if st.use != "" {
		useMark = " [then the server's local session: " + st.use + "]"
	}
	for _, i := range append(append([]dInfo{}, stg...), svc...) {
		if want, ok := j.recs[i.ID]; ok && j.names[i.ID] == i.Name && !infoEq(i, want) {
			j.fail("record-integrity", fmt.Sprintf("after %v%s the registry holds %v under id %d; register/update stored %v", o, useMark, i, i.ID, want))
		}
	}
	// (3) visible to lookup and list exactly from ready until unregister
	var vis []uint32
	for id := range j.visible {
		vis = append(vis, id)
	}
	sort.Slice(vis, func(a, b int) bool { return vis[a] < vis[b] })
	var listed []uint32
	l, _ := s.impl.Services()
	for _, i := range l {
		listed = append(listed, i.ServiceId)
	}
	sort.Slice(listed, func(a, b int) bool { return listed[a] < listed[b] }) // the order of the list is the model's business
	if fmt.Sprint(vis) != fmt.Sprint(listed) {
		j.fail("visibility", fmt.Sprintf("services lists ids %v, ready-and-not-unregistered ids are %v", listed, vis))
	}
	for _, n := range seqNamesAll {
		i, err := s.impl.Service(n)
		found := err == nil
		want := false
		for id := range j.visible {
			if j.names[id] == n {
				want = true
				if found && i.ServiceId != id {
					j.fail("visibility", fmt.Sprintf("service(%q) returned id %d, the ready entry of that name is %d", n, i.ServiceId, id))
				}
				if rec, ok := j.recs[id]; found && ok && i.ServiceId == id && !infoEq(toInfo(i), rec) {
					j.fail("record-integrity", fmt.Sprintf("after %v%s service(%q) returns %v; register/update stored %v", o, useMark, n, toInfo(i), rec))
				}
			}
		}
		if found != want {
			j.fail("visibility", fmt.Sprintf("service(%q) found=%v but a ready entry of that name exists=%v", n, found, want))
		}
	}
	// (4) updateServiceInfo cannot change a service's name or identity
	if o.Kind == opUpdate {
		after := idNames(stg, svc)
		if fmt.Sprint(before) != fmt.Sprint(after) {
			j.fail("update-identity", fmt.Sprintf("%v changed the id->name table from %v to %v", o, before, after))
		}
		for _, i := range svc {
			if i.ID == o.Info.ID && r.Kind == rOk && !infoEq(i, o.Info) {
				j.fail("update-identity", fmt.Sprintf("%v accepted but stored %v", o, i))
			}
		}
	}
}

func brokenMark(b bool) string {
	if b {
		return " [one subscriber's connection broken: the signal helper returns a write error]"
	}
	return ""
}

func idNames(stg, svc []dInfo) map[uint32]string {
	m := map[uint32]string{}
	for _, i := range stg {
		m[i.ID] = i.Name
	}
	for _, i := range svc {
		m[i.ID] = i.Name
	}
	return m
}

func infoTerms(l []dInfo) string {
	it := make([]string, len(l))
	for i, x := range l {
		it[i] = x.term()
	}
	return "[" + strings.Join(it, ";") + "]"
}

// runSeq runs one sequence (ops given, or generated when ops == nil) and returns the case term
// faultMode (generated sequences): 0 = the signal helper never fails, 1 = it reports a broken
// subscriber on every emission, 2 = on the emissions of a random half of the calls
func runSeq(rng *hx.Rng, last0 uint32, length int, fixed []seqStep, faultMode int) (steps []seqStep, kinds []string, j *seqJudge, term string, wrapped bool) {
	s := newSeqDir(last0)
	j = newSeqJudge(last0)
	var known []uint32
	users := fixed == nil && rng.Chance(0.4) // sequences in which the server's local session uses the records
	n := length
	if fixed != nil {
		n = len(fixed)
	}
	for k := 0; k < n; k++ {
		_, _, last := s.vd.State()
		var o dOp
		var via, broken bool
		use := ""
		kind := "fixed"
		if fixed != nil {
			o, via, broken, use = fixed[k].op, fixed[k].viaNS, fixed[k].broken, fixed[k].use
		} else {
			o, via, kind = genSeqOp(rng, known, j.names, j.visible, j.staged, last)
			switch faultMode {
			case 1:
				broken = true
			case 2:
				broken = rng.Chance(0.5)
			}
		}
		stg0, svc0, _ := s.state()
		before := idNames(stg0, svc0)
		r, evs := s.apply(o, via, broken)
		if o.Kind == opRegister && r.Kind == rID {
			known = append(known, r.ID)
			if last == 0xffffffff {
				wrapped = true
			}
		}
		if fixed == nil && users && len(known) > 0 && rng.Chance(0.3) {
			// a user of the records: proxy by name / object by id of a service handed out so far
			id := known[rng.Intn(len(known))]
			if n, ok := j.names[id]; ok && rng.Bool() {
				use = "proxy:" + n
			} else if o.Kind == opRegister && r.Kind == rID && rng.Bool() {
				use = "proxy:" + o.Info.Name
			} else {
				use = fmt.Sprintf("object:%d", id)
			}
		}
		st := seqStep{o, via, broken, r, evs, use}
		if use != "" {
			s.useRecord(use)
		}
		j.step(s, st, before)
		steps = append(steps, st)
		kinds = append(kinds, kind)
	}
	stg, svc, last := s.state()
	it := make([]string, len(steps))
	for k, st := range steps {
		it[k] = fmt.Sprintf("(%s,%s,%s)", st.op.term(), st.res.term(), evTerms(st.evs))
	}
	term = fmt.Sprintf("{|sc_last0:=%d;sc_ops:=[%s];sc_staging:=%s;sc_services:=%s;sc_last:=%d|}",
		last0, strings.Join(it, ";"), infoTerms(stg), infoTerms(svc), last)
	return
}

func seqText(steps []seqStep) string {
	var b strings.Builder
	for k, st := range steps {
		if k > 0 {
			b.WriteString(" ; ")
		}
		fmt.Fprintf(&b, "%v -> %v", st.op, st.res)
		if st.broken && (len(st.evs) > 0 || st.op.Kind == opReady || st.op.Kind == opUnregister) {
			b.WriteString(" [helper error]")
		}
		if len(st.evs) > 0 {
			b.WriteString(" " + evTerms(st.evs))
		}
		if st.use != "" {
			b.WriteString(" [server.Session() " + st.use + "]")
		}
	}
	return b.String()
}

func seqNontrivial(steps []seqStep) bool {
	ready := map[uint32]bool{}
	for _, st := range steps {
		if st.op.Kind == opReady && st.res.Kind == rOk {
			ready[st.op.ID] = true
		}
		if st.op.Kind == opUnregister && st.res.Kind == rOk && ready[st.op.ID] {
			return true
		}
	}
	return false
}

// ---------- main driver ----------

func runC15(res *hx.Result, rng *hx.Rng, tier string, outdir string) {
	res.Rule = "sequential: 1..25 operations over names {a,b,c} and, one time in eight, variants of them by blanks or case, ids drawn from those handed out / small / boundary values, " +
		"valid and separately broken infos, direct and Namespace-adapter calls, initial counter 0 or next to 2^32, the signal helper reporting a broken subscriber never / always / on half of the calls; " +
		"concurrent: 3 remote clients x 3..4 calls + 1..2 local goroutines (NewService/Terminate/Resolve) per history, in one of three a second subscriber whose connection gives a write error (every event / the first one or two) and callers that retry; " +
		"direct: 2..6 goroutines x 2..4 calls on the implementation object and its Namespace adapter, released together, one fresh directory per round (all rounds judged by the oracles, an evenly spaced sample also evaluated in Coq); " +
		"non-trivial = a ready->unregister transition occurs, or >= 2 calls of different threads overlap; distinct by sha256 of the case text"
	nSeq, nHist := 400, 24
	if tier == "thorough" {
		nSeq, nHist = 10000, 400
	}
	repo := os.Getenv("VERIF_REPO")
	if repo == "" {
		repo = "/repo"
	}

	// ---- defect probes ----
	// id_wrap: witness of C15_refuted_wrap replayed with the counter set next to its limit
	wrapOn := false
	{
		s := newSeqDir(0xffffffff)
		r, _ := s.apply(dOp{Kind: opRegister, Info: dInfo{Name: "a", Machine: "m", Pid: 1, Endpoints: []string{"e"}}}, false, false)
		wrapOn = r.Kind == rID
		res.Switch("id_wrap", wrapOn, fmt.Sprintf("lastID = 4294967295 (set through the verif hook; reached by 2^32-1 registrations), registerService(valid info \"a\") -> %v: "+
			"the uint32 counter wrapped, identifiers are handed out again from 0", r))
	}
	// unsync_local: lock skeleton of the directory methods + stress in a child process
	sk := c15skel.Analyse(repo)
	crashed, crashLine, double := false, "", ""
	{
		ms := "2000"
		if tier == "thorough" {
			ms = "6000"
		}
		if !sk.AllLocked && !sk.NoneLocked {
			ms = "10000" // the lock skeleton is neither of the two accepted shapes: search longer for a failing run
		}
		out, err := runChild("C15-child-race", outdir, map[string]string{"C15_RACE_MS": ms}, 90*time.Second)
		if err != nil {
			for _, l := range strings.Split(out, "\n") {
				if strings.HasPrefix(l, "fatal error:") || strings.HasPrefix(l, "panic:") {
					crashed, crashLine = true, l
					break
				}
			}
			if !crashed {
				res.Notes = append(res.Notes, "race child failed without a fatal error line: "+tail(out, 300))
			}
		}
		for _, l := range strings.Split(out, "\n") {
			if strings.HasPrefix(l, "DOUBLE:") {
				double = "two registrations of one name started together: " + strings.TrimPrefix(l, "DOUBLE: ")
			}
		}
	}
	// the switch is on for the pinned shape only: no method synchronises at all.  A tree
	// where some methods lock and others do not is neither the finding nor clean: the fact
	// obligation tie_sync breaks and every anomaly below is reported as a failure.
	unsync := sk.NoneLocked
	detail := "lock skeleton: " + sk.Summary
	if crashed {
		detail += "; 3 remote clients (register/ready/services/unregister) + 2 goroutines (Server.NewService / Service.Terminate) against one directory: process died with `" + crashLine + "`"
	}
	if double != "" {
		detail += "; " + double
	}
	res.Switch("unsync_local", unsync, detail)
	if crashed {
		d := "concurrent local+remote stress (3 remote clients looping register/ready/services/unregister(\"x\"), 2 goroutines looping Server.NewService(\"x\")/Terminate) killed the directory process: " + crashLine
		if unsync {
			res.FailKnown("crash", d, "unsync_local")
		} else {
			res.Fail("crash", d+" (lock skeleton: "+sk.Summary+")")
		}
	}
	if double != "" {
		if unsync {
			res.FailKnown("name-unique-concurrent", double, "unsync_local")
		} else {
			res.Fail("name-unique-concurrent", double+" (lock skeleton: "+sk.Summary+")")
		}
	}

	cf := hx.NewCases(outdir, "C15", "From QV Require Import Lin Directory C15Run.", "mismatches cfg_obs scases hcases", res,
		"scases", "scase", "hcases", "hcase")
	cf.Extra = append(cf.Extra, "Local Open Scope N_scope.", "Local Open Scope string_scope.",
		fmt.Sprintf("Definition cfg_obs := {| cfg_unsync := %s; cfg_wrap := %s |}.", hx.Bool(unsync), hx.Bool(wrapOn)))

	// ---- sequential ----
	shrunk := 0
	reportSeq := func(steps []seqStep, j *seqJudge, last0 uint32, wrapped bool) {
		seen := map[string]bool{}
		for _, f := range j.failures {
			if seen[f[0]] {
				continue // one report per clause and sequence
			}
			seen[f[0]] = true
			text, why := seqText(steps), f[1]
			if shrunk < 8 {
				shrunk++
				small, w := shrinkSeq(last0, steps, f[0])
				if w != "" {
					text, why = seqText(small), w
				}
			}
			d := fmt.Sprintf("initial lastID %d; sequence: %s; %s", last0, text, why)
			if wrapped && wrapOn {
				res.FailKnown(f[0], d, "id_wrap")
			} else {
				res.Fail(f[0], d)
			}
		}
	}
	for n := 0; n < nSeq; n++ {
		last0 := uint32(0)
		if rng.Chance(0.08) {
			last0 = uint32(0xffffffff - rng.Intn(3))
		} else if rng.Chance(0.05) {
			last0 = uint32(rng.Intn(1000))
		}
		faultMode := 0
		switch x := rng.Intn(100); {
		case x < 15:
			faultMode = 1
		case x < 45:
			faultMode = 2
		}
		steps, kinds, j, term, wrapped := runSeq(rng, last0, 3+rng.Intn(23), nil, faultMode)
		reportSeq(steps, j, last0, wrapped)
		res.Dist(fmt.Sprintf("seq-helper-fault-mode:%d", faultMode))
		for _, st := range steps {
			if st.broken && len(st.evs) > 0 {
				res.Dist("signal-emitted-with-a-broken-subscriber")
			}
		}
		for _, k := range kinds {
			res.Dist("op:" + k)
		}
		res.Dist(fmt.Sprintf("seqlen:%d-%d", len(steps)/5*5, len(steps)/5*5+4))
		if last0 > 1000 {
			res.Dist("counter-near-limit")
		}
		for _, st := range steps {
			res.Dist("result:" + strings.Fields(st.res.term())[0])
		}
		res.Count(term, seqNontrivial(steps))
		res.Sample(fmt.Sprintf("seq (lastID0=%d): %s", last0, clip(seqText(steps), 400)))
		cf.Add("scases", term, fmt.Sprintf("lastID0=%d: %s", last0, clip(seqText(steps), 1500)))
	}
	if tier == "thorough" {
		exhaustiveSeq(res, cf, rng, reportSeq)
	}

	// ---- concurrent histories (child process) ----
	runHistories(res, cf, rng, outdir, nHist, unsync)
	runDirect(res, cf, rng, outdir, tier, unsync)
	runSubs(res, cf, rng, outdir, tier)
	cf.Flush()
	if tier == "thorough" {
		raceDetectorRun(res, outdir, repo, unsync)
	}
}

// raceDetectorRun (thorough): the stress child rebuilt with the Go race detector.
func raceDetectorRun(res *hx.Result, outdir, repo string, unsync bool) {
	root := os.Getenv("VERIF_ROOT")
	if root == "" {
		res.Notes = append(res.Notes, "race detector run skipped: VERIF_ROOT not set")
		return
	}
	mod := filepath.Join(root, "go")
	if rp, err := filepath.EvalSymlinks(repo); err == nil && rp != "/repo" {
		mod = filepath.Join(root, "_build", "go-alt")
	}
	bin := filepath.Join(outdir, "qv-race")
	build := exec.Command("go", "build", "-race", "-tags", "verif", "-o", bin, "./cmd/qv")
	build.Dir = mod
	build.Env = append(os.Environ(), "CGO_ENABLED=1")
	done := make(chan struct{})
	var out []byte
	var err error
	go func() { out, err = build.CombinedOutput(); close(done) }()
	select {
	case <-done:
	case <-time.After(15 * time.Minute):
		if build.Process != nil {
			build.Process.Kill()
		}
		<-done
		err = fmt.Errorf("timeout")
	}
	if err != nil {
		res.Notes = append(res.Notes, "race detector run skipped: go build -race failed: "+err.Error()+" "+tail(string(out), 300))
		return
	}
	defer os.Remove(bin)
	o, rerr := runChildBin(bin, "C15-child-race", outdir, map[string]string{"C15_RACE_MS": "3000", "GORACE": "halt_on_error=1"}, 3*time.Minute)
	if !strings.Contains(o, "WARNING: DATA RACE") {
		if rerr != nil && !strings.Contains(o, "fatal error:") {
			res.Notes = append(res.Notes, "race detector child failed without a report: "+tail(o, 300))
			return
		}
		if strings.Contains(o, "fatal error:") {
			return // already reported by the plain stress run
		}
		res.Notes = append(res.Notes, "go build -race stress (3 remote loops + 2 NewService/Terminate loops, paired registrations): no data race reported")
		res.Dist("race-detector-clean")
		return
	}
	// the two access sites of the first report
	var sites []string
	lines := strings.Split(o, "\n")
	for i, l := range lines {
		if strings.Contains(l, "directory.(*serviceDirectory)") && i+1 < len(lines) && len(sites) < 2 {
			sites = append(sites, strings.TrimSpace(l)+" "+strings.TrimSpace(lines[i+1]))
		}
	}
	d := "go build -race, 3 remote clients looping register/ready/services/service/unregister + 2 goroutines looping Server.NewService/Terminate: WARNING: DATA RACE between " + strings.Join(sites, " and ")
	res.Dist("race-detector-report")
	if unsync {
		res.FailKnown("data-race", d, "unsync_local")
	} else {
		res.Fail("data-race", d)
	}
}

func clip(s string, n int) string {
	if len(s) > n {
		return s[:n] + "…"
	}
	return s
}
func tail(s string, n int) string {
	if len(s) > n {
		return s[len(s)-n:]
	}
	return s
}

// exhaustiveSeq: every sequence up to length 5 over 2 names x 3 ids, judged by the oracles;
// one in 97 (by hash) is also written for the in-Coq comparison.
// shrinkSeq: shortest failing prefix, then greedy removal of single operations while the
// same clause still fails on the implementation
func shrinkSeq(last0 uint32, steps []seqStep, clause string) ([]seqStep, string) {
	fails := func(ss []seqStep) ([]seqStep, string) {
		st, _, j, _, _ := runSeq(nil, last0, 0, ss, 0)
		for _, f := range j.failures {
			if f[0] == clause {
				return st, f[1]
			}
		}
		return nil, ""
	}
	cur, why := []seqStep(nil), ""
	for n := 1; n <= len(steps); n++ {
		if st, w := fails(steps[:n]); st != nil {
			cur, why = st, w
			break
		}
	}
	if cur == nil {
		return nil, ""
	}
	for changed := true; changed; {
		changed = false
		for i := len(cur) - 2; i >= 0; i-- {
			cand := append(append([]seqStep{}, cur[:i]...), cur[i+1:]...)
			if st, w := fails(cand); st != nil {
				cur, why, changed = st, w, true
			}
		}
	}
	return cur, why
}

func exhaustiveSeq(res *hx.Result, cf *hx.Cases, rng *hx.Rng, report func([]seqStep, *seqJudge, uint32, bool)) {
	mk := func(n string) dInfo { return dInfo{Name: n, Machine: "m", Pid: 1, Endpoints: []string{"e"}} }
	var alpha []dOp
	for _, n := range []string{"a", "b"} {
		alpha = append(alpha, dOp{Kind: opRegister, Info: mk(n)}, dOp{Kind: opService, Name: n})
	}
	for id := uint32(1); id <= 3; id++ {
		alpha = append(alpha, dOp{Kind: opReady, ID: id}, dOp{Kind: opUnregister, ID: id})
		i := mk("a")
		i.ID = id
		i.Session = "s"
		alpha = append(alpha, dOp{Kind: opUpdate, Info: i})
	}
	alpha = append(alpha, dOp{Kind: opServices})
	maxLen := 5
	count := 0
	var brokenAlpha []seqStep
	var rec func(prefix []seqStep)
	rec = func(prefix []seqStep) {
		if len(prefix) > 0 {
			steps, _, j, term, wrapped := runSeq(rng, 0, 0, prefix, 0)
			report(steps, j, 0, wrapped)
			count++
			res.Count(term, seqNontrivial(steps))
			if hashMod(term, 97) == 0 {
				cf.Add("scases", term, "exhaustive: "+clip(seqText(steps), 600))
			}
		}
		if len(prefix) == maxLen {
			return
		}
		for _, o := range alpha {
			rec(append(append([]seqStep{}, prefix...), seqStep{op: o}))
		}
	}
	rec(nil)
	// the same with a signal helper that may report a broken subscriber: every sequence up to
	// length 4 where each serviceReady / unregisterService comes in both flavours
	n0 := len(alpha)
	for _, o := range alpha[:n0] {
		if o.Kind == opReady || o.Kind == opUnregister {
			brokenAlpha = append(brokenAlpha, seqStep{op: o, broken: true})
		}
	}
	maxLen = 4
	var rec2 func(prefix []seqStep, any bool)
	rec2 = func(prefix []seqStep, any bool) {
		if len(prefix) > 0 && any {
			steps, _, j, term, wrapped := runSeq(rng, 0, 0, prefix, 0)
			report(steps, j, 0, wrapped)
			count++
			res.Count(term, seqNontrivial(steps))
			if hashMod(term, 97) == 0 {
				cf.Add("scases", term, "exhaustive (failing helper): "+clip(seqText(steps), 600))
			}
		}
		if len(prefix) == maxLen {
			return
		}
		for _, o := range alpha {
			rec2(append(append([]seqStep{}, prefix...), seqStep{op: o}), any)
		}
		for _, st := range brokenAlpha {
			rec2(append(append([]seqStep{}, prefix...), st), true)
		}
	}
	rec2(nil, false)
	res.Exhaustive = true
	res.Notes = append(res.Notes, fmt.Sprintf("exhaustive: all %d sequences of length <= 5 over an alphabet of %d operations (2 names x 3 ids), and of length <= 4 with at least one serviceReady / unregisterService during which the signal helper reports a broken subscriber, judged by the property oracles", count, len(alpha)))
}

func hashMod(s string, m uint32) uint32 {
	var h uint32 = 2166136261
	for i := 0; i < len(s); i++ {
		h = (h ^ uint32(s[i])) * 16777619
	}
	return h % m
}

// ---------- child processes ----------

func runChild(prop, outdir string, env map[string]string, deadline time.Duration) (string, error) {
	return runChildBin(os.Args[0], prop, outdir, env, deadline)
}

func runChildBin(bin, prop, outdir string, env map[string]string, deadline time.Duration) (string, error) {
	dir := filepath.Join(outdir, "child-"+prop)
	os.MkdirAll(dir, 0o755)
	cmd := exec.Command(bin, "--out", dir, prop)
	cmd.Env = os.Environ()
	for k, v := range env {
		cmd.Env = append(cmd.Env, k+"="+v)
	}
	var buf bytes.Buffer
	cmd.Stdout, cmd.Stderr = &buf, &buf
	if err := cmd.Start(); err != nil {
		return "", err
	}
	done := make(chan error, 1)
	go func() { done <- cmd.Wait() }()
	select {
	case err := <-done:
		return buf.String(), err
	case <-time.After(deadline):
		cmd.Process.Kill()
		<-done
		return buf.String(), fmt.Errorf("deadline %v exceeded", deadline)
	}
}

// ---------- concurrent histories ----------

type hOp struct {
	Tid int    `json:"t"`
	Op  dOp    `json:"op"`
	Inv int64  `json:"inv"`
	Ret int64  `json:"ret"` // 0 = pending
	Res dRes   `json:"res"`
	Via string `json:"via"` // remote | local
}
type hEvent struct {
	Ev dEvent `json:"ev"`
}
type hist struct {
	Ops    []hOp       `json:"ops"`
	Events []dEvent    `json:"events"` // in the order the subscriber's connection delivered them
	Note   string      `json:"note"`
	Held   []heldEntry `json:"held,omitempty"` // the registry's records when every call had returned
}

func (h hOp) term() string {
	if h.Ret == 0 {
		return fmt.Sprintf("HP %d (%s) %d", h.Tid, h.Op.term(), h.Inv)
	}
	return fmt.Sprintf("H %d (%s) %d %d (%s)", h.Tid, h.Op.term(), h.Inv, h.Ret, h.Res.term())
}

func histText(h hist) string {
	ops := append([]hOp{}, h.Ops...)
	sort.Slice(ops, func(a, b int) bool { return ops[a].Inv < ops[b].Inv })
	var b strings.Builder
	for k, o := range ops {
		if k > 0 {
			b.WriteString(" ; ")
		}
		fmt.Fprintf(&b, "t%d[%d,%d] %v -> %v", o.Tid, o.Inv, o.Ret, o.Op, o.Res)
	}
	return b.String()
}

// linSearch: Wing & Gong over the reference registry, memoised on (remaining set, state)
func linSearch(ops []hOp) bool {
	n := len(ops)
	if n > 62 {
		return true
	}
	memo := map[string]bool{}
	var rec func(rem uint64, d *refDir) bool
	rec = func(rem uint64, d *refDir) bool {
		allPending := true
		for i := 0; i < n; i++ {
			if rem&(1<<uint(i)) != 0 && ops[i].Ret != 0 {
				allPending = false
			}
		}
		if allPending {
			return true
		}
		key := strconv.FormatUint(rem, 16) + "#" + d.key()
		if memo[key] {
			return false
		}
		for i := 0; i < n; i++ {
			if rem&(1<<uint(i)) == 0 {
				continue
			}
			minimal := true
			for k := 0; k < n; k++ {
				if k != i && rem&(1<<uint(k)) != 0 && ops[k].Ret != 0 && ops[k].Ret < ops[i].Inv {
					minimal = false
					break
				}
			}
			if !minimal {
				continue
			}
			d2 := d.clone()
			r, _ := d2.step(ops[i].Op)
			if ops[i].Ret != 0 && !resEq(r, ops[i].Res) {
				continue
			}
			if rec(rem&^(1<<uint(i)), d2) {
				return true
			}
		}
		memo[key] = true
		return false
	}
	return rec((uint64(1)<<uint(n))-1, &refDir{})
}

func overlapping(ops []hOp) bool {
	for a := range ops {
		for b := range ops {
			if a < b && ops[a].Tid != ops[b].Tid && ops[a].Ret != 0 && ops[b].Ret != 0 &&
				ops[a].Inv < ops[b].Ret && ops[b].Inv < ops[a].Ret {
				return true
			}
		}
	}
	return false
}

// signalOracle: for every id registered during the history, the subscriber saw exactly one
// serviceAdded per successful serviceReady and one serviceRemoved per successful
// unregisterService of a ready service, added before removed, with the registered name.
func signalOracle(h hist) string {
	names := map[uint32]string{}
	readyOk, unregOk := map[uint32]bool{}, map[uint32]bool{}
	for _, o := range h.Ops {
		if o.Ret == 0 {
			return "" // a pending call leaves the expected signals open
		}
		if o.Tid == 0 {
			continue // the server's own registration happened before the subscriber joined
		}
		if o.Op.Kind == opRegister && o.Res.Kind == rID {
			names[o.Res.ID] = o.Op.Info.Name
		}
		if o.Op.Kind == opReady && o.Res.Kind == rOk {
			readyOk[o.Op.ID] = true
		}
		if o.Op.Kind == opUnregister && o.Res.Kind == rOk {
			unregOk[o.Op.ID] = true
		}
	}
	got := map[uint32][]dEvent{}
	for _, e := range h.Events {
		got[e.ID] = append(got[e.ID], e)
	}
	for id, n := range names {
		var want []dEvent
		if readyOk[id] {
			want = append(want, dEvent{true, id, n})
			if unregOk[id] {
				want = append(want, dEvent{false, id, n})
			}
		}
		if fmt.Sprint(want) != fmt.Sprint(got[id]) {
			return fmt.Sprintf("id %d (%q): subscriber received %s, the transitions call for %s", id, n, evTerms(got[id]), evTerms(want))
		}
	}
	for id, evs := range got {
		if _, ok := names[id]; !ok && id != 1 {
			return fmt.Sprintf("signals %s for id %d which no call of the history registered", evTerms(evs), id)
		}
	}
	return ""
}

func runHistories(res *hx.Result, cf *hx.Cases, rng *hx.Rng, outdir string, nHist int, unsync bool) {
	got := 0
	attempts := 0
	for got < nHist && attempts < 6 {
		attempts++
		batch := nHist - got
		seed := rng.U64()
		out, err := runChild("C15-child-hist", outdir, map[string]string{
			"C15_HIST_N": strconv.Itoa(batch), "C15_HIST_SEED": strconv.FormatUint(seed, 10)},
			time.Duration(20+batch)*4*time.Second)
		hs := readHists(filepath.Join(outdir, "child-C15-child-hist", "hist.jsonl"))
		for _, h := range hs {
			got++
			judgeHist(res, cf, h, unsync)
		}
		if err != nil {
			line := ""
			for _, l := range strings.Split(out, "\n") {
				if strings.HasPrefix(l, "fatal error:") || strings.HasPrefix(l, "panic:") {
					line = l
					break
				}
			}
			d := fmt.Sprintf("the directory process died while serving a concurrent history (seed %d, after %d complete histories): %s %s", seed, len(hs), line, tail(out, 200))
			if line != "" && unsync && strings.Contains(line, "concurrent map") {
				res.FailKnown("crash", d, "unsync_local")
			} else {
				res.Fail("crash", d)
			}
		}
	}
	if got < nHist {
		res.Notes = append(res.Notes, fmt.Sprintf("only %d of %d concurrent histories were recorded", got, nHist))
	}
}

// runDirect: goroutines calling the implementation object at the same time (c15_direct.go)
func runDirect(res *hx.Result, cf *hx.Cases, rng *hx.Rng, outdir, tier string, unsync bool) {
	rounds, samples, maxMs := 12000, 16, 4000
	if tier == "thorough" {
		rounds, samples, maxMs = 1500000, 200, 240000
	}
	seed := rng.U64()
	out, err := runChild("C15-child-direct", outdir, map[string]string{
		"C15_DIRECT_N": strconv.Itoa(rounds), "C15_DIRECT_SAMPLES": strconv.Itoa(samples),
		"C15_DIRECT_MAXMS": strconv.Itoa(maxMs), "C15_DIRECT_SEED": strconv.FormatUint(seed, 10)},
		time.Duration(maxMs)*time.Millisecond+30*time.Second)
	ls := readDirect(filepath.Join(outdir, "child-C15-child-direct", "direct.jsonl"))
	gotStats := false
	for _, l := range ls {
		switch l.Kind {
		case "stats":
			gotStats = true
			res.Notes = append(res.Notes, fmt.Sprintf("direct concurrent rounds: %d (GOMAXPROCS %d, %d ms): %d with calls of different goroutines overlapping, %d with two successful registrations overlapping, %d with a failing signal helper, shapes %v",
				l.Rounds, l.Procs, l.Millis, l.Overlapping, l.RegOverlap, l.Broken, l.Shapes))
			res.Distribution["direct-rounds"] += l.Rounds
			res.Distribution["direct-rounds-overlapping"] += l.Overlapping
			res.Distribution["direct-rounds-registrations-overlapping"] += l.RegOverlap
			if l.Rounds > 1000 && l.RegOverlap == 0 {
				res.Notes = append(res.Notes, "direct concurrent rounds: no two registrations ever overlapped (single CPU?): the id oracle was not exercised concurrently")
			}
		case "hang":
			d := l.Why + "; calls: " + histText(l.Hist)
			if unsync {
				res.FailKnown("hang", d, "unsync_local")
			} else {
				res.Fail("hang", d)
			}
		case "fail", "sample":
			res.Dist("direct-" + l.Kind + ":" + l.Shape)
			judgeHist(res, cf, l.Hist, unsync)
		}
	}
	if err != nil || !gotStats {
		line := ""
		for _, l := range strings.Split(out, "\n") {
			if strings.HasPrefix(l, "fatal error:") || strings.HasPrefix(l, "panic:") {
				line = l
				break
			}
		}
		d := fmt.Sprintf("the process died while goroutines called the directory object concurrently (seed %d): %s %s", seed, line, tail(out, 200))
		if line != "" && unsync && strings.Contains(line, "concurrent map") {
			res.FailKnown("crash", d, "unsync_local")
		} else {
			res.Fail("crash", d)
		}
	}
}

func readHists(path string) []hist {
	b, err := os.ReadFile(path)
	if err != nil {
		return nil
	}
	var hs []hist
	for _, l := range strings.Split(string(b), "\n") {
		if strings.TrimSpace(l) == "" {
			continue
		}
		var h hist
		if json.Unmarshal([]byte(l), &h) == nil {
			hs = append(hs, h)
		}
	}
	return hs
}

func judgeHist(res *hx.Result, cf *hx.Cases, h hist, unsync bool) {
	it := make([]string, len(h.Ops))
	threads := map[int]bool{}
	localOverlap := false
	pendingN := 0
	for k, o := range h.Ops {
		it[k] = o.term()
		threads[o.Tid] = true
		if o.Ret == 0 {
			pendingN++
		}
		if o.Via == "local" || o.Via == "direct" {
			for _, p := range h.Ops {
				if p.Tid != o.Tid && (o.Ret == 0 || p.Inv < o.Ret) && (p.Ret == 0 || o.Inv < p.Ret) {
					localOverlap = true
				}
			}
		}
	}
	term := "{|hc_ops:=[" + strings.Join(it, ";") + "]|}"
	text := histText(h)
	res.Count(term, overlapping(h.Ops))
	res.Dist(fmt.Sprintf("hist-threads:%d", len(threads)))
	res.Dist(fmt.Sprintf("hist-ops:%d-%d", len(h.Ops)/4*4, len(h.Ops)/4*4+3))
	if pendingN > 0 {
		res.Dist("hist-with-pending-call")
	}
	if localOverlap {
		res.Dist("hist-local-overlaps-remote")
	}
	res.Sample("history: " + clip(text, 500))
	known := ""
	if unsync && localOverlap {
		known = "unsync_local" // a local call ran unsynchronised beside another call: exactly the finding's trigger
	}
	bad := false
	if msg := idOracle(h); msg != "" {
		bad = true
		d := msg + "; history: " + text
		if known != "" {
			res.FailKnown("ids-distinct-concurrent", d, known)
		} else {
			res.Fail("ids-distinct-concurrent", d)
		}
	}
	if !linSearch(h.Ops) {
		bad = true
		d := "no sequential order of the registry explains this history (real-time order respected): " + text
		if known != "" {
			res.FailKnown("not-linearizable", d, known)
		} else {
			res.Fail("not-linearizable", d)
		}
	}
	if msg := signalOracle(h); msg != "" {
		bad = true
		d := msg + "; history: " + text
		if h.Note != "" {
			d += " (" + h.Note + ")"
		}
		if known != "" {
			res.FailKnown("signals-concurrent", d, known)
		} else {
			res.Fail("signals-concurrent", d)
		}
	}
	if !(bad && known != "") && !(bad && len(h.Ops) > 14) {
		// (a long failing history is reported by the oracles above; lin_check has no memo table)
		cf.Add("hcases", term, clip(text, 1500))
	}
}
