package main

import (
	"bufio"
	"bytes"
	"encoding/binary"
	"encoding/hex"
	"fmt"
	"os"
	"os/exec"
	"runtime"
	"runtime/debug"
	"strings"
	"syscall"
	"time"

	"github.com/lugu/qiloop/meta/idl"
	"github.com/lugu/qiloop/meta/signature"
	"qv/internal/hx"
	"qv/internal/wg"
)

func init() {
	props["C07"] = runC07
	subcommands["c07child"] = c07Child
}

// entry points (k8* of c08.go for the byte decoders, plus the two text parsers)
const (
	k7Parse    = 8
	k7ParseIDL = 9
)

var k7Names = append(append([]string(nil), k8Names...), "signature.Parse", "idl.ParseIDL")

type c07job struct {
	entry     int
	sig       string
	t         *wg.Ty
	input     []byte
	desc      string // how the input was derived
	hostCount uint32 // the hostile count that was planted (0 = none)
	// deep inputs: the input is `input` repeated `repeat` times followed by `tail` (built in the child)
	repeat   int
	tail     []byte
	stackMiB int    // run under debug.SetMaxStack(stackMiB MiB) (0 = the runtime's 1 GB)
	deadline int    // watchdog deadline in ms (0 = 2500)
	known    string // the finding this directed input is the witness of
}

func (j c07job) size() int {
	if j.repeat > 0 {
		return len(j.input)*j.repeat + len(j.tail)
	}
	return len(j.input)
}

type c07out struct {
	class int // 0 ok, 1 err, 2 panic, 5 hang, 6 crash (fatal error / out of memory)
	left  int
	alloc uint64
	nanos int64
}

// ---------- child ----------

func c07run(entry int, sig string, input []byte) (class, left int) {
	switch entry {
	case k7Parse:
		return classOf(func() error { _, err := signature.Parse(string(input)); return err }), 0
	case k7ParseIDL:
		return classOf(func() error { _, err := idl.ParseIDL(bytes.NewReader(input)); return err }), 0
	case k8SigRead:
		o := sigRead(sig, input)
		return o.class, o.left
	case k8Refl:
		rt, ok := goType(sig)
		if !ok {
			return ocPanic, 0
		}
		o := reflDec(rt, nil, input)
		return o.class, o.left
	case k8Value:
		o := newValue(input)
		return o.class, o.left
	}
	return decodeAt(entry, nil, input), 0
}

func c07Child(args []string) {
	// address-space limit: an allocation of tens of GiB must fail, not take the machine down
	lim := syscall.Rlimit{Cur: 6 << 30, Max: 6 << 30}
	syscall.Setrlimit(syscall.RLIMIT_AS, &lim)
	in := bufio.NewReaderSize(os.Stdin, 1<<20)
	out := bufio.NewWriter(os.Stdout)
	cur := make(chan int, 1)
	started := make(chan struct{}, 1)
	deadline := 2500
	go func() { // watchdog: a job that takes longer than the deadline is a hang
		for {
			<-started
			idx := <-cur
			select {
			case <-cur: // finished
			case <-time.After(time.Duration(deadline) * time.Millisecond):
				fmt.Fprintf(out, "HANG %d\n", idx)
				out.Flush()
				os.Exit(3)
			}
		}
	}()
	var ms runtime.MemStats
	for {
		line, err := in.ReadString('\n')
		if err != nil {
			return
		}
		f := strings.Fields(line)
		if len(f) < 4 {
			continue
		}
		var idx, entry int
		fmt.Sscan(f[0], &idx)
		fmt.Sscan(f[1], &entry)
		sig, _ := hex.DecodeString(f[2][1:])
		input, _ := hex.DecodeString(f[3][1:])
		deadline = 2500
		if len(f) >= 8 {
			var rep, stack, dl int
			fmt.Sscan(f[4][1:], &rep)
			tail, _ := hex.DecodeString(f[5][1:])
			fmt.Sscan(f[6][1:], &stack)
			fmt.Sscan(f[7][1:], &dl)
			if rep > 0 {
				input = append(bytes.Repeat(input, rep), tail...)
			}
			if stack > 0 {
				debug.SetMaxStack(stack << 20)
			} else {
				debug.SetMaxStack(1000000000)
			}
			if dl > 0 {
				deadline = dl
			}
		}
		fmt.Fprintf(out, "START %d\n", idx)
		out.Flush()
		runtime.ReadMemStats(&ms)
		a0 := ms.TotalAlloc
		started <- struct{}{}
		cur <- idx
		t0 := time.Now()
		class, left := c07run(entry, string(sig), input)
		dt := time.Since(t0)
		cur <- -1
		runtime.ReadMemStats(&ms)
		fmt.Fprintf(out, "DONE %d %d %d %d %d\n", idx, class, left, ms.TotalAlloc-a0, dt.Nanoseconds())
		out.Flush()
	}
}

// ---------- parent ----------

func c07execute(jobs []c07job) []c07out {
	outs := make([]c07out, len(jobs))
	next := 0
	for next < len(jobs) {
		cmd := exec.Command(os.Args[0], "c07child")
		cmd.Env = append(os.Environ(), "GOGC=50")
		stdin, _ := cmd.StdinPipe()
		stdout, _ := cmd.StdoutPipe()
		cmd.Stderr = nil
		if err := cmd.Start(); err != nil {
			panic(err)
		}
		go func(from int) {
			w := bufio.NewWriter(stdin)
			for i := from; i < len(jobs); i++ {
				fmt.Fprintf(w, "%d %d s%s i%s x%d t%s k%d d%d\n", i, jobs[i].entry, hex.EncodeToString([]byte(jobs[i].sig)), hex.EncodeToString(jobs[i].input),
					jobs[i].repeat, hex.EncodeToString(jobs[i].tail), jobs[i].stackMiB, jobs[i].deadline)
			}
			w.Flush()
			stdin.Close()
		}(next)
		sc := bufio.NewScanner(stdout)
		sc.Buffer(make([]byte, 1<<20), 1<<20)
		running := -1
		for sc.Scan() {
			f := strings.Fields(sc.Text())
			if len(f) >= 2 && f[0] == "START" {
				fmt.Sscan(f[1], &running)
			}
			if len(f) >= 6 && f[0] == "DONE" {
				var idx int
				var o c07out
				fmt.Sscan(f[1], &idx)
				fmt.Sscan(f[2], &o.class)
				fmt.Sscan(f[3], &o.left)
				fmt.Sscan(f[4], &o.alloc)
				fmt.Sscan(f[5], &o.nanos)
				outs[idx] = o
				next = idx + 1
				running = -1
			}
			if len(f) >= 2 && f[0] == "HANG" {
				var idx int
				fmt.Sscan(f[1], &idx)
				outs[idx] = c07out{class: 5}
				next = idx + 1
				running = -1
			}
		}
		cmd.Wait()
		if running >= 0 { // the child died inside job `running`
			outs[running] = c07out{class: 6}
			next = running + 1
		} else if next < len(jobs) && cmd.ProcessState != nil && !cmd.ProcessState.Success() && next == 0 {
			// child could not even start a job
			outs[next] = c07out{class: 6}
			next++
		}
	}
	return outs
}

var hostileCounts = []uint32{0, 1, 4096, 4097, 0x7fffffff, 0x80000000, 0xffffffff, 0x00100000}

func mutateCounts(rng *hx.Rng, enc []byte, pos []int) ([]byte, string, uint32) {
	if len(pos) == 0 {
		return nil, "", 0
	}
	p := pos[rng.Intn(len(pos))]
	if p+4 > len(enc) {
		return nil, "", 0
	}
	out := append([]byte(nil), enc...)
	old := binary.LittleEndian.Uint32(out[p:])
	var v uint32
	switch rng.Intn(4) {
	case 0:
		v = old + 1
	case 1:
		v = old - 1
	default:
		v = hostileCounts[rng.Intn(len(hostileCounts))]
	}
	binary.LittleEndian.PutUint32(out[p:], v)
	// often cut right after the planted count: the decoder is then alone with the number
	if rng.Chance(0.4) {
		out = out[:p+4]
	}
	return out, fmt.Sprintf("count at offset %d: %d -> %d", p, old, v), v
}

func runC07(res *hx.Result, rng *hx.Rng, tier string, outdir string) {
	res.Rule = "per decoder entry point (message, value, signature reader, reflection decoder, MetaObject, ObjectReference, ServiceInfo, capability map, signature.Parse, idl.ParseIDL): " +
		"valid encodings with one length/count field replaced (0, +-1, 4096, 4097, 7fffffff, 80000000, ffffffff), often cut right behind it; random bytes; nested brackets and near-miss text for the parsers; " +
		"each input runs in a child process (address-space limit, 2.5 s deadline) with allocation and time measured; non-trivial = a length/count field was replaced or the input is not a valid encoding; distinct by sha256 of (entry, signature, bytes)"
	n := 1300
	if tier == "thorough" {
		n = 40000
	}
	var jobs []c07job
	add := func(j c07job) { jobs = append(jobs, j) }
	reflOpts := wg.GenOpts{MaxDepth: 3, Scalars: "cCwWiIlLfdbs", KeyScalar: "sIil", MaxWidth: 3, Template: true}
	sigOpts := wg.GenOpts{MaxDepth: 3, Scalars: "cCwWiIlLfdbsmo", KeyScalar: "sIil", MaxWidth: 3, Template: true}
	for i := 0; i < n; i++ {
		entry := rng.Intn(10)
		var t *wg.Ty
		var enc []byte
		var pos []int
		switch entry {
		case k8Msg:
			h := genHeader(rng)
			p := rng.Bytes(rng.Intn(40))
			var b bytes.Buffer
			b.Write(docFrame(h, p))
			binary.LittleEndian.PutUint32(b.Bytes()[8:], uint32(len(p)))
			enc, pos, t = b.Bytes(), []int{8}, wg.Scalar("v")
		case k8Value:
			d := genDv(rng, 0, 3)
			enc = d.doc()
			// every 4-byte aligned window that decodes to a small number is a plausible length field
			for o := 0; o+4 <= len(enc); o++ {
				if binary.LittleEndian.Uint32(enc[o:]) < 512 {
					pos = append(pos, o)
				}
			}
			t = wg.Scalar("m")
		case k8SigRead:
			o := sigOpts
			o.ZeroWidthElems = rng.Chance(0.15)
			t = wg.GenTy(rng, o, 0)
			enc, pos = wg.GenVal(rng, t, 2).EncPos()
		case k8Refl:
			t = wg.GenTy(rng, reflOpts, 0)
			enc, pos = wg.GenVal(rng, t, 2).EncPos()
		case k8MetaObject:
			t = wg.MetaObjectTy()
			enc, pos = wg.GenVal(rng, t, 2).EncPos()
		case k8ObjectRef:
			t = wg.ObjectRef()
			enc, pos = wg.GenVal(rng, t, 1).EncPos()
		case k8ServiceInfo:
			t = serviceInfoTy()
			enc, pos = wg.GenVal(rng, t, 3).EncPos()
		case k8CapMap:
			t = wg.Map(wg.Scalar("s"), wg.Scalar("m"))
			v := &wg.Val{K: wg.VMap}
			for j := 0; j < rng.Intn(4); j++ {
				dt := wg.Scalar(string("bIisl"[rng.Intn(5)]))
				v.KV = append(v.KV, [2]*wg.Val{{K: wg.VStr, S: []byte(fmt.Sprintf("k%d", j))}, {K: wg.VDyn, T: dt, V: wg.GenVal(rng, dt, 2)}})
			}
			enc, pos = v.EncPos()
		case k7Parse:
			t = wg.GenTy(rng, wg.GenOpts{MaxDepth: 4, Scalars: "cCwWiIlLfdbsmovX", KeyScalar: "sIil", MaxWidth: 3, Template: true, ZeroWidthElems: true}, 0)
			enc = []byte(t.Sig())
		case k7ParseIDL:
			t = wg.Scalar("v")
			enc = []byte(genIDLText(rng))
		}
		var input []byte
		desc := "valid"
		var hc uint32
		switch {
		case entry == k7Parse || entry == k7ParseIDL:
			input, desc = mutateText(rng, enc, entry == k7Parse)
		case rng.Chance(0.12):
			input, desc = rng.Bytes(rng.Intn(64)), "random bytes"
		case rng.Chance(0.1):
			input = enc
		default:
			input, desc, hc = mutateCounts(rng, enc, pos)
			if input == nil {
				input, desc = enc, "valid"
			}
		}
		add(c07job{entry: entry, sig: t.Sig(), t: t, input: input, desc: desc, hostCount: hc})
	}
	// directed: every scalar element kind behind a list / map count that is far larger than the data
	for _, x := range "cCwWiIlLfdbs" {
		for _, cnt := range []uint32{0x00100000, 0x10000000, 0x7fffffff, 0x80000000, 0xffffffff} {
			var in [4]byte
			binary.LittleEndian.PutUint32(in[:], cnt)
			lt := wg.List(wg.Scalar(string(x)))
			add(c07job{entry: k8Refl, sig: lt.Sig(), t: lt, input: append(in[:], 1, 2, 3), desc: "directed list count", hostCount: cnt})
			add(c07job{entry: k8SigRead, sig: lt.Sig(), t: lt, input: append(in[:], 1, 2, 3), desc: "directed list count", hostCount: cnt})
			if x != 'f' && x != 'd' && x != 'b' {
				mt := wg.Map(wg.Scalar(string(x)), wg.Scalar("i"))
				add(c07job{entry: k8Refl, sig: mt.Sig(), t: mt, input: append(in[:], 1, 2, 3), desc: "directed map count", hostCount: cnt})
			}
		}
	}
	// directed: structures that contain themselves, directly and through every container, alone and in
	// a ring of two; each used by a method, a signal and a property (signatures are computed per action)
	for _, member := range []string{"Node", "Vec<Node>", "Map<str,Node>", "Tuple<int32,Node>", "Vec<Vec<Node>>", "Map<str,Vec<Node>>", "Other", "Vec<Other>", "Map<int32,Other>", "Tuple<Other,Other>"} {
		for _, use := range []string{"fn f(a: Node) -> int32", "fn g() -> Vec<Node>", "sig s(a: Node)", "prop p(a: Map<str,Node>)"} {
			text := "package p\nstruct Node\n\tid: int32\n\tnext: " + member + "\nend\nstruct Other\n\tback: Vec<Node>\nend\ninterface I\n\t" + use + "\nend\n"
			add(c07job{entry: k7ParseIDL, sig: "v", t: wg.Scalar("v"), input: []byte(text), desc: "directed: recursive structure through " + member})
		}
	}
	// directed: well-formed signatures nested hundreds to thousands of levels deep (lists, maps, tuples),
	// parsed alone, carried by a dynamic value, and read by the signature reader: the cost per level must
	// not depend on the depth
	for _, d := range []int{300, 1000, 3000} {
		for _, br := range [][3]string{{"[", "i", "]"}, {"{i", "i", "}"}, {"(", "i", ")"}} {
			text := strings.Repeat(br[0], d) + br[1] + strings.Repeat(br[2], d)
			add(c07job{entry: k7Parse, sig: "v", t: wg.Scalar("v"), input: []byte(text), desc: fmt.Sprintf("directed: signature nested %d deep", d), deadline: 20000})
			var lp [4]byte
			binary.LittleEndian.PutUint32(lp[:], uint32(len(text)))
			dyn := append(append(lp[:], text...), 0, 0, 0, 0)
			add(c07job{entry: k8Value, sig: "m", t: wg.Scalar("m"), input: dyn, desc: fmt.Sprintf("directed: dynamic value whose signature is nested %d deep", d), deadline: 20000})
			add(c07job{entry: k8SigRead, sig: "m", t: wg.Scalar("m"), input: dyn, desc: fmt.Sprintf("directed: dynamic value whose signature is nested %d deep", d), deadline: 20000})
		}
	}
	// directed: structures whose member names collide once cleaned for Go (equal, equal up to case, equal to
	// the name another one is renamed to: a, A, a_0, a_1, A_2 ...): the reflection decoder asks the signature
	// for its Go type, which must not panic whatever the names are
	{
		pool := []string{"a", "A", "a_0", "a_1", "a_2", "A_1", "A_2", "x", "X_2", "a_"}
		enc := make([]byte, 12)
		for _, n1 := range pool {
			for _, n2 := range pool {
				for _, n3 := range pool {
					if n1 != n2 && n2 != n3 && n1 != n3 && rng.Chance(0.5) {
						continue // all distinct: half of them
					}
					sg := fmt.Sprintf("(iii)<S,%s,%s,%s>", n1, n2, n3)
					st := wg.Struct("S", []string{n1, n2, n3}, wg.Scalar("i"), wg.Scalar("i"), wg.Scalar("i"))
					add(c07job{entry: k8Refl, sig: sg, t: st, input: enc, desc: "directed: member names that collide"})
				}
			}
		}
		i4 := func() *wg.Ty { return wg.Scalar("i") }
		add(c07job{entry: k8Refl, sig: "(iiii)<S,a,a,a_0,a_1>", t: wg.Struct("S", []string{"a", "a", "a_0", "a_1"}, i4(), i4(), i4(), i4()), input: make([]byte, 16), desc: "directed: member names that collide"})
		add(c07job{entry: k8Refl, sig: "((ii)<T,b,B>(ii)<T,B,b>)<S,t,T>", t: wg.Struct("S", []string{"t", "T"}, wg.Struct("T", []string{"b", "B"}, i4(), i4()), wg.Struct("T", []string{"B", "b"}, i4(), i4())), input: make([]byte, 16), desc: "directed: member names that collide"})
	}
	// directed: several hundred DISTINCT well-formed composite signatures decoded one after the other in one
	// process (the child runs them in order): whatever a decoder remembers per signature must not overflow
	for k := 1; k <= 260; k++ {
		sg := "(" + strings.Repeat("i", k) + ")"
		var lp [4]byte
		binary.LittleEndian.PutUint32(lp[:], uint32(len(sg)))
		data := make([]byte, 4*k)
		tt := make([]*wg.Ty, k)
		for i := range tt {
			tt[i] = wg.Scalar("i")
		}
		add(c07job{entry: k8Value, sig: "m", t: wg.Scalar("m"), input: append(append(lp[:], sg...), data...), desc: "directed: many distinct signatures in one process"})
		if k%2 == 0 {
			add(c07job{entry: k8SigRead, sig: sg, t: wg.Tuple(tt...), input: data, desc: "directed: many distinct signatures in one process"})
		}
	}
	// resources that grow with the NESTING DEPTH of the input (found in review round 4):
	// (a) signature.Parse recurses once per nesting level with no bound: the goroutine stack grows by more
	//     than 500 bytes per level, the runtime's 1 GB limit is reached near 2,000,000 levels (a 2 MB
	//     signature, e.g. inside a dynamic value) and the process dies with "fatal error: stack overflow".
	//     Quick tier: 100,000 levels under a 32 MiB stack limit; thorough tier: the real thing.
	add(c07job{entry: k7Parse, sig: "v", t: wg.Scalar("v"), input: []byte("["), repeat: 100000, stackMiB: 32, deadline: 30000, known: "sig_parse_stack_unbounded",
		desc: "directed: 100000 nested '[' under debug.SetMaxStack(32 MiB)"})
	if tier == "thorough" {
		add(c07job{entry: k7Parse, sig: "v", t: wg.Scalar("v"), input: []byte("["), repeat: 2000000, deadline: 240000, known: "sig_parse_stack_unbounded",
			desc: "directed: 2000000 nested '[' under the default stack limit"})
	}
	// (b) the signature-driven reader copies the data it read once per level of nesting
	//     (valueReader: append(signature, data...); tuple/list readers alike): 8000 nested dynamic values,
	//     40 KB on the wire, make it allocate about 160 MB
	add(c07job{entry: k8SigRead, sig: "m", t: wg.Scalar("m"), input: []byte{1, 0, 0, 0, 'm'}, repeat: 8000, tail: []byte{1, 0, 0, 0, 'v'}, deadline: 30000, known: "sig_reader_depth_quadratic",
		desc: "directed: 8000 nested dynamic values"})
	// (c) the IDL parser builds the signature of a structure by pasting the signatures of its members: a chain
	//     of n structures with two members of the next structure each costs 2^n
	{
		var b strings.Builder
		b.WriteString("package p\n")
		const n = 18
		for i := 0; i < n; i++ {
			fmt.Fprintf(&b, "struct S%d\n\ta: S%d\n\tb: S%d\nend\n", i, i+1, i+1)
		}
		fmt.Fprintf(&b, "struct S%d\n\ta: int32\nend\ninterface I\n\tfn f(a: S0)\nend\n", n)
		add(c07job{entry: k7ParseIDL, sig: "v", t: wg.Scalar("v"), input: []byte(b.String()), deadline: 30000, known: "idl_struct_chain_exponential",
			desc: "directed: chain of 18 structures with two members of the next one each"})
	}
	// the witnesses of the refutation theorems, always
	add(c07job{entry: k8SigRead, sig: "[v]", t: wg.List(wg.Scalar("v")), input: []byte{0xff, 0xff, 0xff, 0xff}, desc: "witness sig_spin_zero_width", hostCount: 0xffffffff})
	add(c07job{entry: k8MetaObject, sig: wg.MetaObjectTy().Sig(), t: wg.MetaObjectTy(), input: []byte{0xff, 0xff, 0xff, 0xff}, desc: "witness gen_alloc_from_wire_count", hostCount: 0xffffffff})
	add(c07job{entry: k7Parse, sig: "v", t: wg.Scalar("v"), input: []byte(strings.Repeat("(", 22) + strings.Repeat(")", 22)), desc: "witness parse_exponential (22 nested parentheses)"})
	add(c07job{entry: k8Value, sig: "m", t: wg.Scalar("m"), input: append([]byte{44, 0, 0, 0}, []byte(strings.Repeat("(", 22)+strings.Repeat(")", 22))...), desc: "witness parse_exponential through a dynamic value's signature"})
	add(c07job{entry: k8Refl, sig: "[i]", t: wg.List(wg.Scalar("i")), input: []byte{0xff, 0xff, 0xff, 0xff}, desc: "witness refl_neg_len_panics", hostCount: 0xffffffff})

	outs := c07execute(jobs)

	cfg, _ := wireSwitches(res)
	cs := hx.NewCases(outdir, "C07", "From QV Require Import Value GenDec Cost ParseOpt SigParse C07Run.", "mismatches cfg gen_pol cases", res, "cases", "c07case")
	cs.Extra = append(cs.Extra, cfg)
	// the witness of C07_refuted_gen_alloc decides which allocation policy the generated decoders follow
	genWitness := -1
	for i, j := range jobs {
		if j.desc == "witness gen_alloc_from_wire_count" {
			genWitness = i
		}
	}
	genPol := "PSig"
	if genWitness >= 0 && (outs[genWitness].class >= 5 || outs[genWitness].alloc > 64<<20) {
		genPol = "PGen"
	}
	cs.Extra = append(cs.Extra, "Definition gen_pol := "+genPol+".")
	sw := map[string]bool{}
	swDetail := map[string]string{}
	for i, j := range jobs {
		o := outs[i]
		inLen := uint64(j.size())
		bound := 64*inLen + 48<<20 // a modest multiple of the input + the documented limits (10 MiB strings/payload, 4096-element containers)
		zeroWidthType := j.entry == k8SigRead && j.t != nil && j.t.Has(func(x *wg.Ty) bool { return x.K == wg.KList && x.Elem.MinWidth() == 0 })
		zeroWidthSpin := zeroWidthType && j.hostCount >= 1<<20
		genEntry := j.entry == k8MetaObject || j.entry == k8ObjectRef || j.entry == k8ServiceInfo
		deepText := (j.entry == k7Parse || j.entry == k8Value || j.entry == k8CapMap || j.entry == k8SigRead) && maxNest(j.input) >= 14
		fail := func(kind, what string) {
			detail := fmt.Sprintf("%s on %d bytes %x (%s; signature %s): %s", k7Names[j.entry], j.size(), trunc(j.input, 80), j.desc, j.sig, what)
			switch {
			case j.known != "":
				// the directed witness of a recorded finding
				sw[j.known], swDetail[j.known] = true, detail
				res.FailKnown(kind, detail, j.known)
			case zeroWidthType && (kind == "hang" || kind == "slow" || kind == "alloc"):
				// whatever number the bytes hold where the list's count is read
				sw["sig_spin_zero_width"], swDetail["sig_spin_zero_width"] = true, detail
				res.FailKnown(kind, detail, "sig_spin_zero_width")
			case genEntry && (kind == "crash" || kind == "alloc" || kind == "hang" || kind == "slow"):
				// generated decoders size their maps and slices from whatever count the bytes hold
				sw["gen_alloc_from_wire_count"], swDetail["gen_alloc_from_wire_count"] = true, detail
				res.FailKnown(kind, detail, "gen_alloc_from_wire_count")
			case deepText && (kind == "hang" || kind == "slow"):
				sw["parse_exponential"], swDetail["parse_exponential"] = true, detail
				res.FailKnown(kind, detail, "parse_exponential")
			default:
				res.Fail(kind, detail)
			}
		}
		switch {
		case o.class == ocPanic:
			fail("panic", "the decoder panicked")
		case o.class == 5:
			fail("hang", fmt.Sprintf("no answer within %d ms", map[bool]int{true: j.deadline, false: 2500}[j.deadline > 0]))
		case o.class == 6:
			fail("crash", "the process died (fatal error / out of memory under a 6 GiB address-space limit)")
		default:
			if o.alloc > bound {
				fail("alloc", fmt.Sprintf("%d bytes allocated for %d bytes of input", o.alloc, inLen))
			}
			if o.nanos > int64(400*time.Millisecond)+20000*int64(inLen) { // 400 ms + 20 us per byte
				fail("slow", fmt.Sprintf("%d ms for %d bytes of input", o.nanos/1e6, inLen))
			}
		}
		res.Count(fmt.Sprintf("%d|%s|%x", j.entry, j.sig, j.input), j.desc != "valid")
		res.Dist("entry:" + k7Names[j.entry])
		res.Dist("outcome:" + []string{"ok", "error", "panic", "", "", "hang", "crash"}[o.class])
		if strings.HasPrefix(j.desc, "count at offset") || strings.HasPrefix(j.desc, "directed") {
			res.Dist("input:length/count field replaced")
		} else {
			res.Dist("input:" + strings.SplitN(j.desc, ":", 2)[0])
		}
		if j.desc != "valid" && len(j.input) < 60 {
			res.Sample(fmt.Sprintf("%s sig=%s %s input=%x -> class %d, %d bytes allocated, %d us", k7Names[j.entry], j.sig, j.desc, j.input, o.class, o.alloc, o.nanos/1000))
		}
		// correspondence: outcome class / bytes left against the models (inputs the model can evaluate quickly)
		// lists of zero-width elements with a count that is not the honest one are kept out of the
		// in-Coq evaluation (the model would materialise `count` empty elements)
		if o.class <= ocErr && len(j.input) <= 600 && j.repeat == 0 && j.known == "" && !zeroWidthSpin && !(zeroWidthType && j.desc != "valid") && !deepText && j.entry != k7ParseIDL {
			big := 0
			if o.alloc > 64<<20 {
				big = 1
			}
			ty := "TS SVoid"
			if j.t != nil {
				ty = j.t.Coq()
			}
			text := hx.Hex(j.input)
			cs.Add("cases", fmt.Sprintf("{| h_entry := %d; h_ty := %s; h_input := %s; h_class := %d; h_left := %d; h_big := %d |}", j.entry, ty, text, o.class, o.left, big),
				fmt.Sprintf("%s sig=%s %s input=%x", k7Names[j.entry], j.sig, j.desc, trunc(j.input, 200)))
		}
	}
	for k, on := range sw {
		res.Switch(k, on, swDetail[k])
	}
	for _, k := range []string{"sig_spin_zero_width", "gen_alloc_from_wire_count", "parse_exponential", "sig_parse_stack_unbounded", "sig_reader_depth_quadratic", "idl_struct_chain_exponential"} {
		if !sw[k] {
			res.Switch(k, false, "witness input handled within the bounds")
		}
	}
	cs.Flush()
}

func trunc(b []byte, n int) []byte {
	if len(b) > n {
		return b[:n]
	}
	return b
}

func maxNest(b []byte) int {
	d, m := 0, 0
	for _, c := range b {
		switch c {
		case '(', '[', '{':
			d++
			if d > m {
				m = d
			}
		case ')', ']', '}':
			if d > 0 {
				d--
			}
		}
	}
	return m
}

func mutateText(rng *hx.Rng, s []byte, sig bool) ([]byte, string) {
	out := append([]byte(nil), s...)
	alphabet := "ism[]{}()<>,AbX "
	if !sig {
		alphabet = "abfnist:(),<>/\n {}-0123456789=\t"
	}
	switch rng.Intn(6) {
	case 0:
		return out, "valid"
	case 1:
		if len(out) > 0 {
			i := rng.Intn(len(out))
			out = append(out[:i], out[i+1:]...)
		}
		return out, "text: one character deleted"
	case 2:
		i := rng.Intn(len(out) + 1)
		out = append(out[:i], append([]byte{alphabet[rng.Intn(len(alphabet))]}, out[i:]...)...)
		return out, "text: one character inserted"
	case 3:
		if len(out) > 1 {
			i := rng.Intn(len(out) - 1)
			out[i], out[i+1] = out[i+1], out[i]
		}
		return out, "text: two characters swapped"
	case 4:
		n := 1 + rng.Intn(11)
		if sig {
			return []byte(strings.Repeat("(", n) + strings.Repeat("i", rng.Intn(3)) + strings.Repeat(")", rng.Intn(n+1))), "text: nested parentheses"
		}
		return []byte("package p\ninterface I\n\tfn f(a: " + strings.Repeat("Vec<", n) + "int32" + strings.Repeat(">", rng.Intn(n+1)) + ")\nend\n"), "text: nested type expression"
	default:
		n := rng.Intn(40)
		b := make([]byte, n)
		for i := range b {
			b[i] = alphabet[rng.Intn(len(alphabet))]
		}
		return b, "text: random characters"
	}
}

// wrapIDL puts a type name behind zero or more container constructors.
func wrapIDL(rng *hx.Rng, name string) string {
	for d := rng.Pick(0, 0, 1, 1, 2); d > 0; d-- {
		switch rng.Intn(3) {
		case 0:
			name = "Vec<" + name + ">"
		case 1:
			name = "Map<str," + name + ">"
		default:
			name = "Tuple<int32," + name + ">"
		}
	}
	return name
}

// idlStructs declares k structures whose members refer to each other freely (to themselves, to
// earlier and to later ones, directly or through Vec/Map/Tuple): reference cycles of every shape.
func idlStructs(rng *hx.Rng, k int) (string, []string) {
	var b strings.Builder
	names := make([]string, k)
	for i := range names {
		names[i] = fmt.Sprintf("S%d", i)
	}
	for i, n := range names {
		fmt.Fprintf(&b, "struct %s\n\tid: int32\n", n)
		for f := 0; f < 1+rng.Intn(3); f++ {
			ty := []string{"int32", "str", "any", "float32"}[rng.Intn(4)]
			if rng.Chance(0.7) {
				ty = wrapIDL(rng, names[rng.Pick(i, rng.Intn(k), (i+1)%k)])
			}
			fmt.Fprintf(&b, "\tm%d: %s\n", f, ty)
		}
		b.WriteString("end\n")
	}
	return b.String(), names
}

func genIDLText(rng *hx.Rng) string {
	var b strings.Builder
	b.WriteString("package test\n")
	if rng.Bool() {
		b.WriteString("struct Point\n\tx: int32\n\ty: float32\n\tname: str\nend\n")
	}
	types := []string{"int32", "str", "bool", "float64", "Vec<int32>", "Map<str,int32>", "any", "Point", "Vec<Point>", "uint64", "obj", "Tuple<int32,str>"}
	if rng.Chance(0.4) {
		decls, names := idlStructs(rng, 1+rng.Intn(4))
		b.WriteString(decls)
		for _, n := range names {
			types = append(types, n, wrapIDL(rng, n))
		}
	}
	b.WriteString("interface Svc\n")
	for i := 0; i < 1+rng.Intn(5); i++ {
		switch rng.Intn(3) {
		case 0:
			fmt.Fprintf(&b, "\tfn m%d(a: %s, b: %s) -> %s //uid:%d\n", i, types[rng.Intn(len(types))], types[rng.Intn(len(types))], types[rng.Intn(len(types))], 100+i)
		case 1:
			fmt.Fprintf(&b, "\tsig s%d(a: %s) //uid:%d\n", i, types[rng.Intn(len(types))], 200+i)
		default:
			fmt.Fprintf(&b, "\tprop p%d(a: %s) //uid:%d\n", i, types[rng.Intn(len(types))], 300+i)
		}
	}
	b.WriteString("end\n")
	return b.String()
}
